(* Proofs/RList.v -- vectors of finite reals inside the XR instance: the numpy reductions of
   Base/Vec.v computed on lists `map Fin l` in closed form. *)
From Coq Require Import Reals ZArith List Bool Lra Lia.
From VF Require Import Base.Num Base.Vec Base.Event Proofs.XRTac.
Import ListNotations.
Local Open Scope R_scope.

Definition F (l : list R) : list xr := map (@Fin R) l.
Definition rsum (l : list R) : R := fold_left Rplus l 0.
Definition map2r (f : R -> R -> R) (a b : list R) : list R := map (fun p => f (fst p) (snd p)) (combine a b).
Definition nR (l : list R) : R := IZR (Z.of_nat (length l)).
Definition rmean (l : list R) : R := rsum l / nR l.
Definition sqr (x : R) : R := x * x.

Lemma fold_left_Rplus_acc l a : fold_left Rplus l a = a + fold_left Rplus l 0.
Proof.
  revert a. induction l as [|x l IH]; intros a; cbn [fold_left]; [lra|].
  rewrite (IH (a + x)), (IH (0 + x)). lra.
Qed.
Lemma rsum_cons x l : rsum (x :: l) = x + rsum l.
Proof. unfold rsum. cbn [fold_left]. rewrite fold_left_Rplus_acc. lra. Qed.
Lemma rsum_nil : rsum [] = 0.
Proof. reflexivity. Qed.

Lemma rsum_nonneg l : Forall (fun x => 0 <= x) l -> 0 <= rsum l.
Proof.
  induction l as [|x l IH]; intros H; [rewrite rsum_nil; lra|]. inversion H; subst.
  rewrite rsum_cons. specialize (IH H3). lra.
Qed.
Lemma rsum_zeros l : Forall (fun x => x = 0) l -> rsum l = 0.
Proof.
  induction l as [|x l IH]; intros H; [reflexivity|]. inversion H; subst. rewrite rsum_cons, IH by assumption. lra.
Qed.

Lemma nR_pos l : l <> [] -> 0 < nR l.
Proof. intros H. unfold nR. apply IZR_lt. destruct l; [congruence | cbn; lia]. Qed.
Lemma nR_nonneg l : 0 <= nR l.
Proof. unfold nR. apply IZR_le. lia. Qed.

(* ---- the XR reductions on finite vectors --------------------------------------------------- *)
Lemma vsum_F_acc l a : fold_left (n_add XR) (F l) (Fin a) = Fin (fold_left Rplus l a).
Proof. revert a. induction l as [|x l IH]; intros a; cbn [F map fold_left]; [reflexivity|]. apply IH. Qed.
Lemma vsum_F l : vsum XR (F l) = Fin (rsum l).
Proof. unfold vsum, zero. cbn [XR xops n_lit]. unfold x_lit. cbn [RBase b_ofZ]. apply vsum_F_acc. Qed.
Lemma vlen_F l : vlen XR (F l) = Fin (nR l).
Proof. unfold vlen, F, nR. rewrite map_length. reflexivity. Qed.

Lemma xdiv_fin x y : y <> 0 -> n_div XR (Fin x) (Fin y) = Fin (x / y).
Proof. intros H. cbn. unfold x_div, is0, z0. cbn. apply Reqb_false in H. rewrite H. reflexivity. Qed.
Lemma xdiv_0_0 : n_div XR (Fin 0) (Fin 0) = NaN.
Proof. cbn. unfold x_div, is0, z0. cbn. rewrite (proj2 (Reqb_true 0 0) eq_refl). reflexivity. Qed.

Lemma vmean_F l : l <> [] -> vmean XR (F l) = Fin (rmean l).
Proof. intros H. unfold vmean. rewrite vsum_F, vlen_F. apply xdiv_fin. pose proof (nR_pos l H). lra. Qed.
Lemma vmean_nil : vmean XR (F []) = NaN.
Proof. unfold vmean. rewrite vsum_F, vlen_F. unfold nR, rsum. cbn [length Z.of_nat fold_left]. apply xdiv_0_0. Qed.

Lemma vmap2_F (f : xr -> xr -> xr) (g : R -> R -> R) a b :
  (forall x y, f (Fin x) (Fin y) = Fin (g x y)) -> vmap2 XR f (F a) (F b) = F (map2r g a b).
Proof.
  intros H. unfold vmap2, map2r, F. revert b. induction a as [|x a IH]; intros [|y b]; try reflexivity.
  cbn [map combine fst snd]. rewrite H. f_equal. apply IH.
Qed.
Lemma vsub_F a b : vmap2 XR (n_sub XR) (F a) (F b) = F (map2r Rminus a b).
Proof. apply vmap2_F. reflexivity. Qed.
Lemma map_F (f : xr -> xr) (g : R -> R) l : (forall x, f (Fin x) = Fin (g x)) -> map f (F l) = F (map g l).
Proof. intros H. unfold F. rewrite !map_map. apply map_ext. intros x. apply H. Qed.

Lemma xabs_fin x : n_abs XR (Fin x) = Fin (Rabs x).
Proof.
  cbn. unfold x_abs, neg, z0. cbn. unfold Rltb. destruct (Rlt_dec x 0).
  - rewrite Rabs_left by assumption. reflexivity.
  - rewrite Rabs_right by lra. reflexivity.
Qed.
Lemma vabs_F l : map (n_abs XR) (F l) = F (map Rabs l).
Proof. apply map_F. apply xabs_fin. Qed.
Lemma vsq_F l : map (fun p_ => n_mul XR p_ p_) (F l) = F (map sqr l).
Proof. apply map_F. reflexivity. Qed.
Lemma xsqrt_fin x : 0 <= x -> n_sqrt XR (Fin x) = Fin (sqrt x).
Proof. intros H. cbn. unfold x_sqrt, neg, z0. cbn. apply Rltb_false in H. rewrite H. reflexivity. Qed.

Lemma map2r_length f a b : length a = length b -> length (map2r f a b) = length a.
Proof. intros H. unfold map2r. rewrite map_length, combine_length, H. apply Nat.min_id. Qed.
Lemma map2r_nonnil f a b : length a = length b -> a <> [] -> map2r f a b <> [].
Proof. intros H Ha. destruct a as [|x a]; [congruence|]. destruct b as [|y b]; [discriminate H|]. cbn. discriminate. Qed.
Lemma map2r_same_minus a : Forall (fun x => x = 0) (map2r Rminus a a).
Proof.
  unfold map2r. induction a as [|x a IH]; [constructor|]. cbn [combine map fst snd]. constructor; [lra | exact IH].
Qed.
Lemma Forall_map_abs_nonneg l : Forall (fun x => 0 <= x) (map Rabs l).
Proof. induction l; constructor; [apply Rabs_pos | assumption]. Qed.
Lemma Forall_map_sqr_nonneg l : Forall (fun x => 0 <= x) (map sqr l).
Proof. induction l as [|x l IH]; constructor; [unfold sqr; nra | assumption]. Qed.
Lemma Forall_zero_map (g : R -> R) l : g 0 = 0 -> Forall (fun x => x = 0) l -> Forall (fun x => x = 0) (map g l).
Proof. intros H0 H. induction H; constructor; [subst; exact H0 | assumption]. Qed.
