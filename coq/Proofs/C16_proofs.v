(* Proofs/C16_proofs.v -- the binning rules of the diagrams (Model/Diagrams.v) over the reals. *)
From Coq Require Import Reals ZArith List Bool Lra Lia.
From VF Require Import Base.Num Base.Vec Base.Event Gen.Gen_interval Model.Diagrams Proofs.XRTac.
Import ListNotations.
Local Open Scope R_scope.

Notation F := (@Fin R).

Lemma in_co_fin a b v : in_co XR (F a) (F b) (F v) = true <-> a <= v < b.
Proof. unfold in_co. xr_unfold. rewrite andb_true_iff, orb_true_iff, !Rltb_true, Reqb_true. lra. Qed.
Lemma in_oc_fin a b v : in_oc XR (F a) (F b) (F v) = true <-> a < v <= b.
Proof. unfold in_oc. xr_unfold. rewrite andb_true_iff, orb_true_iff, !Rltb_true, Reqb_true. lra. Qed.
Lemma in_cc_fin a b v : in_cc XR (F a) (F b) (F v) = true <-> a <= v <= b.
Proof. unfold in_cc. xr_unfold. rewrite andb_true_iff, !orb_true_iff, !Rltb_true, !Reqb_true. lra. Qed.

Lemma bfalse (b : bool) : (b = true -> False) -> b = false.
Proof. destruct b; [intros H; exfalso; apply H; reflexivity | reflexivity]. Qed.

(* strictly increasing bin edges *)
Fixpoint increasing (e : list R) : Prop :=
  match e with a :: ((b :: _) as r) => a < b /\ increasing r | _ => True end.
Definition fe (e : list R) : list (xnum R) := map F e.
Definition last_edge (e : list R) : R := last e 0.

(* in how many bins does v lie? *)
Definition count (rule : binrule) (first : bool) (e : list R) (v : R) : nat :=
  length (filter (fun b => b) (member XR rule first (fe e) (F v))).

Lemma increasing_lower a r x : increasing (a :: r) -> In x r -> a < x.
Proof.
  revert a. induction r as [|b r IH]; intros a Hs Hin; [destruct Hin|].
  destruct Hs as [Hab Hr]. destruct Hin as [<-|Hin]; [exact Hab|].
  specialize (IH b Hr Hin). lra.
Qed.
Lemma last_edge_cons a b r : last_edge (a :: b :: r) = last_edge (b :: r).
Proof. reflexivity. Qed.
Lemma increasing_le_last a r : increasing (a :: r) -> a <= last_edge (a :: r).
Proof.
  revert a. induction r as [|b r IH]; intros a Hs; [unfold last_edge; cbn; lra|].
  destruct Hs as [Hab Hr]. rewrite last_edge_cons. specialize (IH b Hr). lra.
Qed.

Lemma member_step rule first a b r v :
  member XR rule first (fe (a :: b :: r)) (F v) =
  (match rule with
   | CO => in_co XR (F a) (F b) (F v)
   | COL => if match r with [] => true | _ => false end then in_cc XR (F a) (F b) (F v) else in_co XR (F a) (F b) (F v)
   | OC => in_oc XR (F a) (F b) (F v)
   | OCF => if first then in_cc XR (F a) (F b) (F v) else in_oc XR (F a) (F b) (F v)
   end) :: member XR rule false (fe (b :: r)) (F v).
Proof. destruct r; reflexivity. Qed.

(* a value below every edge lies in no bin (whatever the rule, for the non-first part) *)
Lemma count_below rule e v : (forall x, In x e -> v < x) -> count rule false e v = 0%nat.
Proof.
  induction e as [|a [|b r] IH]; intros Hlt; try reflexivity.
  unfold count in *. rewrite member_step. cbn [filter].
  assert (Ha : v < a) by (apply Hlt; left; reflexivity).
  assert (E : (match rule with
   | CO => in_co XR (F a) (F b) (F v)
   | COL => if match r with [] => true | _ => false end then in_cc XR (F a) (F b) (F v) else in_co XR (F a) (F b) (F v)
   | OC => in_oc XR (F a) (F b) (F v)
   | OCF => in_oc XR (F a) (F b) (F v)
   end) = false).
  { destruct rule; [| destruct r | |]; apply bfalse; intros E;
      first [apply in_co_fin in E | apply in_cc_fin in E | apply in_oc_fin in E]; lra. }
  rewrite E. apply IH. intros x Hx. apply Hlt. right; exact Hx.
Qed.

(* (e_i, e_i+1] bins: a value at or below the first edge lies in no bin *)
Lemma count_oc_at_or_below e v : (forall x, In x e -> v <= x) -> count OC false e v = 0%nat /\ count OCF false e v = 0%nat.
Proof.
  induction e as [|a [|b r] IH]; intros Hle; try (split; reflexivity).
  assert (Ha : v <= a) by (apply Hle; left; reflexivity).
  assert (E : in_oc XR (F a) (F b) (F v) = false) by (apply bfalse; intros E; apply in_oc_fin in E; lra).
  destruct IH as [I1 I2]; [intros x Hx; apply Hle; right; exact Hx|].
  unfold count in *. rewrite !member_step. cbn [filter]. rewrite E. split; assumption.
Qed.

(* ---- [e_i, e_i+1): exactly one bin for v in [first, last) ------------------------------------------- *)
Lemma count_co_inside e a first : increasing (a :: e) -> forall v, a <= v < last_edge (a :: e) -> count CO first (a :: e) v = 1%nat.
Proof.
  revert a first. induction e as [|b r IH]; intros a first Hs v Hv.
  - unfold last_edge in Hv; cbn in Hv. lra.
  - destruct Hs as [Hab Hr]. unfold count. rewrite member_step. cbn [filter].
    destruct (in_co XR (F a) (F b) (F v)) eqn:E.
    + apply in_co_fin in E. cbn [length]. f_equal.
      apply (count_below CO (b :: r) v). intros x [<-|Hx]; [lra|].
      pose proof (increasing_lower b r x Hr Hx). lra.
    + assert (Hbv : b <= v).
      { destruct (Rlt_le_dec v b) as [L|L]; [|exact L]. exfalso.
        assert (in_co XR (F a) (F b) (F v) = true) by (apply in_co_fin; lra). congruence. }
      apply (IH b false Hr v). rewrite last_edge_cons in Hv. lra.
Qed.

(* the top edge itself lies in NO half-open bin *)
Lemma count_co_top e a first : increasing (a :: e) -> count CO first (a :: e) (last_edge (a :: e)) = 0%nat.
Proof.
  revert a first. induction e as [|b r IH]; intros a first Hs; [reflexivity|].
  destruct Hs as [Hab Hr]. unfold count. rewrite member_step. cbn [filter]. rewrite last_edge_cons.
  pose proof (increasing_le_last b r Hr) as Hl.
  assert (E : in_co XR (F a) (F b) (F (last_edge (b :: r))) = false) by (apply bfalse; intros E; apply in_co_fin in E; lra).
  rewrite E. apply (IH b false Hr).
Qed.

(* ---- np.histogram rule (last bin closed): exactly one bin for v in [first, last] ------------------- *)
Lemma count_col_inside e a first : increasing (a :: e) -> e <> [] -> forall v, a <= v <= last_edge (a :: e) -> count COL first (a :: e) v = 1%nat.
Proof.
  revert a first. induction e as [|b r IH]; intros a first Hs Hne v Hv; [congruence|].
  destruct Hs as [Hab Hr]. unfold count. rewrite member_step. cbn [filter].
  destruct r as [|c r].
  - (* the last bin [a, b] *)
    unfold last_edge in Hv; cbn in Hv.
    assert (E : in_cc XR (F a) (F b) (F v) = true) by (apply in_cc_fin; lra).
    rewrite E. reflexivity.
  - destruct (in_co XR (F a) (F b) (F v)) eqn:E.
    + apply in_co_fin in E. cbn [length]. f_equal.
      apply (count_below COL (b :: c :: r) v). intros x [<-|Hx]; [lra|].
      pose proof (increasing_lower b (c :: r) x Hr Hx). lra.
    + assert (Hbv : b <= v).
      { destruct (Rlt_le_dec v b) as [L|L]; [|exact L]. exfalso.
        assert (in_co XR (F a) (F b) (F v) = true) by (apply in_co_fin; lra). congruence. }
      apply (IH b false Hr); [discriminate|]. rewrite last_edge_cons in Hv. lra.
Qed.

(* ---- (e_i, e_i+1]: exactly one bin for v in (first, last] ------------------------------------------------ *)
Lemma count_oc_inside e a : increasing (a :: e) -> forall v, a < v <= last_edge (a :: e) ->
  count OC false (a :: e) v = 1%nat /\ count OCF false (a :: e) v = 1%nat.
Proof.
  revert a. induction e as [|b r IH]; intros a Hs v Hv.
  - unfold last_edge in Hv; cbn in Hv. lra.
  - destruct Hs as [Hab Hr]. unfold count. rewrite !member_step. cbn [filter].
    destruct (in_oc XR (F a) (F b) (F v)) eqn:E.
    + apply in_oc_fin in E. cbn [length].
      destruct (count_oc_at_or_below (b :: r) v) as [Z1 Z2].
      { intros x [<-|Hx]; [lra|]. pose proof (increasing_lower b r x Hr Hx). lra. }
      unfold count in Z1, Z2. rewrite Z1, Z2. split; reflexivity.
    + assert (Hbv : b < v).
      { destruct (Rlt_le_dec b v) as [L|L]; [exact L|]. exfalso.
        assert (in_oc XR (F a) (F b) (F v) = true) by (apply in_oc_fin; lra). congruence. }
      apply (IH b Hr v). rewrite last_edge_cons in Hv. lra.
Qed.

(* the bottom edge lies in NO (e_i, e_i+1] bin ... *)
Lemma count_oc_bottom e a : increasing (a :: e) -> count OC true (a :: e) a = 0%nat.
Proof.
  intros Hs. destruct e as [|b r]; [reflexivity|]. destruct Hs as [Hab Hr].
  unfold count. rewrite member_step. cbn [filter].
  assert (E : in_oc XR (F a) (F b) (F a) = false) by (apply bfalse; intros E; apply in_oc_fin in E; lra).
  rewrite E. apply (count_oc_at_or_below (b :: r) a).
  intros x [<-|Hx]; [lra|]. pose proof (increasing_lower b r x Hr Hx). lra.
Qed.

(* ... unless the first bin is closed: then exactly one bin for every v in [first, last] *)
Lemma count_ocf_inside e a : increasing (a :: e) -> e <> [] -> forall v, a <= v <= last_edge (a :: e) -> count OCF true (a :: e) v = 1%nat.
Proof.
  intros Hs Hne v Hv. destruct e as [|b r]; [congruence|]. destruct Hs as [Hab Hr].
  unfold count. rewrite member_step. cbn [filter].
  destruct (in_cc XR (F a) (F b) (F v)) eqn:E.
  - apply in_cc_fin in E. cbn [length]. f_equal.
    apply (count_oc_at_or_below (b :: r) v). intros x [<-|Hx]; [lra|].
    pose proof (increasing_lower b r x Hr Hx). lra.
  - assert (Hbv : b < v).
    { destruct (Rlt_le_dec b v) as [L|L]; [exact L|]. exfalso.
      assert (in_cc XR (F a) (F b) (F v) = true) by (apply in_cc_fin; lra). congruence. }
    apply (count_oc_inside r b Hr v). rewrite last_edge_cons in Hv. lra.
Qed.

(* the shaded bands of obsfcst pair the i-th lowest with the i-th highest quantile column of the SAME input *)
Definition qcol (Fn f q : nat) : nat := (Fn + f + 1 + q * Fn)%nat.
Lemma band_pairs_symmetric_quantiles Fn f nq i : (i < nq)%nat ->
  obsfcst_band Fn f nq i = (qcol Fn f i, qcol Fn f (nq - 1 - i)).
Proof. intros H. unfold obsfcst_band, qcol. f_equal; lia. Qed.

(* the fill polygon runs forward along the lower curve and back along the upper one *)
Lemma fill_polygon_length (x lo up : list (xnum R)) :
  length (fill_polygon XR x lo up) =
  (length (filter (fun p => notnan XR (fst p) && notnan XR (snd p)) (combine x lo)) +
   length (filter (fun p => notnan XR (fst p) && notnan XR (snd p)) (combine x up)))%nat.
Proof. unfold fill_polygon. rewrite app_length, rev_length. reflexivity. Qed.
