(* Proofs/C03_proofs.v -- verified dimensions = intersection of the inputs and the user's subset. *)
From Coq Require Import ZArith List Bool Lia Sorted.
From VF Require Import Model.Data Proofs.Data_lemmas.
Import ListNotations.
Local Open Scope Z_scope.

Section S.
Variable V : Type.
Variable vltb : V -> V -> bool.
Variable vsub vdiv : V -> V -> option V.
Notation input := (input V). Notation config := (config V). Notation data := (data V).

Definition all_inputs (cfg : config) (ins : list input) : list input :=
  match c_clim cfg with Some c => ins ++ [c] | None => ins end.

Definition time_ok (cfg : config) (t : Z) : bool := date_ok V cfg t && tod_ok V cfg t.

(* inversion of a successful construction *)
Lemma mk_data_inv cfg ins d : mk_data V cfg ins = OK d ->
  exists first rest use,
    ins = first :: rest /\ use_locations V cfg first = OK use /\
    d_inputs d = all_inputs cfg ins /\
    d_times d = filter (time_ok cfg) (common_values (map i_times (all_inputs cfg ins)) (c_times cfg)) /\
    d_leads d = common_values (map i_leads (all_inputs cfg ins)) (c_leads cfg) /\
    map l_id (d_locs d) = common_values (map (fun i => map l_id (i_locs i)) (all_inputs cfg ins)) (Some use) /\
    common_values (map i_times (all_inputs cfg ins)) (c_times cfg) <> [] /\
    d_leads d <> [] /\ d_locs d <> [] /\
    d_timesI d = common_indices (map i_times (all_inputs cfg ins)) (Some (d_times d)) /\
    d_leadsI d = common_indices (map i_leads (all_inputs cfg ins)) (c_leads cfg) /\
    d_locsI d = common_indices (map (fun i => map l_id (i_locs i)) (all_inputs cfg ins)) (Some use) /\
    d_has_clim d = (match c_clim cfg with Some _ => true | None => false end) /\
    d_obs_range d = c_obs_range cfg /\ d_clim_divide d = c_clim_divide cfg /\ d_times d <> [].
Proof.
  unfold mk_data. destruct ins as [|first rest]; [discriminate|].
  destruct (use_locations V cfg first) as [use|e] eqn:Huse; [|discriminate].
  fold (all_inputs cfg (first :: rest)).
  set (all := all_inputs cfg (first :: rest)).
  assert (Hall : exists more, all = first :: more).
  { unfold all, all_inputs. destruct (c_clim cfg); cbn; eauto. }
  destruct Hall as [more Hall].
  set (tkeys := map i_times all). set (lkeys := map i_leads all).
  set (skeys := map (fun i => map l_id (i_locs i)) all).
  unfold common_indices.
  assert (Ht : hd [] (map (index_list (common_values tkeys (c_times cfg))) tkeys)
               = index_list (common_values tkeys (c_times cfg)) (i_times first))
    by (unfold tkeys; rewrite Hall; reflexivity).
  assert (Hl : hd [] (map (index_list (common_values lkeys (c_leads cfg))) lkeys)
               = index_list (common_values lkeys (c_leads cfg)) (i_leads first))
    by (unfold lkeys; rewrite Hall; reflexivity).
  assert (Hs : hd [] (map (index_list (common_values skeys (Some use))) skeys)
               = index_list (common_values skeys (Some use)) (map l_id (i_locs first)))
    by (unfold skeys; rewrite Hall; reflexivity).
  rewrite Ht, Hl, Hs.
  assert (Kt : tkeys <> []) by (unfold tkeys; rewrite Hall; discriminate).
  assert (Kl : lkeys <> []) by (unfold lkeys; rewrite Hall; discriminate).
  assert (Ks : skeys <> []) by (unfold skeys; rewrite Hall; discriminate).
  assert (Et : map (nth_or 0 (i_times first)) (index_list (common_values tkeys (c_times cfg)) (i_times first))
               = common_values tkeys (c_times cfg)).
  { apply index_list_nth. intros v Hv. apply (common_values_spec tkeys (c_times cfg) v Kt) in Hv.
    apply (proj2 Hv). unfold tkeys. rewrite Hall. left. reflexivity. }
  assert (El : map (nth_or 0 (i_leads first)) (index_list (common_values lkeys (c_leads cfg)) (i_leads first))
               = common_values lkeys (c_leads cfg)).
  { apply index_list_nth. intros v Hv. apply (common_values_spec lkeys (c_leads cfg) v Kl) in Hv.
    apply (proj2 Hv). unfold lkeys. rewrite Hall. left. reflexivity. }
  set (sidx := index_list (common_values skeys (Some use)) (map l_id (i_locs first))).
  assert (Es : map l_id (map (nth_or (Build_loc 0 0 0 0) (i_locs first)) sidx) = common_values skeys (Some use)).
  { rewrite map_map.
    assert (E0 : forall i, l_id (nth_or (Build_loc 0 0 0 0) (i_locs first) i) = nth_or 0 (map l_id (i_locs first)) i).
    { intros i. unfold nth_or. exact (eq_sym (map_nth l_id (i_locs first) (Build_loc 0 0 0 0) i)). }
    rewrite (map_ext _ _ E0). apply index_list_nth. intros v Hv.
    apply (common_values_spec skeys (Some use) v Ks) in Hv. apply (proj2 Hv). unfold skeys. rewrite Hall. left. reflexivity. }
  cbv zeta.
  destruct (is_nil (index_list (common_values tkeys (c_times cfg)) (i_times first))) eqn:EtI; [discriminate|].
  destruct (is_nil (index_list (common_values lkeys (c_leads cfg)) (i_leads first))) eqn:ElI; [discriminate|].
  destruct (is_nil sidx) eqn:EsI; [discriminate|].
  match goal with |- (if is_nil ?tt then _ else _) = _ -> _ => destruct (is_nil tt) eqn:EtF; [discriminate|] end.
  intros H. injection H as <-. cbn [d_inputs d_times d_leads d_locs d_timesI d_leadsI d_locsI d_has_clim d_obs_range d_clim_divide].
  exists first, rest, use. rewrite Et, El, Es.
  repeat split; try reflexivity.
  - exact Huse.
  - rewrite <- Et. destruct (index_list (common_values tkeys (c_times cfg)) (i_times first)); discriminate.
  - rewrite <- El. destruct (index_list (common_values lkeys (c_leads cfg)) (i_leads first)); discriminate.
  - destruct sidx; discriminate.
  - rewrite Et in EtF. intro K. rewrite K in EtF. discriminate.
Qed.

(* a dataset that is built verifies at least one time: a selection that leaves none stops with "No valid times selected" *)
Lemma built_dataset_has_times cfg ins d : mk_data V cfg ins = OK d -> d_times d <> [].
Proof. intros H. destruct (mk_data_inv cfg ins d H) as (first & rest & use & _ & _ & _ & _ & _ & _ & _ & _ & _ & _ & _ & _ & _ & _ & _ & Hne). exact Hne. Qed.

(* (a) membership: exactly the times present in every input (and the climatology) that satisfy -t, -d, -tod *)
Theorem times_spec cfg ins d t : mk_data V cfg ins = OK d ->
  (In t (d_times d) <->
   (forall i, In i (all_inputs cfg ins) -> In t (i_times i)) /\
   (match c_times cfg with Some l => In t l | None => True end) /\
   date_ok V cfg t = true /\ tod_ok V cfg t = true).
Proof.
  intros H. destruct (mk_data_inv cfg ins d H) as (first & rest & use & Hins & _ & _ & Ht & _).
  rewrite Ht, filter_In. unfold time_ok. rewrite andb_true_iff.
  assert (K : map i_times (all_inputs cfg ins) <> []).
  { unfold all_inputs. rewrite Hins. destruct (c_clim cfg); discriminate. }
  rewrite (common_values_spec _ _ t K). split.
  - intros [[Ha Hall] Hok]. repeat split; try tauto. intros i Hi. apply Hall. apply in_map. exact Hi.
  - intros [Hall [Ha Hok]]. repeat split; try tauto. intros k Hk. apply in_map_iff in Hk.
    destruct Hk as [i [<- Hi]]. auto.
Qed.

Theorem leads_spec cfg ins d l : mk_data V cfg ins = OK d ->
  (In l (d_leads d) <->
   (forall i, In i (all_inputs cfg ins) -> In l (i_leads i)) /\
   (match c_leads cfg with Some u => In l u | None => True end)).
Proof.
  intros H. destruct (mk_data_inv cfg ins d H) as (first & rest & use & Hins & _ & _ & _ & Hl & _).
  rewrite Hl.
  assert (K : map i_leads (all_inputs cfg ins) <> []).
  { unfold all_inputs. rewrite Hins. destruct (c_clim cfg); discriminate. }
  rewrite (common_values_spec _ _ l K). split.
  - intros [Ha Hall]. split; [|exact Ha]. intros i Hi. apply Hall. apply in_map. exact Hi.
  - intros [Hall Ha]. split; [exact Ha|]. intros k Hk. apply in_map_iff in Hk. destruct Hk as [i [<- Hi]]. auto.
Qed.

Theorem locs_spec cfg ins d x : mk_data V cfg ins = OK d ->
  exists first rest use, ins = first :: rest /\ use_locations V cfg first = OK use /\
  (In x (map l_id (d_locs d)) <->
   (forall i, In i (all_inputs cfg ins) -> In x (map l_id (i_locs i))) /\ In x use).
Proof.
  intros H. destruct (mk_data_inv cfg ins d H) as (first & rest & use & Hins & Huse & _ & _ & _ & Hs & _).
  exists first, rest, use. split; [exact Hins|]. split; [exact Huse|]. rewrite Hs.
  assert (K : map (fun i => map l_id (i_locs i)) (all_inputs cfg ins) <> []).
  { unfold all_inputs. rewrite Hins. destruct (c_clim cfg); discriminate. }
  rewrite (common_values_spec _ _ x K). split.
  - intros [Ha Hall]. split; [|exact Ha]. intros i Hi. apply Hall.
    apply (in_map (fun i => map l_id (i_locs i))). exact Hi.
  - intros [Hall Ha]. split; [exact Ha|]. intros k Hk. apply in_map_iff in Hk. destruct Hk as [i [<- Hi]]. auto.
Qed.

(* (b) ascending, without duplicates *)
Theorem dims_sorted cfg ins d : mk_data V cfg ins = OK d ->
  ssorted (d_times d) /\ ssorted (d_leads d) /\ ssorted (map l_id (d_locs d)).
Proof.
  intros H. destruct (mk_data_inv cfg ins d H) as (first & rest & use & _ & _ & _ & Ht & Hl & Hs & _).
  rewrite Ht, Hl, Hs. split; [apply ssorted_filter|split]; apply common_values_sorted.
Qed.

(* which location ids the six location options select (first input's metadata; ranges inclusive) *)
Definition loc_selected (cfg : config) (first : input) (x : Z) : Prop :=
  (match c_lat cfg, c_lon cfg with
   | None, None => match c_locs cfg with Some l => In x l | None => In x (map l_id (i_locs first)) end
   | _, _ =>
       (exists s, In s (i_locs first) /\ l_id s = x /\
                  in_given (c_lat cfg) (l_lat s) = true /\
                  in_given (c_lon cfg) (l_lon s) = true) /\
       match c_locs cfg with Some l => In x l | None => True end
   end) /\
  (match c_elev cfg with
   | Some (lo, hi) => exists s, In s (i_locs first) /\ l_id s = x /\ lo <= l_elev s <= hi
   | None => True
   end) /\
  (match c_locs_x cfg with Some lx => ~ In x lx | None => True end).

Lemma in_given_spec r x :
  in_given r x = true <-> match r with Some (a, b) => a <= x <= b | None => True end.
Proof.
  unfold in_given. destruct r as [[a b]|]; [|tauto].
  rewrite andb_true_iff, !Z.leb_le. tauto.
Qed.

(* -d: a time is kept exactly when it lies on one of the requested UTC days [d, d + 86400), for EVERY unix time
   (negative ones included: floor, not truncation) *)
Lemma day_start_iff t d : d mod 86400 = 0 -> (t / 86400 * 86400 = d <-> d <= t < d + 86400).
Proof.
  intros Hd. pose proof (Z.div_mod t 86400 ltac:(lia)) as E. pose proof (Z.mod_pos_bound t 86400 ltac:(lia)) as B.
  pose proof (Z.div_mod d 86400 ltac:(lia)) as Ed. rewrite Hd in Ed.
  split; intros H; [lia|].
  assert (t / 86400 = d / 86400) by nia. nia.
Qed.
Lemma date_ok_day cfg t ds : c_dates cfg = Some ds -> (forall d, In d ds -> d mod 86400 = 0) ->
  (date_ok V cfg t = true <-> exists d, In d ds /\ d <= t < d + 86400).
Proof.
  intros Hc Hm. unfold date_ok. rewrite Hc, zmem_In. split.
  - intros Hin. exists (t / 86400 * 86400). split; [exact Hin|]. apply day_start_iff; [|reflexivity].
    rewrite Z.mod_mul; lia.
  - intros [d [Hin Hr]]. apply (day_start_iff t d (Hm d Hin)) in Hr. rewrite Hr. exact Hin.
Qed.

Lemma zmem_false x l : zmem x l = false <-> ~ In x l.
Proof. rewrite <- zmem_In. destruct (zmem x l); split; intros; congruence. Qed.

Lemma latlon_ids_In cfg locs y :
  In y (latlon_ids V cfg locs) <->
  exists s, In s locs /\ l_id s = y /\
            in_given (c_lat cfg) (l_lat s) = true /\
            in_given (c_lon cfg) (l_lon s) = true.
Proof.
  unfold latlon_ids. rewrite in_map_iff. split.
  - intros [s [Hid Hs]]. apply filter_In in Hs. destruct Hs as [Hs Hb]. apply andb_true_iff in Hb. exists s. tauto.
  - intros [s [Hs [Hid [H1 H2]]]]. exists s. split; [exact Hid|]. apply filter_In. split; [exact Hs|].
    rewrite H1, H2. reflexivity.
Qed.
Lemma elev_ids_In lo hi locs y :
  In y (elev_ids lo hi locs) <-> exists s, In s locs /\ l_id s = y /\ lo <= l_elev s <= hi.
Proof.
  unfold elev_ids. rewrite in_map_iff. split.
  - intros [s [Hid Hs]]. apply filter_In in Hs. destruct Hs as [Hs Hb]. apply andb_true_iff in Hb.
    destruct Hb as [B1 B2]. apply Z.leb_le in B1, B2. exists s. tauto.
  - intros [s [Hs [Hid [B1 B2]]]]. exists s. split; [exact Hid|]. apply filter_In. split; [exact Hs|].
    apply andb_true_iff. split; apply Z.leb_le; assumption.
Qed.

Theorem use_locations_spec cfg first use x : use_locations V cfg first = OK use ->
  (In x use <-> loc_selected cfg first x).
Proof.
  unfold use_locations, loc_selected.
  destruct (loc_step1 V cfg first) as [u1|e1] eqn:E1; [|discriminate].
  destruct (loc_step2 V cfg first u1) as [u2|e2] eqn:E2; [|discriminate].
  intros H. injection H as <-.
  assert (S1 : In x u1 <->
     match c_lat cfg, c_lon cfg with
     | None, None => match c_locs cfg with Some l => In x l | None => In x (map l_id (i_locs first)) end
     | _, _ => (exists s, In s (i_locs first) /\ l_id s = x /\
                  in_given (c_lat cfg) (l_lat s) = true /\
                  in_given (c_lon cfg) (l_lon s) = true) /\
               match c_locs cfg with Some l => In x l | None => True end
     end).
  { unfold loc_step1 in E1.
    assert (G : forall w,
      (let ll := latlon_ids V cfg (i_locs first) in
       let use := match c_locs cfg with Some l => filter (fun x0 => zmem x0 ll) l | None => ll end in
       if is_nil use then Error E_latlon else OK use) = OK w ->
      (In x w <-> (exists s, In s (i_locs first) /\ l_id s = x /\
                  in_given (c_lat cfg) (l_lat s) = true /\
                  in_given (c_lon cfg) (l_lon s) = true) /\
                  match c_locs cfg with Some l => In x l | None => True end)).
    { cbv zeta. intros w Hw.
      destruct (is_nil (match c_locs cfg with
                        | Some l => filter (fun x0 => zmem x0 (latlon_ids V cfg (i_locs first))) l
                        | None => latlon_ids V cfg (i_locs first) end)); [discriminate|].
      injection Hw as <-. destruct (c_locs cfg) as [l|].
      - rewrite filter_In, zmem_In, latlon_ids_In. tauto.
      - rewrite latlon_ids_In. tauto. }
    destruct (c_lat cfg) as [latr|]; cbn [is_none andb] in E1; [apply G; exact E1|].
    destruct (c_lon cfg) as [lonr|]; cbn [is_none andb] in E1; [apply G; exact E1|].
    injection E1 as <-. destruct (c_locs cfg); tauto. }
  assert (S2 : In x u2 <-> In x u1 /\
     match c_elev cfg with
     | Some (lo, hi) => exists s, In s (i_locs first) /\ l_id s = x /\ lo <= l_elev s <= hi
     | None => True
     end).
  { unfold loc_step2 in E2. destruct (c_elev cfg) as [[lo hi]|].
    - cbv zeta in E2.
      destruct (is_nil (filter (fun x0 => zmem x0 (elev_ids lo hi (i_locs first))) u1)); [discriminate|].
      injection E2 as <-. rewrite filter_In, zmem_In, elev_ids_In. tauto.
    - injection E2 as <-. tauto. }
  unfold loc_step3. destruct (c_locs_x cfg) as [lx|].
  - rewrite filter_In, negb_true_iff, zmem_false, S2, S1. tauto.
  - rewrite S2, S1. tauto.
Qed.

(* -latrange given alone selects by latitude only: a station is kept whatever its longitude (also beyond 180, as in
   files using 0..360), and symmetrically for -lonrange alone *)
Corollary latrange_alone cfg first use x a b :
  c_lat cfg = Some (a, b) -> c_lon cfg = None -> c_locs cfg = None -> c_elev cfg = None -> c_locs_x cfg = None ->
  use_locations V cfg first = OK use ->
  (In x use <-> exists s, In s (i_locs first) /\ l_id s = x /\ a <= l_lat s <= b).
Proof.
  intros H1 H2 H3 H4 H5 Hu. rewrite (use_locations_spec cfg first use x Hu). unfold loc_selected.
  rewrite H1, H2, H3, H4, H5. split.
  - intros [[[s [Hs [Hid [Ha _]]]] _] _]. exists s. apply in_given_spec in Ha. tauto.
  - intros [s [Hs [Hid Hr]]]. repeat split; try exact I. exists s. repeat split; try assumption.
    apply in_given_spec. exact Hr.
Qed.
Corollary lonrange_alone cfg first use x a b :
  c_lat cfg = None -> c_lon cfg = Some (a, b) -> c_locs cfg = None -> c_elev cfg = None -> c_locs_x cfg = None ->
  use_locations V cfg first = OK use ->
  (In x use <-> exists s, In s (i_locs first) /\ l_id s = x /\ a <= l_lon s <= b).
Proof.
  intros H1 H2 H3 H4 H5 Hu. rewrite (use_locations_spec cfg first use x Hu). unfold loc_selected.
  rewrite H1, H2, H3, H4, H5. split.
  - intros [[[s [Hs [Hid [_ Ha]]]] _] _]. exists s. apply in_given_spec in Ha. tauto.
  - intros [s [Hs [Hid Hr]]]. repeat split; try exact I. exists s. repeat split; try assumption.
    apply in_given_spec. exact Hr.
Qed.

End S.

Section S2.
Variable V : Type.
Variable vltb : V -> V -> bool.
Variable vsub vdiv : V -> V -> option V.

(* (c) -obsrange: an observation outside the inclusive range becomes missing; others are kept;
       fields other than the observation are not touched (see field_values in the model) *)
Theorem obsrange_spec lo hi v :
  mask_obs_range V vltb (Some (lo, hi)) (Some v) =
  if vltb v lo || vltb hi v then None else Some v.
Proof. unfold mask_obs_range. destruct (vltb v lo); [reflexivity|]. destruct (vltb hi v); reflexivity. Qed.
Theorem obsrange_none x : mask_obs_range V vltb None x = x.
Proof. destruct x; reflexivity. Qed.
Theorem obsrange_missing r : mask_obs_range V vltb r None = None.
Proof. destruct r as [[lo hi]|]; reflexivity. Qed.

(* (d) a selection that leaves no initialisation time never yields a number *)
Lemma flatten3_nils (l : list (list (list (option V)))) :
  Forall (fun p => p = []) l -> flatten3 V l = [].
Proof.
  unfold flatten3. induction l as [|p l IH]; intros H; [reflexivity|].
  inversion H; subst. cbn. apply IH. assumption.
Qed.

Lemma apply_axis_empty (d : data V) ax ai : d_times d = [] -> apply_axis V d ax ai [] = [].
Proof.
  intros H. destruct ax; cbn [apply_axis]; try reflexivity.
  - destruct ai; reflexivity.
  - unfold bucket_positions, positions_where. rewrite H. reflexivity.
Qed.

Lemma propagate_empty (d : data V) cs : d_times d = [] -> Forall (fun c => c = []) (propagate V d cs).
Proof.
  intros H. unfold propagate. rewrite H. cbn [length seq map]. rewrite Forall_forall.
  intros c Hc. apply in_map_iff in Hc. destruct Hc as [c0 [<- _]]. reflexivity.
Qed.

Lemma get_score_empty (d : data V) f k c : d_times d = [] -> get_score V d f k = OK c -> c = [].
Proof.
  intros H. unfold get_score, get_score_all.
  destruct (match f with FObs => share_obs V (loaded V d f) | _ => require_all V (loaded V d f) end) as [cs|e];
    [|discriminate].
  intros E. injection E as <-. pose proof (propagate_empty d cs H) as P. rewrite Forall_forall in P.
  destruct (nth_in_or_default k (propagate V d cs) []) as [Hin | ->]; [apply P; exact Hin | reflexivity].
Qed.

Lemma field_values_empty (d : data V) f k ax ai clim col :
  d_times d = [] -> (forall cl, clim = Some cl -> cl = []) ->
  field_values V vltb vsub vdiv d f k ax ai clim = OK col -> col = [].
Proof.
  intros H Hcl. unfold field_values. destruct (get_score V d f k) as [c|e] eqn:E; [|discriminate].
  apply (get_score_empty d f k c H) in E. subst c.
  cbv zeta.
  destruct f; cbn [map]; rewrite (apply_axis_empty d ax ai H); intros E; injection E as <-;
    destruct clim; cbn [is_obs_or_fcst combine map]; reflexivity.
Qed.

Lemma collect_all_empty (l : list (result (list (option V)))) cols :
  (forall r col, In r l -> r = OK col -> col = []) -> collect l = OK cols -> Forall (fun c => c = []) cols.
Proof.
  revert cols. induction l as [|r l IH]; intros cols Hl E; cbn [collect] in E.
  - injection E as <-. constructor.
  - destruct r as [a|e]; [|discriminate]. destruct (collect l) as [t|e] eqn:Et; [|discriminate].
    injection E as <-. constructor.
    + apply (Hl (OK a) a); [left; reflexivity | reflexivity].
    + apply IH; [|reflexivity]. intros r col Hr. apply Hl. right. exact Hr.
Qed.

Theorem empty_selection_never_numeric (d : data V) fields k ax ai res :
  d_times d = [] ->
  get_scores V vltb vsub vdiv d fields k ax ai = OK res ->
  Forall (fun col => col = [None]) res.
Proof.
  intros H. unfold get_scores.
  destruct (negb (k <? num_inputs d)%nat); [discriminate|].
  set (climr := if d_has_clim d && existsb is_obs_or_fcst fields
                then match get_score V d FFcst (length (d_inputs d) - 1) with
                     | OK c => OK (Some (apply_axis V d ax ai c)) | Error e => Error e end
                else OK None).
  assert (Hc : forall clim, climr = OK clim -> forall cl, clim = Some cl -> cl = []).
  { unfold climr. intros clim E cl ->. destruct (d_has_clim d && existsb is_obs_or_fcst fields); [|discriminate].
    destruct (get_score V d FFcst (length (d_inputs d) - 1)) as [c|e] eqn:Ec; [|discriminate].
    apply (get_score_empty d _ _ c H) in Ec. subst c. injection E as <-. apply apply_axis_empty. exact H. }
  fold climr. destruct climr as [clim|e]; [|discriminate]. specialize (Hc clim eq_refl).
  destruct (collect (map (fun f => field_values V vltb vsub vdiv d f k ax ai clim) fields)) as [cols|e] eqn:Ecols;
    [|discriminate].
  assert (A : Forall (fun c => c = []) cols).
  { apply (collect_all_empty _ cols) in Ecols; [exact Ecols|].
    intros r col Hr ->. apply in_map_iff in Hr. destruct Hr as [f [Hf _]].
    apply (field_values_empty d f k ax ai clim col H Hc Hf). }
  destruct cols as [|c0 cols].
  - cbn. intros E. injection E as <-. constructor.
  - inversion A as [|? ? Hc0 Hrest]; subst. cbn [valid_mask length seq map keep_valid combine filter].
    intros E. injection E as <-. constructor; [reflexivity|].
    rewrite Forall_forall. intros col Hcol. apply in_map_iff in Hcol. destruct Hcol as [? [<- _]]. reflexivity.
Qed.
End S2.
