(* Proofs/C02_lookup.v -- a stored threshold is found by its VALUE: the column delivered is the one the input stores for that
   threshold, wherever it stands in the input's own list (inputs list their thresholds in different orders). *)
From Coq Require Import QArith List Bool Lia Permutation.
From VF Require Import Model.Lookup.
Import ListNotations.

Section P.
Variable A : Type.

Lemma find_index_ge thr t i j : find_index thr t i = Some j -> (i <= j)%nat.
Proof.
  revert i. induction thr as [|x r IH]; intros i H; [discriminate|]. cbn in H.
  destruct (Qeq_bool x t); [injection H as <-; lia|]. specialize (IH _ H). lia.
Qed.

Lemma find_index_shift thr t i j : find_index thr t (S i) = Some (S j) <-> find_index thr t i = Some j.
Proof.
  revert i. induction thr as [|x r IH]; intros i; cbn; [split; discriminate|].
  destruct (Qeq_bool x t); [split; intros H; injection H as ->; reflexivity|]. apply IH.
Qed.

(* the pairs (threshold, column) an input stores *)
Definition stores (thr : list Q) (cols : list A) (t : Q) (c : A) : Prop :=
  exists i, nth_error thr i = Some t /\ nth_error cols i = Some c.

(* no two stored thresholds are equal as numbers *)
Definition distinct (thr : list Q) : Prop :=
  forall i j x y, nth_error thr i = Some x -> nth_error thr j = Some y -> x == y -> i = j.

Lemma find_index_spec thr t : distinct thr -> forall i x, nth_error thr i = Some x -> x == t -> find_index thr t 0 = Some i.
Proof.
  induction thr as [|a r IH]; intros Hd i x Hi Hx; [destruct i; discriminate|].
  cbn [find_index]. destruct (Qeq_bool a t) eqn:E.
  - apply Qeq_bool_iff in E. assert (0%nat = i) as <-; [|reflexivity].
    apply (Hd 0%nat i a x); [reflexivity | exact Hi | rewrite E, Hx; reflexivity].
  - destruct i as [|i].
    + cbn in Hi. injection Hi as ->. apply Qeq_bool_iff in Hx. congruence.
    + apply find_index_shift. apply (IH) with (x := x).
      * intros p q u v Hp Hq Huv. assert (S p = S q) by (apply (Hd (S p) (S q) u v); assumption). lia.
      * exact Hi.
      * exact Hx.
Qed.

(* THE statement: whatever the order in which the input lists its thresholds, the column delivered for t is the column the
   input stores for t *)
Theorem stored_column_by_value thr cols t c : distinct thr -> stores thr cols t c -> stored_column A thr cols t = Some c.
Proof.
  intros Hd [i [Ht Hc]]. unfold stored_column. rewrite (find_index_spec thr t Hd i t Ht (Qeq_refl t)). exact Hc.
Qed.

(* the pairs an input stores, as a list; reordering the input's columns (thresholds and their arrays together) changes nothing *)
Lemma stores_In thr cols t c : stores thr cols t c <-> In (t, c) (combine thr cols).
Proof.
  unfold stores. revert cols. induction thr as [|x r IH]; intros cols.
  - split; [intros [i [Hi _]]; destruct i; discriminate | intros []].
  - destruct cols as [|y cs].
    + split; [intros [i [_ Hc]]; destruct i; discriminate | intros []].
    + cbn [combine In]. split.
      * intros [[|i] [Ht Hc]]; cbn in Ht, Hc.
        -- left. congruence.
        -- right. apply IH. exists i. split; assumption.
      * intros [E | Hin].
        -- injection E as <- <-. exists 0%nat. split; reflexivity.
        -- apply IH in Hin. destruct Hin as [i [Ht Hc]]. exists (S i). split; assumption.
Qed.

Theorem stored_column_order_free thr cols thr' cols' t c :
  distinct thr -> distinct thr' -> Permutation (combine thr cols) (combine thr' cols') ->
  stores thr cols t c -> stored_column A thr cols t = Some c /\ stored_column A thr' cols' t = Some c.
Proof.
  intros Hd Hd' Hp Hs. split; [apply stored_column_by_value; assumption|].
  apply stored_column_by_value; [exact Hd'|]. apply stores_In. apply (Permutation_in _ Hp). apply stores_In. exact Hs.
Qed.

(* a threshold the input does not store is not found (the field then comes from the ensemble, or the run stops) *)
Theorem absent_threshold_not_found thr cols t : (forall x, In x thr -> ~ x == t) -> stored_column A thr cols t = None.
Proof.
  intros Hn. unfold stored_column. assert (E : forall i, find_index thr t i = None).
  { induction thr as [|a r IH]; intros i; [reflexivity|]. cbn. destruct (Qeq_bool a t) eqn:E.
    - apply Qeq_bool_iff in E. exfalso. apply (Hn a); [left; reflexivity | exact E].
    - apply IH. intros x Hx. apply Hn. right. exact Hx. }
  rewrite E. reflexivity.
Qed.
End P.
