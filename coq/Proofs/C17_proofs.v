(* Proofs/C17_proofs.v -- appearance options: every documented option reaches an attribute the outputs
   read (generated tables), options are independent of each other and the last occurrence wins
   (argument loop, for ANY option table), line styles cycle. Axiom-free. *)
From Coq Require Import ZArith List Bool Ascii String Arith Lia.
From VF Require Import Model.Data Gen.Gen_cli Model.Cli Model.Appearance Proofs.C13_proofs.
Import ListNotations.
Local Open Scope string_scope.

Lemma find_app {A} (f : A -> bool) l1 l2 :
  find f (l1 ++ l2)%list = match find f l1 with Some x => Some x | None => find f l2 end.
Proof. induction l1 as [|x l1 IH]; cbn; [reflexivity|]. destruct (f x); [reflexivity | exact IH]. Qed.

Lemma find_none_keys var (M : list (string * string)) :
  (forall k v, In (k, v) M -> k <> var) -> find (fun a => String.eqb var (fst a)) M = None.
Proof.
  intros H. induction M as [|[k v] M IH]; cbn; [reflexivity|].
  destruct (String.eqb_spec var k) as [e|_].
  - exfalso. apply (H k v); [left; reflexivity | congruence].
  - apply IH. intros k' v' Hin. apply (H k' v'). right; exact Hin.
Qed.

Definition mkp (a : list (string * string)) (f : list string) : parsed := {| p_assign := a; p_files := f |}.

(* assignments to OTHER variables never change what a variable holds *)
Lemma lookup_skip var A M B f f' :
  (forall k v, In (k, v) M -> k <> var) ->
  lookup var (mkp (A ++ M ++ B) f) = lookup var (mkp (A ++ B) f').
Proof.
  intros H. unfold lookup, mkp. cbn [p_assign].
  rewrite !rev_app_distr, !find_app.
  assert (E : find (fun a => String.eqb var (fst a)) (rev M) = None).
  { apply find_none_keys. intros k v Hin. apply in_rev in Hin. apply (H k v Hin). }
  rewrite E. destruct (find (fun a => String.eqb var (fst a)) (rev B)); reflexivity.
Qed.

(* the LAST assignment to a variable is what it holds *)
Lemma lookup_last var v A B f :
  (forall k w, In (k, w) B -> k <> var) -> lookup var (mkp (A ++ (var, v) :: B) f) = Some v.
Proof.
  intros H. unfold lookup, mkp. cbn [p_assign].
  rewrite rev_app_distr. cbn [rev]. rewrite <- app_assoc, !find_app.
  assert (E : find (fun a => String.eqb var (fst a)) (rev B) = None).
  { apply find_none_keys. intros k w Hin. apply in_rev in Hin. apply (H k w Hin). }
  rewrite E. cbn. rewrite String.eqb_refl. reflexivity.
Qed.

Section L.
Variable bflags : list (string * string * string).
Variable vflags : list (string * string * string * string * string).
Notation parse_loop := (parse_loop bflags vflags).
Notation wf := (wf bflags vflags).
Notation assigned := (assigned bflags vflags).
Notation apply_group := (apply_group bflags vflags).

Definition empty : parsed := {| p_assign := []; p_files := [] |}.

Lemma parse_groups_assign gs : Forall wf gs ->
  exists p, parse_loop (flat_map tokens gs) empty = OK p /\ p_assign p = flat_map assigned gs /\ p_files p = flat_map file_of gs.
Proof.
  intros Hwf. exists (fold_left apply_group gs empty). split; [apply parse_loop_groups; exact Hwf|].
  destruct (fold_apply_assign bflags vflags gs empty) as [H1 H2]. rewrite H1, H2. split; reflexivity.
Qed.

Lemma parsed_eta p : p = mkp (p_assign p) (p_files p).
Proof. destruct p; reflexivity. Qed.

(* INDEPENDENCE: removing (or adding) an option group that assigns other variables does not change
   the value a variable ends up with, wherever the group stands on the command line *)
Theorem option_independent var gs1 g gs2 :
  Forall wf (gs1 ++ g :: gs2) -> (forall k v, In (k, v) (assigned g) -> k <> var) ->
  exists p p', parse_loop (flat_map tokens (gs1 ++ g :: gs2)) empty = OK p /\
               parse_loop (flat_map tokens (gs1 ++ gs2)) empty = OK p' /\
               lookup var p = lookup var p'.
Proof.
  intros Hwf Hother.
  assert (Hwf' : Forall wf (gs1 ++ gs2)).
  { apply Forall_app in Hwf. destruct Hwf as [H1 H2]. inversion H2; subst. apply Forall_app; split; assumption. }
  destruct (parse_groups_assign _ Hwf) as [p [Hp [Ha _]]].
  destruct (parse_groups_assign _ Hwf') as [p' [Hp' [Ha' _]]].
  exists p, p'. split; [exact Hp|]. split; [exact Hp'|].
  rewrite (parsed_eta p), (parsed_eta p'), Ha, Ha'.
  rewrite !flat_map_app. cbn [flat_map]. apply lookup_skip. exact Hother.
Qed.

(* LAST WINS: the value of a variable is the one given by the last group that assigns it *)
Theorem last_occurrence_wins var f v kind gs1 gs2 :
  Forall wf (gs1 ++ GVal f v :: gs2) -> find_val vflags f = Some (f, var, kind, "", "") ->
  (forall g k w, In g gs2 -> In (k, w) (assigned g) -> k <> var) ->
  exists p, parse_loop (flat_map tokens (gs1 ++ GVal f v :: gs2)) empty = OK p /\ lookup var p = Some v.
Proof.
  intros Hwf Hf Hlater.
  destruct (parse_groups_assign _ Hwf) as [p [Hp [Ha _]]].
  exists p. split; [exact Hp|].
  rewrite (parsed_eta p), Ha. rewrite flat_map_app. cbn [flat_map]. unfold C13_proofs.assigned at 2. rewrite Hf. cbn [String.eqb app].
  apply lookup_last. intros k w Hin. apply in_flat_map in Hin. destruct Hin as [g [Hg Hkw]]. apply (Hlater g k w Hg Hkw).
Qed.

(* an option that is not given leaves its variable unset *)
Theorem absent_option_unset var gs :
  Forall wf gs -> (forall g k w, In g gs -> In (k, w) (assigned g) -> k <> var) ->
  exists p, parse_loop (flat_map tokens gs) empty = OK p /\ lookup var p = None.
Proof.
  intros Hwf Hno. destruct (parse_groups_assign _ Hwf) as [p [Hp [Ha _]]].
  exists p. split; [exact Hp|]. unfold lookup. rewrite Ha.
  rewrite find_none_keys; [reflexivity|].
  intros k w Hin. apply in_rev in Hin. apply in_flat_map in Hin. destruct Hin as [g [Hg Hkw]]. apply (Hno g k w Hg Hkw).
Qed.
End L.

(* ---- the GENERATED tables ----------------------------------------------------------------------- *)
Lemma all_reach_figure : forallb reaches_figure appearance_flags = true.
Proof. vm_compute. reflexivity. Qed.

Fixpoint nodup_str (l : list string) : bool :=
  match l with [] => true | x :: r => negb (mem x r) && nodup_str r end.
Definition flag_vars : list string :=
  flat_map (fun f => match var_of_flag f with Some v => [v] | None => [] end) appearance_flags.
(* every appearance option has a variable of its own: no two options can overwrite each other *)
Lemma own_variables : Nat.eqb (List.length flag_vars) (List.length appearance_flags) && nodup_str flag_vars = true.
Proof. vm_compute. reflexivity. Qed.
(* ... and an attribute of its own on the Output object *)
Definition flag_attrs : list string := flat_map attrs_of_var flag_vars.
Lemma own_attributes : nodup_str flag_attrs = true.
Proof. vm_compute. reflexivity. Qed.

Lemma reaches_figure_each f : In f appearance_flags -> reaches_figure f = true.
Proof. intros H. pose proof all_reach_figure as A. rewrite forallb_forall in A. apply A; exact H. Qed.

(* ---- line style cycling ----------------------------------------------------------------------- *)
Lemma cyc_small {A} (l : list A) i d : (i < List.length l)%nat -> cyc l i d = nth i l d.
Proof. intros H. unfold cyc. rewrite Nat.mod_small by exact H. reflexivity. Qed.
Lemma cyc_periodic {A} (l : list A) i d : l <> [] -> cyc l (i + List.length l) d = cyc l i d.
Proof.
  intros H. unfold cyc. assert (List.length l <> 0)%nat by (destruct l; [congruence | cbn; lia]).
  replace (i + List.length l)%nat with (i + 1 * List.length l)%nat by lia.
  rewrite Nat.mod_add by assumption. reflexivity.
Qed.
Lemma cyc_in {A} (l : list A) i d : l <> [] -> In (cyc l i d) l.
Proof.
  intros H. unfold cyc. apply nth_In. apply Nat.mod_upper_bound. destruct l; [congruence | cbn; lia].
Qed.
