(* Proofs/C11_proofs.v -- slicing partitions the cases; calendar buckets; conversions. Axiom-free. *)
From Coq Require Import ZArith List Bool Lia Sorted.
From VF Require Import Model.Data Model.Cal Proofs.Data_lemmas.
Import ListNotations.
Local Open Scope Z_scope.

(* ---- slices partition the positions -------------------------------------------------------- *)
Lemma positions_where_In p l i :
  In i (positions_where p l) <-> (i < length l)%nat /\ p (nth i l 0) = true.
Proof.
  unfold positions_where. rewrite in_map_iff. split.
  - intros [[j x] [E H]]. cbn in E. subst j. apply filter_In in H. destruct H as [H Hp]. cbn in Hp.
    assert (G : forall s (l0 : list Z) j y, In (j, y) (combine (seq s (length l0)) l0) ->
                (s <= j < s + length l0)%nat /\ nth (j - s) l0 0 = y).
    { intros s l0. revert s. induction l0 as [|h t IH]; intros s j y Hin; [destruct Hin|].
      cbn [length seq combine] in Hin. destruct Hin as [E | Hin].
      - inversion E; subst. rewrite Nat.sub_diag. cbn. split; [lia | reflexivity].
      - destruct (IH (S s) j y Hin) as [Hr Hn]. split; [cbn [length]; lia|].
        replace (j - s)%nat with (S (j - S s)) by lia. exact Hn. }
    destruct (G O l i x H) as [Hr Hn]. rewrite Nat.sub_0_r in Hn. subst x. split; [lia | exact Hp].
  - intros [Hi Hp]. exists (i, nth i l 0). split; [reflexivity|]. apply filter_In. split; [|exact Hp].
    assert (G : forall s (l0 : list Z) j, (j < length l0)%nat -> In ((s + j)%nat, nth j l0 0) (combine (seq s (length l0)) l0)).
    { intros s l0. revert s. induction l0 as [|h t IH]; intros s j Hj; [cbn in Hj; lia|].
      cbn [length seq combine]. destruct j as [|j].
      - left. rewrite Nat.add_0_r. reflexivity.
      - right. replace (s + S j)%nat with (S s + j)%nat by lia. apply IH. cbn in Hj. lia. }
    apply (G O l i Hi).
Qed.

Lemma nth_map_default (b : Z -> Z) vals i : (i < length vals)%nat -> nth i (map b vals) 0 = b (nth i vals 0).
Proof.
  intros Hi. rewrite (nth_indep (map b vals) 0 (b 0)) by (rewrite map_length; exact Hi). apply map_nth.
Qed.

Theorem bucket_positions_spec b vals k i :
  In i (bucket_positions b vals k) <->
  (i < length vals)%nat /\ b (nth i vals 0) = nth k (sort_uniq (map b vals)) 0.
Proof.
  unfold bucket_positions. rewrite positions_where_In, map_length. split.
  - intros [Hi E]. apply Z.eqb_eq in E. rewrite nth_map_default in E by exact Hi. tauto.
  - intros [Hi E]. split; [exact Hi|]. apply Z.eqb_eq. rewrite nth_map_default by exact Hi. exact E.
Qed.

Lemma NoDup_nth_unique (l : list Z) k k' :
  NoDup l -> (k < length l)%nat -> (k' < length l)%nat -> nth k l 0 = nth k' l 0 -> k = k'.
Proof. intros Hn Hk Hk' E. apply (proj1 (NoDup_nth l 0) Hn k k' Hk Hk' E). Qed.

(* every case belongs to exactly one slice of the axis *)
Theorem slices_partition b vals i : (i < length vals)%nat ->
  exists k, (k < length (sort_uniq (map b vals)))%nat /\ In i (bucket_positions b vals k) /\
            forall k', (k' < length (sort_uniq (map b vals)))%nat -> In i (bucket_positions b vals k') -> k' = k.
Proof.
  intros Hi. set (u := sort_uniq (map b vals)).
  assert (Hin : In (b (nth i vals 0)) u).
  { unfold u. apply sort_uniq_In. apply in_map. apply nth_In. exact Hi. }
  destruct (In_nth u (b (nth i vals 0)) 0 Hin) as [k [Hk Ek]].
  exists k. split; [exact Hk|]. split.
  - apply bucket_positions_spec. split; [exact Hi | symmetry; exact Ek].
  - intros k' Hk' H'. apply bucket_positions_spec in H'. destruct H' as [_ E'].
    apply (NoDup_nth_unique u k' k); try assumption.
    + apply ssorted_NoDup. apply sort_uniq_sorted.
    + fold u in E'. congruence.
Qed.

(* slices never contain a position outside the data, and 'no' (AxNo) pools everything by definition *)
Theorem slice_positions_in_range b vals k i : In i (bucket_positions b vals k) -> (i < length vals)%nat.
Proof. intros H. apply bucket_positions_spec in H. tauto. Qed.

(* ---- calendar facts valid for every t : Z ------------------------------------------------ *)
Theorem day_start_spec t : day_start t <= t < day_start t + 86400 /\ day_start t mod 86400 = 0.
Proof.
  unfold day_start, day_of. pose proof (Z.div_mod t 86400 ltac:(lia)). pose proof (Z.mod_pos_bound t 86400 ltac:(lia)).
  split; [lia|]. apply Z_mod_mult.
Qed.

Theorem second_of_day_spec t : 0 <= second_of_day t < 86400 /\ t = day_start t + second_of_day t.
Proof.
  unfold second_of_day, day_start, day_of. pose proof (Z.div_mod t 86400 ltac:(lia)).
  pose proof (Z.mod_pos_bound t 86400 ltac:(lia)). lia.
Qed.

(* the same clock time on any two days falls in the same time-of-day slice, however many days lie between them *)
Lemma second_of_day_periodic t k : second_of_day (t + k * 86400) = second_of_day t.
Proof. unfold second_of_day. apply Z.mod_add. lia. Qed.


Theorem week_start_spec t :
  week_start t <= t < week_start t + 7 * 86400 /\ weekday (week_start t) = 0 /\ week_start t mod 86400 = 0.
Proof.
  unfold week_start, weekday, day_of.
  pose proof (Z.div_mod t 86400 ltac:(lia)) as H1. pose proof (Z.mod_pos_bound t 86400 ltac:(lia)) as H2.
  set (dd := t / 86400) in *. pose proof (Z.mod_pos_bound (dd + 3) 7 ltac:(lia)) as H3.
  pose proof (Z.div_mod (dd + 3) 7 ltac:(lia)) as H4. set (w := (dd + 3) mod 7) in *.
  split; [lia|]. split.
  - rewrite Z.div_mul by lia. replace (dd - w + 3) with (7 * ((dd + 3) / 7)) by lia.
    rewrite Z.mul_comm. apply Z_mod_mult.
  - apply Z_mod_mult.
Qed.

Theorem leadtimeday_spec l : 0 <= l -> leadtimeday l * 24000 <= l < (leadtimeday l + 1) * 24000.
Proof.
  intros H. unfold leadtimeday. rewrite Z.quot_div_nonneg by lia.
  pose proof (Z.div_mod l 24000 ltac:(lia)). pose proof (Z.mod_pos_bound l 24000 ltac:(lia)). lia.
Qed.

(* ---- civil calendar: decided for every day 1900-01-01 ... 2100-12-31 (bound in the statement) -- *)
Definition day_lo : Z := -25567.      (* 1900-01-01 *)
Definition day_hi : Z := 47846.       (* 2100-12-31 *)
(* every day number day_lo + 366*a + b, a < 201, b < 366: covers day_lo .. day_hi (and a little more) *)
Definition days_range : list Z :=
  flat_map (fun a => map (fun b => day_lo + 366 * Z.of_nat a + Z.of_nat b) (seq 0 366)) (seq 0 201).

Definition day_ok (z : Z) : bool :=
  let '(y, m, d) := civil_from_days z in
  valid_date y m d && (days_from_civil y m d =? z)
  && (days_from_civil y m 1 =? z - d + 1)                     (* month_start is the 1st of the same month *)
  && (days_from_civil y 1 1 <=? z) && (z <? days_from_civil (y + 1) 1 1)  (* year_start <= day < next year_start *)
  && (let '(y2, m2, d2) := civil_from_days (days_from_civil y m 1) in (y2 =? y) && (m2 =? m) && (d2 =? 1))
  && (let '(y3, m3, d3) := civil_from_days (days_from_civil y 1 1) in (y3 =? y) && (m3 =? 1) && (d3 =? 1))
  && (daynum_to_date (date_to_daynum (y * 10000 + m * 100 + d)) =? y * 10000 + m * 100 + d)
  && (date_to_daynum (daynum_to_date z) =? z).

Lemma all_days_ok : forallb day_ok days_range = true.
Proof. vm_cast_no_check (eq_refl true). Qed.

Lemma days_range_In z : day_lo <= z <= day_hi -> In z days_range.
Proof.
  intros H. unfold days_range. apply in_flat_map.
  exists (Z.to_nat ((z - day_lo) / 366)).
  assert (H0 : 0 <= z - day_lo < 73414) by (unfold day_lo, day_hi in *; lia).
  pose proof (Z.div_mod (z - day_lo) 366 ltac:(lia)) as Hd.
  pose proof (Z.mod_pos_bound (z - day_lo) 366 ltac:(lia)) as Hm.
  assert (Hq : 0 <= (z - day_lo) / 366 < 201).
  { split; [apply Z.div_pos; lia | apply Z.div_lt_upper_bound; lia]. }
  split.
  - apply in_seq. lia.
  - apply in_map_iff. exists (Z.to_nat ((z - day_lo) mod 366)). split.
    + rewrite !Z2Nat.id by lia. lia.
    + apply in_seq. lia.
Qed.

Theorem civil_roundtrip z : day_lo <= z <= day_hi -> day_ok z = true.
Proof. intros H. apply (proj1 (forallb_forall day_ok days_range) all_days_ok z (days_range_In z H)). Qed.

