(* Proofs/C08_proofs.v -- probabilistic scores: event probability from the CDF, Brier score and its
   complement symmetry, the 10 probability bins cover [0,1], ensemble-derived probabilities,
   pinball loss. Generated definitions (Gen/Gen_prob.v, Gen/Gen_interval.v) at XR. *)
From Coq Require Import Reals ZArith List Bool Lra Lia Psatz.
From VF Require Import Base.Num Base.Vec Base.Event Gen.Gen_interval Gen.Gen_prob Model.Brier
     Proofs.XRTac Proofs.RList.
Import ListNotations.
Local Open Scope R_scope.

(* (a) probability of the event from the file's cumulative probabilities at the thresholds *)
Lemma event_prob bt t u a b :
  exists iv, interval_of XR bt (Fin t) (Fin u) = Some iv /\
  get_p_prob XR iv (Fin a) (Fin b) =
  Fin (match bt with
       | Below | BelowEq => b - 0        (* P(X <= t) - 0 : the upper end is the threshold *)
       | Above | AboveEq => 1 - a        (* 1 - P(X <= t) *)
       | _ => b - a                      (* P(X <= upper) - P(X <= lower) *)
       end).
Proof. destruct bt; eexists; (split; [reflexivity|]); reflexivity. Qed.

(* (a') the event indicator of a case: missing when the observation is missing (never "occurred"), 0 or 1 otherwise *)
Lemma missing_obs_missing_indicator iv : get_p_obs XR iv NaN = NaN.
Proof. destruct iv as [lo up le ue]. unfold get_p_obs, iv_within, within_elem. reflexivity. Qed.
Lemma present_obs_indicator iv o : exists b, get_p_obs XR iv (Fin o) = of_bool XR b.
Proof. unfold get_p_obs, iv_within, within_elem. cbn. eexists; reflexivity. Qed.

(* ---- Brier score ------------------------------------------------------------------------- *)
Lemma filter_notnan_F l : filter (fun x => negb (n_isnan XR x)) (F l) = F l.
Proof. unfold F. induction l as [|x l IH]; [reflexivity|]. cbn [map filter]. cbn [n_isnan XR xops x_isnan negb]. f_equal. exact IH. Qed.
Lemma vnanmean_F l : l <> [] -> vnanmean XR (F l) = Fin (rmean l).
Proof. intros H. unfold vnanmean. rewrite filter_notnan_F. apply vmean_F. exact H. Qed.

Lemma Bs_value obs p : length obs = length p -> obs <> [] ->
  Bs_core XR (F obs) (F p) = Fin (rmean (map sqr (map2r Rminus p obs))).
Proof.
  intros Hl Hne. unfold Bs_core. rewrite vsub_F, vsq_F. apply vnanmean_F.
  intro K. apply map_eq_nil in K. revert K. apply map2r_nonnil; [symmetry; exact Hl|].
  destruct obs, p; try discriminate; congruence.
Qed.

Lemma Bs_in_0_1_lower obs p : length obs = length p -> obs <> [] ->
  exists v, Bs_core XR (F obs) (F p) = Fin v /\ 0 <= v.
Proof.
  intros Hl Hne. eexists. split; [apply Bs_value; assumption|].
  unfold rmean. apply Rmult_le_pos; [apply rsum_nonneg; apply Forall_map_sqr_nonneg|].
  apply Rlt_le. apply Rinv_0_lt_compat. apply nR_pos. intro K. apply map_eq_nil in K. revert K.
  apply map2r_nonnil; [symmetry; exact Hl|]. destruct obs, p; try discriminate; congruence.
Qed.

(* (d) the Brier score of an event equals that of its complement (probability 1 - p, outcome 1 - o) *)
Lemma map2r_complement obs p :
  map sqr (map2r Rminus (map (fun x => 1 - x) p) (map (fun x => 1 - x) obs)) = map sqr (map2r Rminus p obs).
Proof.
  unfold map2r. revert obs. induction p as [|x p IH]; intros [|o obs]; try reflexivity.
  cbn [map combine fst snd]. rewrite IH. f_equal. unfold sqr. lra.
Qed.
Lemma Bs_complement obs p : length obs = length p -> obs <> [] ->
  Bs_core XR (F (map (fun x => 1 - x) obs)) (F (map (fun x => 1 - x) p)) = Bs_core XR (F obs) (F p).
Proof.
  intros Hl Hne. rewrite !Bs_value; try assumption.
  - rewrite map2r_complement. reflexivity.
  - rewrite !map_length. exact Hl.
  - intro K. apply map_eq_nil in K. contradiction.
Qed.

(* uncertainty term: mean (obar - o)^2 ; skill score (unc - bs)/unc, undefined when unc = 0 *)
Lemma BsUnc_value obs p : obs <> [] ->
  BsUnc_core XR (F obs) (F p) = Fin (rmean (map sqr (map (fun o => rmean obs - o) obs))).
Proof.
  intros Hne. unfold BsUnc_core. rewrite (vmean_F obs Hne).
  rewrite (map_F (fun x_ => n_sub XR (Fin (rmean obs)) x_) (fun o => rmean obs - o)) by reflexivity.
  rewrite vsq_F. apply vnanmean_F. intro K. apply map_eq_nil in K. apply map_eq_nil in K. contradiction.
Qed.
Lemma Bss_value obs p : length obs = length p -> obs <> [] ->
  Bss_core XR (F obs) (F p) =
  let bs := rmean (map sqr (map2r Rminus p obs)) in
  let unc := rmean (map sqr (map (fun o => rmean obs - o) obs)) in
  if Reqb unc 0 then NaN else Fin ((unc - bs) / unc).
Proof.
  intros Hl Hne. unfold Bss_core.
  change (vnanmean XR (map (fun p_ => n_mul XR p_ p_) (vmap2 XR (n_sub XR) (F p) (F obs)))) with (Bs_core XR (F obs) (F p)).
  rewrite (Bs_value obs p Hl Hne).
  change (vnanmean XR (map (fun p_ => n_mul XR p_ p_) (map (fun x_ => n_sub XR (vmean XR (F obs)) x_) (F obs))))
    with (BsUnc_core XR (F obs) (F p)).
  rewrite (BsUnc_value obs p Hne). cbv zeta. cbn [XR xops n_eqb n_lit n_nan n_div n_sub]. unfold x_eqb, x_lit. cbn [RBase b_ofZ b_eqb].
  destruct (Reqb (rmean (map sqr (map (fun o => rmean obs - o) obs))) 0) eqn:E; [reflexivity|].
  unfold x_div, is0, z0. cbn [RBase b_eqb b_ofZ b_div x_sub b_sub]. rewrite E. reflexivity.
Qed.

(* (e) every probability in [0, 1] falls in exactly one of the bins [e_i, e_{i+1}) *)
Fixpoint increasingR (l : list R) : Prop :=
  match l with a :: ((b :: _) as r) => a < b /\ increasingR r | _ => True end.
Fixpoint consecR (l : list R) : list (R * R) :=
  match l with a :: ((b :: _) as r) => (a, b) :: consecR r | _ => [] end.
Definition in_bin (e : R * R) (p : R) : bool := negb (Rltb p (fst e)) && Rltb p (snd e).
Definition bins_holding (l : list R) (p : R) : nat := length (filter (fun e => in_bin e p) (consecR l)).

Lemma in_bin_spec a b p : in_bin (a, b) p = true <-> a <= p < b.
Proof.
  unfold in_bin. cbn [fst snd]. rewrite andb_true_iff, negb_true_iff, Rltb_false, Rltb_true. tauto.
Qed.
Lemma bins_below l a p : increasingR (a :: l) -> p < a -> bins_holding (a :: l) p = 0%nat.
Proof.
  revert a. induction l as [|b l IH]; intros a H Hp; [reflexivity|]. destruct H as [Hab Hr].
  unfold bins_holding in *. cbn [consecR filter]. destruct (in_bin (a, b) p) eqn:E.
  - apply in_bin_spec in E. lra.
  - apply IH; [exact Hr | lra].
Qed.
Lemma half_open_partition l a p : increasingR (a :: l) ->
  (a <= p < last l a -> bins_holding (a :: l) p = 1%nat) /\
  (~ (a <= p < last l a) -> bins_holding (a :: l) p = 0%nat).
Proof.
  revert a. induction l as [|b l IH]; intros a H.
  - cbn. split; [lra | reflexivity].
  - destruct H as [Hab Hr]. specialize (IH b Hr).
    assert (Hl : last (b :: l) a = last l b).
    { clear. revert a b. induction l as [|x l IHl]; intros a b; [reflexivity|].
      change (last (b :: x :: l) a) with (last (x :: l) a). rewrite (IHl a x), (IHl b x). reflexivity. }
    rewrite Hl. unfold bins_holding in *. cbn [consecR filter].
    destruct (in_bin (a, b) p) eqn:E.
    + apply in_bin_spec in E. cbn [length]. split; intros Hc.
      * f_equal. apply (bins_below l b p Hr). lra.
      * exfalso. apply Hc. split; [lra|].
        assert (b <= last l b).
        { clear -Hr. revert b Hr. induction l as [|c l IHl]; intros b Hr; [cbn; lra|]. destruct Hr as [Hbc Hr].
          specialize (IHl c Hr).
          assert (last (c :: l) b = last l c).
          { clear. revert b c. induction l as [|x l IHl]; intros b c; [reflexivity|].
            change (last (c :: x :: l) b) with (last (x :: l) b). rewrite (IHl b x), (IHl c x). reflexivity. }
          lra. }
        lra.
    + assert (E' : ~ (a <= p < b)) by (intro K; apply in_bin_spec in K; congruence).
      destruct IH as [I1 I0]. split; intros Hc.
      * apply I1. lra.
      * destruct (Rlt_dec p b) as [Hpb | Hpb]; [apply (bins_below l b p Hr Hpb) | apply I0; lra].
Qed.

Definition edgesR : list R :=
  map (fun x => match x with Fin r => r | _ => 0 end) (brier_edges XR).

Lemma edges_increasing : increasingR edgesR.
Proof. unfold edgesR, brier_edges. cbn. unfold x_lit. cbn. repeat split; lra. Qed.
Lemma edges_first_last : hd 0 edgesR = 0 /\ 1 < last edgesR 0.
Proof. unfold edgesR, brier_edges. cbn. unfold x_lit. cbn. split; lra. Qed.

Theorem probability_in_exactly_one_bin p : 0 <= p <= 1 -> bins_holding edgesR p = 1%nat.
Proof.
  intros Hp. pose proof edges_increasing as Hi. pose proof edges_first_last as [H0 H1].
  remember edgesR as E eqn:HE. destruct E as [|a l]; [unfold edgesR, brier_edges in HE; discriminate|].
  cbn [hd] in H0. subst a.
  assert (Hl : last (0 :: l) 0 = last l 0) by (destruct l; reflexivity). rewrite Hl in H1.
  apply (proj1 (half_open_partition l 0 p Hi)). lra.
Qed.

(* (f) probabilities derived from the ensemble: fraction of present members at or below the threshold *)
Lemma filter_len_le {A} (f : A -> bool) l : (length (filter f l) <= length l)%nat.
Proof. induction l as [|x l IH]; [cbn; lia|]. cbn [filter]. destruct (f x); cbn [length]; lia. Qed.

Lemma F_length l : length (F l) = length l.
Proof. unfold F. apply map_length. Qed.

Lemma thr_from_ens_all_present t l : l <> [] ->
  thr_from_ens XR (Fin t) (F l) =
  Fin (IZR (Z.of_nat (length (filter (fun m => n_leb XR m (Fin t)) (F l)))) / nR l).
Proof.
  intros H. unfold thr_from_ens. rewrite filter_notnan_F.
  rewrite F_length. change (n_ofnat XR (length l)) with (Fin (nR l)).
  apply xdiv_fin. pose proof (nR_pos l H). lra.
Qed.
Lemma thr_from_ens_in_0_1 t l : l <> [] ->
  exists v, thr_from_ens XR (Fin t) (F l) = Fin v /\ 0 <= v <= 1.
Proof.
  intros H. eexists. split; [apply thr_from_ens_all_present; exact H|].
  pose proof (nR_pos l H) as Hn.
  assert (Hc : (length (filter (fun m => n_leb XR m (Fin t)) (F l)) <= length l)%nat).
  { etransitivity; [apply filter_len_le|]. rewrite F_length. lia. }
  split.
  - apply Rmult_le_pos; [apply IZR_le; lia | apply Rlt_le; apply Rinv_0_lt_compat; exact Hn].
  - apply Rmult_le_reg_r with (nR l); [exact Hn|]. unfold Rdiv. rewrite Rmult_assoc, Rinv_l by lra.
    rewrite Rmult_1_r, Rmult_1_l. unfold nR. apply IZR_le. lia.
Qed.
Lemma thr_from_ens_all_missing t n : thr_from_ens XR (Fin t) (repeat NaN n) = NaN.
Proof.
  unfold thr_from_ens.
  match goal with |- context [filter ?f (repeat ?x n)] =>
    assert (E : filter f (repeat x n) = []) by (induction n as [|k IHk]; [reflexivity | exact IHk]) end.
  rewrite E. apply xdiv_0_0.
Qed.
(* missing members are ignored *)
Lemma thr_from_ens_ignores_missing t (ms : list xr) :
  thr_from_ens XR t ms = thr_from_ens XR t (filter (fun m => negb (n_isnan XR m)) ms).
Proof.
  unfold thr_from_ens. f_equal.
  - do 2 f_equal. f_equal. symmetry. induction ms as [|m ms IH]; [reflexivity|]. cbn [filter].
    destruct (negb (n_isnan XR m)) eqn:E; cbn [filter]; [rewrite E|]; rewrite IH; reflexivity.
  - do 2 f_equal. symmetry. induction ms as [|m ms IH]; [reflexivity|]. cbn [filter].
    destruct (negb (n_isnan XR m)) eqn:E; cbn [filter]; [rewrite E|]; rewrite IH; reflexivity.
Qed.

(* (g) pinball loss: each term e (q - [e < 0]) is non-negative for a level q in [0, 1] *)
Lemma pinball_term_nonneg q e : 0 <= q <= 1 -> 0 <= e * (q - (if Rltb e 0 then 1 else 0)).
Proof.
  intros Hq. destruct (Rltb e 0) eqn:E; [apply Rltb_true in E | apply Rltb_false in E]; nra.
Qed.
