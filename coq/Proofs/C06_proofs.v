(* Proofs/C06_proofs.v -- the generated contingency formulas (Gen/Gen_contingency.v at XR) equal
   the textbook definitions of Proofs/C06_spec.v for every real table a,b,c,d >= 0. *)
From Coq Require Import Reals ZArith List Bool Lra Psatz Lia.
From VF Require Import Base.Num Base.Vec Base.Event Gen.Gen_interval Gen.Gen_contingency
     Proofs.XRTac Proofs.C06_spec.
Import ListNotations.
Local Open Scope R_scope.

Ltac spec_unfold :=
  unfold tb_A, tb_B, tb_C, tb_D, tb_N, tb_BaseRate, tb_FcstRate, tb_Pc, tb_Hit, tb_Miss, tb_Fa, tb_Far,
         tb_Threat, tb_BiasFreq, tb_Ets, tb_Hss, tb_Hss_expected, tb_Kss, tb_Or, tb_Lor, tb_YulesQ, tb_Dscore,
         tb_Edi, tb_Sedi, tb_Eds, tb_Seds, rdiv, undefined_if, rH, rF, rp, rq, tot in *.

(* close one leaf: contradictory case, NaN = NaN, or an equation between finite values *)
(* side conditions of field: a denominator is non-zero, possibly only modulo clearing fractions *)
Ltac side :=
  match goal with
  | |- _ /\ _ => split; side
  | |- _ <> 0 =>
      first [ assumption | lra | nra
            | let K := fresh "K" in intro K;
              match goal with
              | Hne : _ <> 0 |- _ => apply Hne; field_simplify_eq; [ nra | repeat split; lra ]
              end ]
  end.

(* derive a contradiction from a guard the code took and a guard the textbook did not (or v.v.) *)
Ltac contra :=
  exfalso;
  first [ lra | nra
        | match goal with
          | Hne : _ <> 0, Heq : _ = 0 |- _ =>
              apply Hne; field_simplify_eq; [ nra | repeat split; lra ]
          | Hne : _ <> 0, Heq : _ = 0 |- _ =>
              apply Hne; field_simplify_eq in Heq; [ nra | repeat split; lra ]
          end ].

Ltac leaf :=
  cbn [orb andb negb] in *;
  first
    [ reflexivity
    | f_equal; field; side
    | f_equal; nra
    | contra ].

Ltac solve_score :=
  intros; spec_unfold; xr_unfold; rbp; leaf.

Section S.
Variables a b c d : R.
Variable Ha : 0 <= a.
Variable Hb : 0 <= b.
Variable Hc : 0 <= c.
Variable Hd : 0 <= d.
Notation Fa_ := (Fin a). Notation Fb_ := (Fin b). Notation Fc_ := (Fin c). Notation Fd_ := (Fin d).

Lemma A_def : A_abcd XR Fa_ Fb_ Fc_ Fd_ = tb_A a b c d.
Proof. unfold A_abcd. solve_score. Qed.
Lemma B_def : B_abcd XR Fa_ Fb_ Fc_ Fd_ = tb_B a b c d.
Proof. unfold B_abcd. solve_score. Qed.
Lemma C_def : C_abcd XR Fa_ Fb_ Fc_ Fd_ = tb_C a b c d.
Proof. unfold C_abcd. solve_score. Qed.
Lemma D_def : D_abcd XR Fa_ Fb_ Fc_ Fd_ = tb_D a b c d.
Proof. unfold D_abcd. solve_score. Qed.
Lemma N_def : N_abcd XR Fa_ Fb_ Fc_ Fd_ = tb_N a b c d.
Proof. unfold N_abcd. solve_score. Qed.
Lemma BaseRate_def : BaseRate_abcd XR Fa_ Fb_ Fc_ Fd_ = tb_BaseRate a b c d.
Proof. unfold BaseRate_abcd. solve_score. Qed.
Lemma FcstRate_def : FcstRate_abcd XR Fa_ Fb_ Fc_ Fd_ = tb_FcstRate a b c d.
Proof. unfold FcstRate_abcd. solve_score. Qed.
Lemma Pc_def : Pc_abcd XR Fa_ Fb_ Fc_ Fd_ = tb_Pc a b c d.
Proof. unfold Pc_abcd. solve_score. Qed.
Lemma Hit_def : Hit_abcd XR Fa_ Fb_ Fc_ Fd_ = tb_Hit a b c d.
Proof. unfold Hit_abcd. solve_score. Qed.
Lemma Miss_def : Miss_abcd XR Fa_ Fb_ Fc_ Fd_ = tb_Miss a b c d.
Proof. unfold Miss_abcd. solve_score. Qed.
Lemma Fa_def : Fa_abcd XR Fa_ Fb_ Fc_ Fd_ = tb_Fa a b c d.
Proof. unfold Fa_abcd. solve_score. Qed.
Lemma Far_def : Far_abcd XR Fa_ Fb_ Fc_ Fd_ = tb_Far a b c d.
Proof. unfold Far_abcd. solve_score. Qed.
Lemma Threat_def : Threat_abcd XR Fa_ Fb_ Fc_ Fd_ = tb_Threat a b c d.
Proof. unfold Threat_abcd. solve_score. Qed.
Lemma BiasFreq_def : BiasFreq_abcd XR Fa_ Fb_ Fc_ Fd_ = tb_BiasFreq a b c d.
Proof. unfold BiasFreq_abcd. solve_score. Qed.
Lemma Kss_def : Kss_abcd XR Fa_ Fb_ Fc_ Fd_ = tb_Kss a b c d.
Proof. unfold Kss_abcd. solve_score. Qed.
Lemma Or_def : Or_abcd XR Fa_ Fb_ Fc_ Fd_ = tb_Or a b c d.
Proof. unfold Or_abcd. solve_score. Qed.
Lemma YulesQ_def : YulesQ_abcd XR Fa_ Fb_ Fc_ Fd_ = tb_YulesQ a b c d.
Proof. unfold YulesQ_abcd. solve_score. Qed.
Lemma Hss_def : Hss_abcd XR Fa_ Fb_ Fc_ Fd_ = tb_Hss a b c d.
Proof. unfold Hss_abcd. solve_score. Qed.
Lemma Dscore_def : Dscore_abcd XR Fa_ Fb_ Fc_ Fd_ = tb_Dscore a b c d.
Proof. unfold Dscore_abcd. solve_score. Qed.


Lemma Ets_def : Ets_abcd XR Fa_ Fb_ Fc_ Fd_ = tb_Ets a b c d.
Proof. unfold Ets_abcd. solve_score. Qed.
End S.

(* ---- the logarithmic scores ------------------------------------------------------------- *)
Ltac norm1 := rewrite ?Rdiv_one in *.
Ltac ne_contra :=
  exfalso; match goal with Hne : ?x <> 0 |- _ => apply Hne; first [lra | nra] end.
Ltac side_ln :=
  match goal with
  | |- _ /\ _ => split; side_ln
  | |- _ <> 0 => first [ assumption | lra | nra | let K := fresh "K" in intro K; ne_contra ]
  end.
Ltac leaf_ln :=
  norm1; cbn [orb andb negb] in *;
  first [ reflexivity
        | apply f_equal; field; side_ln
        | apply f_equal; apply f_equal; field; side_ln
        | ne_contra
        | exfalso; nra ].

Lemma ln_split a c n : 0 < a -> 0 <= c -> 0 < n -> ln (a / n) = ln ((a + c) / n) + ln (a / (a + c)).
Proof.
  intros Ha Hc Hn. rewrite <- ln_mult.
  - f_equal. field. lra.
  - apply Rdiv_lt_0_compat; lra.
  - apply Rdiv_lt_0_compat; lra.
Qed.

Section L.
Variables a b c d : R.
Variable Ha : 0 <= a.
Variable Hb : 0 <= b.
Variable Hc : 0 <= c.
Variable Hd : 0 <= d.
Notation Fa_ := (Fin a). Notation Fb_ := (Fin b). Notation Fc_ := (Fin c). Notation Fd_ := (Fin d).

Lemma Lor_def : Lor_abcd XR Fa_ Fb_ Fc_ Fd_ = tb_Lor a b c d.
Proof.
  unfold Lor_abcd. spec_unfold; xr_unfold.
  destruct (Reqb (a*d) 0) eqn:E1; [reflexivity|]. apply Reqb_false in E1.
  destruct (Reqb (b*c) 0) eqn:E2; [reflexivity|]. apply Reqb_false in E2.
  cbn [orb]. assert (0 < a*d) by nra. assert (0 < b*c) by nra.
  rbq. apply f_equal. apply f_equal. field. nra.
Qed.

Lemma Edi_def : Edi_abcd XR Fa_ Fb_ Fc_ Fd_ = tb_Edi a b c d.
Proof.
  unfold Edi_abcd. spec_unfold; xr_unfold.
  destruct (Reqb (b+d) 0) eqn:E1; [reflexivity|]. apply Reqb_false in E1.
  destruct (Reqb (a+c) 0) eqn:E2; [reflexivity|]. apply Reqb_false in E2.
  cbn [orb]. rbq; leaf_ln.
Qed.

Lemma Eds_def : Eds_abcd XR Fa_ Fb_ Fc_ Fd_ = tb_Eds a b c d.
Proof.
  unfold Eds_abcd. spec_unfold; xr_unfold.
  destruct (Reqb (a+c) 0) eqn:E1; [reflexivity|]. apply Reqb_false in E1.
  destruct (Reqb a 0) eqn:E2.
  - apply Reqb_true in E2. subst a. cbn [orb].
    replace (0 / 1 / (0 + c)) with 0 by (field; lra).
    rbq; leaf_ln.
  - apply Reqb_false in E2. cbn [orb].
    assert (Hn : 0 < a + b + c + d) by lra.
    rewrite (ln_split a c (a + b + c + d)) by lra.
    rbq; leaf_ln.
Qed.

Lemma Seds_def : Seds_abcd XR Fa_ Fb_ Fc_ Fd_ = tb_Seds a b c d.
Proof.
  unfold Seds_abcd. spec_unfold; xr_unfold.
  destruct (Reqb (a+c) 0) eqn:E1; [reflexivity|]. apply Reqb_false in E1.
  destruct (Reqb a 0) eqn:E2.
  - apply Reqb_true in E2. subst a. cbn [orb].
    replace (0 / 1 / (0 + c)) with 0 by (field; lra).
    rbq; leaf_ln.
  - apply Reqb_false in E2. cbn [orb].
    assert (Hn : 0 < a + b + c + d) by lra.
    rewrite (ln_split a c (a + b + c + d)) by lra.
    rbq; leaf_ln.
Qed.
End L.

Lemma Reqb_frac0 x y : x + y <> 0 -> Reqb (x / 1 / (x + y)) 0 = Reqb x 0.
Proof.
  intros Hxy. destruct (Reqb x 0) eqn:E.
  - apply Reqb_true in E. subst x. apply Reqb_true. field. lra.
  - apply Reqb_false in E. apply Reqb_false. intro K. apply E.
    assert (x / 1 / (x + y) * (x + y) = x) by (field; lra). rewrite K in H. lra.
Qed.
Lemma Reqb_frac1 x y : x + y <> 0 -> Reqb (x / 1 / (x + y)) 1 = Reqb y 0.
Proof.
  intros Hxy. destruct (Reqb y 0) eqn:E.
  - apply Reqb_true in E. subst y. apply Reqb_true. field. lra.
  - apply Reqb_false in E. apply Reqb_false. intro K. apply E.
    assert (x / 1 / (x + y) * (x + y) = x) by (field; lra). rewrite K in H. lra.
Qed.
Lemma frac_lt_1 x y : 0 <= x -> 0 < y -> x / 1 / (x + y) < 1.
Proof.
  intros Hx Hy. rewrite Rdiv_one. apply Rmult_lt_reg_r with (x + y); [lra|].
  replace (x / (x + y) * (x + y)) with x by (field; lra). lra.
Qed.

Section L2.
Variables a b c d : R.
Variable Ha : 0 <= a.
Variable Hb : 0 <= b.
Variable Hc : 0 <= c.
Variable Hd : 0 <= d.
Notation Fa_ := (Fin a). Notation Fb_ := (Fin b). Notation Fc_ := (Fin c). Notation Fd_ := (Fin d).

Lemma Sedi_def : Sedi_abcd XR Fa_ Fb_ Fc_ Fd_ = tb_Sedi a b c d.
Proof.
  unfold Sedi_abcd. spec_unfold; xr_unfold.
  destruct (Reqb (b+d) 0) eqn:E1; [reflexivity|]. apply Reqb_false in E1.
  destruct (Reqb (a+c) 0) eqn:E2; [reflexivity|]. apply Reqb_false in E2.
  cbn [orb]. rewrite !Reqb_frac0, !Reqb_frac1 by assumption.
  destruct (Reqb a 0) eqn:Ea; destruct (Reqb b 0) eqn:Eb; destruct (Reqb c 0) eqn:Ec;
    destruct (Reqb d 0) eqn:Ed; cbn [orb]; try reflexivity.
  apply Reqb_false in Ea, Eb, Ec, Ed.
  pose proof (frac_lt_1 b d Hb ltac:(lra)) as F1.
  pose proof (frac_lt_1 a c Ha ltac:(lra)) as H1.
  rbq; leaf_ln.
Qed.

(* the two textbook forms of the Heidke skill score agree wherever both are defined, and the
   expected-correct form is undefined on a subset of the tables where the closed form is *)
Lemma Hss_forms_agree :
  a + b + c + d <> 0 ->
  (a + c) * (c + d) + (a + b) * (b + d) <> 0 ->
  tb_Hss_expected a b c d = tb_Hss a b c d.
Proof.
  intros Hn Hden. spec_unfold. rbp; cbn [orb andb negb] in *.
  - exfalso. apply Hden. field_simplify_eq in E0; [nra | lra].
  - apply f_equal. field. split; [lra|]. intro K. apply E0. field_simplify_eq; [nra|lra].
Qed.
End L2.

(* ---- consequences of the definitions ------------------------------------------------------- *)
Definition all_scores : list (xr -> xr -> xr -> xr -> xr) :=
  [A_abcd XR; B_abcd XR; C_abcd XR; D_abcd XR; N_abcd XR; Ets_abcd XR; FcstRate_abcd XR; Dscore_abcd XR; Threat_abcd XR; Pc_abcd XR; Edi_abcd XR; Sedi_abcd XR; Eds_abcd XR; Seds_abcd XR; BiasFreq_abcd XR; Hss_abcd XR; BaseRate_abcd XR; Or_abcd XR; Lor_abcd XR; YulesQ_abcd XR; Kss_abcd XR; Hit_abcd XR; Miss_abcd XR; Fa_abcd XR; Far_abcd XR].

Definition fin_or_nan (x : xr) : Prop := x = NaN \/ exists r, x = Fin r.

Lemma rdiv_fin_or_nan n d : fin_or_nan (rdiv n d).
Proof. unfold rdiv, fin_or_nan. destruct (Reqb d 0); eauto. Qed.
Lemma undefined_if_fin_or_nan c x : fin_or_nan x -> fin_or_nan (undefined_if c x).
Proof. unfold undefined_if, fin_or_nan. destruct c; eauto. Qed.

Ltac fon :=
  repeat first [ apply rdiv_fin_or_nan | apply undefined_if_fin_or_nan
               | (right; eexists; reflexivity) | cbv zeta ].

(* no categorical score is ever infinite on a real table: it is a number or NaN *)
Lemma scores_fin_or_nan a b c d : 0 <= a -> 0 <= b -> 0 <= c -> 0 <= d ->
  Forall (fun f => fin_or_nan (f (Fin a) (Fin b) (Fin c) (Fin d))) all_scores.
Proof.
  intros Ha Hb Hc Hd. unfold all_scores.
  repeat (apply Forall_cons; [|]); try apply Forall_nil.
  - rewrite A_def by assumption. unfold tb_A. fon.
  - rewrite B_def by assumption. unfold tb_B. fon.
  - rewrite C_def by assumption. unfold tb_C. fon.
  - rewrite D_def by assumption. unfold tb_D. fon.
  - rewrite N_def by assumption. unfold tb_N. fon.
  - rewrite Ets_def by assumption. unfold tb_Ets. fon.
  - rewrite FcstRate_def by assumption. unfold tb_FcstRate. fon.
  - rewrite Dscore_def by assumption. unfold tb_Dscore. fon.
  - rewrite Threat_def by assumption. unfold tb_Threat. fon.
  - rewrite Pc_def by assumption. unfold tb_Pc. fon.
  - rewrite Edi_def by assumption. unfold tb_Edi. fon.
  - rewrite Sedi_def by assumption. unfold tb_Sedi. fon.
  - rewrite Eds_def by assumption. unfold tb_Eds. fon.
  - rewrite Seds_def by assumption. unfold tb_Seds. fon.
  - rewrite BiasFreq_def by assumption. unfold tb_BiasFreq. fon.
  - rewrite Hss_def by assumption. unfold tb_Hss. fon.
  - rewrite BaseRate_def by assumption. unfold tb_BaseRate. fon.
  - rewrite Or_def by assumption. unfold tb_Or. fon.
  - rewrite Lor_def by assumption. unfold tb_Lor. fon.
  - rewrite YulesQ_def by assumption. unfold tb_YulesQ. fon.
  - rewrite Kss_def by assumption. unfold tb_Kss. fon.
  - rewrite Hit_def by assumption. unfold tb_Hit. fon.
  - rewrite Miss_def by assumption. unfold tb_Miss. fon.
  - rewrite Fa_def by assumption. unfold tb_Fa. fon.
  - rewrite Far_def by assumption. unfold tb_Far. fon.
Qed.

(* what compute_from_obs_fcst does afterwards: infinities become NaN, everything else is kept *)
Lemma finish_spec (v : xr) :
  contingency_finish XR v = match v with PInf | NInf => NaN | _ => v end.
Proof. destruct v; reflexivity. Qed.
Lemma finish_never_inf (v : xr) : n_isinf XR (contingency_finish XR v) = false.
Proof. destruct v; reflexivity. Qed.

(* perfect forecasts (b = c = 0) attain the declared perfect score wherever the score is defined *)
Definition perfect_ok (f : xr -> xr -> xr -> xr -> xr) (p : option xr) (a d : R) : Prop :=
  match p with
  | None => True
  | Some v => f (Fin a) (Fin 0) (Fin 0) (Fin d) = NaN \/ f (Fin a) (Fin 0) (Fin 0) (Fin d) = v
  end.

Ltac perf lem pdef :=
  intros a d Ha Hd; unfold perfect_ok, pdef; cbn [XR xops n_lit]; unfold x_lit; cbn [RBase b_ofZ];
  rewrite (lem a 0 0 d) by lra; spec_unfold; rbp; cbn [orb andb negb];
  first [ left; reflexivity
        | right; apply f_equal; field; side
        | right; apply f_equal; nra ].
Lemma Ets_perfect_ok : forall a d, 0 <= a -> 0 <= d -> perfect_ok (Ets_abcd XR) (Ets_perfect XR) a d.
Proof. perf Ets_def Ets_perfect. Qed.
Lemma Dscore_perfect_ok : forall a d, 0 <= a -> 0 <= d -> perfect_ok (Dscore_abcd XR) (Dscore_perfect XR) a d.
Proof. perf Dscore_def Dscore_perfect. Qed.
Lemma Threat_perfect_ok : forall a d, 0 <= a -> 0 <= d -> perfect_ok (Threat_abcd XR) (Threat_perfect XR) a d.
Proof. perf Threat_def Threat_perfect. Qed.
Lemma Pc_perfect_ok : forall a d, 0 <= a -> 0 <= d -> perfect_ok (Pc_abcd XR) (Pc_perfect XR) a d.
Proof. perf Pc_def Pc_perfect. Qed.
Lemma BiasFreq_perfect_ok : forall a d, 0 <= a -> 0 <= d -> perfect_ok (BiasFreq_abcd XR) (BiasFreq_perfect XR) a d.
Proof. perf BiasFreq_def BiasFreq_perfect. Qed.
Lemma Hss_perfect_ok : forall a d, 0 <= a -> 0 <= d -> perfect_ok (Hss_abcd XR) (Hss_perfect XR) a d.
Proof. perf Hss_def Hss_perfect. Qed.
Lemma YulesQ_perfect_ok : forall a d, 0 <= a -> 0 <= d -> perfect_ok (YulesQ_abcd XR) (YulesQ_perfect XR) a d.
Proof. perf YulesQ_def YulesQ_perfect. Qed.
Lemma Kss_perfect_ok : forall a d, 0 <= a -> 0 <= d -> perfect_ok (Kss_abcd XR) (Kss_perfect XR) a d.
Proof. perf Kss_def Kss_perfect. Qed.
Lemma Hit_perfect_ok : forall a d, 0 <= a -> 0 <= d -> perfect_ok (Hit_abcd XR) (Hit_perfect XR) a d.
Proof. perf Hit_def Hit_perfect. Qed.
Lemma Miss_perfect_ok : forall a d, 0 <= a -> 0 <= d -> perfect_ok (Miss_abcd XR) (Miss_perfect XR) a d.
Proof. perf Miss_def Miss_perfect. Qed.
Lemma Fa_perfect_ok : forall a d, 0 <= a -> 0 <= d -> perfect_ok (Fa_abcd XR) (Fa_perfect XR) a d.
Proof. perf Fa_def Fa_perfect. Qed.
Lemma Far_perfect_ok : forall a d, 0 <= a -> 0 <= d -> perfect_ok (Far_abcd XR) (Far_perfect XR) a d.
Proof. perf Far_def Far_perfect. Qed.

Lemma Reqb_refl x : Reqb x x = true.
Proof. apply Reqb_true. reflexivity. Qed.

Lemma Edi_perfect_ok : forall a d, 0 <= a -> 0 <= d -> perfect_ok (Edi_abcd XR) (Edi_perfect XR) a d.
Proof.
  intros a d Ha Hd. unfold perfect_ok, Edi_perfect. rewrite (Edi_def a 0 0 d) by lra.
  left. unfold tb_Edi, undefined_if. rewrite (Reqb_refl 0). rewrite !orb_true_r. reflexivity.
Qed.
Lemma Sedi_perfect_ok : forall a d, 0 <= a -> 0 <= d -> perfect_ok (Sedi_abcd XR) (Sedi_perfect XR) a d.
Proof.
  intros a d Ha Hd. unfold perfect_ok, Sedi_perfect. rewrite (Sedi_def a 0 0 d) by lra.
  left. unfold tb_Sedi, undefined_if. rewrite (Reqb_refl 0). rewrite ?orb_true_r. reflexivity.
Qed.
Lemma Eds_perfect_ok : forall a d, 0 <= a -> 0 <= d -> perfect_ok (Eds_abcd XR) (Eds_perfect XR) a d.
Proof.
  intros a d Ha Hd. unfold perfect_ok, Eds_perfect. rewrite (Eds_def a 0 0 d) by lra.
  unfold tb_Eds, undefined_if, tot.
  destruct (Reqb (a + 0) 0 || Reqb a 0 || Reqb (ln (a / (a + 0 + 0 + d))) 0) eqn:E; [left; reflexivity|].
  right. apply orb_false_elim in E. destruct E as [_ E]. apply Reqb_false in E.
  cbn [XR xops n_lit]. unfold x_lit. cbn [RBase b_ofZ]. apply f_equal.
  replace ((a + 0) / (a + 0 + 0 + d)) with (a / (a + 0 + 0 + d)) by (f_equal; lra).
  field. assumption.
Qed.
Lemma Seds_perfect_ok : forall a d, 0 <= a -> 0 <= d -> perfect_ok (Seds_abcd XR) (Seds_perfect XR) a d.
Proof.
  intros a d Ha Hd. unfold perfect_ok, Seds_perfect. rewrite (Seds_def a 0 0 d) by lra.
  unfold tb_Seds, undefined_if, tot, rp, rq, tot.
  destruct (Reqb (a + 0) 0 || Reqb a 0 || Reqb (ln (a / (a + 0 + 0 + d))) 0) eqn:E; [left; reflexivity|].
  right. apply orb_false_elim in E. destruct E as [_ E]. apply Reqb_false in E.
  cbn [XR xops n_lit]. unfold x_lit. cbn [RBase b_ofZ]. apply f_equal.
  replace ((a + 0) / (a + 0 + 0 + d)) with (a / (a + 0 + 0 + d)) by (f_equal; lra).
  field. assumption.
Qed.

(* ---- counting the table (generated compute_abcd) ------------------------------------------ *)
Section Count.
Definition vneg (l : list (option bool)) := map (option_map negb) l.
Definition both (X Y : list (option bool)) : list (option bool) :=
  map (fun p => mandb (fst p) (snd p)) (combine X Y).
Definition pair_valid (p : option bool * option bool) : bool := is_some (fst p) && is_some (snd p).
Definition cnt (l : list (option bool)) : nat := length (filter is_some_true l).

Lemma both_some X Y : existsb is_some (both X Y) = existsb pair_valid (combine X Y).
Proof.
  unfold both. revert Y. induction X as [|x X IH]; intros [|y Y]; try reflexivity.
  cbn [combine map existsb]. rewrite IH. f_equal. destruct x, y; reflexivity.
Qed.
Lemma both_some_negl X Y : existsb is_some (both (vneg X) Y) = existsb pair_valid (combine X Y).
Proof.
  unfold both, vneg. revert Y. induction X as [|x X IH]; intros [|y Y]; try reflexivity.
  cbn [combine map existsb]. rewrite IH. f_equal. destruct x, y; reflexivity.
Qed.
Lemma both_some_negr X Y : existsb is_some (both X (vneg Y)) = existsb pair_valid (combine X Y).
Proof.
  unfold both, vneg. revert Y. induction X as [|x X IH]; intros [|y Y]; try reflexivity.
  cbn [combine map existsb]. rewrite IH. f_equal. destruct x, y; reflexivity.
Qed.
Lemma both_some_negb X Y : existsb is_some (both (vneg X) (vneg Y)) = existsb pair_valid (combine X Y).
Proof.
  unfold both, vneg. revert Y. induction X as [|x X IH]; intros [|y Y]; try reflexivity.
  cbn [combine map existsb]. rewrite IH. f_equal. destruct x, y; reflexivity.
Qed.

(* every valid pair is counted in exactly one cell, invalid pairs in none *)
Lemma cells_partition X Y :
  (cnt (both X Y) + cnt (both X (vneg Y)) + cnt (both (vneg X) Y) + cnt (both (vneg X) (vneg Y)))%nat
  = length (filter pair_valid (combine X Y)).
Proof.
  unfold cnt, both, vneg. revert Y. induction X as [|x X IH]; intros [|y Y]; try reflexivity.
  cbn [combine map filter]. specialize (IH Y).
  destruct x as [[|]|], y as [[|]|]; cbn [mandb option_map negb is_some_true pair_valid fst snd is_some andb length];
    cbn [filter length] ; lia.
Qed.

Lemma both_comm X Y : both X Y = both Y X.
Proof.
  unfold both. revert Y. induction X as [|x X IH]; intros [|y Y]; try reflexivity.
  cbn [combine map]. rewrite IH. f_equal. destruct x, y; cbn; try reflexivity. rewrite andb_comm. reflexivity.
Qed.
Lemma vneg_invol X : vneg (vneg X) = X.
Proof.
  unfold vneg. rewrite map_map. rewrite <- (map_id X) at 2. apply map_ext.
  intros [[|]|]; reflexivity.
Qed.
End Count.

Definition within_all (iv : interval XR) (v : list xr) : list (option bool) := map (iv_within XR iv) v.

(* the generated counting function, in terms of `both` / `vneg` *)
Lemma compute_abcd_unfold iv fiv obs fcst :
  compute_abcd XR iv fiv obs fcst =
  if n_ltb XR (n_lit XR 0 1) (n_ofnat XR (length fcst)) then
    let F := within_all fiv fcst in let O := within_all iv obs in
    (masum XR (both F O), masum XR (both F (vneg O)), masum XR (both (vneg F) O), masum XR (both (vneg F) (vneg O)))
  else (NaN, NaN, NaN, NaN).
Proof. reflexivity. Qed.

Definition valid_pair (p : xr * xr) : bool := negb (n_isnan XR (fst p)) && negb (n_isnan XR (snd p)).

Lemma combine_within iv fiv fcst obs :
  combine (within_all fiv fcst) (within_all iv obs)
  = map (fun p => (iv_within XR fiv (fst p), iv_within XR iv (snd p))) (combine fcst obs).
Proof.
  unfold within_all. revert obs. induction fcst as [|f fcst IH]; intros [|o obs]; try reflexivity.
  cbn [map combine]. rewrite IH. reflexivity.
Qed.

Lemma is_some_within iv (x : xr) : is_some (iv_within XR iv x) = negb (n_isnan XR x).
Proof. unfold iv_within, within_elem. destruct x; reflexivity. Qed.

Lemma filter_map_length {A B} (f : B -> bool) (g : A -> B) (h : A -> bool) (l : list A) :
  (forall p, f (g p) = h p) -> length (filter f (map g l)) = length (filter h l).
Proof.
  intros E. induction l as [|p l IH]; [reflexivity|]. cbn [map filter]. rewrite E.
  destruct (h p); cbn [length]; rewrite IH; reflexivity.
Qed.
Lemma existsb_map {A B} (f : B -> bool) (g : A -> B) (h : A -> bool) (l : list A) :
  (forall p, f (g p) = h p) -> existsb f (map g l) = existsb h l.
Proof.
  intros E. induction l as [|p l IH]; [reflexivity|]. cbn [map existsb]. rewrite E, IH. reflexivity.
Qed.
Lemma pair_valid_within iv fiv (p : xr * xr) :
  pair_valid (iv_within XR fiv (fst p), iv_within XR iv (snd p)) = valid_pair p.
Proof. unfold pair_valid, valid_pair. cbn [fst snd]. rewrite !is_some_within. reflexivity. Qed.

Lemma valid_count iv fiv fcst obs :
  length (filter pair_valid (combine (within_all fiv fcst) (within_all iv obs)))
  = length (filter valid_pair (combine fcst obs)).
Proof. rewrite combine_within. apply filter_map_length. apply pair_valid_within. Qed.

Lemma valid_exists iv fiv fcst obs :
  existsb pair_valid (combine (within_all fiv fcst) (within_all iv obs))
  = existsb valid_pair (combine fcst obs).
Proof. rewrite combine_within. apply existsb_map. apply pair_valid_within. Qed.

Lemma masum_some l : existsb is_some l = true -> masum XR l = Fin (IZR (Z.of_nat (cnt l))).
Proof. intros H. unfold masum. rewrite H. reflexivity. Qed.
Lemma masum_none l : l <> [] -> existsb is_some l = false -> masum XR l = NaN.
Proof. intros Hne H. unfold masum. rewrite H. destruct l; [congruence | reflexivity]. Qed.

Lemma ltb_0_len (l : list xr) : n_ltb XR (n_lit XR 0 1) (n_ofnat XR (length l)) = match l with [] => false | _ => true end.
Proof.
  cbn [XR xops n_ltb n_lit n_ofnat]. unfold x_lit, x_ltb. cbn [RBase b_ofZ b_ltb].
  destruct l as [|x l]; cbn [length].
  - apply Rltb_false. cbn. lra.
  - apply Rltb_true. apply IZR_lt. lia.
Qed.

(* (a) the four counts sum to the number of valid pairs; each valid pair is in exactly one cell *)
Lemma abcd_sum iv fiv obs fcst :
  existsb valid_pair (combine fcst obs) = true ->
  let '(a, b, c, d) := compute_abcd XR iv fiv obs fcst in
  n_add XR (n_add XR (n_add XR a b) c) d
  = Fin (IZR (Z.of_nat (length (filter valid_pair (combine fcst obs))))).
Proof.
  intros Hex. rewrite compute_abcd_unfold, ltb_0_len.
  destruct fcst as [|f fcst]; [discriminate Hex|]. cbv zeta.
  set (F := within_all fiv (f :: fcst)). set (O := within_all iv obs).
  assert (HE : existsb pair_valid (combine F O) = true) by (unfold F, O; rewrite valid_exists; exact Hex).
  rewrite (masum_some (both F O)) by (rewrite both_some; exact HE).
  rewrite (masum_some (both F (vneg O))) by (rewrite both_some_negr; exact HE).
  rewrite (masum_some (both (vneg F) O)) by (rewrite both_some_negl; exact HE).
  rewrite (masum_some (both (vneg F) (vneg O))) by (rewrite both_some_negb; exact HE).
  cbn [XR xops n_add]. unfold x_add. cbn [RBase b_add]. apply f_equal.
  rewrite <- !plus_IZR, <- !Nat2Z.inj_add. rewrite cells_partition.
  unfold F, O. rewrite valid_count. reflexivity.
Qed.

(* ... and when no pair is valid all four are missing *)
Lemma abcd_no_valid iv fiv obs fcst :
  fcst <> [] -> length obs = length fcst -> existsb valid_pair (combine fcst obs) = false ->
  compute_abcd XR iv fiv obs fcst = (NaN, NaN, NaN, NaN).
Proof.
  intros Hne Hlen Hex. rewrite compute_abcd_unfold, ltb_0_len.
  destruct fcst as [|f fcst]; [congruence|]. destruct obs as [|o obs]; [discriminate Hlen|]. cbv zeta.
  set (F := within_all fiv (f :: fcst)). set (O := within_all iv (o :: obs)).
  assert (HE : existsb pair_valid (combine F O) = false) by (unfold F, O; rewrite valid_exists; exact Hex).
  assert (NE : forall X Y : list (option bool), X <> [] -> Y <> [] -> both X Y <> [])
    by (intros [|x X] [|y Y] HX HY; try congruence; unfold both; cbn [combine map]; discriminate).
  assert (NF : F <> []) by (unfold F, within_all; cbn [map]; discriminate).
  assert (NO : O <> []) by (unfold O, within_all; cbn [map]; discriminate).
  assert (NF' : vneg F <> []) by (unfold F, vneg, within_all; cbn [map]; discriminate).
  assert (NO' : vneg O <> []) by (unfold O, vneg, within_all; cbn [map]; discriminate).
  rewrite (masum_none (both F O)) by (auto; rewrite both_some; exact HE).
  rewrite (masum_none (both F (vneg O))) by (auto; rewrite both_some_negr; exact HE).
  rewrite (masum_none (both (vneg F) O)) by (auto; rewrite both_some_negl; exact HE).
  rewrite (masum_none (both (vneg F) (vneg O))) by (auto; rewrite both_some_negb; exact HE).
  reflexivity.
Qed.

(* (b) exchanging observations and forecasts exchanges false alarms and misses *)
Lemma abcd_swap iv obs fcst :
  length obs = length fcst ->
  compute_abcd XR iv iv fcst obs
  = let '(a, b, c, d) := compute_abcd XR iv iv obs fcst in (a, c, b, d).
Proof.
  intros Hlen. rewrite !compute_abcd_unfold, !ltb_0_len.
  destruct fcst as [|f fcst]; destruct obs as [|o obs]; try discriminate Hlen; [reflexivity|]. cbv zeta.
  rewrite (both_comm (within_all iv (o :: obs)) (within_all iv (f :: fcst))).
  rewrite (both_comm (within_all iv (o :: obs)) (vneg (within_all iv (f :: fcst)))).
  rewrite (both_comm (vneg (within_all iv (o :: obs))) (within_all iv (f :: fcst))).
  rewrite (both_comm (vneg (within_all iv (o :: obs))) (vneg (within_all iv (f :: fcst)))).
  reflexivity.
Qed.

(* (c) complementing the event exchanges hits with correct rejections and false alarms with misses *)
Lemma abcd_complement iv iv' obs fcst :
  (forall x, iv_within XR iv' x = option_map negb (iv_within XR iv x)) ->
  compute_abcd XR iv' iv' obs fcst
  = let '(a, b, c, d) := compute_abcd XR iv iv obs fcst in (d, c, b, a).
Proof.
  intros Hc. rewrite !compute_abcd_unfold. destruct (n_ltb XR (n_lit XR 0 1) (n_ofnat XR (length fcst))); [|reflexivity].
  cbv zeta.
  assert (HW : forall v, within_all iv' v = vneg (within_all iv v)).
  { intros v. unfold within_all, vneg. rewrite map_map. apply map_ext. intros x. apply Hc. }
  rewrite !HW, !vneg_invol. reflexivity.
Qed.
