(* Proofs/C02_order.v -- the verified dimensions do not depend on the order of entries inside an input
   nor on the order of the inputs: two strictly ascending lists with the same members are equal. *)
From Coq Require Import ZArith List Bool Lia Sorted Permutation.
From VF Require Import Model.Data Proofs.Data_lemmas.
Import ListNotations.
Local Open Scope Z_scope.

Lemma ssorted_head_min x l : ssorted (x :: l) -> forall y, In y l -> x < y.
Proof. intros H y Hy. inversion H as [|? ? _ Hall]; subst. rewrite Forall_forall in Hall. apply Hall; exact Hy. Qed.

Lemma ssorted_ext l1 : forall l2, ssorted l1 -> ssorted l2 -> (forall x, In x l1 <-> In x l2) -> l1 = l2.
Proof.
  induction l1 as [|a l1 IH]; intros [|b l2] S1 S2 E.
  - reflexivity.
  - exfalso. apply (proj2 (E b)). left; reflexivity.
  - exfalso. apply (proj1 (E a)). left; reflexivity.
  - assert (a = b).
    { destruct (proj1 (E a) (or_introl eq_refl)) as [Hab|Hin]; [congruence|].
      destruct (proj2 (E b) (or_introl eq_refl)) as [Hba|Hin']; [congruence|].
      pose proof (ssorted_head_min _ _ S2 a Hin). pose proof (ssorted_head_min _ _ S1 b Hin'). lia. }
    subst b. f_equal. apply IH.
    + inversion S1; assumption.
    + inversion S2; assumption.
    + intros x. split; intros Hx.
      * destruct (proj1 (E x) (or_intror Hx)) as [->|H']; [|exact H'].
        exfalso. pose proof (ssorted_head_min _ _ S1 x Hx). lia.
      * destruct (proj2 (E x) (or_intror Hx)) as [->|H']; [|exact H'].
        exfalso. pose proof (ssorted_head_min _ _ S2 x Hx). lia.
Qed.

(* the common coordinates depend only on WHICH entries each input has, not on their order, their
   multiplicity, or the order of the inputs *)
Theorem common_values_order_free keys keys' aux : keys <> [] -> keys' <> [] ->
  (forall x, (forall k, In k keys -> In x k) <-> (forall k, In k keys' -> In x k)) ->
  common_values keys aux = common_values keys' aux.
Proof.
  intros N N' E. apply ssorted_ext; try apply common_values_sorted.
  intros x. rewrite !common_values_spec by assumption. rewrite E. reflexivity.
Qed.

(* in particular: permuting the entries of every input, and permuting the inputs *)
Lemma forall2_perm_members keys keys' : Forall2 (fun k k' : list Z => Permutation k k') keys keys' ->
  forall x, (forall k, In k keys -> In x k) <-> (forall k, In k keys' -> In x k).
Proof.
  induction 1 as [|k k' r r' P F IH]; intros x; [tauto|]. specialize (IH x). split; intros H k0 [<-|Hk].
  - apply (Permutation_in _ P). apply H. left; reflexivity.
  - apply (proj1 IH); [intros k2 Hk2; apply H; right; exact Hk2 | exact Hk].
  - apply (Permutation_in _ (Permutation_sym P)). apply H. left; reflexivity.
  - apply (proj2 IH); [intros k2 Hk2; apply H; right; exact Hk2 | exact Hk].
Qed.
Corollary common_values_permuted_entries keys keys' aux : keys <> [] ->
  Forall2 (fun k k' => Permutation k k') keys keys' -> common_values keys aux = common_values keys' aux.
Proof.
  intros N F. assert (N' : keys' <> []) by (destruct F; [congruence | discriminate]).
  apply common_values_order_free; try assumption. apply forall2_perm_members. exact F.
Qed.
Corollary common_values_permuted_inputs keys keys' aux : keys <> [] -> Permutation keys keys' ->
  common_values keys aux = common_values keys' aux.
Proof.
  intros N P. assert (N' : keys' <> []) by (intros ->; apply Permutation_sym, Permutation_nil in P; congruence).
  apply common_values_order_free; try assumption.
  intros x. split; intros H k Hk; apply H; [apply (Permutation_in _ (Permutation_sym P)) | apply (Permutation_in _ P)]; exact Hk.
Qed.
