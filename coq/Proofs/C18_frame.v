(* Proofs/C18_frame.v -- FRAME property of the stateful model with the repair (copy_all = true), for
   histories of any length: a call of get_scores writes only to (a) the cached per-field arrays and
   (b) objects it has just allocated; arrays handed out by earlier calls are never touched again. *)
From Coq Require Import ZArith List Bool Lia.
From VF Require Import Model.Data Model.DataState Proofs.C18_proofs.
Import ListNotations.

Section S.
Variable V : Type.
Variable vltb : V -> V -> bool.
Variable vsub vdiv : V -> V -> option V.
Variable axis_of : nat -> axis.
Notation step := (step V vltb vsub vdiv true axis_of).
Notation run := (run V vltb vsub vdiv true axis_of).
Notation state := (state V).
Notation heap := (heap V). Notation fcache := (fcache V). Notation scache := (scache V).
Notation read := (read V). Notation write := (write V). Notation alloc := (alloc V). Notation alloc_all := (alloc_all V).

Definition fc_ids (s : state) : list nat := concat (map snd (fcache s)).
Definition sc_ids (s : state) : list nat := concat (map snd (scache s)).
Definition hlen (s : state) : nat := length (heap s).

Variable d : data V.
Definition wf_fc (s : state) : Prop :=
  (forall id, In id (fc_ids s) -> id < hlen s) /\
  (forall f ids, find_fcache V s f = Some ids -> length ids = length (d_inputs d)).

(* s' extends s: old objects that are not field-cache arrays keep their content; new field-cache ids are fresh *)
Record ext (s s' : state) : Prop := {
  e_len : hlen s <= hlen s';
  e_read : forall id, id < hlen s -> ~ In id (fc_ids s) -> read s' id = read s id;
  e_fc_old : forall id, In id (fc_ids s) -> In id (fc_ids s');
  e_fc_new : forall id, In id (fc_ids s') -> In id (fc_ids s) \/ hlen s <= id;
  e_sc : scache s' = scache s;
  e_wf : wf_fc s -> wf_fc s'
}.

Lemma ext_refl s : ext s s.
Proof. constructor; auto. Qed.


Lemma ext_trans s1 s2 s3 : ext s1 s2 -> ext s2 s3 -> ext s1 s3.
Proof.
  intros A B. constructor.
  - pose proof (e_len _ _ A). pose proof (e_len _ _ B). lia.
  - intros id Hlt Hn. rewrite (e_read _ _ B).
    + apply (e_read _ _ A); assumption.
    + pose proof (e_len _ _ A). lia.
    + intros Hin. destruct (e_fc_new _ _ A id Hin) as [H|H]; [contradiction | lia].
  - intros id H. apply (e_fc_old _ _ B). apply (e_fc_old _ _ A). exact H.
  - intros id H. destruct (e_fc_new _ _ B id H) as [H1|H1].
    + apply (e_fc_new _ _ A id H1).
    + right. pose proof (e_len _ _ A). lia.
  - rewrite (e_sc _ _ B). apply (e_sc _ _ A).
  - intros W. apply (e_wf _ _ B). apply (e_wf _ _ A). exact W.
Qed.

Lemma hlen_alloc s o : hlen (fst (alloc s o)) = S (hlen s).
Proof. unfold hlen. cbn. rewrite app_length. cbn. lia. Qed.

Lemma ext_alloc s o : ext s (fst (alloc s o)) /\ snd (alloc s o) = hlen s.
Proof.
  split; [|reflexivity]. constructor.
  - rewrite hlen_alloc. lia.
  - intros id Hlt _. apply alloc_preserves. exact Hlt.
  - intros id H. exact H.
  - intros id H. left. exact H.
  - reflexivity.
  - intros [W1 W2]. split; [|exact W2]. intros id H. specialize (W1 id H). rewrite hlen_alloc. unfold fc_ids in *. cbn in *. lia.
Qed.

Lemma set_nth_length {A} n (x : A) l : length (set_nth n x l) = length l.
Proof. revert n. induction l as [|h t IH]; intros [|n]; cbn; auto. Qed.

(* writing INTO a field-cache array *)
Lemma ext_write_fc s id o : In id (fc_ids s) -> ext s (write s id o).
Proof.
  intros Hin. constructor.
  - unfold hlen, DataState.write. cbn. rewrite set_nth_length. lia.
  - intros j Hlt Hn. apply write_other. intros ->. contradiction.
  - intros j H. exact H.
  - intros j H. left. exact H.
  - reflexivity.
  - intros [W1 W2]. split; [|exact W2]. intros j H. specialize (W1 j H). unfold hlen, DataState.write in *. cbn. rewrite set_nth_length. exact W1.
Qed.

Lemma alloc_all_spec s os : forall s' ids, alloc_all s os = (s', ids) ->
  ext s s' /\ hlen s' = hlen s + length os /\ length ids = length os /\
  (forall id, In id ids -> hlen s <= id < hlen s') /\ fcache s' = fcache s.
Proof.
  revert s. induction os as [|o os IH]; intros s s' ids H; cbn in H.
  - inversion H; subst. split; [apply ext_refl|]. split; [cbn; lia|]. split; [reflexivity|]. split; [intros id []|reflexivity].
  - match type of H with context [DataState.alloc_all V ?x os] => destruct (DataState.alloc_all V x os) as [s2 is_] eqn:E end.
    inversion H; subst; clear H.
    destruct (IH _ _ _ E) as (X & L & Li & R & Fc).
    destruct (ext_alloc s o) as [X0 _]. pose proof (hlen_alloc s o) as L0.
    change (fst (alloc s o)) with {| DataState.heap := heap s ++ [o]; DataState.fcache := fcache s; DataState.scache := scache s |} in *.
    split; [eapply ext_trans; eassumption|].
    split; [rewrite L, L0; cbn; lia|].
    split; [cbn; lia|].
    split; [|rewrite Fc; reflexivity].
    intros id [<-|H]; [rewrite L, L0; unfold hlen; lia|]. specialize (R id H). lia.
Qed.

Lemma find_fcache_in s f ids : find_fcache V s f = Some ids -> forall id, In id ids -> In id (fc_ids s).
Proof.
  unfold find_fcache. destruct (find _ (fcache s)) as [p|] eqn:E; [|discriminate].
  intros H id Hin. inversion H; subst. apply find_some in E. destruct E as [E _].
  unfold fc_ids. apply in_concat. exists (snd p). split; [apply in_map; exact E | exact Hin].
Qed.

Lemma loaded_length f : length (loaded V d f) = length (d_inputs d).
Proof. unfold loaded. rewrite map_length, combine_length, seq_length. lia. Qed.
Lemma get_score_all_length f cs : get_score_all V d f = OK cs -> length cs = length (d_inputs d).
Proof.
  unfold get_score_all. intros H.
  assert (forall l cs0, (match f with FObs => share_obs V l | _ => require_all V l end) = OK cs0 -> length cs0 = length l) as Hl.
  { intros l cs0. destruct f; unfold share_obs, require_all.
    - destruct (find _ l) as [[c0|]|]; try discriminate. intros E; inversion E; subst. apply map_length.
    - destruct (forallb _ l); [|discriminate]. intros E; inversion E; subst. apply map_length.
    - destruct (forallb _ l); [|discriminate]. intros E; inversion E; subst. apply map_length.
    - destruct (forallb _ l); [|discriminate]. intros E; inversion E; subst. apply map_length.
    - destruct (forallb _ l); [|discriminate]. intros E; inversion E; subst. apply map_length.
    - destruct (forallb _ l); [|discriminate]. intros E; inversion E; subst. apply map_length. }
  destruct (match f with FObs => share_obs V (loaded V d f) | _ => require_all V (loaded V d f) end) as [cs0|e] eqn:E; [|discriminate].
  inversion H; subst. unfold propagate. rewrite map_length. rewrite (Hl _ _ E). apply loaded_length.
Qed.

Lemma ensure_field_ext s f s' ids : ensure_field V d s f = OK (s', ids) ->
  ext s s' /\ (forall id, In id ids -> In id (fc_ids s')) /\ (wf_fc s -> length ids = length (d_inputs d)) /\
  (find_fcache V s f = None -> forall id, In id ids -> hlen s <= id < hlen s').
Proof.
  unfold ensure_field. destruct (find_fcache V s f) as [ids0|] eqn:Ef.
  - intros H; inversion H; subst. split; [apply ext_refl|]. split; [apply (find_fcache_in _ _ _ Ef)|].
    split; [intros [_ W2]; apply (W2 _ _ Ef) | discriminate].
  - destruct (get_score_all V d f) as [cs|e] eqn:Eg; [|discriminate].
    destruct (alloc_all s (map (fun c => OCube V c) cs)) as [s1 own] eqn:Ea.
    intros H; inversion H; subst; clear H.
    destruct (alloc_all_spec _ _ _ _ Ea) as (X & L & Li & R & Fc).
    set (ids := map _ (combine own _)).
    assert (Hlen : length ids = length (d_inputs d)).
    { pose proof (get_score_all_length _ _ Eg) as Lc.
      unfold ids. rewrite map_length, combine_length, Li, map_length, Lc.
      destruct f; rewrite ?map_length, ?loaded_length, ?Lc; lia. }
    assert (Hids : forall id, In id ids -> hlen s <= id < hlen s1).
    { intros id Hin. unfold ids in Hin. apply in_map_iff in Hin. destruct Hin as [[o b] [<- Hp]].
      pose proof (in_combine_l _ _ _ _ Hp) as Ho. cbn [fst snd]. destruct b; [|apply R; exact Ho].
      apply R. apply nth_In.
      match goal with |- (match ?x with _ => _ end < _) => destruct x as [[i bb]|] eqn:Efi end.
      - apply find_some in Efi. destruct Efi as [Efi _]. apply in_combine_l in Efi. apply in_seq in Efi.
        cbn [fst]. rewrite Li, map_length. lia.
      - destruct own; [destruct Ho | cbn; lia]. }
    split.
    + constructor; cbn.
      * apply (e_len _ _ X).
      * intros id Hlt Hn. apply (e_read _ _ X); assumption.
      * intros id Hin. unfold fc_ids. cbn. apply in_or_app. right. rewrite Fc. exact Hin.
      * intros id Hin. unfold fc_ids in Hin. cbn in Hin. apply in_app_or in Hin. destruct Hin as [Hin|Hin].
        -- right. apply (Hids id Hin).
        -- left. rewrite Fc in Hin. exact Hin.
      * apply (e_sc _ _ X).
      * intros [W1 W2]. split.
        -- intros id Hin. unfold fc_ids in Hin. cbn in Hin. apply in_app_or in Hin. destruct Hin as [Hin|Hin].
           ++ apply (Hids id Hin).
           ++ rewrite Fc in Hin. specialize (W1 id Hin). pose proof (e_len _ _ X). unfold hlen in *. cbn. lia.
        -- intros f' ids' Hf'. unfold find_fcache in Hf'. cbn [DataState.fcache find fst snd] in Hf'.
           destruct (field_eqb f' f) eqn:Eq.
           ++ inversion Hf'; subst. exact Hlen.
           ++ apply (W2 f' ids'). unfold find_fcache. rewrite <- Fc. exact Hf'.
    + split; [intros id Hin; unfold fc_ids; cbn; apply in_or_app; left; exact Hin|].
      split; [intros _; exact Hlen | intros _ id Hin; apply (Hids id Hin)].
Qed.

(* a per-field step that only extends the state and appends ONE freshly allocated id *)
Definition fresh_step (F : result (state * list nat) -> field -> result (state * list nat)) : Prop :=
  (forall e f, F (Error e) f = Error e) /\
  (forall st out f st' out', wf_fc st -> F (OK (st, out)) f = OK (st', out') ->
     ext st st' /\ exists nid, out' = (out ++ [nid])%list /\ hlen st <= nid < hlen st' /\ ~ In nid (fc_ids st')).

Lemma fold_fresh F : fresh_step F -> forall fields s out s' out', wf_fc s ->
  fold_left F fields (OK (s, out)) = OK (s', out') ->
  ext s s' /\ exists news, out' = (out ++ news)%list /\ forall id, In id news -> hlen s <= id < hlen s' /\ ~ In id (fc_ids s').
Proof.
  intros [He Hs]. induction fields as [|f fields IH]; intros s out s' out' W H; cbn in H.
  - inversion H; subst. split; [apply ext_refl|]. exists []. rewrite app_nil_r. split; [reflexivity | intros id []].
  - destruct (F (OK (s, out)) f) as [[st1 out1]|e] eqn:E1.
    + destruct (Hs _ _ _ _ _ W E1) as [X1 [nid [-> [Hn Hnf]]]].
      destruct (IH _ _ _ _ (e_wf _ _ X1 W) H) as [X2 [news [-> Hnews]]].
      split; [eapply ext_trans; eassumption|].
      exists (nid :: news). rewrite <- app_assoc. split; [reflexivity|].
      intros id [<-|Hin].
      * pose proof (e_len _ _ X2). split; [lia|].
        intros Hc. destruct (e_fc_new _ _ X2 _ Hc) as [Hc'|Hc']; [contradiction | lia].
      * destruct (Hnews id Hin) as [Hr Hnf']. pose proof (e_len _ _ X1). split; [lia | exact Hnf'].
    + exfalso. clear -H He. assert (Hx : forall l, fold_left F l (Error e) = Error e).
      { induction l as [|x l IHl]; cbn; [reflexivity | rewrite He; exact IHl]. }
      rewrite Hx in H. discriminate.
Qed.

(* the per-field body of step (copied from Model/DataState.v; the main theorem checks by conversion that it is the same term) *)
Definition fstep (k : nat) (clim : option (list (option V))) (kax : saxis) :=
  fun (acc : result (state * list nat)) (f : field) =>
          match acc with
          | Error e => Error e
          | OK (st, out) =>
            match ensure_field V d st f with
            | Error e => Error e
            | OK (st1, ids) =>
              let fid := nth k ids O in
              let st2 := match f with
                         | FObs => write st1 fid (OCube V (map (map (map (mask_obs_range V vltb (d_obs_range d)))) (read_cube V st1 fid)))
                         | _ => st1
                         end in
              let c := read_cube V st2 fid in
              let needs_op := match clim with Some _ => is_obs_or_fcst f | None => false end in
              match kax with
              | SAll =>
                  if needs_op then
                    let cl := match clim with Some l => l | None => [] end in
                    let vals := map (fun p : option V * option V => anomaly V vsub vdiv (d_clim_divide d) (fst p) (snd p)) (combine (flatten3 V c) cl) in
                    let '(st3, nid) := alloc st2 (OArr V (length c) vals) in OK (st3, out ++ [nid])
                  else if true then
                    let '(st3, nid) := alloc st2 (OArr V (length c) (flatten3 V c)) in OK (st3, out ++ [nid])
                  else OK (st2, out ++ [fid])
              | SAx ax ai =>
                  let flat := slice_of V d (axis_of ax) ai c in
                  let vals := if needs_op
                              then map (fun p : option V * option V => anomaly V vsub vdiv (d_clim_divide d) (fst p) (snd p))
                                       (combine flat (match clim with Some l => l | None => [] end))
                              else flat in
                  let '(st3, nid) := alloc st2 (OFlat V vals) in OK (st3, out ++ [nid])
              end
            end
          end.

Lemma alloc_fresh st o : wf_fc st ->
  ext st (fst (alloc st o)) /\ hlen st <= snd (alloc st o) < hlen (fst (alloc st o)) /\ ~ In (snd (alloc st o)) (fc_ids (fst (alloc st o))).
Proof.
  intros W. destruct (ext_alloc st o) as [X E]. split; [exact X|]. rewrite E, hlen_alloc. split; [lia|].
  intros Hc. destruct W as [W1 _]. specialize (W1 _ Hc). lia.
Qed.

Lemma fstep_fresh k clim kax : k < length (d_inputs d) -> fresh_step (fstep k clim kax).
Proof.
  intros Hk. split; [reflexivity|].
  intros st out f st' out' W H. unfold fstep in H.
  destruct (ensure_field V d st f) as [[st1 ids]|e] eqn:Ee; [|discriminate].
  destruct (ensure_field_ext _ _ _ _ Ee) as [X1 [Hin [Hl _]]].
  set (fid := nth k ids 0) in *.
  set (st2 := match f with FObs => write st1 fid _ | _ => st1 end) in *.
  assert (X2 : ext st1 st2).
  { unfold st2. destruct f; try apply ext_refl. apply ext_write_fc. apply Hin. apply nth_In. rewrite (Hl W). exact Hk. }
  assert (X12 : ext st st2) by (eapply ext_trans; eassumption).
  assert (W2 : wf_fc st2) by (apply (e_wf _ _ X12 W)).
  assert (Fin : forall o, st' = fst (alloc st2 o) -> out' = (out ++ [snd (alloc st2 o)])%list ->
      ext st st' /\ exists nid, out' = (out ++ [nid])%list /\ hlen st <= nid < hlen st' /\ ~ In nid (fc_ids st')).
  { intros o -> ->. destruct (alloc_fresh st2 o W2) as (X3 & R & Nf).
    split; [eapply ext_trans; eassumption|]. eexists; split; [reflexivity|]. split; [|exact Nf].
    pose proof (e_len _ _ X12). lia. }
  destruct kax as [|ax ai].
  - destruct (match clim with Some _ => is_obs_or_fcst f | None => false end).
    + cbv zeta in H. match type of H with context [alloc st2 ?o] => apply (Fin o) end; inversion H; reflexivity.
    + cbv zeta iota in H. match type of H with context [alloc st2 ?o] => apply (Fin o) end; inversion H; reflexivity.
  - cbv zeta in H. match type of H with context [alloc st2 ?o] => apply (Fin o) end; inversion H; reflexivity.
Qed.

(* in-place writes to objects above a watermark leave everything below it alone *)
Lemma fold_write_above (g : state -> nat -> obj V) ids : forall s N, (forall id, In id ids -> N <= id) ->
  let s' := fold_left (fun st id => write st id (g st id)) ids s in
  hlen s' = hlen s /\ fcache s' = fcache s /\ scache s' = scache s /\ forall id, id < N -> read s' id = read s id.
Proof.
  induction ids as [|i ids IH]; intros s N Hn; cbn.
  - repeat split; reflexivity.
  - destruct (IH (write s i (g s i)) N) as (A & B & C & D); [intros id Hin; apply Hn; right; exact Hin|].
    cbn zeta in *. rewrite A, B, C. split; [unfold hlen, DataState.write; cbn; apply set_nth_length|].
    split; [reflexivity|]. split; [reflexivity|].
    intros id Hlt. rewrite D by exact Hlt. apply write_other. specialize (Hn i (or_introl eq_refl)). lia.
Qed.

Definition inv (s : state) : Prop :=
  wf_fc s /\ (forall id, In id (sc_ids s) -> id < hlen s) /\ (forall id, In id (sc_ids s) -> ~ In id (fc_ids s)).

Lemma inv_init : inv (init V).
Proof. split; [split|split]; cbn; intros; try contradiction; discriminate. Qed.

Lemma fc_ids_eq s1 s2 : fcache s1 = fcache s2 -> fc_ids s1 = fc_ids s2.
Proof. unfold fc_ids. intros ->. reflexivity. Qed.

(* a state that agrees with s2 below a watermark N >= hlen s and has the same caches is still an extension of s *)
Lemma ext_agree s s2 sw N : ext s s2 -> hlen s <= N ->
  hlen sw = hlen s2 -> fcache sw = fcache s2 -> scache sw = scache s2 -> (forall id, id < N -> read sw id = read s2 id) ->
  ext s sw.
Proof.
  intros X HN Hl Hf Hs Hr. constructor.
  - rewrite Hl. apply (e_len _ _ X).
  - intros id Hlt Hn. rewrite Hr by lia. apply (e_read _ _ X); assumption.
  - intros id H. rewrite (fc_ids_eq _ _ Hf). apply (e_fc_old _ _ X). exact H.
  - intros id H. rewrite (fc_ids_eq _ _ Hf) in H. apply (e_fc_new _ _ X). exact H.
  - rewrite Hs. apply (e_sc _ _ X).
  - intros Wf. destruct (e_wf _ _ X Wf) as [W1 W2]. split.
    + intros id H. rewrite (fc_ids_eq _ _ Hf) in H. rewrite Hl. apply W1. exact H.
    + intros f ids H. apply (W2 f ids). unfold find_fcache in *. rewrite <- Hf. exact H.
Qed.

Lemma finish s s5 rq outids : inv s -> ext s s5 ->
  (forall id, In id outids -> hlen s <= id < hlen s5 /\ ~ In id (fc_ids s5)) ->
  let s' := {| DataState.heap := heap s5; DataState.fcache := fcache s5; DataState.scache := (rq, outids) :: scache s5 |} in
  inv s' /\ (forall id, In id (sc_ids s) -> read s' id = read s id) /\
  (forall id, In id (sc_ids s) -> In id (sc_ids s')) /\ (forall id, In id outids -> In id (sc_ids s')).
Proof.
  intros (W & Sl & Sd) X Ho s'.
  assert (Esc : sc_ids s' = (outids ++ sc_ids s)%list).
  { unfold sc_ids, s'. cbn. rewrite (e_sc _ _ X). reflexivity. }
  assert (Efc : fc_ids s' = fc_ids s5) by reflexivity.
  assert (Ehl : hlen s' = hlen s5) by reflexivity.
  split; [split; [|split]|split; [|split]].
  - destruct (e_wf _ _ X W) as [W1 W2]. split; [exact W1 | exact W2].
  - intros id H. rewrite Esc in H. rewrite Ehl. apply in_app_or in H. destruct H as [H|H].
    + apply (Ho id H).
    + specialize (Sl id H). pose proof (e_len _ _ X). lia.
  - intros id H. rewrite Esc in H. rewrite Efc. apply in_app_or in H. destruct H as [H|H].
    + apply (Ho id H).
    + intros Hc. destruct (e_fc_new _ _ X id Hc) as [Hc'|Hc']; [apply (Sd id H Hc') | specialize (Sl id H); lia].
  - intros id H. change (read s' id) with (read s5 id). apply (e_read _ _ X); [apply Sl; exact H | apply Sd; exact H].
  - intros id H. rewrite Esc. apply in_or_app. right. exact H.
  - intros id H. rewrite Esc. apply in_or_app. left. exact H.
Qed.

Theorem step_frame s rq s' ids : inv s -> step d s rq = OK (s', ids) ->
  inv s' /\ (forall id, In id (sc_ids s) -> read s' id = read s id) /\
  (forall id, In id (sc_ids s) -> In id (sc_ids s')) /\ (forall id, In id ids -> In id (sc_ids s')).
Proof.
  intros (W & Sl & Sd) H. unfold DataState.step in H.
  destruct (find _ (scache s)) as [p|] eqn:Ehit.
  - inversion H; subst. split; [exact (conj W (conj Sl Sd))|]. split; [reflexivity|]. split; [auto|].
    intros id Hin. apply find_some in Ehit. destruct Ehit as [Ehit _].
    unfold sc_ids. apply in_concat. exists (snd p). split; [apply in_map; exact Ehit | exact Hin].
  - destruct (negb (Nat.ltb (k_input rq) (num_inputs d))) eqn:Ek; [discriminate|].
    assert (Hk : k_input rq < length (d_inputs d)).
    { apply negb_false_iff in Ek. apply Nat.ltb_lt in Ek. unfold num_inputs in Ek. lia. }
    match type of H with match ?c with _ => _ end = _ => destruct c as [[s1 clim]|e] eqn:Ec; [|discriminate] end.
    assert (X01 : ext s s1).
    { destruct (d_has_clim d && existsb is_obs_or_fcst (k_fields rq)).
      - destruct (ensure_field V d s FFcst) as [[sa idsa]|e] eqn:Ee; [|discriminate].
        inversion Ec; subst. apply (ensure_field_ext _ _ _ _ Ee).
      - inversion Ec; subst. apply ext_refl. }
    change (fold_left _ (k_fields rq) (OK (s1, []))) with (fold_left (fstep (k_input rq) clim (k_axis rq)) (k_fields rq) (OK (s1, []))) in H.
    destruct (fold_left (fstep (k_input rq) clim (k_axis rq)) (k_fields rq) (OK (s1, []))) as [[s2 cur]|e] eqn:Ef; [|discriminate].
    assert (W1 : wf_fc s1) by (apply (e_wf _ _ X01 W)).
    destruct (fold_fresh _ (fstep_fresh (k_input rq) clim (k_axis rq) Hk) _ _ _ _ _ W1 Ef) as [X12 [news [Ecur Hnews]]].
    cbn [app] in Ecur. subst news.
    assert (X02 : ext s s2) by (eapply ext_trans; eassumption).
    assert (W2 : wf_fc s2) by (apply (e_wf _ _ X02 W)).
    pose proof (e_len _ _ X01) as L01. pose proof (e_len _ _ X12) as L12.
    destruct (k_axis rq) as [|ax ai].
    + (* whole arrays: in-place masking of the objects allocated in THIS call *)
      match type of H with context [fold_left (fun st id => write st id (@?g0 st id)) cur s2] => pose (g := g0) end.
      pose (sw := fold_left (fun st id => write st id (g st id)) cur s2).
      change (fold_left _ cur s2) with sw in H.
      destruct (fold_write_above g cur s2 (hlen s1)) as (Hl & Hf & Hs & Hr); [intros id Hin; apply (Hnews id Hin)|].
      fold sw in Hl, Hf, Hs, Hr.
      assert (X0w : ext s sw) by (apply (ext_agree s s2 sw (hlen s1) X02 L01 Hl Hf Hs Hr)).
      assert (Hcur : forall id, In id cur -> hlen s <= id < hlen sw /\ ~ In id (fc_ids sw)).
      { intros id Hin. destruct (Hnews id Hin) as [R N]. rewrite Hl, (fc_ids_eq _ _ Hf). split; [lia | exact N]. }
      destruct cur as [|id0 cur'].
      * cbv zeta iota beta in H. inversion H; subst. apply (finish s sw rq [] (conj W (conj Sl Sd)) X0w). intros id [].
      * assert (Hempty : forall st ids0, alloc_all sw (map (fun _ : nat => OFlat V [None]) (id0 :: cur')) = (st, ids0) ->
                  s' = {| DataState.heap := heap st; DataState.fcache := fcache st; DataState.scache := (rq, ids0) :: scache st |} -> ids = ids0 ->
                  inv s' /\ (forall id, In id (sc_ids s) -> read s' id = read s id) /\
                  (forall id, In id (sc_ids s) -> In id (sc_ids s')) /\ (forall id, In id ids -> In id (sc_ids s'))).
        { intros st ids0 Ea -> ->.
          destruct (alloc_all_spec _ _ _ _ Ea) as (Xa & La & _ & Ra & Fa).
          apply (finish s st rq ids0 (conj W (conj Sl Sd)) (ext_trans _ _ _ X0w Xa)).
          intros id Hin. specialize (Ra id Hin). pose proof (e_len _ _ X0w). split; [lia|].
          rewrite (fc_ids_eq _ _ Fa). intros Hc. destruct (e_wf _ _ X0w W) as [Wa _]. specialize (Wa id Hc). lia. }
        destruct (alloc_all sw (map (fun _ : nat => OFlat V [None]) (id0 :: cur'))) as [st ids0] eqn:Ea.
        destruct (read sw id0) as [[|pl c]|l|[|n] l] eqn:Er; cbv zeta iota beta in H.
        all: inversion H; subst.
        all: first [ apply (Hempty _ _ eq_refl); reflexivity
                | apply (finish s sw rq (id0 :: cur') (conj W (conj Sl Sd)) X0w Hcur) ].
    + (* a slice: the answer is a set of brand-new flat objects *)
      match type of H with context [alloc_all s2 ?os] => destruct (alloc_all s2 os) as [s3 outids] eqn:Ea end.
      inversion H; subst.
      destruct (alloc_all_spec _ _ _ _ Ea) as (Xa & La & _ & Ra & Fa).
      apply (finish s s3 rq ids (conj W (conj Sl Sd)) (ext_trans _ _ _ X02 Xa)).
      intros id Hin. specialize (Ra id Hin). pose proof (e_len _ _ X02). split; [lia|].
      rewrite (fc_ids_eq _ _ Fa). intros Hc. destruct W2 as [Wa _]. specialize (Wa id Hc). lia.
Qed.

(* along ANY history: the invariant holds and no array handed out earlier is ever altered *)
Lemma run_frame rqs : forall s, inv s ->
  inv (fst (run d s rqs)) /\ (forall id, In id (sc_ids s) -> read (fst (run d s rqs)) id = read s id) /\
  (forall id, In id (sc_ids s) -> In id (sc_ids (fst (run d s rqs)))).
Proof.
  induction rqs as [|r rest IH]; intros s I; cbn.
  - split; [exact I|]. split; auto.
  - destruct (step d s r) as [[s1 ids]|e] eqn:E; cbn.
    + destruct (step_frame _ _ _ _ I E) as (I1 & Fr & Mono & _).
      specialize (IH s1 I1). destruct (DataState.run V vltb vsub vdiv true axis_of d s1 rest) as [s2 outs] eqn:Er. cbn in *.
      destruct IH as (I2 & Fr2 & Mono2). split; [exact I2|]. split.
      * intros id H. rewrite Fr2 by (apply Mono; exact H). apply Fr. exact H.
      * intros id H. apply Mono2. apply Mono. exact H.
    + split; [exact I|]. split; auto.
Qed.

Theorem returned_arrays_never_altered hist1 rq hist2 s2 ids :
  step d (fst (run d (init V) hist1)) rq = OK (s2, ids) ->
  forall id, In id ids -> read (fst (run d s2 hist2)) id = read s2 id.
Proof.
  intros E id Hin.
  destruct (run_frame hist1 (init V) inv_init) as (I1 & _ & _).
  destruct (step_frame _ _ _ _ I1 E) as (I2 & _ & _ & Hout).
  destruct (run_frame hist2 s2 I2) as (_ & Fr & _).
  apply Fr. apply Hout. exact Hin.
Qed.

End S.
