(* Proofs/C16_econ.v -- economic value diagram: at every cost-loss ratio the cases split into exactly two groups. *)
From Coq Require Import Reals ZArith List Bool Lra Lia.
From VF Require Import Base.Num Base.Vec Base.Event Gen.Gen_interval Model.Diagrams Proofs.XRTac.
Import ListNotations.
Local Open Scope R_scope.

Lemma act_or_wait a q : n_leb XR (Fin a) (Fin q) = negb (n_ltb XR (Fin q) (Fin a)).
Proof.
  xr_unfold. destruct (Rltb q a) eqn:E1.
  - apply Rltb_true in E1. cbn [negb]. apply orb_false_iff. split; [apply Rltb_false; lra | apply Reqb_false; lra].
  - apply Rltb_false in E1. cbn [negb]. apply orb_true_iff.
    destruct (Rltb a q) eqn:E2; [left; reflexivity | right]. apply Rltb_false in E2. apply Reqb_true. lra.
Qed.

Lemma count_true_negb l : (count_true (map negb l) + count_true l)%nat = length l.
Proof. unfold count_true. induction l as [|b l IH]; [reflexivity|]. destruct b; cbn [map negb filter length]; lia. Qed.

(* every case is in exactly one of the two groups, whatever its probability (also when it EQUALS the ratio) *)
Lemma econ_partition a ps :
  (count_true (econ_acts XR (Fin a) (map (@Fin R) ps)) + count_true (econ_waits XR (Fin a) (map (@Fin R) ps)))%nat = length ps.
Proof.
  assert (E : econ_acts XR (Fin a) (map (@Fin R) ps) = map negb (econ_waits XR (Fin a) (map (@Fin R) ps))).
  { unfold econ_acts, econ_waits. rewrite !map_map. apply map_ext. intros q. apply act_or_wait. }
  rewrite E, count_true_negb. unfold econ_waits. rewrite !map_length. reflexivity.
Qed.

(* a case whose probability equals the ratio acts *)
Lemma econ_equal_acts a : n_leb XR (Fin a) (Fin a) = true /\ n_ltb XR (Fin a) (Fin a) = false.
Proof. xr_unfold. split; [apply orb_true_iff; right; apply Reqb_true; reflexivity | apply Rltb_false; lra]. Qed.

(* ---- Murphy diagram: at every probability threshold a case is in exactly one of the three classes ------------------- *)
Lemma trichotomy_bool e q :
  (Nat.b2n (n_ltb XR (Fin e) (Fin q)) + Nat.b2n (n_ltb XR (Fin q) (Fin e)) + Nat.b2n (n_eqb XR (Fin q) (Fin e)))%nat = 1%nat.
Proof.
  xr_unfold.
  destruct (Rltb e q) eqn:E1; destruct (Rltb q e) eqn:E2; destruct (Reqb q e) eqn:E3; cbn [Nat.b2n]; try reflexivity; exfalso;
  repeat match goal with
         | H : Rltb _ _ = true |- _ => apply Rltb_true in H
         | H : Rltb _ _ = false |- _ => apply Rltb_false in H
         | H : Reqb _ _ = true |- _ => apply Reqb_true in H
         | H : Reqb _ _ = false |- _ => apply Reqb_false in H
         end; lra.
Qed.
Lemma count_true_cons b l : count_true (b :: l) = (Nat.b2n b + count_true l)%nat.
Proof. unfold count_true. destruct b; reflexivity. Qed.
Lemma murphy_partition e ps :
  (count_true (murphy_over XR (Fin e) (map (@Fin R) ps)) + count_true (murphy_under XR (Fin e) (map (@Fin R) ps))
   + count_true (murphy_equal XR (Fin e) (map (@Fin R) ps)))%nat = length ps.
Proof.
  unfold murphy_over, murphy_under, murphy_equal. induction ps as [|q ps IH]; [reflexivity|].
  cbn [map length]. rewrite !count_true_cons. cbv beta. pose proof (trichotomy_bool e q) as Ht. cbv beta in IH. change (bT RBase) with R in *. lia.
Qed.
