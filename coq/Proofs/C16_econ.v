(* Proofs/C16_econ.v -- economic value diagram: at every cost-loss ratio the cases split into exactly two groups. *)
From Coq Require Import Reals ZArith List Bool Lra Lia.
From VF Require Import Base.Num Base.Vec Base.Event Gen.Gen_interval Model.Diagrams Proofs.XRTac.
Import ListNotations.
Local Open Scope R_scope.

Lemma act_or_wait a q : n_leb XR (Fin a) (Fin q) = negb (n_ltb XR (Fin q) (Fin a)).
Proof.
  xr_unfold. destruct (Rltb q a) eqn:E1.
  - apply Rltb_true in E1. cbn [negb]. apply orb_false_iff. split; [apply Rltb_false; lra | apply Reqb_false; lra].
  - apply Rltb_false in E1. cbn [negb]. apply orb_true_iff.
    destruct (Rltb a q) eqn:E2; [left; reflexivity | right]. apply Rltb_false in E2. apply Reqb_true. lra.
Qed.

Lemma count_true_negb l : (count_true (map negb l) + count_true l)%nat = length l.
Proof. unfold count_true. induction l as [|b l IH]; [reflexivity|]. destruct b; cbn [map negb filter length]; lia. Qed.

(* every case is in exactly one of the two groups, whatever its probability (also when it EQUALS the ratio) *)
Lemma econ_partition a ps :
  (count_true (econ_acts XR (Fin a) (map (@Fin R) ps)) + count_true (econ_waits XR (Fin a) (map (@Fin R) ps)))%nat = length ps.
Proof.
  assert (E : econ_acts XR (Fin a) (map (@Fin R) ps) = map negb (econ_waits XR (Fin a) (map (@Fin R) ps))).
  { unfold econ_acts, econ_waits. rewrite !map_map. apply map_ext. intros q. apply act_or_wait. }
  rewrite E, count_true_negb. unfold econ_waits. rewrite !map_length. reflexivity.
Qed.

(* a case whose probability equals the ratio acts *)
Lemma econ_equal_acts a : n_leb XR (Fin a) (Fin a) = true /\ n_ltb XR (Fin a) (Fin a) = false.
Proof. xr_unfold. split; [apply orb_true_iff; right; apply Reqb_true; reflexivity | apply Rltb_false; lra]. Qed.
