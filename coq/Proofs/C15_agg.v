(* Proofs/C15_agg.v -- each generated aggregator (Gen/Gen_aggregator.v at XR) is the documented
   statistic of the values it is given. *)
From Coq Require Import Reals ZArith List Bool Lra Lia Permutation Sorted.
From VF Require Import Base.Num Base.Vec Base.Event Gen.Gen_interval Gen.Gen_detmetrics Gen.Gen_aggregator
     Proofs.XRTac Proofs.RList.
Import ListNotations.
Local Open Scope R_scope.

Lemma agg_Mean_value l : l <> [] -> agg_Mean XR (F l) = Fin (rmean l).
Proof. intros H. unfold agg_Mean. apply vmean_F. exact H. Qed.
Lemma agg_Mean_empty : agg_Mean XR (F []) = NaN.
Proof. apply vmean_nil. Qed.
Lemma agg_Sum_value l : agg_Sum XR (F l) = Fin (rsum l).
Proof. apply vsum_F. Qed.
Lemma agg_Meanabs_value l : l <> [] -> agg_Meanabs XR (F l) = Fin (rmean (map Rabs l)).
Proof. intros H. unfold agg_Meanabs. rewrite vabs_F. apply vmean_F. intro K. apply map_eq_nil in K. contradiction. Qed.
Lemma agg_Absmean_value l : l <> [] -> agg_Absmean XR (F l) = Fin (Rabs (rmean l)).
Proof. intros H. unfold agg_Absmean. rewrite (vmean_F l H). apply xabs_fin. Qed.
(* mean of absolute values and absolute value of the mean are different statistics *)
Lemma meanabs_differs_from_absmean : agg_Meanabs XR (F [1; -1]) = Fin 1 /\ agg_Absmean XR (F [1; -1]) = Fin 0.
Proof.
  split.
  - rewrite agg_Meanabs_value by discriminate. f_equal. unfold rmean, nR. cbn [map length Z.of_nat].
    rewrite !rsum_cons, rsum_nil. rewrite (Rabs_right 1) by lra. rewrite (Rabs_left (-1)) by lra. cbn. lra.
  - rewrite agg_Absmean_value by discriminate. f_equal. unfold rmean, nR. cbn [length Z.of_nat].
    rewrite !rsum_cons, rsum_nil. cbn [Z.of_nat Pos.of_succ_nat Pos.succ]. replace ((1 + (-1 + 0)) / 2) with 0 by lra. apply Rabs_R0.
Qed.

(* count = number of non-missing values *)
Lemma bsum_count (l : list bool) : bsum XR l = Fin (IZR (Z.of_nat (length (filter (fun b => b) l)))).
Proof. reflexivity. Qed.
Lemma agg_Count_value (v : list xr) :
  agg_Count XR v = Fin (IZR (Z.of_nat (length (filter (fun x => negb (n_isnan XR x)) v)))).
Proof.
  unfold agg_Count, util_numvalid. rewrite bsum_count. do 3 f_equal.
  rewrite map_map. induction v as [|x v IH]; [reflexivity|]. cbn [map filter].
  destruct (negb (n_isnan XR x)); cbn [length]; rewrite IH; reflexivity.
Qed.

Lemma last_cons_default_R (l : list R) c b : last (c :: l) b = last l c.
Proof.
  revert c b. induction l as [|x l IH]; intros c b; [reflexivity|].
  change (last (c :: x :: l) b) with (last (x :: l) b). rewrite (IH x b), (IH x c). reflexivity.
Qed.
Lemma nth_last_F l x : nth (length l) (Fin x :: map (@Fin R) l) (n_nan XR) = Fin (last l x).
Proof.
  revert x. induction l as [|y l IH]; intros x; [reflexivity|].
  cbn [length map].
  change (nth (S (length l)) (Fin x :: Fin y :: map (@Fin R) l) (n_nan XR))
    with (nth (length l) (Fin y :: map (@Fin R) l) (n_nan XR)).
  rewrite (IH y). rewrite last_cons_default_R. reflexivity.
Qed.
Lemma agg_Change_value x l : agg_Change XR (F (x :: l)) = Fin (last l x - x).
Proof.
  unfold agg_Change, vlast, vfirst, vnth, F. cbn [map length].
  rewrite map_length. replace (S (length l) - 1)%nat with (length l) by lia.
  rewrite nth_last_F. reflexivity.
Qed.
Lemma agg_AbsChange_value x l : agg_AbsChange XR (F (x :: l)) = Fin (Rabs (last l x - x)).
Proof.
  unfold agg_AbsChange. change (n_sub XR (vlast XR (F (x :: l))) (vfirst XR (F (x :: l)))) with (agg_Change XR (F (x :: l))).
  rewrite agg_Change_value. apply xabs_fin.
Qed.

(* minimum / maximum: an element of the data, below / above all of them *)
Lemma n_min2_fin a b : n_min2 XR (Fin a) (Fin b) = Fin (Rmin a b).
Proof.
  unfold n_min2. cbn. unfold x_ltb. cbn. unfold Rltb, Rmin. destruct (Rlt_dec b a); destruct (Rle_dec a b); try reflexivity; try lra; f_equal; lra.
Qed.
Lemma n_max2_fin a b : n_max2 XR (Fin a) (Fin b) = Fin (Rmax a b).
Proof.
  unfold n_max2. cbn. unfold x_ltb. cbn. unfold Rltb, Rmax. destruct (Rlt_dec a b); destruct (Rle_dec a b); try reflexivity; try lra; f_equal; lra.
Qed.
Lemma vanynan_F l : vanynan XR (F l) = false.
Proof. unfold vanynan, F. induction l as [|x l IH]; [reflexivity|]. cbn [map existsb]. rewrite IH. reflexivity. Qed.
Lemma fold_min_F l a : fold_left (n_min2 XR) (F l) (Fin a) = Fin (fold_left Rmin l a).
Proof. revert a. induction l as [|x l IH]; intros a; [reflexivity|]. cbn [F map fold_left]. rewrite n_min2_fin. apply IH. Qed.
Lemma fold_max_F l a : fold_left (n_max2 XR) (F l) (Fin a) = Fin (fold_left Rmax l a).
Proof. revert a. induction l as [|x l IH]; intros a; [reflexivity|]. cbn [F map fold_left]. rewrite n_max2_fin. apply IH. Qed.
Lemma agg_Min_value x l : agg_Min XR (F (x :: l)) = Fin (fold_left Rmin l x).
Proof. unfold agg_Min, vmin. rewrite vanynan_F. cbn [F map]. apply fold_min_F. Qed.
Lemma agg_Max_value x l : agg_Max XR (F (x :: l)) = Fin (fold_left Rmax l x).
Proof. unfold agg_Max, vmax. rewrite vanynan_F. cbn [F map]. apply fold_max_F. Qed.

Lemma fold_min_le l a : fold_left Rmin l a <= a /\ forall y, In y l -> fold_left Rmin l a <= y.
Proof.
  revert a. induction l as [|x l IH]; intros a; cbn [fold_left]; [split; [lra | intros y []]|].
  destruct (IH (Rmin a x)) as [H1 H2]. pose proof (Rmin_l a x). pose proof (Rmin_r a x). split; [lra|].
  intros y [-> | Hy]; [lra | auto].
Qed.
Lemma fold_max_ge l a : a <= fold_left Rmax l a /\ forall y, In y l -> y <= fold_left Rmax l a.
Proof.
  revert a. induction l as [|x l IH]; intros a; cbn [fold_left]; [split; [lra | intros y []]|].
  destruct (IH (Rmax a x)) as [H1 H2]. pose proof (Rmax_l a x). pose proof (Rmax_r a x). split; [lra|].
  intros y [-> | Hy]; [lra | auto].
Qed.
Lemma fold_min_In l a : In (fold_left Rmin l a) (a :: l).
Proof.
  revert a. induction l as [|x l IH]; intros a; cbn [fold_left]; [left; reflexivity|].
  destruct (IH (Rmin a x)) as [E | E].
  - assert (H : Rmin a x = a \/ Rmin a x = x) by (unfold Rmin; destruct (Rle_dec a x); auto).
    destruct H as [H|H]; rewrite H in E at 1; [left | right; left]; exact E.
  - right. right. exact E.
Qed.

Theorem agg_Min_spec x l : exists m, agg_Min XR (F (x :: l)) = Fin m /\ In m (x :: l) /\ forall y, In y (x :: l) -> m <= y.
Proof.
  exists (fold_left Rmin l x). split; [apply agg_Min_value|]. split; [apply fold_min_In|].
  destruct (fold_min_le l x) as [H1 H2]. intros y [<- | Hy]; [exact H1 | auto].
Qed.

Theorem agg_Range_value x l : agg_Range XR (F (x :: l)) = Fin (fold_left Rmax l x - fold_left Rmin l x).
Proof.
  unfold agg_Range, util_nprange.
  change (vmax XR (F (x :: l))) with (agg_Max XR (F (x :: l))). change (vmin XR (F (x :: l))) with (agg_Min XR (F (x :: l))).
  rewrite agg_Max_value, agg_Min_value. reflexivity.
Qed.
Theorem agg_Range_nonneg x l : 0 <= fold_left Rmax l x - fold_left Rmin l x.
Proof. pose proof (proj1 (fold_min_le l x)). pose proof (proj1 (fold_max_ge l x)). lra. Qed.

(* a quantile level is accepted exactly when it lies in [0, 1]; the aggregator is the percentile 100 q *)
Theorem quantile_level_spec q : quantile_level_ok XR (Fin q) = true <-> 0 <= q <= 1.
Proof.
  unfold quantile_level_ok. cbn. unfold x_leb, x_ltb, x_eqb, x_lit. cbn. unfold Rltb, Reqb.
  destruct (Rlt_dec 0 q); destruct (Rlt_dec q 1); destruct (Req_EM_T q 0); destruct (Req_EM_T q 1); destruct (Req_EM_T 0 q);
    cbn; split; intros; try discriminate; try lra; reflexivity.
Qed.
(* a level that is not a number is rejected too (it passed the pair of strict comparisons of the pinned code) *)
Theorem quantile_level_nan_rejected : quantile_level_ok XR NaN = false.
Proof. reflexivity. Qed.
Theorem agg_Quantile_is_percentile q v : agg_Quantile XR (Fin q) v = vpercentile XR v (Fin (q * 100)).
Proof. reflexivity. Qed.
Theorem agg_Iqr_is_p75_minus_p25 v :
  agg_Iqr XR v = n_sub XR (vpercentile XR v (Fin 75)) (vpercentile XR v (Fin 25)).
Proof. reflexivity. Qed.
(* std is the square root of the (population) variance, variance the mean squared deviation *)
Theorem agg_Std_is_sqrt_variance v : agg_Std XR v = n_sqrt XR (agg_Variance XR v).
Proof. reflexivity. Qed.
Theorem agg_Variance_value l : l <> [] ->
  agg_Variance XR (F l) = Fin (rmean (map sqr (map (fun x => x - rmean l) l))).
Proof.
  intros H. unfold agg_Variance, vvar. rewrite (vmean_F l H).
  rewrite (map_F (fun x => sq XR (n_sub XR x (Fin (rmean l)))) (fun x => sqr (x - rmean l))) by reflexivity.
  rewrite vmean_F by (intro K; apply map_eq_nil in K; contradiction). rewrite map_map. reflexivity.
Qed.
