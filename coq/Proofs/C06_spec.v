(* Proofs/C06_spec.v -- the textbook definitions of the 25 categorical scores, written from the
   literature (Jolliffe & Stephenson 2012; Wilks 2011; Stephenson et al. 2008; Ferro & Stephenson
   2011; Hogan et al. 2009; Mason & Weigel 2009), NOT from the code.  A score is a function of the
   real table (a hits, b false alarms, c misses, d correct rejections); `NaN` = undefined. *)
From Coq Require Import Reals.
From VF Require Import Base.Num.
Local Open Scope R_scope.

Definition rdiv (num den : R) : xr := if Reqb den 0 then NaN else Fin (num / den).
Definition undefined_if (c : bool) (x : xr) : xr := if c then NaN else x.

Definition tot (a b c d : R) : R := a + b + c + d.
(* H: hit rate, F: false alarm rate, p: base rate, q: forecast rate *)
Definition rH (a b c d : R) : R := a / (a + c).
Definition rF (a b c d : R) : R := b / (b + d).
Definition rp (a b c d : R) : R := (a + c) / tot a b c d.
Definition rq (a b c d : R) : R := (a + b) / tot a b c d.

Definition tb_A (a b c d : R) : xr := rdiv a (tot a b c d).
Definition tb_B (a b c d : R) : xr := rdiv b (tot a b c d).
Definition tb_C (a b c d : R) : xr := rdiv c (tot a b c d).
Definition tb_D (a b c d : R) : xr := rdiv d (tot a b c d).
Definition tb_N (a b c d : R) : xr := Fin (tot a b c d).
Definition tb_BaseRate (a b c d : R) : xr := rdiv (a + c) (tot a b c d).
Definition tb_FcstRate (a b c d : R) : xr := rdiv (a + b) (tot a b c d).
Definition tb_Pc (a b c d : R) : xr := rdiv (a + d) (tot a b c d).
Definition tb_Hit (a b c d : R) : xr := rdiv a (a + c).
Definition tb_Miss (a b c d : R) : xr := rdiv c (a + c).
Definition tb_Fa (a b c d : R) : xr := rdiv b (b + d).
Definition tb_Far (a b c d : R) : xr := rdiv b (a + b).
Definition tb_Threat (a b c d : R) : xr := rdiv a (a + b + c).
Definition tb_BiasFreq (a b c d : R) : xr := rdiv (a + b) (a + c).
(* ETS / Gilbert skill score: hits expected by chance a_r = (a+b)(a+c)/n *)
Definition tb_Ets (a b c d : R) : xr :=
  undefined_if (Reqb (tot a b c d) 0)
    (let ar := (a + b) * (a + c) / tot a b c d in rdiv (a - ar) (a + b + c - ar)).
(* Heidke skill score in its expected-correct form (a + d - E) / (n - E), E = ((a+b)(a+c)+(c+d)(b+d))/n *)
Definition tb_Hss_expected (a b c d : R) : xr :=
  undefined_if (Reqb (tot a b c d) 0)
    (let E := ((a + b) * (a + c) + (c + d) * (b + d)) / tot a b c d in rdiv (a + d - E) (tot a b c d - E)).
(* ... and in its usual closed form *)
Definition tb_Hss (a b c d : R) : xr := rdiv (2 * (a * d - b * c)) ((a + c) * (c + d) + (a + b) * (b + d)).
(* Hanssen-Kuipers / Peirce skill score (= H - F) *)
Definition tb_Kss (a b c d : R) : xr := rdiv (a * d - b * c) ((a + c) * (b + d)).
Definition tb_Or (a b c d : R) : xr := rdiv (a * d) (b * c).
Definition tb_Lor (a b c d : R) : xr :=
  undefined_if (Reqb (a * d) 0 || Reqb (b * c) 0) (Fin (ln (a * d / (b * c)))).
Definition tb_YulesQ (a b c d : R) : xr := rdiv (a * d - b * c) (a * d + b * c).
(* generalized discrimination score (2AFC) of a 2x2 table *)
Definition tb_Dscore (a b c d : R) : xr := rdiv (a * d + / 2 * (a * b + c * d)) ((a + c) * (b + d)).
(* extremal dependence indices *)
Definition tb_Edi (a b c d : R) : xr :=
  undefined_if (Reqb (b + d) 0 || Reqb (a + c) 0 || Reqb a 0 || Reqb b 0)
    (rdiv (ln (rF a b c d) - ln (rH a b c d)) (ln (rF a b c d) + ln (rH a b c d))).
Definition tb_Sedi (a b c d : R) : xr :=
  undefined_if (Reqb (b + d) 0 || Reqb (a + c) 0 || Reqb a 0 || Reqb b 0 || Reqb c 0 || Reqb d 0)
    (rdiv (ln (rF a b c d) - ln (rH a b c d) - ln (1 - rF a b c d) + ln (1 - rH a b c d))
          (ln (rF a b c d) + ln (rH a b c d) + ln (1 - rF a b c d) + ln (1 - rH a b c d))).
(* EDS in its published form 2 ln((a+c)/n) / ln(a/n) - 1 *)
Definition tb_Eds (a b c d : R) : xr :=
  undefined_if (Reqb (a + c) 0 || Reqb a 0 || Reqb (ln (a / tot a b c d)) 0)
    (Fin (2 * ln ((a + c) / tot a b c d) / ln (a / tot a b c d) - 1)).
(* SEDS in its published form (ln q + ln p) / ln(a/n) - 1 *)
Definition tb_Seds (a b c d : R) : xr :=
  undefined_if (Reqb (a + c) 0 || Reqb a 0 || Reqb (ln (a / tot a b c d)) 0)
    (Fin ((ln (rq a b c d) + ln (rp a b c d)) / ln (a / tot a b c d) - 1)).
