(* Proofs/C08_murphy.v -- the algebra behind the Murphy decomposition BS = REL - RES + UNC, for lists of reals:
   inside one probability bin with a single forecast value p, and across bins (sum of squares around the overall
   mean = within-bin + between-bin sums of squares). *)
From Coq Require Import Reals List Lra.
From VF Require Import Proofs.RList.
Import ListNotations.
Local Open Scope R_scope.

Lemma rsum_map_add (f g : R -> R) l : rsum (map (fun x => f x + g x) l) = rsum (map f l) + rsum (map g l).
Proof. induction l as [|x l IH]; [unfold rsum; cbn; lra|]. cbn [map]. rewrite !rsum_cons, IH. lra. Qed.
Lemma rsum_map_scale (k : R) (f : R -> R) l : rsum (map (fun x => k * f x) l) = k * rsum (map f l).
Proof. induction l as [|x l IH]; [unfold rsum; cbn; lra|]. cbn [map]. rewrite !rsum_cons, IH. lra. Qed.
Lemma rsum_map_const (k : R) l : rsum (map (fun _ : R => k) l) = nR l * k.
Proof.
  induction l as [|x l IH]; [unfold rsum, nR; cbn; lra|]. cbn [map]. rewrite rsum_cons, IH.
  unfold nR. cbn [length]. rewrite Nat2Z.inj_succ, succ_IZR. lra.
Qed.
Lemma rsum_map_id l : rsum (map (fun x : R => x) l) = rsum l.
Proof. rewrite map_id. reflexivity. Qed.

(* sum of squared deviations from ANY value c = n (c - mean)^2 + sum of squared deviations from the mean *)
Lemma sum_sq_shift (c : R) o : o <> [] ->
  rsum (map (fun x => (c - x) * (c - x)) o) =
  nR o * ((c - rmean o) * (c - rmean o)) + rsum (map (fun x => (x - rmean o) * (x - rmean o)) o).
Proof.
  intros Hne. pose proof (nR_pos o Hne) as Hn. set (m := rmean o).
  assert (Hm : rsum o = nR o * m) by (unfold m, rmean; field; lra).
  assert (E : forall x, (c - x) * (c - x) = (c - m) * (c - m) + ((-2 * (c - m)) * (x - m) + (x - m) * (x - m))) by (intros; ring).
  rewrite (map_ext _ _ E).
  rewrite (rsum_map_add (fun _ => (c - m) * (c - m)) (fun x => (-2 * (c - m)) * (x - m) + (x - m) * (x - m))).
  rewrite (rsum_map_add (fun x => (-2 * (c - m)) * (x - m)) (fun x => (x - m) * (x - m))).
  rewrite rsum_map_const, (rsum_map_scale (-2 * (c - m)) (fun x => x - m)).
  assert (Z : rsum (map (fun x => x - m) o) = 0).
  { assert (E2 : forall x, x - m = x + (-1) * m) by (intros; ring). rewrite (map_ext _ _ E2).
    rewrite (rsum_map_add (fun x => x) (fun _ => (-1) * m)), rsum_map_id, rsum_map_const. rewrite Hm. ring. }
  rewrite Z. ring.
Qed.

(* one bin of the decomposition: all forecasts in the bin equal p *)
Theorem murphy_within_bin (p : R) o : o <> [] ->
  rsum (map (fun x => (p - x) * (p - x)) o) =
  nR o * ((p - rmean o) * (p - rmean o)) + rsum (map (fun x => (x - rmean o) * (x - rmean o)) o).
Proof. apply sum_sq_shift. Qed.

(* across bins: deviations of a bin's observations from the OVERALL mean = between-bin term + within-bin term *)
Theorem murphy_between_bins (obar : R) o : o <> [] ->
  rsum (map (fun x => (obar - x) * (obar - x)) o) =
  nR o * ((rmean o - obar) * (rmean o - obar)) + rsum (map (fun x => (x - rmean o) * (x - rmean o)) o).
Proof. intros H. rewrite (sum_sq_shift obar o H). ring. Qed.

(* hence, per bin:  sum (p - o_i)^2  =  n (p - mean)^2  -  n (mean - obar)^2  +  sum (obar - o_i)^2
   i.e. the bin's share of BS = its share of REL - its share of RES + its share of UNC (all times n_total) *)
Theorem murphy_bin_identity (p obar : R) o : o <> [] ->
  rsum (map (fun x => (p - x) * (p - x)) o) =
  nR o * ((p - rmean o) * (p - rmean o)) - nR o * ((rmean o - obar) * (rmean o - obar)) + rsum (map (fun x => (obar - x) * (obar - x)) o).
Proof. intros H. rewrite (murphy_within_bin p o H), (murphy_between_bins obar o H). ring. Qed.

(* ---- the whole score: ANY grouping of the cases into groups that share one forecast value (the probability bins, when the
   forecasts take one value per bin).  groups = list of (forecast value, observations of the group). ---------------------- *)
Definition g_bs (g : R * list R) : R := rsum (map (fun x => (fst g - x) * (fst g - x)) (snd g)).
Definition g_rel (g : R * list R) : R := nR (snd g) * ((fst g - rmean (snd g)) * (fst g - rmean (snd g))).
Definition g_res (obar : R) (g : R * list R) : R := nR (snd g) * ((rmean (snd g) - obar) * (rmean (snd g) - obar)).
Definition g_unc (obar : R) (g : R * list R) : R := rsum (map (fun x => (obar - x) * (obar - x)) (snd g)).

Theorem murphy_decomposition (obar : R) (groups : list (R * list R)) :
  (forall g, In g groups -> snd g <> []) ->
  rsum (map g_bs groups) =
  rsum (map g_rel groups) - rsum (map (g_res obar) groups) + rsum (map (g_unc obar) groups).
Proof.
  induction groups as [|g gs IH]; intros Hne; [unfold rsum; cbn; lra|].
  cbn [map]. rewrite !rsum_cons. rewrite IH by (intros g' Hg'; apply Hne; right; exact Hg').
  unfold g_bs, g_rel, g_res, g_unc. rewrite (murphy_bin_identity (fst g) obar (snd g)) by (apply Hne; left; reflexivity). lra.
Qed.

Lemma rsum_app_l (l1 l2 : list R) : rsum (l1 ++ l2) = rsum l1 + rsum l2.
Proof. induction l1 as [|x l IH]; [unfold rsum; cbn; lra|]. cbn [app]. rewrite !rsum_cons, IH. lra. Qed.
(* the uncertainty term does not depend on the grouping: it is the sum over all observations *)
Lemma g_unc_concat (obar : R) (groups : list (R * list R)) :
  rsum (map (g_unc obar) groups) = rsum (map (fun x => (obar - x) * (obar - x)) (concat (map snd groups))).
Proof.
  induction groups as [|g gs IH]; [reflexivity|]. cbn [map concat]. rewrite rsum_cons, map_app, rsum_app_l, IH. reflexivity.
Qed.
