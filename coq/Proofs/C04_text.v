(* Proofs/C04_text.v -- the token rule of verif.input.Text._clean (GENERATED, Gen/Gen_io.v) over the extended reals:
   a token is missing when Python's float() rejects it, when it parses to NaN, or when it parses to the NUMBER -999
   (whatever its spelling); every other number is kept exactly. *)
From Coq Require Import Reals ZArith List Bool Lra String.
From VF Require Import Base.Num Base.Vec Base.Event Gen.Gen_io Proofs.XRTac.
Import ListNotations.
Local Open Scope R_scope.

Lemma text_unparsable : text_cell XR None = NaN.
Proof. reflexivity. Qed.
Lemma text_fin r : text_cell XR (Some (Fin r)) = if Reqb r (-999) then NaN else Fin r.
Proof. reflexivity. Qed.
Lemma text_sentinel : text_cell XR (Some (Fin (-999))) = NaN.
Proof. rewrite text_fin, (proj2 (Reqb_true (-999) (-999)) eq_refl). reflexivity. Qed.
Lemma text_keeps r : r <> -999 -> text_cell XR (Some (Fin r)) = Fin r.
Proof. intros H. rewrite text_fin, (proj2 (Reqb_false r (-999)) H). reflexivity. Qed.
Lemma text_nan : text_cell XR (Some NaN) = NaN.
Proof. reflexivity. Qed.
(* the result is never the placeholder: whatever the token, -999 does not come out as a number *)
Lemma text_never_placeholder p : text_cell XR p <> Fin (-999).
Proof.
  destruct p as [[| | |r]|]; try discriminate.
  rewrite text_fin. destruct (Reqb r (-999)) eqn:E; [discriminate|]. apply Reqb_false in E. congruence.
Qed.
