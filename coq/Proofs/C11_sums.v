(* Proofs/C11_sums.v -- slice counts add up to the pooled count, and any additive statistic of the
   pooled cases is the sum of the slices' (hence pooled mean = count-weighted mean of slice means). *)
From Coq Require Import ZArith List Bool Lia Sorted.
From VF Require Import Model.Data Proofs.Data_lemmas Proofs.C11_proofs.
Import ListNotations.
Local Open Scope Z_scope.

Fixpoint zsum (l : list Z) : Z := match l with [] => 0 | x :: t => x + zsum t end.

Lemma zsum_app a b : zsum (a ++ b) = zsum a + zsum b.
Proof. induction a as [|x a IH]; cbn [app zsum]; [reflexivity | rewrite IH; lia]. Qed.

(* the slice as a filter over all positions *)
Lemma positions_where_filter p (l : list Z) :
  positions_where p l = filter (fun i => p (nth i l 0)) (seq 0 (length l)).
Proof.
  unfold positions_where.
  assert (G : forall s (l0 : list Z) (q : nat -> Z -> bool),
             map fst (filter (fun x => q (fst x) (snd x)) (combine (seq s (length l0)) l0))
             = filter (fun i => q i (nth (i - s) l0 0)) (seq s (length l0))).
  { intros s l0 q. revert s. induction l0 as [|h t IH]; intros s; [reflexivity|].
    cbn [length seq combine].
    set (G := fun i => q i (nth (i - s) (h :: t) 0)).
    change (filter G (s :: seq (S s) (length t)))
      with (if G s then s :: filter G (seq (S s) (length t)) else filter G (seq (S s) (length t))).
    assert (Gs : G s = q s h) by (unfold G; rewrite Nat.sub_diag; reflexivity).
    assert (E : filter G (seq (S s) (length t))
                = filter (fun i => q i (nth (i - S s) t 0)) (seq (S s) (length t))).
    { apply filter_ext_in. intros i Hi. apply in_seq in Hi. unfold G.
      replace (i - s)%nat with (S (i - S s)) by lia. reflexivity. }
    rewrite Gs, E, <- IH. cbn [filter fst snd]. destruct (q s h); reflexivity. }
  specialize (G O l (fun _ x => p x)). cbn [fst snd] in G. rewrite G.
  apply filter_ext. intros i. rewrite Nat.sub_0_r. reflexivity.
Qed.

Lemma map_nth_seq (l : list Z) d : map (fun k => nth k l d) (seq 0 (length l)) = l.
Proof.
  induction l as [|h t IH]; [reflexivity|]. cbn [length seq map nth]. f_equal.
  rewrite <- seq_shift, map_map. exact IH.
Qed.

Lemma indicator_sum (u : list Z) (x c : Z) : NoDup u -> In x u ->
  zsum (map (fun y => if x =? y then c else 0) u) = c.
Proof.
  induction u as [|h t IH]; intros Hn Hin; [destruct Hin|]. inversion Hn; subst. cbn [map zsum].
  destruct Hin as [-> | Hin].
  - rewrite Z.eqb_refl. fold (zsum (map (fun y => if x =? y then c else 0) t)).
    assert (E : zsum (map (fun y => if x =? y then c else 0) t) = 0).
    { clear IH Hn H2. induction t as [|a t IHt]; [reflexivity|]. cbn [map zsum].
      destruct (x =? a) eqn:Ea; [apply Z.eqb_eq in Ea; subst; exfalso; apply H1; left; reflexivity|].
      fold (zsum (map (fun y => if x =? y then c else 0) t)). rewrite IHt; [lia|]. intro K. apply H1. right. exact K. }
    lia.
  - destruct (x =? h) eqn:Eh; [apply Z.eqb_eq in Eh; subst; contradiction|].
    fold (zsum (map (fun y => if x =? y then c else 0) t)). rewrite IH by assumption. lia.
Qed.

Lemma split_head (f : nat -> Z) (key : nat -> Z) i L (u : list Z) :
  map (fun x => zsum (map f (filter (fun j => key j =? x) (i :: L)))) u
  = map (fun p => fst p + snd p)
        (combine (map (fun x => if key i =? x then f i else 0) u)
                 (map (fun x => zsum (map f (filter (fun j => key j =? x) L))) u)).
Proof.
  induction u as [|x t IHt]; [reflexivity|]. cbn [map combine fst snd]. f_equal; [|exact IHt].
  cbn [filter]. destruct (key i =? x); cbn [map zsum]; lia.
Qed.

Lemma zsum_pairs (p q : list Z) : length p = length q ->
  zsum (map (fun z => fst z + snd z) (combine p q)) = zsum p + zsum q.
Proof.
  revert q. induction p as [|a p IHp]; intros [|c q] Hl; try discriminate; [reflexivity|].
  cbn [combine map zsum fst snd]. injection Hl as Hl. rewrite IHp by exact Hl. lia.
Qed.

(* any additive quantity f over the pooled positions is the sum over the slices *)
Theorem pooled_is_sum_of_slices (f : nat -> Z) (b : Z -> Z) (vals : list Z) :
  let u := sort_uniq (map b vals) in
  zsum (map (fun k => zsum (map f (bucket_positions b vals k))) (seq 0 (length u)))
  = zsum (map f (seq 0 (length vals))).
Proof.
  intros u.
  assert (Hu : NoDup u) by (apply ssorted_NoDup; apply sort_uniq_sorted).
  (* rewrite the sum over slice numbers as a sum over the distinct bucket values *)
  assert (E1 : map (fun k => zsum (map f (bucket_positions b vals k))) (seq 0 (length u))
             = map (fun x => zsum (map f (filter (fun i => b (nth i vals 0) =? x) (seq 0 (length vals))))) u).
  { rewrite <- (map_nth_seq u 0) at 2. rewrite map_map. apply map_ext_in. intros k Hk.
    unfold bucket_positions. fold u. rewrite positions_where_filter, map_length. f_equal. f_equal.
    apply filter_ext_in. intros i Hi. apply in_seq in Hi. rewrite nth_map_default by lia. reflexivity. }
  rewrite E1. clear E1.
  assert (G : forall L, (forall i, In i L -> In (b (nth i vals 0)) u) ->
            zsum (map (fun x => zsum (map f (filter (fun i => b (nth i vals 0) =? x) L))) u) = zsum (map f L)).
  { induction L as [|i L IH]; intros HL.
    - cbn [filter map zsum].
      assert (Z0 : forall w : list Z, zsum (map (fun _ => 0) w) = 0)
        by (induction w as [|x w IHw]; cbn [map zsum]; [reflexivity | rewrite IHw; reflexivity]).
      apply Z0.
    - rewrite (split_head f (fun j => b (nth j vals 0)) i L u).
      rewrite zsum_pairs by (rewrite !map_length; reflexivity).
      rewrite indicator_sum; [| exact Hu | apply HL; left; reflexivity].
      rewrite IH by (intros j Hj; apply HL; right; exact Hj). reflexivity. }
  apply G. intros i Hi. apply in_seq in Hi. unfold u. apply sort_uniq_In. apply in_map. apply nth_In. lia.
Qed.

(* slice counts add up to the pooled count *)
Corollary slice_counts_add_up (b : Z -> Z) (vals : list Z) :
  let u := sort_uniq (map b vals) in
  zsum (map (fun k => Z.of_nat (length (bucket_positions b vals k))) (seq 0 (length u))) = Z.of_nat (length vals).
Proof.
  intros u. pose proof (pooled_is_sum_of_slices (fun _ => 1) b vals) as H. cbv zeta in H. fold u in H.
  assert (C : forall (l : list nat), zsum (map (fun _ => 1) l) = Z.of_nat (length l)).
  { induction l as [|x l IH]; [reflexivity|]. cbn [map zsum length]. fold (zsum (map (fun _ => 1) l)). rewrite IH. lia. }
  rewrite C, seq_length in H. rewrite <- H. f_equal. apply map_ext. intros k. symmetry. apply C.
Qed.
