(* Proofs/C05_corr.v -- the correlation coefficient: Cauchy-Schwarz for lists of reals, hence the
   generated Corr metric is never above 1 nor below -1, and a perfect forecast scores exactly 1. *)
From Coq Require Import Reals ZArith List Bool Lra Lia Psatz.
From VF Require Import Base.Num Base.Vec Base.Event Gen.Gen_interval Gen.Gen_detmetrics
     Proofs.XRTac Proofs.RList.
Import ListNotations.
Local Open Scope R_scope.

Definition dot (a b : list R) : R := rsum (map2r Rmult a b).
Definition ssq (a : list R) : R := rsum (map sqr a).

Lemma ssq_nonneg a : 0 <= ssq a.
Proof. apply rsum_nonneg. apply Forall_map_sqr_nonneg. Qed.
Lemma dot_cons x y a b : dot (x :: a) (y :: b) = x * y + dot a b.
Proof. unfold dot, map2r. cbn. apply rsum_cons. Qed.
Lemma ssq_cons x a : ssq (x :: a) = x * x + ssq a.
Proof. unfold ssq. cbn. apply rsum_cons. Qed.

Lemma dot_nil_l b : dot [] b = 0.
Proof. reflexivity. Qed.
Lemma dot_nil_r a : dot a [] = 0.
Proof. destruct a; reflexivity. Qed.
Lemma ssq_nil : ssq [] = 0.
Proof. reflexivity. Qed.

(* (sum a_i b_i)^2 <= (sum a_i^2)(sum b_i^2) *)
Lemma cauchy_schwarz a : forall b, (dot a b) * (dot a b) <= ssq a * ssq b.
Proof.
  induction a as [|x a IH]; intros [|y b].
  - rewrite dot_nil_l, ssq_nil. lra.
  - rewrite dot_nil_l, ssq_nil. lra.
  - rewrite dot_nil_r, ssq_nil. lra.
  - rewrite dot_cons, !ssq_cons. specialize (IH b).
    pose proof (ssq_nonneg a) as HA. pose proof (ssq_nonneg b) as HB.
    set (A := ssq a) in *. set (B := ssq b) in *. set (C := dot a b) in *.
    (* 2 C x y <= A y^2 + B x^2, from (A y^2 + B x^2)^2 >= 4 A B x^2 y^2 >= (2 C x y)^2 *)
    assert (H2 : 2 * C * x * y <= A * (y * y) + B * (x * x)).
    { assert (Hs : 0 <= A * (y * y) + B * (x * x)) by nra.
      destruct (Rle_or_lt (2 * C * x * y) 0) as [L|L]; [lra|].
      apply Rsqr_incr_0_var; [|exact Hs]. unfold Rsqr.
      assert (4 * (C * C) * (x * x) * (y * y) <= 4 * (A * B) * (x * x) * (y * y)).
      { assert (0 <= (x * x) * (y * y)) by nra.
        replace (4 * (C * C) * (x * x) * (y * y)) with ((C * C) * (4 * ((x * x) * (y * y)))) by ring.
        replace (4 * (A * B) * (x * x) * (y * y)) with ((A * B) * (4 * ((x * x) * (y * y)))) by ring.
        apply Rmult_le_compat_r; [lra | exact IH]. }
      assert (E1 : (A * (y * y) + B * (x * x)) * (A * (y * y) + B * (x * x)) =
                   (A * (y * y) - B * (x * x)) * (A * (y * y) - B * (x * x)) + 4 * (A * B) * (x * x) * (y * y)) by ring.
      assert (E2 : 2 * C * x * y * (2 * C * x * y) = 4 * (C * C) * (x * x) * (y * y)) by ring.
      pose proof (Rle_0_sqr (A * (y * y) - B * (x * x))) as Hq. unfold Rsqr in Hq. lra. }
    assert (E3 : (x * y + C) * (x * y + C) = (x * y) * (x * y) + 2 * C * x * y + C * C) by ring.
    assert (E4 : (x * x + A) * (y * y + B) = (x * y) * (x * y) + (A * (y * y) + B * (x * x)) + A * B) by ring.
    rewrite E3, E4. lra.
Qed.

Lemma abs_dot_le a b : Rabs (dot a b) <= sqrt (ssq a * ssq b).
Proof.
  rewrite <- sqrt_Rsqr_abs. apply sqrt_le_1_alt. unfold Rsqr. apply cauchy_schwarz.
Qed.

(* ---- pearson on finite vectors -------------------------------------------------------------- *)
Definition dev (a : list R) : list R := map (fun x => x - rmean a) a.

Lemma map2r_mul_F a b : vmap2 XR (n_mul XR) (F a) (F b) = F (map2r Rmult a b).
Proof. apply vmap2_F. intros x y. reflexivity. Qed.

Lemma pearson_F a b : a <> [] -> b <> [] ->
  pearson XR (F a) (F b) = n_div XR (Fin (dot (dev a) (dev b))) (Fin (sqrt (ssq (dev a) * ssq (dev b)))).
Proof.
  intros Ha Hb. unfold pearson. rewrite !vmean_F by assumption.
  rewrite (map_F (fun x => n_sub XR x (Fin (rmean a))) (fun x => x - rmean a)) by (intros; reflexivity).
  rewrite (map_F (fun x => n_sub XR x (Fin (rmean b))) (fun x => x - rmean b)) by (intros; reflexivity).
  fold (dev a) (dev b). rewrite map2r_mul_F, vsum_F.
  rewrite !(map_F (sq XR) sqr) by (intros; reflexivity). rewrite !vsum_F.
  change (n_mul XR (Fin (rsum (map sqr (dev a)))) (Fin (rsum (map sqr (dev b))))) with (@Fin R (ssq (dev a) * ssq (dev b))).
  rewrite xsqrt_fin; [reflexivity|]. apply Rmult_le_pos; apply ssq_nonneg.
Qed.

(* whenever the coefficient is a number at all, it lies in [-1, 1] *)
Lemma pearson_bounded a b v : a <> [] -> b <> [] -> pearson XR (F a) (F b) = Fin v -> -1 <= v <= 1.
Proof.
  intros Ha Hb. rewrite pearson_F by assumption.
  set (C := dot (dev a) (dev b)). set (S := sqrt (ssq (dev a) * ssq (dev b))).
  assert (HS : 0 <= S) by apply sqrt_pos.
  assert (HC : - S <= C <= S).
  { pose proof (abs_dot_le (dev a) (dev b)) as H. fold C S in H. unfold Rabs in H. destruct (Rcase_abs C); lra. }
  destruct (Req_dec S 0) as [E|E].
  - (* a zero denominator never gives a finite value *)
    assert (C0 : C = 0) by lra. rewrite E, C0, xdiv_0_0. intros Hx. inversion Hx.
  - rewrite xdiv_fin by exact E. intros H; inversion H; subst v.
    assert (0 < S) by lra. split.
    + apply Rmult_le_reg_r with S; [assumption|]. unfold Rdiv. rewrite Rmult_assoc, Rinv_l by exact E. lra.
    + apply Rmult_le_reg_r with S; [assumption|]. unfold Rdiv. rewrite Rmult_assoc, Rinv_l by exact E. lra.
Qed.

(* the generated metric: never better than the declared perfect score, never below -1 *)
Lemma Corr_bounded obs fcst v : fcst <> [] -> Corr_core XR (F obs) (F fcst) = Fin v -> -1 <= v <= 1.
Proof.
  intros Hf. unfold Corr_core.
  match goal with |- (if ?c then _ else _) = _ -> _ => destruct c eqn:E1 end.
  { intros H. exfalso. clear -H. xr_unfold. congruence. }
  match goal with |- (if ?c then _ else _) = _ -> _ => destruct c eqn:E2 end.
  { intros H. exfalso. clear -H. xr_unfold. congruence. }
  assert (Ho : obs <> []).
  { intros ->. cbn in E1. revert E1. xr_unfold. rb; try discriminate; lra. }
  intros H. apply (pearson_bounded obs fcst v Ho Hf H).
Qed.

Lemma dot_self l : dot l l = ssq l.
Proof. unfold dot, ssq, map2r. f_equal. induction l as [|x l IH]; cbn; [reflexivity | f_equal; exact IH]. Qed.

(* a forecast identical to the observations scores exactly 1 whenever the score is defined *)
Lemma pearson_perfect a : a <> [] -> 0 < ssq (dev a) -> pearson XR (F a) (F a) = Fin 1.
Proof.
  intros Ha Hp. rewrite pearson_F by assumption.
  rewrite dot_self. rewrite sqrt_square by lra. rewrite xdiv_fin by lra. f_equal. field. lra.
Qed.
