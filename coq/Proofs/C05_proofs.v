(* Proofs/C05_proofs.v -- the generated deterministic metrics (Gen/Gen_detmetrics.v at XR) on vectors
   of finite reals: the textbook expression, the chosen aggregator, undefined => NaN / non-finite,
   perfect forecasts, never better than perfect. *)
From Coq Require Import Reals ZArith List Bool Lra Lia Psatz.
From VF Require Import Base.Num Base.Vec Base.Event Gen.Gen_interval Gen.Gen_detmetrics Gen.Gen_aggregator
     Proofs.XRTac Proofs.RList.
Import ListNotations.
Local Open Scope R_scope.

Definition err (obs fcst : list R) : list R := map2r Rminus obs fcst.      (* obs - fcst, pair by pair *)
Definition is_fin (x : xr) : Prop := exists r, x = Fin r.

Section S.
Variables obs fcst : list R.
Variable Hlen : length obs = length fcst.
Variable Hne : obs <> [].

Lemma err_nonnil : err obs fcst <> [].
Proof. apply map2r_nonnil; assumption. Qed.

(* ---- the aggregator is applied to the documented quantity (any -agg function) ------------- *)
Lemma Mae_uses_agg (agg : list xr -> xr) : Mae_core XR agg (F obs) (F fcst) = agg (F (map Rabs (err obs fcst))).
Proof. unfold Mae_core. rewrite vsub_F, vabs_F. reflexivity. Qed.
Lemma Bias_uses_agg (agg : list xr -> xr) : Bias_core XR agg (F obs) (F fcst) = agg (F (map2r Rminus fcst obs)).
Proof. unfold Bias_core. rewrite vsub_F. reflexivity. Qed.
Lemma Diff_uses_agg (agg : list xr -> xr) : Diff_core XR agg (F obs) (F fcst) = n_sub XR (agg (F fcst)) (agg (F obs)).
Proof. reflexivity. Qed.
Lemma Ratio_uses_agg (agg : list xr -> xr) : Ratio_core XR agg (F obs) (F fcst) =
  if n_eqb XR (agg (F obs)) (Fin 0) then NaN else n_div XR (agg (F fcst)) (agg (F obs)).
Proof. reflexivity. Qed.
Lemma Rmse_uses_agg (agg : list xr -> xr) : Rmse_core XR agg (F obs) (F fcst) = n_sqrt XR (agg (F (map sqr (err obs fcst)))).
Proof. unfold Rmse_core. rewrite vsub_F, vsq_F. reflexivity. Qed.

(* ---- with the default aggregator (mean): closed forms -------------------------------------- *)
Lemma Mae_value : Mae_core XR (vmean XR) (F obs) (F fcst) = Fin (rmean (map Rabs (err obs fcst))).
Proof.
  rewrite Mae_uses_agg. apply vmean_F. intro K. apply map_eq_nil in K. exact (err_nonnil K).
Qed.
Lemma Bias_value : Bias_core XR (vmean XR) (F obs) (F fcst) = Fin (rmean (map2r Rminus fcst obs)).
Proof. rewrite Bias_uses_agg. apply vmean_F. apply map2r_nonnil; [symmetry; assumption|]. destruct obs, fcst; try discriminate; congruence. Qed.

Lemma rmean_nonneg l : Forall (fun x => 0 <= x) l -> 0 <= rmean l.
Proof.
  intros H. unfold rmean. destruct l as [|x l].
  - unfold nR, rsum. cbn. lra.
  - apply Rmult_le_pos; [apply rsum_nonneg; exact H|]. apply Rlt_le. apply Rinv_0_lt_compat. apply nR_pos. discriminate.
Qed.
Lemma rmean_zeros l : Forall (fun x => x = 0) l -> rmean l = 0.
Proof. intros H. unfold rmean. rewrite rsum_zeros by exact H. lra. Qed.

Lemma Mae_nonneg : exists v, Mae_core XR (vmean XR) (F obs) (F fcst) = Fin v /\ 0 <= v.
Proof. eexists. split; [apply Mae_value|]. apply rmean_nonneg. apply Forall_map_abs_nonneg. Qed.

Lemma Rmse_value : Rmse_core XR (vmean XR) (F obs) (F fcst) = Fin (sqrt (rmean (map sqr (err obs fcst)))).
Proof.
  rewrite Rmse_uses_agg. rewrite vmean_F by (intro K; apply map_eq_nil in K; exact (err_nonnil K)).
  apply xsqrt_fin. apply rmean_nonneg. apply Forall_map_sqr_nonneg.
Qed.
Lemma Rmse_nonneg : exists v, Rmse_core XR (vmean XR) (F obs) (F fcst) = Fin v /\ 0 <= v.
Proof. eexists. split; [apply Rmse_value | apply sqrt_pos]. Qed.

Lemma StdError_value :
  StdError_core XR (F obs) (F fcst) =
  Fin (sqrt (rmean (map sqr (map (fun e => e - rmean (err obs fcst)) (err obs fcst))))).
Proof.
  unfold StdError_core. rewrite vsub_F. fold (err obs fcst). rewrite (vmean_F _ err_nonnil).
  rewrite (map_F (fun x_ => n_sub XR x_ (Fin (rmean (err obs fcst)))) (fun e => e - rmean (err obs fcst))) by reflexivity.
  rewrite vsq_F. rewrite vmean_F by (intro K; apply map_eq_nil in K; apply map_eq_nil in K; exact (err_nonnil K)).
  apply xsqrt_fin. apply rmean_nonneg. apply Forall_map_sqr_nonneg.
Qed.
Lemma StdError_nonneg : exists v, StdError_core XR (F obs) (F fcst) = Fin v /\ 0 <= v.
Proof. eexists. split; [apply StdError_value | apply sqrt_pos]. Qed.

Lemma Nsec_value :
  Nsec_core XR (F obs) (F fcst) =
  let den := rsum (map sqr (map (fun o => o - rmean obs) obs)) in
  if Reqb den 0 then NaN else Fin (1 - rsum (map sqr (map2r Rminus fcst obs)) / den).
Proof.
  unfold Nsec_core. rewrite (vmean_F obs Hne), vsub_F, vsq_F, vsum_F.
  rewrite (map_F (fun x_ => n_sub XR x_ (Fin (rmean obs))) (fun o => o - rmean obs)) by reflexivity.
  rewrite vsq_F, vsum_F. cbv zeta. cbn [XR xops n_eqb n_lit n_sub n_div n_nan]. unfold x_eqb, x_lit. cbn [RBase b_ofZ b_eqb].
  destruct (Reqb (rsum (map sqr (map (fun o => o - rmean obs) obs))) 0) eqn:E; [reflexivity|].
  unfold x_div, is0, z0. cbn [RBase b_eqb b_ofZ b_div]. rewrite E. reflexivity.
Qed.

(* Nash-Sutcliffe efficiency is never above 1 (its perfect score) *)
Lemma Nsec_le_1 v : Nsec_core XR (F obs) (F fcst) = Fin v -> v <= 1.
Proof.
  rewrite Nsec_value. cbv zeta. destruct (Reqb _ 0) eqn:E; [discriminate|]. intros H. injection H as <-.
  apply Reqb_false in E.
  pose proof (rsum_nonneg _ (Forall_map_sqr_nonneg (map (fun o => o - rmean obs) obs))) as D.
  pose proof (rsum_nonneg _ (Forall_map_sqr_nonneg (map2r Rminus fcst obs))) as N.
  assert (0 <= rsum (map sqr (map2r Rminus fcst obs)) / rsum (map sqr (map (fun o => o - rmean obs) obs))).
  { apply Rmult_le_pos; [exact N|]. apply Rlt_le. apply Rinv_0_lt_compat. lra. }
  lra.
Qed.
End S.

(* ---- perfect forecasts ---------------------------------------------------------------------- *)
Section P.
Variable obs : list R.
Variable Hne : obs <> [].

Lemma err_same_zero : Forall (fun x => x = 0) (err obs obs).
Proof. apply map2r_same_minus. Qed.

Lemma Mae_perfect_attained : Some (Mae_core XR (vmean XR) (F obs) (F obs)) = Mae_perfect XR.
Proof.
  rewrite (Mae_value obs obs eq_refl Hne). unfold Mae_perfect. cbn [XR xops n_lit]. unfold x_lit. cbn [RBase b_ofZ].
  rewrite rmean_zeros; [reflexivity|]. apply Forall_zero_map; [apply Rabs_R0 | apply err_same_zero].
Qed.
Lemma Bias_perfect_attained : Some (Bias_core XR (vmean XR) (F obs) (F obs)) = Bias_perfect XR.
Proof.
  rewrite (Bias_value obs obs eq_refl Hne). unfold Bias_perfect. cbn [XR xops n_lit]. unfold x_lit. cbn [RBase b_ofZ].
  rewrite rmean_zeros; [reflexivity | apply map2r_same_minus].
Qed.
Lemma Rmse_perfect_attained : Some (Rmse_core XR (vmean XR) (F obs) (F obs)) = Rmse_perfect XR.
Proof.
  rewrite (Rmse_value obs obs eq_refl Hne). unfold Rmse_perfect. cbn [XR xops n_lit]. unfold x_lit. cbn [RBase b_ofZ].
  rewrite rmean_zeros; [rewrite sqrt_0; reflexivity|]. apply Forall_zero_map; [unfold sqr; lra | apply err_same_zero].
Qed.
Lemma StdError_perfect_attained : Some (StdError_core XR (F obs) (F obs)) = StdError_perfect XR.
Proof.
  rewrite (StdError_value obs obs eq_refl Hne). unfold StdError_perfect. cbn [XR xops n_lit]. unfold x_lit. cbn [RBase b_ofZ].
  rewrite (rmean_zeros (err obs obs)) by apply err_same_zero.
  rewrite rmean_zeros; [rewrite sqrt_0; reflexivity|].
  apply Forall_zero_map; [unfold sqr; lra|]. apply Forall_zero_map; [lra | apply err_same_zero].
Qed.
Lemma Nsec_perfect_attained :
  Nsec_core XR (F obs) (F obs) = NaN \/ Some (Nsec_core XR (F obs) (F obs)) = Nsec_perfect XR.
Proof.
  rewrite (Nsec_value obs obs Hne). cbv zeta. destruct (Reqb _ 0) eqn:E; [left; reflexivity|]. right.
  unfold Nsec_perfect. cbn [XR xops n_lit]. unfold x_lit. cbn [RBase b_ofZ]. apply f_equal. apply f_equal.
  rewrite (rsum_zeros (map sqr (map2r Rminus obs obs))); [|apply Forall_zero_map; [unfold sqr; lra | apply map2r_same_minus]].
  apply Reqb_false in E. field. exact E.
Qed.
(* Diff (agg(fcst) - agg(obs)) is 0 for ANY aggregator that returns a finite number *)
Lemma Diff_perfect_attained (agg : list xr -> xr) : is_fin (agg (F obs)) ->
  Some (Diff_core XR agg (F obs) (F obs)) = Diff_perfect XR.
Proof.
  intros [r Hr]. unfold Diff_core, Diff_perfect. rewrite Hr. cbn. unfold x_lit. cbn. f_equal. f_equal. lra.
Qed.
End P.

(* ---- the pair filter ----------------------------------------------------------------------- *)

Lemma obsfcst_compute_no_pairs (core : list xr -> list xr -> xr) obs fcst :
  valid_pairs XR obs fcst = [] -> obsfcst_compute XR core obs fcst = NaN.
Proof.
  intros H. unfold obsfcst_compute. rewrite H. cbn. unfold x_ltb, x_lit. cbn.
  rewrite (proj2 (Rltb_false 0 0)) by lra. reflexivity.
Qed.
Lemma obsfcst_compute_some_pairs (core : list xr -> list xr -> xr) obs fcst :
  valid_pairs XR obs fcst <> [] ->
  obsfcst_compute XR core obs fcst = core (map fst (valid_pairs XR obs fcst)) (map snd (valid_pairs XR obs fcst)).
Proof.
  intros H. unfold obsfcst_compute. destruct (valid_pairs XR obs fcst) as [|p ps]; [congruence|].
  cbn [length]. cbn [XR xops n_ltb n_lit n_ofnat]. unfold x_ltb, x_lit. cbn [RBase b_ofZ b_ltb].
  rewrite (proj2 (Rltb_true 0 (IZR (Z.of_nat (S (length ps)))))) by (apply IZR_lt; lia). reflexivity.
Qed.
Lemma valid_pairs_no_nan obs fcst p : In p (valid_pairs XR obs fcst) ->
  n_isnan XR (fst p) = false /\ n_isnan XR (snd p) = false /\ In p (combine obs fcst).
Proof.
  unfold valid_pairs. intros H. apply filter_In in H. destruct H as [Hin Hb].
  apply negb_true_iff in Hb. apply orb_false_iff in Hb. tauto.
Qed.
