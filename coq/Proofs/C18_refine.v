(* Proofs/C18_refine.v -- REFINEMENT of the stateful model (Model/DataState.v, repaired code: copy_all =
   true) to the pure answer of a freshly built dataset (Model/Data.v), for histories of any length. *)
From Coq Require Import ZArith List Bool Lia.
From VF Require Import Model.Data Model.DataState Proofs.C18_proofs Proofs.C18_frame.
Import ListNotations.

Section S.
Variable V : Type.
Variable vltb : V -> V -> bool.
Variable vsub vdiv : V -> V -> option V.
Variable axis_of : nat -> axis.
Variable d : data V.
Notation step := (step V vltb vsub vdiv true axis_of).
Notation run := (run V vltb vsub vdiv true axis_of).
Notation state := (state V).
Notation heap := (heap V). Notation fcache := (fcache V). Notation scache := (scache V).
Notation read := (read V). Notation write := (write V). Notation alloc := (alloc V). Notation alloc_all := (alloc_all V).
Notation hlen := (hlen V). Notation fc_ids := (fc_ids V). Notation sc_ids := (sc_ids V).
Notation ext := (ext V d). Notation wf_fc := (wf_fc V d). Notation inv := (inv V d).
Notation cube := (cube V).

Definition mk (c : cube) : cube := map (map (map (mask_obs_range V vltb (d_obs_range d)))) c.
Definition nf (f : field) (c : cube) : cube := match f with FObs => mk c | _ => c end.

Lemma mk_idem c : mk (mk c) = mk c.
Proof. apply mask_cube_idempotent. Qed.
Lemma nf_idem f c : nf f (nf f c) = nf f c.
Proof. destruct f; cbn; try reflexivity. apply mk_idem. Qed.

(* ---- field_eqb is equality ------------------------------------------------------------------ *)
Lemma field_eqb_refl f : field_eqb f f = true.
Proof. destruct f; cbn; auto using Z.eqb_refl, Nat.eqb_refl. Qed.
Lemma field_eqb_eq f g : field_eqb f g = true -> f = g.
Proof.
  destruct f, g; cbn; intros H; try discriminate; try reflexivity.
  - apply Z.eqb_eq in H. congruence.
  - apply Z.eqb_eq in H. congruence.
  - apply Nat.eqb_eq in H. congruence.
Qed.

(* ---- alloc_all: the new ids read back the new objects ------------------------------------------- *)
Lemma alloc_all_preserves os : forall st st' ids0, alloc_all st os = (st', ids0) ->
  forall j, j < length (heap st) -> read st' j = read st j.
Proof.
  induction os as [|o0 os0 IH0]; intros st st' ids0 H0 j Hj; cbn in H0.
  - inversion H0; subst. reflexivity.
  - match type of H0 with context [DataState.alloc_all V ?x os0] => destruct (DataState.alloc_all V x os0) as [s3 is3] eqn:E3 end.
    inversion H0; subst. rewrite (IH0 _ _ _ E3); [|cbn; rewrite app_length; lia].
    unfold DataState.read. cbn. apply app_nth1. exact Hj.
Qed.

Lemma alloc_all_read os : forall s s' ids, alloc_all s os = (s', ids) ->
  forall i, i < length os -> read s' (nth i ids 0) = nth i os (OFlat V []).
Proof.
  induction os as [|o os IH]; intros s s' ids H i Hi; [cbn in Hi; lia|].
  cbn in H.
  match type of H with context [DataState.alloc_all V ?x os] => destruct (DataState.alloc_all V x os) as [s2 is_] eqn:E end.
  inversion H; subst; clear H.
  destruct i as [|i]; cbn [nth].
  - rewrite (alloc_all_preserves _ _ _ _ E); [|cbn; rewrite app_length; cbn; lia].
    unfold DataState.read. cbn. rewrite app_nth2 by lia. rewrite Nat.sub_diag. reflexivity.
  - apply (IH _ _ _ E). cbn in Hi. lia.
Qed.

(* ---- shared observations: an input without observations holds the same array as the first input that has them ---- *)
Definition isnone (o : option cube) : bool := match o with Some _ => false | None => true end.
Definition issome (o : option cube) : bool := match o with Some _ => true | None => false end.

Lemma first_own_spec l : forall s,
  match find (fun z : nat * bool => negb (snd z)) (combine (seq s (length l)) (map isnone l)) with
  | Some (i, _) => exists c0, find issome l = Some (Some c0) /\ nth (i - s) l None = Some c0 /\ s <= i < s + length l
  | None => find issome l = None
  end.
Proof.
  induction l as [|o l IH]; intros s; cbn; [reflexivity|].
  destruct o as [c|]; cbn.
  - exists c. rewrite Nat.sub_diag. cbn. repeat split; lia.
  - specialize (IH (S s)). destruct (find _ (combine (seq (S s) (length l)) (map isnone l))) as [[i b]|].
    + destruct IH as [c0 [H1 [H2 H3]]]. exists c0. split; [exact H1|]. split; [|lia].
      replace (i - s) with (S (i - S s)) by lia. exact H2.
    + exact IH.
Qed.

Lemma nth_map_in {A B} (g : A -> B) l k da db : k < length l -> nth k (map g l) db = g (nth k l da).
Proof. intros H. rewrite (nth_indep _ db (g da)) by (rewrite map_length; exact H). apply map_nth. Qed.

Lemma shared_same cs : get_score_all V d FObs = OK cs ->
  forall i c0 k, find issome (loaded V d FObs) = Some (Some c0) -> nth i (loaded V d FObs) None = Some c0 ->
  nth k (loaded V d FObs) None = None -> k < length (loaded V d FObs) -> i < length (loaded V d FObs) ->
  nth k cs [] = nth i cs [].
Proof.
  unfold get_score_all, share_obs. set (l := loaded V d FObs). intros H i c0 k Hf Hi Hk Lk Li.
  change (find (fun o : option cube => match o with Some _ => true | None => false end) l) with (find issome l) in H.
  rewrite Hf in H. inversion H; subst; clear H.
  unfold propagate.
  set (cs0 := map (fun o : option cube => match o with Some c => c | None => c0 end) l).
  assert (Lc : length cs0 = length l) by (unfold cs0; apply map_length).
  etransitivity; [apply (nth_map_in _ cs0 k [] []); lia|].
  symmetry. etransitivity; [apply (nth_map_in _ cs0 i [] []); lia|]. symmetry.
  assert (E : nth k cs0 [] = nth i cs0 []).
  { unfold cs0. etransitivity; [apply (nth_map_in _ l k None []); lia|].
    symmetry. etransitivity; [apply (nth_map_in _ l i None []); lia|]. rewrite Hi, Hk. reflexivity. }
  rewrite E. reflexivity.
Qed.

(* ---- content of the field cache -------------------------------------------------------------- *)
Definition holds (s : state) (f : field) (ids : list nat) (cs : list cube) : Prop :=
  forall k, k < length (d_inputs d) -> exists c, read s (nth k ids 0) = OCube V c /\ nf f c = nf f (nth k cs []).
Definition fc_content (s : state) : Prop :=
  forall f ids, find_fcache V s f = Some ids -> exists cs, get_score_all V d f = OK cs /\ holds s f ids cs.

Lemma find_fcache_cons s f ids f' hp sc :
  find_fcache V {| DataState.heap := hp; DataState.fcache := (f, ids) :: fcache s; DataState.scache := sc |} f' =
  if field_eqb f' f then Some ids else find_fcache V s f'.
Proof. unfold find_fcache. cbn. destruct (field_eqb f' f); reflexivity. Qed.

Lemma ensure_field_content s f : wf_fc s -> fc_content s ->
  match ensure_field V d s f with
  | OK (s', ids) => exists cs, get_score_all V d f = OK cs /\ holds s' f ids cs /\ fc_content s'
  | Error e => get_score_all V d f = Error e
  end.
Proof.
  intros W C. unfold ensure_field. destruct (find_fcache V s f) as [ids0|] eqn:Ef.
  - destruct (C _ _ Ef) as [cs [G H]]. exists cs. auto.
  - destruct (get_score_all V d f) as [cs|e] eqn:Eg; [|reflexivity].
    destruct (alloc_all s (map (fun c => OCube V c) cs)) as [s1 own] eqn:Ea.
    destruct (alloc_all_spec V d _ _ _ _ Ea) as (X & L & Li & R & Fc).
    pose proof (get_score_all_length V d _ _ Eg) as Lc.
    set (n := length (d_inputs d)) in *.
    rewrite map_length in Li.
    set (shares := match f with FObs => map (fun o : option cube => match o with Some _ => false | None => true end) (loaded V d f) | _ => map (fun _ => false) cs end).
    set (first_own := match find (fun p : nat * bool => negb (snd p)) (combine (seq 0 (length cs)) shares) with Some p => fst p | None => 0 end).
    set (ids := map (fun p : nat * bool => if snd p then nth first_own own 0 else fst p) (combine own shares)).
    assert (Ls : length shares = n).
    { unfold shares. destruct f; rewrite map_length; try exact Lc. apply (loaded_length V d). }
    assert (Rd : forall j, j < n -> read s1 (nth j own 0) = OCube V (nth j cs [])).
    { intros j Hj. rewrite (alloc_all_read _ _ _ _ Ea) by (rewrite map_length; lia).
      apply (nth_map_in (fun c => OCube V c) cs j [] (OFlat V [])). lia. }
    assert (Hnew : holds s1 f ids cs).
    { intros k Hk.
      assert (Ek : nth k ids 0 = if nth k shares false then nth first_own own 0 else nth k own 0).
      { unfold ids. rewrite (nth_map_in _ (combine own shares) k (0, false) 0) by (rewrite combine_length; lia).
        rewrite combine_nth by lia. reflexivity. }
      rewrite Ek. destruct (nth k shares false) eqn:Esh.
      - (* a shared slot: only observations are shared *)
        destruct f; try (unfold shares in Esh; rewrite (nth_map_in (fun _ : cube => false) cs k [] false) in Esh by lia; discriminate).
        pose proof (first_own_spec (loaded V d FObs) 0) as Fo.
        assert (Ll : length (loaded V d FObs) = n) by apply (loaded_length V d).
        unfold shares in *. fold isnone in *.
        change (map (fun o : option cube => match o with Some _ => false | None => true end) (loaded V d FObs)) with (map isnone (loaded V d FObs)) in *.
        unfold first_own. rewrite Lc, <- Ll.
        destruct (find _ (combine (seq 0 (length (loaded V d FObs))) (map isnone (loaded V d FObs)))) as [[i b]|].
        + destruct Fo as [c0 [F1 [F2 F3]]]. cbn [fst]. rewrite Nat.sub_0_r in F2.
          exists (nth i cs []). split; [apply Rd; lia|].
          f_equal. symmetry. apply (shared_same cs Eg i c0 k F1 F2); try lia.
          rewrite (nth_map_in isnone _ k None false) in Esh by lia.
          destruct (nth k (loaded V d FObs) None); [discriminate | reflexivity].
        + (* no input has observations: get_score_all would have failed *)
          exfalso. unfold get_score_all, share_obs in Eg.
          change (find (fun o : option cube => match o with Some _ => true | None => false end) (loaded V d FObs)) with (find issome (loaded V d FObs)) in Eg.
          rewrite Fo in Eg. discriminate.
      - exists (nth k cs []). split; [apply Rd; exact Hk | reflexivity]. }
    exists cs. split; [reflexivity|]. split.
    + intros k Hk. destruct (Hnew k Hk) as [c [H1 H2]]. exists c. split; [exact H1 | exact H2].
    + intros f' ids' Hf'. rewrite find_fcache_cons in Hf'. destruct (field_eqb f' f) eqn:Eq.
      * apply field_eqb_eq in Eq. subst f'. inversion Hf'; subst ids'. exists cs. split; [exact Eg|].
        intros k Hk. destruct (Hnew k Hk) as [c [H1 H2]]. exists c. split; [exact H1 | exact H2].
      * assert (Hf0 : find_fcache V s f' = Some ids') by (unfold find_fcache in *; rewrite <- Fc; exact Hf').
        destruct (C _ _ Hf0) as [cs' [G' H']]. exists cs'. split; [exact G'|].
        intros k Hk. destruct (H' k Hk) as [c [H1 H2]]. exists c. split; [|exact H2].
        change (read {| DataState.heap := heap s1; DataState.fcache := (f, ids) :: fcache s1; DataState.scache := scache s1 |} (nth k ids' 0)) with (read s1 (nth k ids' 0)).
        rewrite (alloc_all_preserves _ _ _ _ Ea); [exact H1|].
        destruct W as [W1 W2]. apply W1. apply (find_fcache_in V _ _ _ Hf0). apply nth_In. rewrite (W2 _ _ Hf0). exact Hk.
Qed.

(* ---- the invariant of the refinement ------------------------------------------------------------ *)
Definition fc_sep (s : state) : Prop :=
  forall ids f' ids', find_fcache V s FObs = Some ids -> find_fcache V s f' = Some ids' -> f' <> FObs ->
  forall id, In id ids -> ~ In id ids'.
Definition INV (s : state) : Prop := inv s /\ fc_content s /\ fc_sep s.

Lemma gsa_nt f cs k : get_score_all V d f = OK cs -> k < length cs -> length (nth k cs []) = length (d_times d).
Proof.
  unfold get_score_all. destruct (match f with FObs => share_obs V (loaded V d f) | _ => require_all V (loaded V d f) end) as [cs0|e]; [|discriminate].
  intros H Hk. inversion H; subst; clear H. unfold propagate in *. cbv zeta in *. rewrite map_length in Hk.
  etransitivity; [apply f_equal; apply (nth_map_in _ cs0 k [] []); exact Hk|].
  rewrite map_length, seq_length. reflexivity.
Qed.

Lemma mk_length c : length (mk c) = length c.
Proof. unfold mk. apply map_length. Qed.

Lemma ensure_field_sep s f s' ids : wf_fc s -> fc_sep s -> ensure_field V d s f = OK (s', ids) -> fc_sep s'.
Proof.
  intros W Sp E. destruct (find_fcache V s f) as [ids0|] eqn:Ef.
  - unfold ensure_field in E. rewrite Ef in E. inversion E; subst. exact Sp.
  - destruct (ensure_field_ext V d _ _ _ _ E) as (X & _ & _ & Fr). specialize (Fr Ef).
    (* the shape of the new state *)
    unfold ensure_field in E. rewrite Ef in E.
    destruct (get_score_all V d f) as [cs|e] eqn:Eg; [|discriminate].
    destruct (alloc_all s (map (fun c => OCube V c) cs)) as [s1 own] eqn:Ea.
    destruct (alloc_all_spec V d _ _ _ _ Ea) as (_ & _ & _ & _ & Fc).
    inversion E; subst; clear E.
    intros idsO f' ids' HO Hf' Hne id Hid.
    rewrite find_fcache_cons in HO, Hf'.
    assert (Hold : forall g idg, find_fcache V s1 g = Some idg -> forall j, In j idg -> j < hlen s).
    { intros g idg Hg j Hj. destruct W as [W1 _]. apply W1. apply (find_fcache_in V s g idg); [|exact Hj].
      unfold find_fcache in *. rewrite <- Fc. exact Hg. }
    destruct (field_eqb FObs f) eqn:E1; destruct (field_eqb f' f) eqn:E2.
    + apply field_eqb_eq in E1. apply field_eqb_eq in E2. congruence.
    + inversion HO; subst idsO. intros Hc. specialize (Fr id Hid). specialize (Hold _ _ Hf' id Hc). lia.
    + inversion Hf'; subst ids'. intros Hc. specialize (Fr id Hc). specialize (Hold _ _ HO id Hid). lia.
    + apply (Sp idsO f' ids'); try assumption; unfold find_fcache in *; rewrite <- Fc; assumption.
Qed.

Lemma inv_ext s s' : inv s -> ext s s' -> inv s'.
Proof.
  intros (W & Sl & Sd) X. split; [apply (e_wf _ _ _ _ X W)|].
  assert (Es : sc_ids s' = sc_ids s) by (unfold C18_frame.sc_ids; rewrite (e_sc _ _ _ _ X); reflexivity).
  split; intros id H; rewrite Es in H.
  - specialize (Sl id H). pose proof (e_len _ _ _ _ X). lia.
  - intros Hc. destruct (e_fc_new _ _ _ _ X id Hc) as [Hc'|Hc']; [apply (Sd id H Hc') | specialize (Sl id H); lia].
Qed.

(* same caches, same content of the field-cache objects: the content invariant carries over *)
Lemma fc_content_same s s' : fcache s' = fcache s -> (forall id, In id (fc_ids s) -> read s' id = read s id) ->
  wf_fc s -> fc_content s -> fc_content s'.
Proof.
  intros Fc Rd [W1 W2] C f ids Hf.
  assert (Hf0 : find_fcache V s f = Some ids) by (unfold find_fcache in *; rewrite <- Fc; exact Hf).
  destruct (C _ _ Hf0) as [cs [G H]]. exists cs. split; [exact G|].
  intros k Hk. destruct (H k Hk) as [c [H1 H2]]. exists c. split; [|exact H2].
  rewrite Rd; [exact H1|]. apply (find_fcache_in V _ _ _ Hf0). apply nth_In. rewrite (W2 _ _ Hf0). exact Hk.
Qed.
Lemma fc_sep_same s s' : fcache s' = fcache s -> fc_sep s -> fc_sep s'.
Proof. intros Fc Sp ids f' ids' H1 H2. apply Sp; unfold find_fcache in *; rewrite <- Fc; assumption. Qed.

Lemma INV_alloc s o : INV s -> INV (fst (alloc s o)).
Proof.
  intros (I & C & Sp). destruct (ext_alloc V d s o) as [X _]. split; [apply (inv_ext _ _ I X)|]. split.
  - apply (fc_content_same s); [reflexivity | | apply I | exact C].
    intros id Hin. apply alloc_preserves. destruct I as ([W1 _] & _). apply W1. exact Hin.
  - apply (fc_sep_same s); [reflexivity | exact Sp].
Qed.

(* the in-place -obsrange mask of one cached observation array keeps the invariant *)
Lemma INV_mask s ids k c0 : INV s -> find_fcache V s FObs = Some ids -> k < length (d_inputs d) ->
  read s (nth k ids 0) = OCube V c0 -> INV (write s (nth k ids 0) (OCube V (mk c0))).
Proof.
  intros (I & C & Sp) Hf Hk Hr. set (fid := nth k ids 0) in *.
  assert (Hfid : In fid ids).
  { apply nth_In. destruct I as ([_ W2] & _). rewrite (W2 _ _ Hf). exact Hk. }
  assert (Hfc : In fid (fc_ids s)) by (apply (find_fcache_in V _ _ _ Hf); exact Hfid).
  assert (Hlt : fid < hlen s) by (destruct I as ([W1 _] & _); apply W1; exact Hfc).
  split; [apply (inv_ext _ _ I (ext_write_fc V d s fid _ Hfc))|]. split; [|apply (fc_sep_same s); [reflexivity | exact Sp]].
  intros f ids' Hf'. change (find_fcache V (write s fid (OCube V (mk c0))) f) with (find_fcache V s f) in Hf'.
  destruct (C _ _ Hf') as [cs [G H]]. exists cs. split; [exact G|].
  intros k' Hk'. destruct (H k' Hk') as [c [H1 H2]].
  destruct (Nat.eq_dec (nth k' ids' 0) fid) as [E|E].
  - (* the object that was masked: it belongs to the observations *)
    assert (f = FObs).
    { destruct f; try reflexivity; exfalso;
        (eapply (Sp ids _ ids' Hf Hf'); [discriminate | exact Hfid |]; rewrite <- E; apply nth_In;
         destruct I as ([_ W2] & _); rewrite (W2 _ _ Hf'); exact Hk'). }
    subst f. rewrite E in *. rewrite Hr in H1. inversion H1; subst c.
    exists (mk c0). split.
    + unfold DataState.read, DataState.write. cbn. apply set_nth_same. exact Hlt.
    + cbn [nf] in *. rewrite mk_idem. exact H2.
  - exists c. split; [|exact H2]. rewrite write_other by (intros Hc; apply E; symmetry; exact Hc). exact H1.
Qed.

(* ---- one field of a request ------------------------------------------------------------------------- *)
Definition fv (kax : saxis) (k : nat) (clim : option (list (option V))) (f : field) : result (list (option V)) :=
  match kax with
  | SAll => field_values_all V vltb vsub vdiv d f k clim
  | SAx ax ai => field_values V vltb vsub vdiv d f k (axis_of ax) ai clim
  end.
Definition obj_ok (kax : saxis) (o : obj V) (col : list (option V)) : Prop :=
  match kax with SAll => o = OArr V (length (d_times d)) col | SAx _ _ => o = OFlat V col end.

Lemma fstep_content k clim kax st out f : k < length (d_inputs d) -> INV st ->
  match fstep V vltb vsub vdiv axis_of d k clim kax (OK (st, out)) f with
  | OK (st', out') => exists col nid, fv kax k clim f = OK col /\ out' = (out ++ [nid])%list /\
        obj_ok kax (read st' nid) col /\ INV st' /\ ext st st' /\ hlen st <= nid < hlen st' /\ ~ In nid (fc_ids st')
  | Error e => fv kax k clim f = Error e
  end.
Proof.
  intros Hk (I & C & Sp). unfold fstep.
  pose proof (ensure_field_content st f (proj1 I) C) as EC.
  destruct (ensure_field V d st f) as [[st1 ids]|e] eqn:Ee.
  2:{ unfold fv, field_values, field_values_all, get_score. rewrite EC. destruct kax; reflexivity. }
  destruct EC as [cs [G [Hh C1]]].
  destruct (ensure_field_ext V d _ _ _ _ Ee) as (X1 & Hin & Hl & _).
  pose proof (ensure_field_sep _ _ _ _ (proj1 I) Sp Ee) as Sp1.
  pose proof (inv_ext _ _ I X1) as I1.
  assert (INV1 : INV st1) by (split; [exact I1 | split; [exact C1 | exact Sp1]]).
  pose proof (get_score_all_length V d _ _ G) as Lc.
  destruct (Hh k Hk) as [c0 [Hr Hn]].
  set (fid := nth k ids 0) in *.
  assert (Hfind : find_fcache V st1 f = Some ids).
  { unfold ensure_field in Ee. destruct (find_fcache V st f) as [ids0|] eqn:Ef.
    - inversion Ee; subst. exact Ef.
    - rewrite G in Ee. destruct (alloc_all st (map (fun c => OCube V c) cs)) as [sa own]. inversion Ee; subst.
      rewrite find_fcache_cons, field_eqb_refl. reflexivity. }
  (* after the (possible) in-place mask the array read for this request is the pure one *)
  set (st2 := match f with FObs => write st1 fid (OCube V (map (map (map (mask_obs_range V vltb (d_obs_range d)))) (read_cube V st1 fid))) | _ => st1 end).
  assert (Hrc : read_cube V st1 fid = c0) by (unfold read_cube; rewrite Hr; reflexivity).
  assert (H2 : INV st2 /\ ext st1 st2 /\ read_cube V st2 fid = nf f (nth k cs [])).
  { unfold st2. destruct f; try (split; [exact INV1 | split; [apply ext_refl | cbn [nf] in Hn; rewrite Hrc; exact Hn]]).
    rewrite Hrc. change (map (map (map (mask_obs_range V vltb (d_obs_range d)))) c0) with (mk c0).
    split; [apply (INV_mask st1 ids k c0 INV1 Hfind Hk Hr)|]. split.
    - apply ext_write_fc. apply Hin. apply nth_In. rewrite (Hl (proj1 I)). exact Hk.
    - unfold read_cube, DataState.read, DataState.write. cbn [DataState.heap]. rewrite set_nth_same.
      + cbn [nf] in Hn. exact Hn.
      + destruct I1 as ([W1 _] & _). apply W1. apply Hin. apply nth_In. rewrite (Hl (proj1 I)). exact Hk. }
  destruct H2 as (INV2 & X12 & Hc).
  fold st2. rewrite Hc. set (c := nf f (nth k cs [])).
  assert (X02 : ext st st2) by (eapply ext_trans; eassumption).
  assert (Lcn : length c = length (d_times d)).
  { unfold c. destruct f; cbn [nf]; rewrite ?mk_length; apply (gsa_nt _ _ _ G); lia. }
  (* allocation of the answer object *)
  assert (Fin : forall o col, fv kax k clim f = OK col -> obj_ok kax o col ->
     exists col0 nid, fv kax k clim f = OK col0 /\ (out ++ [snd (alloc st2 o)])%list = (out ++ [nid])%list /\
       obj_ok kax (read (fst (alloc st2 o)) nid) col0 /\ INV (fst (alloc st2 o)) /\ ext st (fst (alloc st2 o)) /\
       hlen st <= nid < hlen (fst (alloc st2 o)) /\ ~ In nid (fc_ids (fst (alloc st2 o)))).
  { intros o col Hfv Ho. exists col, (snd (alloc st2 o)). split; [exact Hfv|]. split; [reflexivity|].
    destruct (alloc_fresh V d st2 o (proj1 (proj1 INV2))) as (X3 & R & Nf).
    split; [|split; [apply INV_alloc; exact INV2 | split; [eapply ext_trans; eassumption | split; [|exact Nf]]]].
    - pose proof (alloc_read V st2 o) as Ar. cbn in Ar. destruct Ar as [Ar _].
      change (read (fst (alloc st2 o)) (snd (alloc st2 o))) with (read (fst (alloc st2 o)) (length (heap st2))).
      cbn. unfold DataState.read. cbn. rewrite app_nth2 by lia. rewrite Nat.sub_diag. cbn. exact Ho.
    - pose proof (e_len _ _ _ _ X02). lia. }
  (* the pure value of this field *)
  assert (Hgs : get_score V d f k = OK (nth k cs [])) by (unfold get_score; rewrite G; reflexivity).
  assert (Hc1 : match f with FObs => map (map (map (mask_obs_range V vltb (d_obs_range d)))) (nth k cs []) | _ => nth k cs [] end = c).
  { unfold c. destruct f; reflexivity. }
  destruct kax as [|ax ai].
  - unfold fv, field_values_all in *. rewrite Hgs in *. rewrite Hc1 in *.
    destruct clim as [cl|]; [destruct (is_obs_or_fcst f) eqn:Eo|].
    + cbv zeta. apply (Fin _ _ eq_refl). unfold obj_ok. rewrite Lcn. reflexivity.
    + cbv zeta iota. apply (Fin _ _ eq_refl). unfold obj_ok. rewrite Lcn. reflexivity.
    + cbv zeta iota. apply (Fin _ _ eq_refl). unfold obj_ok. rewrite Lcn. reflexivity.
  - unfold fv, field_values in *. rewrite Hgs in *. rewrite Hc1 in *. unfold slice_of.
    destruct clim as [cl|]; [destruct (is_obs_or_fcst f) eqn:Eo|]; cbv zeta iota; apply (Fin _ _ eq_refl); reflexivity.
Qed.

Lemma fold_error k clim kax fields e :
  fold_left (fstep V vltb vsub vdiv axis_of d k clim kax) fields (Error e) = Error e.
Proof. induction fields as [|f fields IH]; cbn; [reflexivity | exact IH]. Qed.

Lemma fold_content k clim kax : k < length (d_inputs d) -> forall fields st out, INV st ->
  match fold_left (fstep V vltb vsub vdiv axis_of d k clim kax) fields (OK (st, out)) with
  | OK (st', out') => exists cols news, collect (map (fv kax k clim) fields) = OK cols /\ out' = (out ++ news)%list /\
        length news = length cols /\
        (forall i, i < length cols -> obj_ok kax (read st' (nth i news 0)) (nth i cols [])) /\
        INV st' /\ ext st st' /\ (forall id, In id news -> hlen st <= id < hlen st' /\ ~ In id (fc_ids st')) /\ NoDup news
  | Error e => collect (map (fv kax k clim) fields) = Error e
  end.
Proof.
  intros Hk. induction fields as [|f fields IH]; intros st out I.
  - cbn. exists [], []. rewrite app_nil_r.
    split; [reflexivity|]. split; [reflexivity|]. split; [reflexivity|].
    split; [intros i Hi; cbn in Hi; lia|]. split; [exact I|]. split; [apply ext_refl|].
    split; [intros id []|apply NoDup_nil].
  - cbn [fold_left map collect].
    pose proof (fstep_content k clim kax st out f Hk I) as S1.
    destruct (fstep V vltb vsub vdiv axis_of d k clim kax (OK (st, out)) f) as [[st1 out1]|e] eqn:E1.
    2:{ rewrite fold_error. rewrite S1. reflexivity. }
    destruct S1 as (col & nid & Hfv & -> & Ho & I1 & X1 & R1 & N1).
    specialize (IH st1 (out ++ [nid])%list I1). rewrite Hfv.
    destruct (fold_left _ fields (OK (st1, (out ++ [nid])%list))) as [[st' out']|e] eqn:E2.
    2:{ rewrite IH. reflexivity. }
    destruct IH as (cols & news & Hc & -> & Ln & Hobj & I' & X' & Hfr & Nd).
    rewrite Hc. exists (col :: cols), (nid :: news).
    split; [reflexivity|]. split; [rewrite <- app_assoc; reflexivity|]. split; [cbn; lia|].
    split; [|split; [exact I'|split; [eapply ext_trans; eassumption|split]]].
    + intros [|i] Hi; cbn [nth].
      * rewrite (e_read _ _ _ _ X'); [exact Ho | lia | exact N1].
      * apply Hobj. cbn in Hi. lia.
    + intros id [<-|Hin].
      * pose proof (e_len _ _ _ _ X'). split; [lia|].
        intros Hc'. destruct (e_fc_new _ _ _ _ X' _ Hc') as [Hq|Hq]; [contradiction | lia].
      * destruct (Hfr id Hin) as [R N]. pose proof (e_len _ _ _ _ X1). split; [lia | exact N].
    + constructor; [|exact Nd]. intros Hin. destruct (Hfr nid Hin) as [R _]. lia.
Qed.

(* ---- in-place update of distinct objects --------------------------------------------------------------- *)
Lemma fold_write_content (h : obj V -> obj V) ids : NoDup ids -> forall s, (forall id, In id ids -> id < hlen s) ->
  let s' := fold_left (fun st id => write st id (h (read st id))) ids s in
  (forall id, In id ids -> read s' id = h (read s id)) /\ (forall id, ~ In id ids -> read s' id = read s id) /\
  hlen s' = hlen s /\ fcache s' = fcache s /\ scache s' = scache s.
Proof.
  induction ids as [|i ids IH]; intros Nd s Hlt; cbn.
  - repeat split; auto. intros id [].
  - inversion Nd as [|? ? Hni Nd']; subst.
    assert (Hl1 : hlen (write s i (h (read s i))) = hlen s) by (unfold C18_frame.hlen, DataState.write; cbn; apply set_nth_length).
    destruct (IH Nd' (write s i (h (read s i)))) as (A & B & C & D & E).
    { intros id Hin. rewrite Hl1. apply Hlt. right; exact Hin. }
    cbn zeta in *. split; [|split; [|split; [rewrite C; exact Hl1 | split; [rewrite D; reflexivity | rewrite E; reflexivity]]]].
    + intros id [<-|Hin].
      * rewrite B by exact Hni. unfold DataState.read, DataState.write. cbn. apply set_nth_same. apply Hlt. left; reflexivity.
      * rewrite A by exact Hin. f_equal. apply write_other. intros ->. contradiction.
    + intros id Hn. rewrite B by (intros Hc; apply Hn; right; exact Hc).
      apply write_other. intros ->. apply Hn. left; reflexivity.
Qed.

(* ---- the pure answer and the content of the request cache ----------------------------------------------- *)
Definition pure (rq : key) : result (list (list (option V))) :=
  match k_axis rq with
  | SAll => get_scores_all V vltb vsub vdiv d (k_fields rq) (k_input rq)
  | SAx ax ai => get_scores V vltb vsub vdiv d (k_fields rq) (k_input rq) (axis_of ax) ai
  end.
Definition contents (s : state) (ids : list nat) : list (list (option V)) := map (fun id => flat_of V (read s id)) ids.
Definition sc_content (s : state) : Prop := forall p, In p (scache s) -> pure (fst p) = OK (contents s (snd p)).
Definition FULL (s : state) : Prop := INV s /\ sc_content s.

Lemma fields_eqb_eq a b : fields_eqb a b = true -> a = b.
Proof.
  revert b. induction a as [|x a IH]; intros [|y b]; cbn; try discriminate; [reflexivity|].
  intros H. apply andb_true_iff in H. destruct H as [H1 H2]. apply field_eqb_eq in H1. apply IH in H2. congruence.
Qed.
Lemma key_eqb_eq a b : key_eqb a b = true -> a = b.
Proof.
  unfold key_eqb. intros H. apply andb_true_iff in H. destruct H as [H H3]. apply andb_true_iff in H. destruct H as [H1 H2].
  apply fields_eqb_eq in H1. apply Nat.eqb_eq in H2.
  destruct a as [fa ka xa], b as [fb kb xb]; cbn in *. subst.
  f_equal. destruct xa as [|x i], xb as [|y j]; cbn in H3; try discriminate; [reflexivity|].
  apply andb_true_iff in H3. destruct H3 as [H3 H4]. apply Nat.eqb_eq in H3. apply Nat.eqb_eq in H4. congruence.
Qed.

Lemma list_eq_nth {A} (l1 l2 : list A) dflt : length l1 = length l2 -> (forall i, i < length l1 -> nth i l1 dflt = nth i l2 dflt) -> l1 = l2.
Proof.
  revert l2. induction l1 as [|x l1 IH]; intros [|y l2] L H; cbn in L; try discriminate; [reflexivity|].
  f_equal; [apply (H 0); cbn; lia | apply IH; [lia | intros i Hi; apply (H (S i)); cbn; lia]].
Qed.

(* ---- closing a call: the new request-cache entry ----------------------------------------------------- *)
Lemma contents_same_heap s s' ids : heap s' = heap s -> contents s' ids = contents s ids.
Proof. intros H. unfold contents, DataState.read. rewrite H. reflexivity. Qed.

Lemma close s s3 rq outids ans : FULL s -> ext s s3 -> INV s3 ->
  (forall id, In id outids -> hlen s <= id < hlen s3 /\ ~ In id (fc_ids s3)) ->
  pure rq = OK ans -> contents s3 outids = ans ->
  FULL {| DataState.heap := heap s3; DataState.fcache := fcache s3; DataState.scache := (rq, outids) :: scache s3 |}.
Proof.
  intros ((I & C & Sp) & SC) X (I3 & C3 & Sp3) Fr Hp Hc.
  set (s' := {| DataState.heap := heap s3; DataState.fcache := fcache s3; DataState.scache := (rq, outids) :: scache s3 |}).
  destruct (finish V d s s3 rq outids I X Fr) as (I' & Frame & _ & _). fold s' in I', Frame.
  split; [split; [exact I' | split]|].
  - apply (fc_content_same s3 s'); [reflexivity | intros; reflexivity | apply I3 | exact C3].
  - apply (fc_sep_same s3 s'); [reflexivity | exact Sp3].
  - intros p [<-|Hin]; cbn [fst snd].
    + rewrite Hp. f_equal. rewrite (contents_same_heap s3 s') by reflexivity. symmetry. exact Hc.
    + rewrite (e_sc _ _ _ _ X) in Hin. rewrite (SC p Hin). f_equal.
      unfold contents. apply map_ext_in. intros id Hid. f_equal. symmetry. apply Frame.
      unfold C18_frame.sc_ids. apply in_concat. exists (snd p). split; [apply in_map; exact Hin | exact Hid].
Qed.

(* the objects of a fold are exactly the columns *)
Lemma contents_of_objs kax s news cols : length news = length cols ->
  (forall i, i < length cols -> obj_ok kax (read s (nth i news 0)) (nth i cols [])) -> contents s news = cols.
Proof.
  intros L H. apply (list_eq_nth _ _ []); [unfold contents; rewrite map_length; exact L|].
  intros i Hi. unfold contents in *. rewrite map_length in Hi.
  rewrite (nth_map_in (fun id => flat_of V (read s id)) news i 0 []) by exact Hi.
  specialize (H i ltac:(lia)). unfold obj_ok in H. destruct kax; rewrite H; reflexivity.
Qed.

(* ---- a slice request (every axis except All) ------------------------------------------------------------- *)
Lemma slice_tail s s2 rq cur cols : FULL s -> ext s s2 -> INV s2 -> contents s2 cur = cols ->
  forall ans, pure rq = OK ans ->
  ans = (let kept := map (keep_valid V (valid_mask V cols)) cols in match kept with [] :: _ => map (fun _ => [None]) cols | _ => kept end) ->
  let kept' := (let kept := map (keep_valid V (valid_mask V cols)) cols in match kept with [] :: _ => map (fun _ => [None]) cols | _ => kept end) in
  let '(s3, outids) := alloc_all s2 (map (fun l => OFlat V l) kept') in
  contents s3 outids = ans /\
  FULL {| DataState.heap := heap s3; DataState.fcache := fcache s3; DataState.scache := (rq, outids) :: scache s3 |}.
Proof.
  intros F X02 I2 Hc ans Hp Ha kept'.
  destruct (alloc_all s2 (map (fun l => OFlat V l) kept')) as [s3 outids] eqn:Ea.
  destruct (alloc_all_spec V d _ _ _ _ Ea) as (Xa & La & Li & Ra & Fa). rewrite map_length in Li.
  assert (Hcont : contents s3 outids = ans).
  { subst ans. fold kept'. apply (list_eq_nth _ _ []); [unfold contents; rewrite map_length; exact Li|].
    intros i Hi. unfold contents in *. rewrite map_length in Hi.
    rewrite (nth_map_in (fun id => flat_of V (read s3 id)) outids i 0 []) by exact Hi.
    rewrite (alloc_all_read _ _ _ _ Ea) by (rewrite map_length; lia).
    rewrite (nth_map_in (fun l => OFlat V l) kept' i [] (OFlat V [])) by lia. reflexivity. }
  split; [exact Hcont|].
  destruct I2 as (I2 & C2 & Sp2).
  apply (close s s3 rq outids ans F (ext_trans _ _ _ _ _ X02 Xa)); [| |exact Hp|exact Hcont].
  - split; [apply (inv_ext _ _ I2 Xa)|]. split.
    + apply (fc_content_same s2 s3 Fa); [|apply I2|exact C2].
      intros id Hin. apply (alloc_all_preserves _ _ _ _ Ea). destruct I2 as ([W1 _] & _). apply W1. exact Hin.
    + apply (fc_sep_same s2 s3 Fa Sp2).
  - intros id Hin. specialize (Ra id Hin). pose proof (e_len _ _ _ _ X02). split; [lia|].
    rewrite (fc_ids_eq V _ _ Fa). intros Hc'. destruct I2 as ([W1 _] & _). specialize (W1 id Hc'). lia.
Qed.

(* ---- a whole-array request (axis = All) --------------------------------------------------------------------- *)
Definition mask_apply (mask : list bool) (col : list (option V)) : list (option V) :=
  map (fun p : bool * option V => if fst p then snd p else None) (combine mask col).
Definition hmask (mask : list bool) (o : obj V) : obj V := with_flat V o (mask_apply mask (flat_of V o)).

Lemma all_tail s s2 rq cur cols : FULL s -> ext s s2 -> INV s2 ->
  (forall id, In id cur -> hlen s <= id < hlen s2 /\ ~ In id (fc_ids s2)) -> NoDup cur ->
  length cur = length cols ->
  (forall i, i < length cols -> read s2 (nth i cur 0) = OArr V (length (d_times d)) (nth i cols [])) ->
  forall ans, pure rq = OK ans ->
  ans = (match d_times d with [] => map (fun _ => [None]) cols | _ => map (mask_apply (valid_mask V cols)) cols end) ->
  let mask := valid_mask V cols in
  let s3 := fold_left (fun st id => write st id (hmask mask (read st id))) cur s2 in
  let '(s5, outids) := match cur with
                       | id0 :: _ => match read s3 id0 with
                                     | OCube _ [] | OArr _ O _ => let '(st, ids) := alloc_all s3 (map (fun _ => OFlat V [None]) cur) in (st, ids)
                                     | _ => (s3, cur)
                                     end
                       | [] => (s3, cur)
                       end in
  contents s5 outids = ans /\
  FULL {| DataState.heap := heap s5; DataState.fcache := fcache s5; DataState.scache := (rq, outids) :: scache s5 |}.
Proof.
  intros F X02 (I2 & C2 & Sp2) Fr Nd L Hobj ans Hp Ha mask s3.
  destruct (fold_write_content (hmask mask) cur Nd s2) as (A & B & Cc & D & E); [intros id Hin; apply (Fr id Hin)|].
  fold s3 in A, B, Cc, D, E.
  (* the masked objects *)
  assert (Hobj3 : forall i, i < length cols -> read s3 (nth i cur 0) = OArr V (length (d_times d)) (mask_apply mask (nth i cols []))).
  { intros i Hi. rewrite A by (apply nth_In; lia). rewrite (Hobj i Hi). reflexivity. }
  assert (X03 : ext s s3).
  { apply (ext_agree V d s s2 s3 (hlen s) X02 (le_n _) Cc D E).
    intros id Hlt. apply B. intros Hin. destruct (Fr id Hin) as [R _]. lia. }
  assert (I3 : INV s3).
  { split; [apply (inv_ext _ _ (proj1 (proj1 F)) X03)|]. split.
    - apply (fc_content_same s2 s3 D); [|apply I2|exact C2].
      intros id Hin. apply B. intros Hc. destruct (Fr id Hc) as [_ N]. contradiction.
    - apply (fc_sep_same s2 s3 D Sp2). }
  assert (Fr3 : forall id, In id cur -> hlen s <= id < hlen s3 /\ ~ In id (fc_ids s3)).
  { intros id Hin. destruct (Fr id Hin) as [R N]. rewrite Cc, (fc_ids_eq V _ _ D). split; assumption. }
  destruct cur as [|id0 cur'].
  - (* no field requested *)
    destruct cols; [|cbn in L; discriminate].
    assert (Hnil : ans = []) by (subst ans; destruct (d_times d); reflexivity).
    cbv iota beta. split; [rewrite Hnil; reflexivity|]. apply (close s s3 rq [] ans F X03 I3); [intros id [] | exact Hp | rewrite Hnil; reflexivity].
  - destruct cols as [|col0 cols']; [cbn in L; discriminate|].
    pose proof (Hobj3 0 ltac:(cbn; lia)) as H0. cbn [nth] in H0. rewrite H0.
    destruct (d_times d) as [|t0 ts] eqn:Et; cbn [length].
    + (* no time at all: one NaN per field *)
      destruct (alloc_all s3 (map (fun _ : nat => OFlat V [None]) (id0 :: cur'))) as [st ids0] eqn:Ea.
      destruct (alloc_all_spec V d _ _ _ _ Ea) as (Xa & La & Li & Ra & Fa). rewrite map_length in Li.
      assert (Hcont : contents st ids0 = ans).
      { subst ans. apply (list_eq_nth _ _ []); [unfold contents; rewrite !map_length; lia|].
        intros i Hi. unfold contents in *. rewrite map_length in Hi.
        rewrite (nth_map_in (fun id => flat_of V (read st id)) ids0 i 0 []) by exact Hi.
        rewrite (alloc_all_read _ _ _ _ Ea) by (rewrite map_length; lia).
        rewrite (nth_map_in (fun _ : nat => OFlat V [None]) (id0 :: cur') i 0 (OFlat V [])) by lia.
        rewrite (nth_map_in (fun _ : list (option V) => [None]) (col0 :: cols') i [] []) by lia. reflexivity. }
      split; [exact Hcont|].
      apply (close s st rq ids0 ans F (ext_trans _ _ _ _ _ X03 Xa)); [| |exact Hp|exact Hcont].
      * destruct I3 as (I3 & C3 & Sp3). split; [apply (inv_ext _ _ I3 Xa)|]. split.
        -- apply (fc_content_same s3 st Fa); [|apply I3|exact C3].
           intros id Hin. apply (alloc_all_preserves _ _ _ _ Ea). destruct I3 as ([W1 _] & _). apply W1. exact Hin.
        -- apply (fc_sep_same s3 st Fa Sp3).
      * intros id Hin. specialize (Ra id Hin). pose proof (e_len _ _ _ _ X03). split; [lia|].
        rewrite (fc_ids_eq V _ _ Fa). intros Hc'. destruct I3 as (([W1 _] & _) & _). specialize (W1 id Hc'). lia.
    + (* the masked arrays themselves are handed out *)
      assert (Hcont : contents s3 (id0 :: cur') = ans).
      { subst ans. apply (list_eq_nth _ _ []); [unfold contents; rewrite !map_length; exact L|].
        intros i Hi. unfold contents in *. rewrite map_length in Hi.
        rewrite (nth_map_in (fun id => flat_of V (read s3 id)) (id0 :: cur') i 0 []) by exact Hi.
        rewrite Hobj3 by lia. cbn [flat_of].
        rewrite (nth_map_in (mask_apply (valid_mask V (col0 :: cols'))) (col0 :: cols') i [] []) by lia. reflexivity. }
      split; [exact Hcont|].
      apply (close s s3 rq (id0 :: cur') ans F X03 I3 Fr3 Hp Hcont).
Qed.

(* ---- after the climatology has been fetched: fields, validity mask, answer objects -------------------------------- *)
Definition ptail (rq : key) (clim : option (list (option V))) : result (list (list (option V))) :=
  match collect (map (fv (k_axis rq) (k_input rq) clim) (k_fields rq)) with
  | Error e => Error e
  | OK cols =>
      match k_axis rq with
      | SAll => match d_times d with
                | [] => OK (map (fun _ => [None]) cols)
                | _ => OK (map (mask_apply (valid_mask V cols)) cols)
                end
      | SAx _ _ => let kept := map (keep_valid V (valid_mask V cols)) cols in
                   match kept with [] :: _ => OK (map (fun _ => [None]) cols) | _ => OK kept end
      end
  end.

Definition mtail (rq : key) (s1 : state) (clim : option (list (option V))) : result (state * list nat) :=
  match fold_left (fstep V vltb vsub vdiv axis_of d (k_input rq) clim (k_axis rq)) (k_fields rq) (OK (s1, [])) with
  | Error e => Error e
  | OK (s2, cur) =>
      let cols := map (fun id => flat_of V (read s2 id)) cur in
      let mask := valid_mask V cols in
      match k_axis rq with
      | SAll =>
          let s3 := fold_left (fun st id => write st id (hmask mask (read st id))) cur s2 in
          let '(s5, outids) := match cur with
                               | id0 :: _ => match read s3 id0 with
                                             | OCube _ [] | OArr _ O _ => let '(st, ids) := alloc_all s3 (map (fun _ => OFlat V [None]) cur) in (st, ids)
                                             | _ => (s3, cur)
                                             end
                               | [] => (s3, cur)
                               end in
          OK ({| DataState.heap := heap s5; DataState.fcache := fcache s5; DataState.scache := (rq, outids) :: scache s5 |}, outids)
      | SAx _ _ =>
          let kept := map (keep_valid V mask) cols in
          let kept' := match kept with [] :: _ => map (fun _ => [None]) cols | _ => kept end in
          let '(s3, outids) := alloc_all s2 (map (fun l => OFlat V l) kept') in
          OK ({| DataState.heap := heap s3; DataState.fcache := fcache s3; DataState.scache := (rq, outids) :: scache s3 |}, outids)
      end
  end.

Lemma tail_refines s s1 rq clim : FULL s -> INV s1 -> ext s s1 -> k_input rq < length (d_inputs d) ->
  pure rq = ptail rq clim ->
  match mtail rq s1 clim with
  | OK (s', ids) => pure rq = OK (contents s' ids) /\ FULL s'
  | Error e => pure rq = Error e
  end.
Proof.
  intros F I1 X01 Hk Hp. unfold mtail.
  pose proof (fold_content (k_input rq) clim (k_axis rq) Hk (k_fields rq) s1 [] I1) as FC.
  destruct (fold_left _ (k_fields rq) (OK (s1, []))) as [[s2 cur]|e] eqn:Ef.
  2:{ rewrite Hp. unfold ptail. rewrite FC. reflexivity. }
  destruct FC as (cols & news & Hc & Ecur & Ln & Hobj & I2 & X12 & Hfr & Nd). cbn [app] in Ecur. subst news.
  assert (X02 : ext s s2) by (eapply ext_trans; eassumption).
  assert (Hcont : contents s2 cur = cols) by (apply (contents_of_objs (k_axis rq)); assumption).
  change (map (fun id => flat_of V (read s2 id)) cur) with (contents s2 cur). rewrite Hcont. cbv zeta.
  unfold ptail in Hp. rewrite Hc in Hp.
  assert (Fr : forall id, In id cur -> hlen s <= id < hlen s2 /\ ~ In id (fc_ids s2)).
  { intros id Hin. destruct (Hfr id Hin) as [R N]. pose proof (e_len _ _ _ _ X01). split; [lia | exact N]. }
  destruct (k_axis rq) as [|ax ai] eqn:Eax.
  - (* All *)
    set (ans := match d_times d with [] => map (fun _ : list (option V) => [None]) cols | _ => map (mask_apply (valid_mask V cols)) cols end).
    assert (Hp' : pure rq = OK ans) by (rewrite Hp; unfold ans; destruct (d_times d); reflexivity).
    pose proof (all_tail s s2 rq cur cols F X02 I2 Fr Nd Ln Hobj ans Hp' eq_refl) as T. cbv zeta in T.
    match type of T with (let '(_, _) := ?c in _) => destruct c as [s5 outids] end.
    cbv iota beta in T |- *. destruct T as [T1 T2]. split; [|exact T2].
    rewrite Hp'. f_equal. rewrite <- T1. apply contents_same_heap. reflexivity.
  - (* a slice *)
    pose (ans := (let kept := map (keep_valid V (valid_mask V cols)) cols in match kept with [] :: _ => map (fun _ => [None]) cols | _ => kept end)).
    assert (Hp' : pure rq = OK ans).
    { rewrite Hp. unfold ans. cbv zeta. destruct (map (keep_valid V (valid_mask V cols)) cols) as [|[|x r] t]; reflexivity. }
    pose proof (slice_tail s s2 rq cur cols F X02 I2 Hcont ans Hp' eq_refl) as T. cbv zeta in T.
    match type of T with (let '(_, _) := ?c in _) => destruct c as [s3 outids] end.
    cbv iota beta in T |- *. destruct T as [T1 T2]. split; [|exact T2].
    rewrite Hp'. f_equal. rewrite <- T1. apply contents_same_heap. reflexivity.
Qed.

(* ---- one call of get_scores ------------------------------------------------------------------------------------- *)
Definition pclim (rq : key) : result (option (list (option V))) :=
  if d_has_clim d && existsb is_obs_or_fcst (k_fields rq) then
    match get_score V d FFcst (length (d_inputs d) - 1) with
    | Error e => Error e
    | OK c => OK (Some (match k_axis rq with SAll => flatten3 V c | SAx ax ai => apply_axis V d (axis_of ax) ai c end))
    end
  else OK None.

Lemma pure_unfold rq : pure rq =
  if negb (Nat.ltb (k_input rq) (num_inputs d)) then Error E_input_index else
  match pclim rq with Error e => Error e | OK clim => ptail rq clim end.
Proof.
  unfold pure, pclim, ptail, fv, get_scores, get_scores_all, mask_apply.
  destruct (negb (Nat.ltb (k_input rq) (num_inputs d))); [destruct (k_axis rq); reflexivity|].
  destruct (k_axis rq) as [|ax ai].
  - destruct (d_has_clim d && existsb is_obs_or_fcst (k_fields rq)).
    + destruct (get_score V d FFcst (length (d_inputs d) - 1)); reflexivity.
    + reflexivity.
  - destruct (d_has_clim d && existsb is_obs_or_fcst (k_fields rq)).
    + destruct (get_score V d FFcst (length (d_inputs d) - 1)); [|reflexivity].
      cbv zeta. destruct (collect _) as [cols|e]; [|reflexivity].
      destruct (map (keep_valid V (valid_mask V cols)) cols) as [|[|x r] t]; reflexivity.
    + cbv zeta. destruct (collect _) as [cols|e]; [|reflexivity].
      destruct (map (keep_valid V (valid_mask V cols)) cols) as [|[|x r] t]; reflexivity.
Qed.

Lemma step_unfold s rq : step d s rq =
  match find (fun p => key_eqb rq (fst p)) (scache s) with
  | Some p => OK (s, snd p)
  | None =>
    if negb (Nat.ltb (k_input rq) (num_inputs d)) then Error E_input_index else
    match (if d_has_clim d && existsb is_obs_or_fcst (k_fields rq) then
             match ensure_field V d s FFcst with
             | Error e => Error e
             | OK (s1, ids) =>
                 let c := read_cube V s1 (nth (length (d_inputs d) - 1) ids 0) in
                 OK (s1, Some (match k_axis rq with SAll => flatten3 V c | SAx ax ai => slice_of V d (axis_of ax) ai c end))
             end
           else OK (s, None)) with
    | Error e => Error e
    | OK (s1, clim) => mtail rq s1 clim
    end
  end.
Proof. reflexivity. Qed.

Theorem step_refines s rq : FULL s ->
  match step d s rq with
  | OK (s', ids) => pure rq = OK (contents s' ids) /\ FULL s'
  | Error e => pure rq = Error e
  end.
Proof.
  intros F. pose proof F as ((I & C & Sp) & SC). rewrite step_unfold.
  destruct (find _ (scache s)) as [p|] eqn:Ehit.
  - apply find_some in Ehit. destruct Ehit as [Hin Hk]. apply key_eqb_eq in Hk. subst rq.
    split; [apply SC; exact Hin | exact F].
  - pose proof (pure_unfold rq) as PU.
    destruct (negb (Nat.ltb (k_input rq) (num_inputs d))) eqn:Ek; [exact PU|].
    assert (Hk : k_input rq < length (d_inputs d)).
    { apply negb_false_iff in Ek. apply Nat.ltb_lt in Ek. unfold num_inputs in Ek. lia. }
    unfold pclim in PU. destruct (d_has_clim d && existsb is_obs_or_fcst (k_fields rq)) eqn:Ed.
    + pose proof (ensure_field_content s FFcst (proj1 I) C) as EC.
      unfold get_score in PU.
      destruct (ensure_field V d s FFcst) as [[s1 ids]|e] eqn:Ee.
      2:{ rewrite EC in PU. exact PU. }
      destruct EC as [cs [G [Hh C1]]]. rewrite G in PU.
      destruct (ensure_field_ext V d _ _ _ _ Ee) as (X1 & _).
      assert (I1 : INV s1).
      { split; [apply (inv_ext _ _ I X1)|]. split; [exact C1 | apply (ensure_field_sep _ _ _ _ (proj1 I) Sp Ee)]. }
      destruct (Hh (length (d_inputs d) - 1) ltac:(lia)) as [c0 [Hr Hn]]. cbn [nf] in Hn.
      assert (Hrc : read_cube V s1 (nth (length (d_inputs d) - 1) ids 0) = nth (length (d_inputs d) - 1) cs []).
      { unfold read_cube. rewrite Hr. exact Hn. }
      cbv zeta. rewrite Hrc.
      apply (tail_refines s s1 rq _ F I1 X1 Hk). exact PU.
    + apply (tail_refines s s rq None F (conj I (conj C Sp)) (ext_refl V d s) Hk). exact PU.
Qed.

(* ---- histories of any length ---------------------------------------------------------------------------------- *)
Lemma FULL_init : FULL (init V).
Proof.
  split; [split; [apply inv_init | split]|].
  - intros f ids H. discriminate.
  - intros ids f' ids' H. discriminate.
  - intros p [].
Qed.

Lemma run_FULL rqs : forall s, FULL s -> FULL (fst (run d s rqs)).
Proof.
  induction rqs as [|r rest IH]; intros s F; cbn; [exact F|].
  pose proof (step_refines s r F) as S1.
  destruct (step d s r) as [[s1 ids]|e]; cbn; [|exact F].
  destruct S1 as [_ F1]. specialize (IH s1 F1).
  destruct (DataState.run V vltb vsub vdiv true axis_of d s1 rest) as [s2 outs]. exact IH.
Qed.

(* HISTORY INDEPENDENCE: after ANY history, a request is answered exactly as a freshly built dataset answers it *)
Theorem answers_like_fresh hist rq :
  match step d (fst (run d (init V) hist)) rq with
  | OK (s', ids) => pure rq = OK (contents s' ids)
  | Error e => pure rq = Error e
  end.
Proof.
  pose proof (step_refines _ rq (run_FULL hist (init V) FULL_init)) as S1.
  destruct (step d (fst (run d (init V) hist)) rq) as [[s' ids]|e]; [exact (proj1 S1) | exact S1].
Qed.
End S.
