(* Proofs/C19_proofs.v -- the capability gating of verif.driver.run (GENERATED: Gen/Gen_caps.v). *)
From Coq Require Import String List Bool.
From VF Require Import Gen.Gen_caps Model.Gate.
Import ListNotations.
Local Open Scope string_scope.

(* the gate never invents an axis *)
Lemma gate_none_or_same pl m ax : gate pl m ax = None \/ gate pl m ax = ax.
Proof.
  unfold gate, gate_step.
  destruct (gate_test1 pl m ax); cbn.
  - left. destruct (gate_test2 pl m None); [|]; destruct (gate_test3 pl m None); reflexivity.
  - destruct (gate_test2 pl m ax).
    + left. destruct (gate_test3 pl m None); reflexivity.
    + destruct (gate_test3 pl m ax); [left | right]; reflexivity.
Qed.

Lemma gate_some_inv pl m ax a : gate pl m ax = Some a ->
  ax = Some a /\ gate_test1 pl m ax = false /\ gate_test2 pl m ax = false /\ gate_test3 pl m ax = false.
Proof.
  unfold gate, gate_step.
  destruct (gate_test1 pl m ax) eqn:E1.
  - destruct (gate_test2 pl m None); destruct (gate_test3 pl m None); discriminate.
  - destruct (gate_test2 pl m ax) eqn:E2.
    + destruct (gate_test3 pl m None); discriminate.
    + destruct (gate_test3 pl m ax) eqn:E3; [discriminate|]. intros H. auto.
Qed.

(* an axis that survives the gate is supported by the output *)
Lemma gate_axis_supported pl m ax a : gate pl m ax = Some a -> oc_x pl = true.
Proof.
  intros H. apply gate_some_inv in H. destruct H as (-> & H1 & _ & _).
  unfold gate_test1 in H1. cbn in H1. destruct (oc_x pl); [reflexivity | discriminate].
Qed.

Lemma gate_threshold_supported pl m ax : gate pl m ax = Some "threshold" ->
  oc_thr pl = true /\ (m = None \/ exists c, m = Some c /\ mc_thr c = true).
Proof.
  intros H. apply gate_some_inv in H. destruct H as (-> & _ & H2 & _).
  unfold gate_test2 in H2. cbn in H2.
  destruct (oc_thr pl); cbn in H2; [|discriminate]. split; [reflexivity|].
  destruct m as [c|]; [right | left; reflexivity].
  exists c. split; [reflexivity|]. cbn in H2. destruct (mc_thr c); [reflexivity | discriminate].
Qed.

Lemma gate_field_supported pl m ax a : gate pl m ax = Some a -> a = "obs" \/ a = "fcst" ->
  oc_field pl = true /\ (m = None \/ exists c, m = Some c /\ mc_field c = true).
Proof.
  intros H Ha. apply gate_some_inv in H. destruct H as (-> & _ & _ & H3).
  unfold gate_test3 in H3.
  assert (Hax : (ax_is (Some a) "obs" || ax_is (Some a) "fcst") = true).
  { destruct Ha as [-> | ->]; reflexivity. }
  rewrite Hax in H3. cbn in H3.
  destruct (oc_field pl); cbn in H3; [|discriminate]. split; [reflexivity|].
  destruct m as [c|]; [right | left; reflexivity].
  exists c. split; [reflexivity|]. cbn in H3. destruct (mc_field c); [reflexivity | discriminate].
Qed.

(* a supported axis is never dropped *)
Lemma gate_keeps_supported pl m a :
  oc_x pl = true ->
  (a = "threshold" -> oc_thr pl = true /\ m_thr m = m_some m) ->
  (a = "obs" \/ a = "fcst" -> oc_field pl = true /\ m_field m = m_some m) ->
  gate pl m (Some a) = Some a.
Proof.
  intros Hx Ht Hf. unfold gate, gate_step.
  assert (E1 : gate_test1 pl m (Some a) = false) by (unfold gate_test1; rewrite Hx; reflexivity).
  rewrite E1.
  assert (E2 : gate_test2 pl m (Some a) = false).
  { unfold gate_test2. cbn. destruct (String.eqb_spec a "threshold") as [e|]; [|reflexivity].
    destruct (Ht e) as [H1 H2]. rewrite H1, H2. cbn. destruct (m_some m); reflexivity. }
  rewrite E2.
  assert (E3 : gate_test3 pl m (Some a) = false).
  { unfold gate_test3. cbn.
    destruct (String.eqb_spec a "obs") as [e|]; [|destruct (String.eqb_spec a "fcst") as [e|]; [|reflexivity]].
    - destruct (Hf (or_introl e)) as [H1 H2]. rewrite H1, H2. cbn. destruct (m_some m); reflexivity.
    - destruct (Hf (or_intror e)) as [H1 H2]. rewrite H1, H2. cbn. destruct (m_some m); reflexivity. }
  rewrite E3. reflexivity.
Qed.

(* ---- finite facts about the GENERATED tables, decided by computation --------------------------- *)
Definition known_rtt (s : string) : bool :=
  String.eqb s "" || String.eqb s "deterministic" || String.eqb s "threshold" || String.eqb s "quantile".
Definition plot_types : list string := ["plot"; "text"; "csv"; "map"; "maprank"; "rank"; "impact"; "mapimpact"].
Definition is_error (t : ttype) : bool := match t with TError => true | _ => false end.
Definition find_output (n : string) : option ocap := find (fun o => String.eqb (oc_name o) n) output_caps.
Definition standard_like : list string := ["Standard"; "Hist"; "Sort"].

Definition all_rtt_known : bool :=
  forallb (fun c => known_rtt (mc_rtt c)) metric_caps && forallb (fun o => known_rtt (oc_rtt o)) output_caps.

(* the "Internal error" exit of the default-threshold chain is unreachable for every pairing the
   driver can build: a diagram with no metric, or Standard/Hist/Sort with any metric *)
Definition no_internal_error : bool :=
  forallb (fun ty =>
    forallb (fun d => match find_output (snd d) with
                      | Some o => negb (is_error (default_ttype ty o None))
                      | None => false end) diagram_chain
    && forallb (fun n => match find_output n with
                         | Some o => forallb (fun c => negb (is_error (default_ttype ty o (Some c)))) metric_caps
                         | None => false end) standard_like) plot_types.

(* a metric that needs thresholds / quantiles gets them (or the run stops with "No thresholds available") *)
Definition needs_are_met : bool :=
  forallb (fun c =>
    match find_output "Standard" with
    | None => false
    | Some o =>
        (if String.eqb (mc_rtt c) "deterministic" || String.eqb (mc_rtt c) "threshold"
         then match default_ttype "plot" o (Some c) with TT s => String.eqb s (mc_rtt c) | _ => false end else true)
        && (if String.eqb (mc_rtt c) "quantile"
            then match quantile_ttype o (Some c) with TT s => String.eqb s "quantile" | _ => false end else true)
    end) metric_caps.

Definition chain_classes_exist : bool :=
  forallb (fun d => match find_output (snd d) with Some _ => true | None => false end) diagram_chain.

Lemma all_rtt_known_ok : all_rtt_known = true. Proof. vm_compute. reflexivity. Qed.
Lemma no_internal_error_ok : no_internal_error = true. Proof. vm_compute. reflexivity. Qed.
Lemma needs_are_met_ok : needs_are_met = true. Proof. vm_compute. reflexivity. Qed.
Lemma chain_classes_exist_ok : chain_classes_exist = true. Proof. vm_compute. reflexivity. Qed.

Lemma every_metric_rtt_known c : In c metric_caps -> known_rtt (mc_rtt c) = true.
Proof.
  intros H. pose proof all_rtt_known_ok as A. unfold all_rtt_known in A.
  apply andb_true_iff in A. destruct A as [A _]. rewrite forallb_forall in A. apply A; exact H.
Qed.
Lemma every_output_rtt_known o : In o output_caps -> known_rtt (oc_rtt o) = true.
Proof.
  intros H. pose proof all_rtt_known_ok as A. unfold all_rtt_known in A.
  apply andb_true_iff in A. destruct A as [_ A]. rewrite forallb_forall in A. apply A; exact H.
Qed.

(* ---- output-type dispatch (GENERATED tables) ---------------------------------------------------------- *)
Definition standard_supports_all_types : bool :=
  forallb (fun n => match find_output n with
                    | Some o => forallb (fun ty => smem (core_of ty) (oc_methods o)) plot_types
                    | None => false end) ["Standard"].
Definition every_diagram_plots : bool :=
  forallb (fun d => match find_output (snd d) with Some o => smem "_plot_core" (oc_methods o) | None => false end) diagram_chain.
Definition every_type_has_a_core : bool :=
  forallb (fun ty => smem (core_of ty) ["_plot_core"; "_map_core"; "_plot_rank_core"; "_plot_impact_core"; "_plot_mapimpact_core"; "_get_x_y"]) plot_types.
Lemma standard_supports_all_types_ok : standard_supports_all_types = true. Proof. vm_compute. reflexivity. Qed.
Lemma every_diagram_plots_ok : every_diagram_plots = true. Proof. vm_compute. reflexivity. Qed.
Lemma every_type_has_a_core_ok : every_type_has_a_core = true. Proof. vm_compute. reflexivity. Qed.
