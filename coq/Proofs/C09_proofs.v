(* Proofs/C09_proofs.v -- the text reader model: dimensions are the sorted coordinates that occur,
   every value sits at its own coordinates (last row wins for repeated coordinates), absent
   combinations are missing, row order is irrelevant for unique coordinates, column order is
   irrelevant for distinct column names. Axiom-free. *)
From Coq Require Import ZArith QArith List Bool Ascii String Permutation Lia Sorted.
From VF Require Import Model.Data Model.Cal Model.ParseNumbers Model.TextParse Proofs.Data_lemmas.
Import ListNotations.
Local Open Scope Z_scope.

(* ---- dimensions ---------------------------------------------------------------------------- *)
Theorem times_are_the_coordinates_that_occur header recs t :
  In t (t_times (assemble header recs)) <-> exists r, In r recs /\ r_time r = t.
Proof.
  cbn. rewrite sort_uniq_In, in_map_iff. split; intros [r [A B]]; exists r; tauto.
Qed.
Theorem leads_are_the_coordinates_that_occur header recs l :
  In l (t_leads (assemble header recs)) <-> exists r, In r recs /\ r_lead r = l.
Proof.
  cbn. rewrite sort_uniq_In, in_map_iff. split; intros [r [A B]]; exists r; tauto.
Qed.
Theorem ids_are_the_coordinates_that_occur header recs i :
  In i (map l_id (t_locs (assemble header recs))) <-> exists r, In r recs /\ r_id r = i.
Proof.
  cbn. rewrite map_map.
  assert (E : forall tbl ids, map (fun x => l_id (find_loc x tbl)) ids = ids).
  { intros tbl ids. rewrite <- (map_id ids) at 2. apply map_ext. intros x. unfold find_loc.
    destruct (find (fun s => (l_id s =? x)%Z) tbl) as [s|] eqn:F; [|reflexivity].
    apply find_some in F. destruct F as [_ F]. apply Z.eqb_eq in F. exact F. }
  rewrite E, sort_uniq_In, in_map_iff. split; intros [r [A B]]; exists r; tauto.
Qed.
Theorem dimensions_sorted header recs :
  ssorted (t_times (assemble header recs)) /\ ssorted (t_leads (assemble header recs)) /\
  ssorted (map l_id (t_locs (assemble header recs))).
Proof.
  cbn. repeat split; try apply sort_uniq_sorted. rewrite map_map.
  assert (E : forall tbl ids, map (fun x => l_id (find_loc x tbl)) ids = ids).
  { intros tbl ids. rewrite <- (map_id ids) at 2. apply map_ext. intros x. unfold find_loc.
    destruct (find (fun s => (l_id s =? x)%Z) tbl) as [s|] eqn:F; [|reflexivity].
    apply find_some in F. destruct F as [_ F]. apply Z.eqb_eq in F. exact F. }
  rewrite E. apply sort_uniq_sorted.
Qed.

(* ---- every value is stored at its own coordinates ---------------------------------------------- *)
Lemma nth_map' {A B} (f : A -> B) l i d d' : (i < List.length l)%nat -> nth i (map f l) d = f (nth i l d').
Proof. intros H. rewrite (nth_indep _ d (f d')) by (rewrite map_length; exact H). apply map_nth. Qed.

Theorem cube_cell_is_value_at_coordinates header recs name a b s :
  let ti := assemble header recs in
  (a < List.length (t_times ti))%nat -> (b < List.length (t_leads ti))%nat -> (s < List.length (t_locs ti))%nat ->
  nth s (nth b (nth a (t_cube ti name) []) []) None
  = cell_of recs name (nth a (t_times ti) 0) (nth b (t_leads ti) 0) (l_id (nth s (t_locs ti) (Build_loc 0 0 0 0))).
Proof.
  cbn. intros Ha Hb Hs. rewrite map_length in Hs.
  rewrite (nth_map' _ _ a [] 0 Ha). rewrite (nth_map' _ _ b [] 0 Hb). rewrite (nth_map' _ _ s None 0 Hs).
  f_equal. rewrite (nth_map' _ _ s (Build_loc 0 0 0 0) 0 Hs). unfold find_loc.
  destruct (find (fun s0 => (l_id s0 =? nth s (sort_uniq (map r_id recs)) 0)%Z) (loc_table recs [])) as [x|] eqn:F; [|reflexivity].
  apply find_some in F. destruct F as [_ F]. apply Z.eqb_eq in F. symmetry. exact F.
Qed.

(* the value of a case: that of the LAST row carrying its coordinates; missing when no row does *)
Theorem cell_is_last_matching_row pre r post name t l i :
  same_case t l i r = true -> (forall x, In x post -> same_case t l i x = false) ->
  cell_of (pre ++ r :: post) name t l i = match lookup_val name r with Some v => v | None => None end.
Proof.
  intros Hr Hpost. unfold cell_of. rewrite rev_app_distr. cbn [rev]. rewrite <- app_assoc. cbn [app].
  assert (F : forall l1 l2, (forall x, In x l1 -> same_case t l i x = false) ->
              find (same_case t l i) (l1 ++ r :: l2) = Some r).
  { induction l1 as [|x l1 IH]; intros l2 H; cbn [app find]; [rewrite Hr; reflexivity|].
    rewrite (H x) by (left; reflexivity). apply IH. intros y Hy. apply H. right. exact Hy. }
  rewrite F; [reflexivity|]. intros x Hx. apply Hpost. apply in_rev. exact Hx.
Qed.
Theorem absent_combination_is_missing recs name t l i :
  (forall x, In x recs -> same_case t l i x = false) -> cell_of recs name t l i = None.
Proof.
  intros H. unfold cell_of.
  destruct (find (same_case t l i) (rev recs)) as [r|] eqn:F; [|reflexivity].
  apply find_some in F. destruct F as [Hin Hr]. rewrite (H r) in Hr by (apply in_rev; exact Hin). discriminate.
Qed.

(* ---- row order is irrelevant when no two rows share their coordinates ---------------------------- *)
Definition case_key (r : rec) : Z * Z * Z := (r_time r, r_lead r, r_id r).

Lemma same_case_key t l i r : same_case t l i r = true <-> case_key r = (t, l, i).
Proof.
  unfold same_case, case_key. rewrite !andb_true_iff, !Z.eqb_eq. split.
  - intros [[A B] C]. congruence.
  - intros E. inversion E. tauto.
Qed.

Lemma find_unique_perm (p : rec -> bool) l l' :
  Permutation l l' -> (forall x y, In x l -> In y l -> p x = true -> p y = true -> x = y) ->
  find p l = find p l'.
Proof.
  intros HP Huniq.
  destruct (find p l) as [x|] eqn:F.
  - apply find_some in F. destruct F as [Hx Hpx].
    destruct (find p l') as [y|] eqn:F'.
    + apply find_some in F'. destruct F' as [Hy Hpy]. f_equal. symmetry. apply Huniq; try assumption.
      eapply Permutation_in; [apply Permutation_sym; exact HP | exact Hy].
    + exfalso. pose proof (find_none _ _ F' x (Permutation_in _ HP Hx)) as K. congruence.
  - destruct (find p l') as [y|] eqn:F'; [|reflexivity].
    apply find_some in F'. destruct F' as [Hy Hpy].
    pose proof (find_none _ _ F y (Permutation_in _ (Permutation_sym HP) Hy)) as K. congruence.
Qed.

Theorem rows_in_any_order recs recs' name t l i :
  Permutation recs recs' -> NoDup (map case_key recs) ->
  cell_of recs name t l i = cell_of recs' name t l i.
Proof.
  intros HP Hn. unfold cell_of.
  rewrite (find_unique_perm (same_case t l i) (rev recs) (rev recs')); [reflexivity | |].
  - eapply Permutation_trans; [apply Permutation_sym; apply Permutation_rev|].
    eapply Permutation_trans; [exact HP | apply Permutation_rev].
  - intros x y Hx Hy Px Py. apply same_case_key in Px, Py.
    apply in_rev in Hx, Hy.
    assert (G : forall (l0 : list rec), NoDup (map case_key l0) -> In x l0 -> In y l0 -> case_key x = case_key y -> x = y).
    { induction l0 as [|z l0 IH]; intros Hnd Hx0 Hy0 E; [destruct Hx0|].
      inversion Hnd as [|? ? Hnot Hnd']; subst. destruct Hx0 as [-> | Hx0]; destruct Hy0 as [-> | Hy0]; try reflexivity.
      - exfalso. apply Hnot. rewrite E. apply in_map. exact Hy0.
      - exfalso. apply Hnot. rewrite <- E. apply in_map. exact Hx0.
      - apply IH; assumption. }
    apply (G recs Hn Hx Hy). congruence.
Qed.

(* same membership => same sorted dimension list *)
Lemma ssorted_ext l l' : ssorted l -> ssorted l' -> (forall x, In x l <-> In x l') -> l = l'.
Proof.
  unfold ssorted. revert l'. induction l as [|a l IH]; intros l' Hs Hs' H.
  - destruct l' as [|b l']; [reflexivity|]. exfalso. apply (proj2 (H b)). left. reflexivity.
  - destruct l' as [|b l']; [exfalso; apply (proj1 (H a)); left; reflexivity|].
    apply StronglySorted_inv in Hs. destruct Hs as [Hsl Hal]. apply StronglySorted_inv in Hs'. destruct Hs' as [Hsl' Hbl'].
    rewrite Forall_forall in Hal, Hbl'.
    assert (a = b).
    { destruct (proj1 (H a) (or_introl eq_refl)) as [E | Hin]; [congruence|].
      destruct (proj2 (H b) (or_introl eq_refl)) as [E | Hin']; [congruence|].
      specialize (Hal b Hin'). specialize (Hbl' a Hin). lia. }
    subst b. f_equal. apply IH; try assumption. intros x. split; intros Hx.
    + destruct (proj1 (H x) (or_intror Hx)) as [E | K]; [rewrite <- E in Hx; specialize (Hal a Hx); lia | exact K].
    + destruct (proj2 (H x) (or_intror Hx)) as [E | K]; [rewrite <- E in Hx; specialize (Hbl' a Hx); lia | exact K].
Qed.
Theorem dimensions_in_any_row_order header recs recs' : Permutation recs recs' ->
  t_times (assemble header recs) = t_times (assemble header recs') /\
  t_leads (assemble header recs) = t_leads (assemble header recs') /\
  map l_id (t_locs (assemble header recs)) = map l_id (t_locs (assemble header recs')).
Proof.
  intros HP. pose proof (dimensions_sorted header recs) as [S1 [S2 S3]].
  pose proof (dimensions_sorted header recs') as [S1' [S2' S3']].
  repeat split; apply ssorted_ext; try assumption; intros x.
  - rewrite !times_are_the_coordinates_that_occur. split; intros [r [A B]]; exists r; split; try exact B;
      [eapply Permutation_in; [exact HP | exact A] | eapply Permutation_in; [apply Permutation_sym; exact HP | exact A]].
  - rewrite !leads_are_the_coordinates_that_occur. split; intros [r [A B]]; exists r; split; try exact B;
      [eapply Permutation_in; [exact HP | exact A] | eapply Permutation_in; [apply Permutation_sym; exact HP | exact A]].
  - rewrite !ids_are_the_coordinates_that_occur. split; intros [r [A B]]; exists r; split; try exact B;
      [eapply Permutation_in; [exact HP | exact A] | eapply Permutation_in; [apply Permutation_sym; exact HP | exact A]].
Qed.

(* location metadata: the first row that mentions an id decides *)
Lemma loc_table_keeps seen recs s : In s seen -> In s (loc_table recs seen).
Proof.
  revert seen. induction recs as [|r recs IH]; intros seen H; cbn [loc_table]; [exact H|].
  destruct (existsb _ seen); apply IH; [exact H | apply in_or_app; left; exact H].
Qed.
Theorem first_row_fixes_metadata r recs :
  In (Build_loc (r_id r) (r_lat r) (r_lon r) (r_elev r)) (loc_table (r :: recs) []).
Proof. cbn [loc_table existsb]. apply loc_table_keeps. cbn. left. reflexivity. Qed.

(* missing-value tokens *)
Local Open Scope string_scope.
Theorem missing_tokens : clean "-999" = None /\ clean "NA" = None /\ clean "nan" = None /\ clean "-999.0" = None /\
                         clean "3.25" = Some (325 # 100)%Q /\ clean "-7" = Some (-7 # 1)%Q.
Proof. vm_compute. repeat split. Qed.

Local Close Scope string_scope.
(* ---- column order is irrelevant for distinct column names ------------------------------------- *)
Definition zipped (header row : list string) : list (string * string) := combine (map canon header) row.
Definition zlookup (name : string) (z : list (string * string)) : option string :=
  match find (fun p => String.eqb (fst p) name) z with Some p => Some (snd p) | None => None end.

Lemma index_of_None name hs i : ~ In name hs -> index_of name hs i = None.
Proof.
  revert i. induction hs as [|h hs IH]; intros i H; [reflexivity|]. cbn [index_of].
  rewrite IH by (intro K; apply H; right; exact K).
  destruct (String.eqb h name) eqn:E; [apply String.eqb_eq in E; subst; exfalso; apply H; left; reflexivity | reflexivity].
Qed.

Lemma tok_at_index name hs : forall row pre, NoDup hs -> List.length row = List.length hs ->
  tok_at (pre ++ row) (index_of name hs (List.length pre)) = zlookup name (combine hs row).
Proof.
  induction hs as [|h hs IH]; intros row pre Hn Hl.
  - destruct row; [reflexivity | discriminate].
  - destruct row as [|x row]; [discriminate|]. injection Hl as Hl. inversion Hn as [|? ? Hnot Hn']; subst.
    cbn [index_of combine]. unfold zlookup. cbn [find fst].
    specialize (IH row (pre ++ [x]) Hn' Hl). rewrite app_length in IH. cbn [List.length] in IH.
    replace (List.length pre + 1)%nat with (S (List.length pre)) in IH by lia.
    rewrite <- app_assoc in IH. cbn [app] in IH.
    destruct (String.eqb h name) eqn:E.
    + apply String.eqb_eq in E. subst h. rewrite index_of_None by exact Hnot.
      cbn [tok_at snd]. rewrite nth_error_app2 by lia. rewrite Nat.sub_diag. reflexivity.
    + destruct (index_of name hs (S (List.length pre))) as [j|] eqn:Ej.
      * exact IH.
      * unfold zlookup in IH. exact IH.
Qed.

Lemma tok_at_zipped header row name : NoDup (map canon header) -> List.length row = List.length header ->
  tok_at row (col header name) = zlookup name (zipped header row).
Proof.
  intros Hn Hl. unfold col, zipped. apply (tok_at_index name (map canon header) row []); [exact Hn | rewrite map_length; exact Hl].
Qed.

Lemma zlookup_perm name z z' : NoDup (map fst z) -> Permutation z z' -> zlookup name z = zlookup name z'.
Proof.
  intros Hn HP. unfold zlookup.
  assert (Hn' : NoDup (map fst z')) by (eapply Permutation_NoDup; [apply Permutation_map; exact HP | exact Hn]).
  assert (U : forall (l : list (string * string)), NoDup (map fst l) -> forall x y, In x l -> In y l ->
              String.eqb (fst x) name = true -> String.eqb (fst y) name = true -> x = y).
  { induction l as [|p l IHl]; intros Hnd x y Hx Hy Ex Ey; [destruct Hx|].
    inversion Hnd as [|? ? Hnot Hnd']; subst. apply String.eqb_eq in Ex, Ey.
    destruct Hx as [-> | Hx]; destruct Hy as [-> | Hy]; try reflexivity.
    - exfalso. apply Hnot. rewrite Ex, <- Ey. apply in_map. exact Hy.
    - exfalso. apply Hnot. rewrite Ey, <- Ex. apply in_map. exact Hx.
    - apply IHl; try assumption; apply String.eqb_eq; assumption. }
  destruct (find (fun p => String.eqb (fst p) name) z) as [x|] eqn:F.
  - apply find_some in F. destruct F as [Hx Px].
    destruct (find (fun p => String.eqb (fst p) name) z') as [y|] eqn:F'.
    + apply find_some in F'. destruct F' as [Hy Py]. f_equal. f_equal. apply (U z' Hn'); try assumption.
      eapply Permutation_in; [exact HP | exact Hx].
    + exfalso. pose proof (find_none _ _ F' x (Permutation_in _ HP Hx)) as K. cbn in K. congruence.
  - destruct (find (fun p => String.eqb (fst p) name) z') as [y|] eqn:F'; [|reflexivity].
    apply find_some in F'. destruct F' as [Hy Py].
    pose proof (find_none _ _ F y (Permutation_in _ (Permutation_sym HP) Hy)) as K. cbn in K. congruence.
Qed.

(* every lookup the reader performs on a row gives the same token when the columns (header and row
   together) are rearranged *)
Theorem columns_in_any_order header row header' row' name :
  NoDup (map canon header) -> List.length row = List.length header -> List.length row' = List.length header' ->
  Permutation (zipped header row) (zipped header' row') ->
  num_at header row name = num_at header' row' name.
Proof.
  intros Hn Hl Hl' HP. unfold num_at.
  assert (Z0 : forall (hs rw : list string), List.length rw = List.length hs -> map fst (zipped hs rw) = map canon hs).
  { unfold zipped. induction hs as [|h hs IH]; intros [|x r] Hlen; try discriminate; [reflexivity|].
    cbn. f_equal. apply IH. cbn in Hlen. lia. }
  pose proof (Z0 header row Hl) as Hz. pose proof (Z0 header' row' Hl') as Hz'.
  assert (Hn' : NoDup (map canon header')).
  { rewrite <- Hz'. eapply Permutation_NoDup; [apply Permutation_map; exact HP|]. rewrite Hz. exact Hn. }
  rewrite (tok_at_zipped header row name Hn Hl), (tok_at_zipped header' row' name Hn' Hl').
  rewrite (zlookup_perm name _ _ ltac:(rewrite Hz; exact Hn) HP). reflexivity.
Qed.
