(* Proofs/C16_rank.v -- at every rank position the bars of the inputs and the "None" bar account for every counted slice
   exactly once: their counts add up to the number of counted slices (so the stacked shares add up to 1). *)
From Coq Require Import List Arith Bool Lia.
From VF Require Import Model.Rank.
Import ListNotations.

Fixpoint sum_upto (F : nat) (f : nat -> nat) : nat := match F with O => 0 | S k => sum_upto k f + f k end.

Lemma one_hot F x : x < F -> sum_upto F (fun i => Nat.b2n (Nat.eqb x i)) = 1.
Proof.
  induction F as [|k IH]; intros H; [lia|]. cbn [sum_upto].
  destruct (Nat.eq_dec x k) as [->|Hne].
  - rewrite Nat.eqb_refl. cbn [Nat.b2n].
    assert (Z : forall m, m <= k -> sum_upto m (fun i => Nat.b2n (Nat.eqb k i)) = 0).
    { induction m as [|m IHm]; intros Hm; [reflexivity|]. cbn [sum_upto]. rewrite IHm by lia.
      destruct (Nat.eqb_spec k m); [lia|reflexivity]. }
    rewrite (Z k (le_n k)). reflexivity.
  - rewrite IH by lia. destruct (Nat.eqb_spec x k); [contradiction|reflexivity].
Qed.
Lemma zero_hot F : sum_upto F (fun _ => 0) = 0.
Proof. induction F as [|k IH]; [reflexivity|]. cbn [sum_upto]. lia. Qed.
Lemma sum_upto_add F f g : sum_upto F (fun i => f i + g i) = sum_upto F f + sum_upto F g.
Proof. induction F as [|k IH]; [reflexivity|]. cbn [sum_upto]. lia. Qed.
Lemma sum_upto_ext F f g : (forall i, f i = g i) -> sum_upto F f = sum_upto F g.
Proof. intros E. induction F as [|k IH]; [reflexivity|]. cbn [sum_upto]. rewrite IH, E. reflexivity. Qed.

(* every ranked slice names one of the F inputs at position j *)
Definition well_ranked (F j : nat) (rows : list slice) : Prop :=
  forall p, In (Ranked p) rows -> nth j p F < F.

Theorem rank_counts_partition F j rows : well_ranked F j rows ->
  sum_upto F (fun i => rank_count F i j rows) + tie_count rows = valid_count rows.
Proof.
  unfold rank_count, tie_count, valid_count, count_slices. induction rows as [|s rows IH]; intros Hw.
  - cbn. rewrite zero_hot. reflexivity.
  - assert (Hw' : well_ranked F j rows) by (intros p Hp; apply Hw; right; exact Hp).
    specialize (IH Hw'). destruct s as [| |p].
    + cbn [filter at_pos is_tie counted]. exact IH.
    + cbn [filter at_pos is_tie counted length]. lia.
    + cbn [filter is_tie counted length].
      rewrite (sum_upto_ext F _ (fun i => Nat.b2n (Nat.eqb (nth j p F) i) + length (filter (at_pos F i j) rows))).
      * rewrite sum_upto_add, one_hot by (apply Hw; left; reflexivity). lia.
      * intros i. cbn [filter at_pos]. destruct (Nat.eqb (nth j p F) i); reflexivity.
Qed.
