(* Proofs/C07_proofs.v -- lemmas behind Properties/C07.v, about the *generated* definitions
   in Gen/Gen_interval.v instantiated at XR. *)
From Coq Require Import Reals ZArith List Bool Lra Sorted.
From VF Require Import Base.Num Base.Vec Base.Event Gen.Gen_interval Proofs.XRTac.
Import ListNotations.
Local Open Scope R_scope.

(* ---- the documented events, written from the help text (-b) ------------------------------ *)
(* order of an extended value relative to a finite threshold *)
Definition xlt (x : xr) (t : R) : Prop :=
  match x with NInf => True | Fin r => r < t | _ => False end.
Definition xle (x : xr) (t : R) : Prop :=
  match x with NInf => True | Fin r => r <= t | _ => False end.
Definition xgt (x : xr) (t : R) : Prop :=
  match x with PInf => True | Fin r => r > t | _ => False end.
Definition xge (x : xr) (t : R) : Prop :=
  match x with PInf => True | Fin r => r >= t | _ => False end.

Definition doc_event (bt : bintype) (t u : R) (x : xr) : Prop :=
  match bt with
  | Below => xlt x t
  | BelowEq => xle x t
  | Above => xgt x t
  | AboveEq => xge x t
  | Within => xgt x t /\ xlt x u
  | EqWithin => xge x t /\ xlt x u
  | WithinEq => xgt x t /\ xle x u
  | EqWithinEq => xge x t /\ xle x u
  end.

Definition is_finite (x : xr) : Prop := match x with Fin _ => True | _ => False end.

Definition within_iv (iv : interval XR) (x : xr) : option bool := iv_within XR iv x.

Ltac unfold_gen :=
  unfold within_iv, iv_within, within_elem, within_scalar, interval_of, apply_threshold,
         apply_threshold_prob, of_bool, one, zero in *;
  cbn [iv_lower iv_upper iv_lower_eq iv_upper_eq] in *.

(* (0) the array branch and the scalar branch of Interval.within agree *)
Lemma within_elem_scalar lower upper le ue (x : xr) :
  within_elem XR lower upper le ue x = within_scalar XR lower upper le ue x.
Proof.
  unfold within_elem, within_scalar. destruct (n_isnan XR x); [reflexivity|].
  f_equal.
Qed.

(* (a) interval membership = documented event, for every finite or NaN value *)
Lemma within_spec_fin bt t u r :
  exists iv, interval_of XR bt (Fin t) (Fin u) = Some iv /\
  (within_iv iv (Fin r) = Some true <-> doc_event bt t u (Fin r)) /\
  (within_iv iv (Fin r) = Some false <-> ~ doc_event bt t u (Fin r)).
Proof.
  destruct bt; unfold_gen; eexists; (split; [reflexivity|]); cbn -[Rltb Reqb];
  xr_unfold; rb; cbn; split; split; intros; try congruence; try lra; try tauto; exfalso; lra.
Qed.

Lemma within_spec_nan bt t u :
  exists iv, interval_of XR bt (Fin t) (Fin u) = Some iv /\ within_iv iv NaN = None /\ ~ doc_event bt t u NaN.
Proof.
  destruct bt; unfold_gen; eexists; (split; [reflexivity|]); cbn; split; try reflexivity; tauto.
Qed.

(* a masked answer is only ever given for NaN *)
Lemma within_none_iff_nan iv (x : xr) : within_iv iv x = None <-> x = NaN.
Proof.
  unfold_gen. destruct x; cbn; split; intros; congruence.
Qed.

(* between thresholds (the "within" family) infinite values are outside, as documented *)
Lemma within_spec_inf_within bt t u (x : xr) :
  bt_pairs bt = true -> (x = PInf \/ x = NInf) ->
  exists iv, interval_of XR bt (Fin t) (Fin u) = Some iv /\ within_iv iv x = Some false /\ ~ doc_event bt t u x.
Proof.
  intros Hp [-> | ->]; destruct bt; try discriminate Hp; unfold_gen; eexists;
  (split; [reflexivity|]); cbn; split; try reflexivity; tauto.
Qed.

(* REFUTED at the infinite ends: the documented event "above t" contains +inf (x > t), but the
   interval (t, +inf) built by get_intervals has an open upper end, so membership answers False.
   Same for -inf and below.  (Known finding C07-inf; values reaching the metrics through
   Data.get_scores are never infinite, see DESIGN.md.) *)
Lemma within_inf_refuted :
  exists bt t iv, interval_of XR bt (Fin t) (Fin t) = Some iv /\
     doc_event bt t t PInf /\ within_iv iv PInf = Some false.
Proof.
  exists Above, 0, (Build_interval XR (Fin 0) PInf false false).
  unfold_gen; cbn. repeat split.
Qed.

(* (b) binary thresholding agrees with interval membership on finite and NaN values *)
Lemma threshold_agrees_fin bt t u r :
  exists iv b, interval_of XR bt (Fin t) (Fin u) = Some iv /\
    within_iv iv (Fin r) = Some b /\
    apply_threshold XR bt (Fin t) (Some (Fin u)) (Fin r) = Some (of_bool XR b).
Proof.
  destruct bt; unfold_gen; eexists; eexists; (split; [reflexivity|]); cbn -[Rltb Reqb];
  xr_unfold; (split; [reflexivity|]); rb; cbn; try reflexivity; exfalso; lra.
Qed.

Lemma threshold_nan bt t u :
  apply_threshold XR bt (Fin t) (Some (Fin u)) NaN = Some NaN.
Proof. destruct bt; reflexivity. Qed.

(* without an upper threshold the four one-sided types work and the within family is an error exit *)
Lemma threshold_upper_none bt t r :
  (bt_pairs bt = true -> apply_threshold XR bt (Fin t) None (Fin r) = None) /\
  (bt_pairs bt = false -> apply_threshold XR bt (Fin t) None (Fin r)
                          = apply_threshold XR bt (Fin t) (Some (Fin t)) (Fin r)).
Proof. destruct bt; cbn; split; intros; try discriminate; reflexivity. Qed.

(* (d) above is the complement of below= on non-missing (finite) values; above= of below *)
Lemma above_complements_beloweq t r :
  exists iva ivb ba bb,
    interval_of XR Above (Fin t) (Fin t) = Some iva /\ interval_of XR BelowEq (Fin t) (Fin t) = Some ivb /\
    within_iv iva (Fin r) = Some ba /\ within_iv ivb (Fin r) = Some bb /\ ba = negb bb.
Proof.
  unfold_gen. do 4 eexists. split; [reflexivity|]. split; [reflexivity|].
  cbn -[Rltb Reqb]; xr_unfold. split; [reflexivity|]. split; [reflexivity|].
  rb; cbn; try reflexivity; exfalso; lra.
Qed.

Lemma aboveeq_complements_below t r :
  exists iva ivb ba bb,
    interval_of XR AboveEq (Fin t) (Fin t) = Some iva /\ interval_of XR Below (Fin t) (Fin t) = Some ivb /\
    within_iv iva (Fin r) = Some ba /\ within_iv ivb (Fin r) = Some bb /\ ba = negb bb.
Proof.
  unfold_gen. do 4 eexists. split; [reflexivity|]. split; [reflexivity|].
  cbn -[Rltb Reqb]; xr_unfold. split; [reflexivity|]. split; [reflexivity|].
  rb; cbn; try reflexivity; exfalso; lra.
Qed.

(* (c) for strictly increasing thresholds the within= events of consecutive pairs are disjoint
       and jointly cover (first, last] *)
Definition in_weq (p : xr * xr) (r : R) : bool :=
  match interval_of XR WithinEq (fst p) (snd p) with
  | Some iv => match within_iv iv (Fin r) with Some true => true | _ => false end
  | None => false
  end.

Lemma in_weq_spec a b r : in_weq (Fin a, Fin b) r = true <-> a < r <= b.
Proof.
  unfold in_weq; unfold_gen; cbn -[Rltb Reqb]; xr_unfold; rb; cbn; split; intros; try congruence; try lra.
Qed.

Fixpoint increasing (l : list R) : Prop :=
  match l with
  | a :: ((b :: _) as r) => a < b /\ increasing r
  | _ => True
  end.

Definition count_in (ts : list R) (r : R) : nat :=
  length (filter (fun p => in_weq p r) (consecutive XR (map (@Fin R) ts))).

Lemma last_cons_default (l : list R) c b : last (c :: l) b = last l c.
Proof.
  revert c b. induction l as [|x l IH]; intros c b; [reflexivity|].
  change (last (c :: x :: l) b) with (last (x :: l) b). rewrite (IH x b), (IH x c). reflexivity.
Qed.

Lemma count_in_cons2 a b ts r :
  count_in (a :: b :: ts) r = ((if in_weq (Fin a, Fin b) r then 1 else 0) + count_in (b :: ts) r)%nat.
Proof.
  unfold count_in.
  change (consecutive XR (map (@Fin R) (a :: b :: ts)))
    with ((Fin a, Fin b) :: consecutive XR (map (@Fin R) (b :: ts))).
  cbn [filter]. destruct (in_weq (Fin a, Fin b) r); reflexivity.
Qed.

Lemma count_zero_below ts a r : increasing (a :: ts) -> r <= a -> count_in (a :: ts) r = 0%nat.
Proof.
  revert a; induction ts as [|b ts IH]; intros a Hinc Hr; [reflexivity|].
  destruct Hinc as [Hab Hinc]. rewrite count_in_cons2.
  destruct (in_weq (Fin a, Fin b) r) eqn:E.
  - apply in_weq_spec in E. lra.
  - cbn [Nat.add]. apply IH; [assumption | lra].
Qed.

Lemma increasing_le_last ts b : increasing (b :: ts) -> b <= last ts b.
Proof.
  revert b. induction ts as [|c ts IH]; intros b Hinc; [cbn; lra|].
  destruct Hinc as [Hbc Hinc]. specialize (IH c Hinc).
  rewrite last_cons_default. lra.
Qed.

Lemma within_eq_partition ts a r :
  increasing (a :: ts) ->
  (a < r <= last ts a -> count_in (a :: ts) r = 1%nat) /\
  (~ (a < r <= last ts a) -> count_in (a :: ts) r = 0%nat).
Proof.
  revert a; induction ts as [|b ts IH]; intros a Hinc.
  - cbn. split; intros; [lra | reflexivity].
  - destruct Hinc as [Hab Hinc]. specialize (IH b Hinc).
    rewrite last_cons_default. rewrite count_in_cons2.
    pose proof (increasing_le_last ts b Hinc) as Hbl.
    destruct (in_weq (Fin a, Fin b) r) eqn:E.
    + apply in_weq_spec in E. split; intros H.
      * rewrite (count_zero_below ts b r); [reflexivity | assumption | lra].
      * exfalso. apply H. lra.
    + assert (E' : ~ (a < r <= b)) by (intro K; apply in_weq_spec in K; congruence).
      cbn [Nat.add]. destruct IH as [IH1 IH0]. split; intros H.
      * apply IH1. lra.
      * destruct (Rle_dec r a).
        -- apply count_zero_below; [assumption | lra].
        -- apply IH0. lra.
Qed.

(* (e) event probability from the CDF: c, 1-c, c_upper - c *)
Lemma prob_flip bt (c cu : xr) :
  apply_threshold_prob XR c bt (Some cu) =
  Some (match bt with
        | Below | BelowEq => c
        | Above | AboveEq => n_sub XR (Fin 1) c
        | _ => n_sub XR cu c
        end).
Proof. destruct bt; reflexivity. Qed.

Lemma prob_upper_none bt (c : xr) :
  bt_pairs bt = true -> apply_threshold_prob XR c bt None = None.
Proof. destruct bt; cbn; intros; try discriminate; reflexivity. Qed.

(* get_intervals: one interval per threshold for the one-sided types, one per consecutive pair
   for the within family, each the interval_of its threshold(s) *)
Lemma get_intervals_length bt (ts : list xr) :
  length (get_intervals XR bt ts) = if bt_pairs bt then (length ts - 1)%nat else length ts.
Proof.
  unfold get_intervals. destruct (bt_pairs bt); rewrite map_length; [|reflexivity].
  induction ts as [|a [|b r] IH]; try reflexivity.
  cbn [consecutive length] in *. rewrite IH. cbn. rewrite Nat.sub_0_r. reflexivity.
Qed.
