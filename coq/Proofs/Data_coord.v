(* Proofs/Data_coord.v -- values are matched by coordinates: the cell of an input's cut array at
   common position (a,b,s) is the cell the input stores at the FIRST occurrence of the coordinates
   (times[a], leads[b], locs[s].id) in its own lists.  Plus: what get_scores delivers are numbers. *)
From Coq Require Import ZArith List Bool Lia Sorted.
From VF Require Import Model.Data Proofs.Data_lemmas Proofs.C03_proofs Proofs.Data_score.
Import ListNotations.
Local Open Scope Z_scope.

Lemma zinsert_lt_all x l : Forall (fun y => x < y) l -> zinsert x l = x :: l.
Proof.
  destruct l as [|h t]; intros H; [reflexivity|]. inversion H; subst. cbn [zinsert].
  assert (E : (x <? h) = true) by (apply Z.ltb_lt; assumption). rewrite E. reflexivity.
Qed.
Lemma sort_uniq_id l : ssorted l -> sort_uniq l = l.
Proof.
  unfold ssorted. induction l as [|h t IH]; intros H; [reflexivity|].
  inversion H; subst. cbn [sort_uniq fold_right]. fold (sort_uniq t). rewrite IH by assumption.
  apply zinsert_lt_all. assumption.
Qed.
Lemma filter_all_true {A} (p : A -> bool) l : (forall x, In x l -> p x = true) -> filter p l = l.
Proof.
  induction l as [|h t IH]; intros H; [reflexivity|]. cbn [filter]. rewrite (H h) by (left; reflexivity).
  f_equal. apply IH. intros x Hx. apply H. right. exact Hx.
Qed.

(* re-intersecting an already common, sorted list changes nothing (the index recomputation after -d/-tod) *)
Lemma common_values_fixpoint keys l :
  ssorted l -> (forall k x, In k keys -> In x l -> In x k) -> common_values keys (Some l) = l.
Proof.
  intros Hs Hsub. rewrite common_values_unfold.
  assert (G : forall ks acc, ssorted acc -> (forall k x, In k ks -> In x acc -> In x k) ->
                fold_left fold_step ks (Some acc) = Some acc).
  { induction ks as [|k ks IH]; intros acc Ha Hk; [reflexivity|]. cbn [fold_left fold_step].
    assert (E : intersect acc (sort_uniq k) = acc).
    { unfold intersect. rewrite filter_all_true; [apply sort_uniq_id; exact Ha|].
      intros x Hx. apply zmem_In. apply sort_uniq_In. apply (Hk k x); [left; reflexivity | exact Hx]. }
    rewrite E. apply IH; [exact Ha|]. intros k' x Hk' Hx. apply (Hk k' x); [right; exact Hk' | exact Hx]. }
  rewrite (G keys l Hs Hsub). apply sort_uniq_id. exact Hs.
Qed.

Section S.
Variable V : Type.
Notation input := (input V). Notation config := (config V). Notation data := (data V).

Definition pos_of (x : Z) (own : list Z) : nat := match first_index x own with Some i => i | None => O end.

Lemma index_list_nth_pos values own a : (a < length values)%nat ->
  nth a (index_list values own) O = pos_of (nth a values 0) own.
Proof.
  intros Ha. unfold index_list, pos_of.
  rewrite (nth_indep _ O ((fun v => match first_index v own with Some i => i | None => O end) 0))
    by (rewrite map_length; exact Ha).
  rewrite (map_nth (fun v => match first_index v own with Some i => i | None => O end) values 0 a). reflexivity.
Qed.

Theorem value_by_coordinate (cfg : config) ins (d : data) i (c : cube V) a b s :
  mk_data V cfg ins = OK d -> (i < length (d_inputs d))%nat -> in_grid V d a b s ->
  let inp := nth i (d_inputs d) (Build_input V [] [] [] []) in
  cell V (cut_input V d i c) a b s =
  cell V c (pos_of (nth a (d_times d) 0) (i_times inp))
           (pos_of (nth b (d_leads d) 0) (i_leads inp))
           (pos_of (nth s (map l_id (d_locs d)) 0) (map l_id (i_locs inp))).
Proof.
  intros H Hi [Ha [Hb Hs]] inp.
  pose proof (dims_sorted V cfg ins d H) as [St [Sl Ss]].
  destruct (mk_data_inv V cfg ins d H) as (first & rest & use & Hins & Huse & Hall & Ht & Hl & Hsq & _ & _ & _ & HtI & HlI & HsI & _).
  set (all := all_inputs V cfg ins) in *.
  (* the three index tables, row i *)
  assert (Kt : common_values (map i_times all) (Some (d_times d)) = d_times d).
  { apply common_values_fixpoint; [exact St|]. intros k x Hk Hx. apply in_map_iff in Hk. destruct Hk as [j [<- Hj]].
    apply (times_spec V cfg ins d x H) in Hx. apply (proj1 Hx). exact Hj. }
  assert (Ri : forall (f : input -> list Z) (cv : list Z),
            nth i (map (index_list cv) (map f all)) [] = index_list cv (f inp)).
  { intros f cv. rewrite map_map. unfold inp. rewrite Hall.
    rewrite (nth_indep _ [] (index_list cv (f (Build_input V [] [] [] [])))) by (rewrite map_length, <- Hall; exact Hi).
    rewrite (map_nth (fun x => index_list cv (f x)) all (Build_input V [] [] [] []) i). reflexivity. }
  unfold cut_input. rewrite HtI, HlI, HsI. unfold common_indices. rewrite Kt.
  rewrite (Ri i_times), (Ri i_leads), (Ri (fun j => map l_id (i_locs j))).
  rewrite cell_cut by (rewrite index_list_length; try rewrite <- Hl; try rewrite <- Hsq; try rewrite map_length; assumption).
  rewrite !index_list_nth_pos by (try rewrite <- Hl; try rewrite <- Hsq; try rewrite map_length; assumption).
  rewrite <- Hl, <- Hsq. reflexivity.
Qed.
End S.

(* ---- what get_scores delivers -------------------------------------------------------------- *)
Section K.
Variable V : Type.

Lemma combine_map_seq_In {B} (g : nat -> bool) (col : list B) n s0 m x :
  In (m, x) (combine (map g (seq s0 n)) col) ->
  exists i, (i < length col)%nat /\ (i < n)%nat /\ m = g (s0 + i)%nat /\ nth_error col i = Some x.
Proof.
  revert s0 col. induction n as [|n IH]; intros s0 col H; [destruct H|].
  destruct col as [|y col]; [destruct H|]. cbn [seq map combine] in H. destruct H as [E | H].
  - inversion E; subst. exists O. cbn. rewrite Nat.add_0_r. repeat split; lia.
  - destruct (IH (S s0) col H) as [i [H1 [H2 [H3 H4]]]]. exists (S i). cbn [length nth_error].
    repeat split; try lia. rewrite H3. f_equal. lia. exact H4.
Qed.

(* every value kept by the validity mask is a number, for every requested field *)
Theorem kept_values_are_numbers (cols : list (list (option V))) col x :
  In col cols -> In x (keep_valid V (valid_mask V cols) col) -> exists v, x = Some v.
Proof.
  intros Hcol Hx. unfold keep_valid in Hx. apply in_map_iff in Hx. destruct Hx as [[m y] [E Hin]].
  cbn in E. subst y. apply filter_In in Hin. destruct Hin as [Hin Hm]. cbn in Hm. subst m.
  unfold valid_mask in Hin. destruct cols as [|c0 cols']; [destruct Hcol|].
  apply combine_map_seq_In in Hin. destruct Hin as [i [Hi [_ [Hg Hn]]]]. cbn [Nat.add] in Hg.
  symmetry in Hg. rewrite forallb_forall in Hg. specialize (Hg col Hcol).
  rewrite (nth_error_nth col i None Hn) in Hg. destruct x as [v|]; [eauto | discriminate].
Qed.

Lemma keep_valid_none (mask : list bool) (col : list (option V)) :
  forallb negb mask = true -> keep_valid V mask col = [].
Proof.
  unfold keep_valid. revert col. induction mask as [|m mask IH]; intros col H; [reflexivity|].
  destruct col as [|y col]; [reflexivity|]. cbn [forallb] in H. apply andb_true_iff in H. destruct H as [Hm H].
  cbn [combine filter fst]. destruct m; [discriminate|]. apply IH. exact H.
Qed.
End K.

Section G.
Variable V : Type.
Variable vltb : V -> V -> bool.
Variable vsub vdiv : V -> V -> option V.

Definition all_numbers (col : list (option V)) : Prop := Forall (fun x => exists v, x = Some v) col.

(* get_scores never delivers a placeholder: each column is all numbers, or every column is the single NaN *)
Theorem get_scores_numbers_or_nan (d : data V) fields k ax ai res :
  get_scores V vltb vsub vdiv d fields k ax ai = OK res ->
  Forall (fun col => col = [None]) res \/ Forall all_numbers res.
Proof.
  unfold get_scores. destruct (negb (k <? num_inputs d)%nat); [discriminate|].
  destruct (if d_has_clim d && existsb is_obs_or_fcst fields then _ else _) as [clim|e]; [|discriminate].
  destruct (collect (map (fun f => field_values V vltb vsub vdiv d f k ax ai clim) fields)) as [cols|e]; [|discriminate].
  set (kept := map (keep_valid V (valid_mask V cols)) cols).
  assert (K : Forall all_numbers kept).
  { unfold kept. rewrite Forall_forall. intros c Hc. apply in_map_iff in Hc. destruct Hc as [col [<- Hcol]].
    unfold all_numbers. rewrite Forall_forall. intros x Hx. apply (kept_values_are_numbers V cols col x Hcol Hx). }
  destruct kept as [|[|x0 k0] krest] eqn:E; intros H; injection H as <-.
  - right. constructor.
  - left. rewrite Forall_forall. intros c Hc. apply in_map_iff in Hc. destruct Hc as [? [<- _]]. reflexivity.
  - right. exact K.
Qed.

(* the same number of cases is delivered for every requested field *)
Lemma keep_valid_length (mask : list bool) (c1 c2 : list (option V)) :
  length c1 = length c2 -> length (keep_valid V mask c1) = length (keep_valid V mask c2).
Proof.
  unfold keep_valid. rewrite !map_length. revert c1 c2. induction mask as [|m mask IH]; intros c1 c2 H; [reflexivity|].
  destruct c1 as [|x c1], c2 as [|y c2]; try discriminate H; [reflexivity|].
  cbn [combine filter fst]. injection H as H. destruct m; cbn [length]; rewrite (IH c1 c2 H); reflexivity.
Qed.

(* C14: the climatology touches observation and forecast only *)
Theorem anomaly_only_obs_fcst (d : data V) f k ax ai cl c :
  is_obs_or_fcst f = false -> get_score V d f k = OK c ->
  field_values V vltb vsub vdiv d f k ax ai (Some cl) = field_values V vltb vsub vdiv d f k ax ai None.
Proof. intros Hf Hc. unfold field_values. rewrite Hc, Hf. reflexivity. Qed.

Theorem anomaly_obs_fcst (d : data V) f k ax ai cl c :
  is_obs_or_fcst f = true -> get_score V d f k = OK c ->
  field_values V vltb vsub vdiv d f k ax ai (Some cl) =
  OK (map (fun p => anomaly V vsub vdiv (d_clim_divide d) (fst p) (snd p))
          (combine (apply_axis V d ax ai (match f with
                                          | FObs => map (map (map (mask_obs_range V vltb (d_obs_range d)))) c
                                          | _ => c end)) cl)).
Proof. intros Hf Hc. unfold field_values. rewrite Hc, Hf. destruct f; reflexivity. Qed.

(* a missing climatology, a missing value, or a non-finite quotient is missing *)
Theorem anomaly_spec divide (x c : option V) :
  anomaly V vsub vdiv divide x c =
  match x, c with
  | Some v, Some w => if divide then vdiv v w else vsub v w
  | _, _ => None
  end.
Proof. reflexivity. Qed.
End G.
