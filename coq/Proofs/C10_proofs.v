(* Proofs/C10_proofs.v -- the cell rule of util.clean (generated, at XR) and the NetCDF tables. *)
From Coq Require Import Reals ZArith List Bool Lra String.
From VF Require Import Base.Num Base.Vec Base.Event Gen.Gen_io Proofs.XRTac.
Import ListNotations.
Local Open Scope R_scope.

Definition big : R := IZR 1000000000000000000000000000000.      (* 1e30 *)

Lemma clean_unfold masked (v : xr) :
  clean_cell XR masked v =
  let q := if masked then Fin (-999) else v in
  let q := if n_isnan XR q then Fin (-999) else q in
  if n_eqb XR q (Fin (-999)) || n_ltb XR (Fin big) q then NaN else q.
Proof. reflexivity. Qed.
Global Opaque big.

Lemma eqb_sentinel : n_eqb XR (Fin (-999)) (Fin (-999)) = true.
Proof. cbn. unfold x_eqb. cbn. apply Reqb_true. reflexivity. Qed.

(* a masked cell (fill value), NaN, -999 and anything above 1e30 read as missing; every other
   finite value is kept exactly *)
Lemma clean_masked v : clean_cell XR true v = NaN.
Proof. rewrite clean_unfold. cbv zeta. cbn [n_isnan XR xops x_isnan]. rewrite eqb_sentinel. reflexivity. Qed.
Lemma clean_nan : clean_cell XR false NaN = NaN.
Proof. rewrite clean_unfold. cbv zeta. cbn [n_isnan XR xops x_isnan]. rewrite eqb_sentinel. reflexivity. Qed.
Lemma clean_fin r : clean_cell XR false (Fin r) = if Reqb r (-999) || Rltb big r then NaN else Fin r.
Proof. rewrite clean_unfold. cbv zeta. cbn [n_isnan XR xops x_isnan n_eqb n_ltb]. unfold x_eqb, x_ltb. cbn [RBase b_eqb b_ltb]. reflexivity. Qed.
Lemma clean_keeps r : r <> -999 -> r <= big -> clean_cell XR false (Fin r) = Fin r.
Proof.
  intros H1 H2. rewrite clean_fin. rewrite (proj2 (Reqb_false r (-999)) H1), (proj2 (Rltb_false big r) H2). reflexivity.
Qed.
Lemma clean_sentinel : clean_cell XR false (Fin (-999)) = NaN.
Proof. rewrite clean_fin. rewrite (proj2 (Reqb_true (-999) (-999)) eq_refl). reflexivity. Qed.
Lemma clean_huge r : big < r -> clean_cell XR false (Fin r) = NaN.
Proof. intros H. rewrite clean_fin. rewrite (proj2 (Rltb_true big r) H). rewrite orb_true_r. reflexivity. Qed.
Lemma clean_pinf : clean_cell XR false PInf = NaN.
Proof. rewrite clean_unfold. reflexivity. Qed.
Lemma clean_ninf : clean_cell XR false NInf = NInf.
Proof. rewrite clean_unfold. reflexivity. Qed.

(* converting with text2nc: a value stored as float32 (rounding r) and read back is r(value), for
   every value that is not one of the missing-value encodings; missing stays missing *)
Section Rd.
Variable r : R -> R.          (* float32 rounding of the NetCDF library: abstract *)
Definition write_f4 (x : xr) : xr := match x with Fin v => Fin (r v) | other => other end.
Lemma roundtrip_value v : r v <> -999 -> r v <= big -> clean_cell XR false (write_f4 (Fin v)) = Fin (r v).
Proof. intros. cbn [write_f4]. apply clean_keeps; assumption. Qed.
Lemma roundtrip_missing : clean_cell XR false (write_f4 NaN) = NaN.
Proof. cbn [write_f4]. apply clean_nan. Qed.
End Rd.
