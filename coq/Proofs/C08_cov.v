(* Proofs/C08_cov.v -- coverage of the interval between two forecast quantiles (QuantileCoverage, GENERATED):
   which end of the interval is closed is decided by the bin type's lower_eq / upper_eq, each on its own side. *)
From Coq Require Import Reals ZArith List Bool Lra Lia.
From VF Require Import Base.Num Base.Vec Base.Event Gen.Gen_interval Gen.Gen_prob Proofs.XRTac Proofs.RList.
Import ListNotations.
Local Open Scope R_scope.

(* is x inside the interval between lo and hi, with the given inclusion of the two ends? *)
Definition inside (le ue : bool) (lo x hi : R) : bool :=
  (if le then (Rltb lo x || Reqb lo x) else Rltb lo x) && (if ue then (Rltb x hi || Reqb x hi) else Rltb x hi).
Definition zip3 (a b c : list R) : list (R * R * R) := combine (combine a b) c.

Lemma leb_fin x y : n_leb XR (Fin x) (Fin y) = (Rltb x y || Reqb x y).
Proof. xr_unfold. reflexivity. Qed.
Lemma ltb_fin x y : n_ltb XR (Fin x) (Fin y) = Rltb x y.
Proof. xr_unfold. reflexivity. Qed.

Lemma vmap2b_F (f : xr -> xr -> bool) (g : R -> R -> bool) a b :
  (forall x y, f (Fin x) (Fin y) = g x y) -> vmap2b XR f (F a) (F b) = map (fun p => g (fst p) (snd p)) (combine a b).
Proof.
  intros H. unfold vmap2b, F. revert b. induction a as [|x a IH]; intros [|y b]; cbn; try reflexivity.
  rewrite H. f_equal. apply IH.
Qed.

(* two-sided interval: the coverage is the share of cases whose observation lies between the two forecast
   quantiles, the LOWER end included iff lower_eq and the UPPER end included iff upper_eq *)
Lemma coverage_two_sided a b le ue obs q0 q1 : length obs = length q0 -> length obs = length q1 ->
  QuantileCoverage_core XR (Build_interval XR (Fin a) (Fin b) le ue) (F obs) (F q0) (F q1) =
  bmean XR (map (fun t => inside le ue (snd (fst t)) (fst (fst t)) (snd t)) (zip3 obs q0 q1)).
Proof.
  intros L0 L1. unfold QuantileCoverage_core. cbn [iv_lower iv_upper iv_lower_eq iv_upper_eq].
  assert (Hi : forall r, n_isinf XR (Fin r) = false) by (intros; xr_unfold; reflexivity).
  rewrite !Hi. f_equal.
  rewrite (vmap2b_F (fun x y => n_leb XR x y) (fun x y => Rltb x y || Reqb x y)) by apply leb_fin.
  rewrite (vmap2b_F (fun x y => n_ltb XR x y) Rltb) by apply ltb_fin.
  rewrite (vmap2b_F (fun x y => n_leb XR y x) (fun x y => Rltb y x || Reqb y x)) by (intros; apply leb_fin).
  rewrite (vmap2b_F (fun x y => n_ltb XR y x) (fun x y => Rltb y x)) by (intros; apply ltb_fin).
  unfold zip3, inside.
  revert q0 q1 L0 L1. induction obs as [|o obs IH]; intros [|x q0] [|y q1] L0 L1; cbn in *; try discriminate; try (destruct le, ue; reflexivity).
  injection L0 as L0. injection L1 as L1. specialize (IH q0 q1 L0 L1).
  destruct le, ue; cbn in *; f_equal; exact IH.
Qed.

(* one-sided events: below(=) looks at the upper quantile only, above(=) at the lower one *)
Lemma coverage_below b le ue obs q0 q1 :
  QuantileCoverage_core XR (Build_interval XR NInf (Fin b) le ue) (F obs) (F q0) (F q1) =
  bmean XR (map (fun t => if ue then (Rltb (snd t) (fst t) || Reqb (snd t) (fst t)) else Rltb (snd t) (fst t)) (combine q1 obs)).
Proof.
  unfold QuantileCoverage_core. cbn [iv_lower iv_upper iv_lower_eq iv_upper_eq].
  change (n_isinf XR (@NInf R)) with true. cbv iota. f_equal.
  rewrite (vmap2b_F (fun x y => n_leb XR y x) (fun x y => Rltb y x || Reqb y x)) by (intros; apply leb_fin).
  rewrite (vmap2b_F (fun x y => n_ltb XR y x) (fun x y => Rltb y x)) by (intros; apply ltb_fin).
  destruct ue; reflexivity.
Qed.
