(* Proofs/C18_proofs.v -- first lemmas about the stateful model (Model/DataState.v). *)
From Coq Require Import ZArith List Bool Lia.
From VF Require Import Model.Data Model.DataState.
Import ListNotations.

Section S.
Variable V : Type.
Variable vltb : V -> V -> bool.
Variable vsub vdiv : V -> V -> option V.
Variable copy_all : bool.
Variable axis_of : nat -> axis.
Notation step := (step V vltb vsub vdiv copy_all axis_of).
Notation run := (run V vltb vsub vdiv copy_all axis_of).

(* a request found in the request cache is answered with the SAME objects and no state change *)
Lemma step_cache_hit (d : data V) (s : state V) rq p :
  find (fun p => key_eqb rq (fst p)) (scache V s) = Some p -> step d s rq = OK (s, snd p).
Proof. intros H. unfold DataState.step. rewrite H. reflexivity. Qed.

(* the -obsrange mask is idempotent: masking the cached observations again changes nothing *)
Lemma mask_idempotent r (x : option V) :
  mask_obs_range V vltb r (mask_obs_range V vltb r x) = mask_obs_range V vltb r x.
Proof.
  destruct r as [[lo hi]|]; destruct x as [v|]; cbn; try reflexivity.
  destruct (vltb v lo) eqn:E1; [reflexivity|]. destruct (vltb hi v) eqn:E2; [reflexivity|].
  cbn. rewrite E1, E2. reflexivity.
Qed.

Lemma mask_cube_idempotent r (c : cube V) :
  map (map (map (mask_obs_range V vltb r))) (map (map (map (mask_obs_range V vltb r))) c)
  = map (map (map (mask_obs_range V vltb r))) c.
Proof.
  rewrite map_map. apply map_ext. intros p. rewrite map_map. apply map_ext. intros row.
  rewrite map_map. apply map_ext. intros x. apply mask_idempotent.
Qed.

(* heap bookkeeping *)
Lemma alloc_read (s : state V) o : let '(s1, i) := alloc V s o in read V s1 i = o /\ i = length (heap V s).
Proof. cbn. unfold read. cbn. rewrite app_nth2 by lia. rewrite Nat.sub_diag. split; reflexivity. Qed.

Lemma alloc_preserves (s : state V) o j : (j < length (heap V s))%nat ->
  read V (fst (alloc V s o)) j = read V s j.
Proof. intros H. cbn. unfold read. cbn. apply app_nth1. exact H. Qed.

Lemma set_nth_same {A} n (x d : A) l : (n < length l)%nat -> nth n (set_nth n x l) d = x.
Proof. revert n. induction l as [|h t IH]; intros [|n] H; cbn in *; try lia; [reflexivity | apply IH; lia]. Qed.
Lemma set_nth_other {A} n m (x d : A) l : n <> m -> nth m (set_nth n x l) d = nth m l d.
Proof.
  revert n m. induction l as [|h t IH]; intros n m H; [destruct n; reflexivity|].
  destruct n, m; cbn; try reflexivity; try congruence. apply IH. congruence.
Qed.
Lemma write_other (s : state V) i j o : i <> j -> read V (write V s i o) j = read V s j.
Proof. intros H. unfold read, write. cbn. apply set_nth_other. exact H. Qed.
End S.
