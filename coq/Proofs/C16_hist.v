(* Proofs/C16_hist.v -- the histogram shares of -hist add up to 100 % (whenever any value lies in a bin),
   and every frequency drawn by freq is a share in [0, 1]. *)
From Coq Require Import Reals ZArith List Bool Lra Lia.
From VF Require Import Base.Num Base.Vec Base.Event Gen.Gen_interval Model.Diagrams Proofs.XRTac Proofs.RList.
Import ListNotations.
Local Open Scope R_scope.

Lemma rsum_scale (k : R) l : rsum (map (fun x => x * k) l) = rsum l * k.
Proof.
  induction l as [|x l IH]; [unfold rsum; cbn; lra|].
  cbn [map]. rewrite !rsum_cons, IH. lra.
Qed.

(* the counts of hist are finite non-negative numbers *)
Lemma count_within_fin iv v : exists n : nat, count_within XR iv v = Fin (INR n).
Proof.
  unfold count_within. eexists. xr_unfold. rewrite <- INR_IZR_INZ. reflexivity.
Qed.

Lemma hist_counts_F ivs v : exists ns : list nat, map (fun iv => count_within XR iv v) ivs = F (map INR ns).
Proof.
  induction ivs as [|iv ivs [ns IH]]; [exists []; reflexivity|].
  destruct (count_within_fin iv v) as [n Hn]. exists (n :: ns). cbn [map]. rewrite Hn, IH. reflexivity.
Qed.

Theorem hist_percent_sums_to_100 ivs v :
  (exists iv, In iv ivs /\ count_within XR iv v <> Fin 0) ->
  exists l, hist_percent XR ivs v = F l /\ rsum l = 100.
Proof.
  intros [iv0 [Hin Hpos]]. unfold hist_percent. cbv zeta.
  destruct (hist_counts_F ivs v) as [ns Hns]. rewrite Hns.
  set (c := map INR ns). rewrite vsum_F.
  assert (Hnn : Forall (fun x => 0 <= x) c) by (unfold c; apply Forall_forall; intros x Hx; apply in_map_iff in Hx; destruct Hx as [n [<- _]]; apply pos_INR).
  assert (HS : 0 < rsum c).
  { (* one of the counts is positive *)
    assert (Hc0 : In (count_within XR iv0 v) (F c)).
    { unfold c. rewrite <- Hns. apply (in_map (fun iv => count_within XR iv v)). exact Hin. }
    unfold F in Hc0. apply in_map_iff in Hc0. destruct Hc0 as [x [Hx Hxin]].
    assert (x <> 0) by (intros ->; apply Hpos; symmetry; exact Hx).
    assert (0 <= x) by (rewrite Forall_forall in Hnn; apply Hnn; exact Hxin).
    clear -Hnn Hxin H H0. induction c as [|y c IH]; [destruct Hxin|].
    rewrite rsum_cons. inversion Hnn; subst. pose proof (rsum_nonneg c H4).
    destruct Hxin as [->|Hxin]; [lra|]. specialize (IH H4 Hxin). lra. }
  exists (map (fun x => x * (100 / rsum c)) c). split.
  - unfold F. rewrite !map_map. apply map_ext. intros x.
    change (n_mul XR (Fin x) (lit XR 100)) with (n_mul XR (Fin x) (n_lit XR 100 1)).
    assert (E : n_mul XR (Fin x) (n_lit XR 100 1) = Fin (x * 100)).
    { xr_unfold. f_equal. }
    rewrite E. rewrite xdiv_fin by lra. f_equal. field. lra.
  - rewrite rsum_scale. field. lra.
Qed.


Lemma filter_length_le {A} (f : A -> bool) l : (length (filter f l) <= length l)%nat.
Proof. induction l as [|x l IH]; cbn; [lia|]. destruct (f x); cbn; lia. Qed.

(* a frequency drawn by -m freq (and every np.nanmean of a masked membership vector) is a share in [0, 1] *)
Lemma mamean_share (l : list (option bool)) : (exists b, In (Some b) l) ->
  exists r, mamean XR l = Fin r /\ 0 <= r <= 1.
Proof.
  intros [b Hb]. unfold mamean. set (valid := filter is_some l).
  assert (Hv : (0 < length valid)%nat).
  { assert (In (Some b) valid) by (unfold valid; apply filter_In; split; [exact Hb | reflexivity]).
    destruct valid; [destruct H | cbn; lia]. }
  pose proof (filter_length_le is_some_true valid) as Hle.
  set (a := length (filter is_some_true valid)) in *. set (n := length valid) in *.
  assert (Hn : 0 < INR n) by (apply lt_0_INR; exact Hv).
  exists (INR a / INR n). split.
  - xr_unfold. rewrite <- !INR_IZR_INZ. rewrite (proj2 (Reqb_false (INR n) 0)) by lra. reflexivity.
  - split.
    + apply Rmult_le_pos; [apply pos_INR | left; apply Rinv_0_lt_compat; exact Hn].
    + apply Rmult_le_reg_r with (INR n); [exact Hn|]. unfold Rdiv. rewrite Rmult_assoc, Rinv_l by lra.
      rewrite Rmult_1_r, Rmult_1_l. apply le_INR. exact Hle.
Qed.

Theorem freq_line_in_unit_interval ivs v y : In y (freq_line XR ivs v) ->
  (forall iv, In iv ivs -> exists x b, In x v /\ iv_within XR iv x = Some b) ->
  exists r, y = Fin r /\ 0 <= r <= 1.
Proof.
  intros Hy Hv. unfold freq_line in Hy. apply in_map_iff in Hy. destruct Hy as [iv [<- Hiv]].
  destruct (Hv iv Hiv) as [x [b [Hx Hb]]].
  apply mamean_share. exists b. rewrite <- Hb. apply in_map. exact Hx.
Qed.
