(* Proofs/XRTac.v -- tactics for goals about the XR instance (extended reals over R). *)
From Coq Require Import Reals ZArith List Bool Lra.
From VF Require Import Base.Num Base.Vec Base.Event.
Local Open Scope R_scope.

Lemma Rdiv_one (r : R) : r / 1 = r.
Proof. field. Qed.

Lemma Reqb_1_0 : Reqb 1 0 = false.
Proof. apply Reqb_false; lra. Qed.

Ltac xr_unfold :=
  cbn [XR xops numT n_nan n_pinf n_ninf n_lit n_ofnat n_add n_sub n_mul n_div n_neg n_abs n_sqrt n_cbrt
       n_ln n_log2 n_exp n_eqb n_ltb n_leb n_isnan n_isinf] in *;
  unfold x_leb, x_ltb, x_eqb, x_isnan, x_isinf, x_add, x_sub, x_mul, x_div, x_neg, x_abs, x_lit,
         x_log2, x_ln, x_sqrt, x_exp, x_cbrt,
         is0, pos, neg, z0, inf_of_sign in *;
  cbn [RBase bT b_ofZ b_add b_sub b_mul b_div b_opp b_eqb b_ltb b_ln b_sqrt b_exp b_cbrt] in *;
  rewrite ?Reqb_1_0 in *; cbv beta iota in *.

(* destruct every real comparison in the goal, one at a time *)
Ltac rb1 :=
  match goal with
  | |- context [Reqb ?a ?b] =>
      let E := fresh "E" in destruct (Reqb a b) eqn:E;
      [apply Reqb_true in E | apply Reqb_false in E]
  | |- context [Rltb ?a ?b] =>
      let E := fresh "E" in destruct (Rltb a b) eqn:E;
      [apply Rltb_true in E | apply Rltb_false in E]
  end.
Ltac rbh :=
  match goal with
  | H : context [Reqb ?a ?b] |- _ =>
      let E := fresh "E" in destruct (Reqb a b) eqn:E;
      [apply Reqb_true in E | apply Reqb_false in E]
  | H : context [Rltb ?a ?b] |- _ =>
      let E := fresh "E" in destruct (Rltb a b) eqn:E;
      [apply Rltb_true in E | apply Rltb_false in E]
  end.
(* pruning variant: discharge linearly contradictory branches as soon as they appear *)
Ltac prune := try solve [exfalso; lra].
Ltac rbp := repeat (rb1; prune).
Ltac rb := repeat rb1.
Ltac rba := repeat (first [rb1 | rbh]).

(* record 0 < x / y for every quotient (goal or hypotheses) whose numerator and denominator are positive *)
Ltac add_div_pos1 x y :=
  lazymatch goal with
  | _ : 0 < x / y |- _ => fail
  | _ => let P := fresh "P" in
         assert (P : 0 < x / y) by (apply Rdiv_lt_0_compat; first [assumption | lra | nra])
  end.
Ltac add_div_pos :=
  repeat match goal with
  | |- context [?x / ?y] => add_div_pos1 x y
  | _ : context [?x / ?y] |- _ => add_div_pos1 x y
  end.
(* destruct comparisons, learning positivity of quotients on the way *)
Ltac rbq := repeat (rb1; add_div_pos; prune).
