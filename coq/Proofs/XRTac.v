(* Proofs/XRTac.v -- tactics for goals about the XR instance (extended reals over R). *)
From Coq Require Import Reals ZArith List Bool Lra.
From VF Require Import Base.Num Base.Vec Base.Event.

Ltac xr_unfold :=
  cbn [XR xops numT n_nan n_pinf n_ninf n_lit n_ofnat n_add n_sub n_mul n_div n_neg n_abs n_sqrt n_cbrt
       n_ln n_log2 n_exp n_eqb n_ltb n_leb n_isnan n_isinf] in *;
  unfold x_leb, x_ltb, x_eqb, x_isnan, x_isinf, x_add, x_sub, x_mul, x_div, x_neg, x_abs, x_lit,
         is0, pos, neg, z0, inf_of_sign in *;
  cbn [RBase bT b_ofZ b_add b_sub b_mul b_div b_opp b_eqb b_ltb] in *.

(* destruct every real comparison in the goal, one at a time *)
Ltac rb1 :=
  match goal with
  | |- context [Reqb ?a ?b] =>
      let E := fresh "E" in destruct (Reqb a b) eqn:E;
      [apply Reqb_true in E | apply Reqb_false in E]
  | |- context [Rltb ?a ?b] =>
      let E := fresh "E" in destruct (Rltb a b) eqn:E;
      [apply Rltb_true in E | apply Rltb_false in E]
  end.
Ltac rbh :=
  match goal with
  | H : context [Reqb ?a ?b] |- _ =>
      let E := fresh "E" in destruct (Reqb a b) eqn:E;
      [apply Reqb_true in E | apply Reqb_false in E]
  | H : context [Rltb ?a ?b] |- _ =>
      let E := fresh "E" in destruct (Rltb a b) eqn:E;
      [apply Rltb_true in E | apply Rltb_false in E]
  end.
Ltac rb := repeat rb1.
Ltac rba := repeat (first [rb1 | rbh]).
