(* Proofs/Data_score.v -- the missing-value propagation of Data._get_score and what it implies:
   same cases for every input, a case needs every input, values of one input never leak into
   another input's answer. Axiom-free. *)
From Coq Require Import ZArith List Bool Lia.
From VF Require Import Model.Data Proofs.Data_lemmas.
Import ListNotations.

Section S.
Variable V : Type.
Notation cube := (cube V).
Notation data := (data V).

Lemma nth_map_seq {A} (f : nat -> A) n a d : (a < n)%nat -> nth a (map f (seq 0 n)) d = f a.
Proof.
  intros H. rewrite (nth_indep _ d (f O)) by (rewrite map_length, seq_length; exact H).
  rewrite map_nth. rewrite seq_nth by exact H. reflexivity.
Qed.

Definition in_grid (d : data) (a b s : nat) : Prop :=
  (a < length (d_times d))%nat /\ (b < length (d_leads d))%nat /\ (s < length (d_locs d))%nat.

Lemma propagate_length (d : data) cs : length (propagate V d cs) = length cs.
Proof. unfold propagate. apply map_length. Qed.

(* the cell of input k after propagation *)
Lemma propagate_cell (d : data) cs k a b s :
  (k < length cs)%nat -> in_grid d a b s ->
  cell V (nth k (propagate V d cs) []) a b s =
  if missing_anywhere V cs a b s then None else cell V (nth k cs []) a b s.
Proof.
  intros Hk [Ha [Hb Hs]]. unfold propagate.
  set (F := fun c : cube => map (fun a0 => map (fun b0 => map (fun s0 =>
                 if missing_anywhere V cs a0 b0 s0 then None else cell V c a0 b0 s0)
               (seq 0 (length (d_locs d)))) (seq 0 (length (d_leads d)))) (seq 0 (length (d_times d)))).
  rewrite (nth_indep _ [] (F [])) by (rewrite map_length; exact Hk).
  rewrite (map_nth F cs [] k). unfold F, cell at 1.
  rewrite nth_map_seq by exact Ha. rewrite nth_map_seq by exact Hb. rewrite nth_map_seq by exact Hs.
  reflexivity.
Qed.

Lemma missing_anywhere_false cs a b s :
  missing_anywhere V cs a b s = false <-> forall c, In c cs -> exists v, cell V c a b s = Some v.
Proof.
  unfold missing_anywhere. split.
  - intros H c Hc. destruct (cell V c a b s) as [v|] eqn:E; [eauto|].
    assert (existsb (fun c0 => match cell V c0 a b s with None => true | Some _ => false end) cs = true).
    { apply existsb_exists. exists c. rewrite E. auto. }
    congruence.
  - intros H. destruct (existsb _ cs) eqn:E; [|reflexivity]. apply existsb_exists in E.
    destruct E as [c [Hc Hm]]. destruct (H c Hc) as [v Hv]. rewrite Hv in Hm. discriminate.
Qed.

(* a case contributes for input k only if every input (climatology included) has a value there,
   and then the delivered value is input k's own *)
Theorem propagate_valid_iff (d : data) cs k a b s v :
  (k < length cs)%nat -> in_grid d a b s ->
  (cell V (nth k (propagate V d cs) []) a b s = Some v <->
   cell V (nth k cs []) a b s = Some v /\ forall c, In c cs -> exists w, cell V c a b s = Some w).
Proof.
  intros Hk Hg. rewrite (propagate_cell d cs k a b s Hk Hg).
  destruct (missing_anywhere V cs a b s) eqn:E.
  - split; [discriminate|]. intros [_ H]. pose proof (proj2 (missing_anywhere_false cs a b s) H). congruence.
  - pose proof (proj1 (missing_anywhere_false cs a b s) E). tauto.
Qed.

(* all inputs are scored on the same cases *)
Theorem propagate_same_cases (d : data) cs k k' a b s :
  (k < length cs)%nat -> (k' < length cs)%nat -> in_grid d a b s ->
  is_some (cell V (nth k (propagate V d cs) []) a b s) = is_some (cell V (nth k' (propagate V d cs) []) a b s).
Proof.
  intros Hk Hk' Hg. rewrite !(propagate_cell d cs _ a b s) by assumption.
  destruct (missing_anywhere V cs a b s) eqn:E; [reflexivity|].
  pose proof (proj1 (missing_anywhere_false cs a b s) E) as H.
  destruct (H (nth k cs []) (nth_In cs [] Hk)) as [v ->].
  destruct (H (nth k' cs []) (nth_In cs [] Hk')) as [w ->]. reflexivity.
Qed.

(* ---- non-interference ---------------------------------------------------------------------- *)
Definition same_missing (c c' : cube) : Prop :=
  forall a b s, is_some (cell V c a b s) = is_some (cell V c' a b s).

Fixpoint replace_nth {A} (n : nat) (x : A) (l : list A) : list A :=
  match l, n with
  | [], _ => []
  | _ :: t, O => x :: t
  | h :: t, S m => h :: replace_nth m x t
  end.

Lemma replace_nth_other {A} n k (x d : A) l : n <> k -> nth k (replace_nth n x l) d = nth k l d.
Proof.
  revert n k. induction l as [|h t IH]; intros n k Hne; [destruct n; reflexivity|].
  destruct n, k; cbn; try reflexivity; try congruence. apply IH. congruence.
Qed.
Lemma replace_nth_length {A} n (x : A) l : length (replace_nth n x l) = length l.
Proof. revert n. induction l as [|h t IH]; intros [|n]; cbn; auto. Qed.

Lemma missing_anywhere_replace cs g c' a b s :
  (g < length cs)%nat -> same_missing (nth g cs []) c' ->
  missing_anywhere V (replace_nth g c' cs) a b s = missing_anywhere V cs a b s.
Proof.
  unfold missing_anywhere. revert g. induction cs as [|h t IH]; intros g Hg Hs; [cbn in Hg; lia|].
  destruct g as [|g]; cbn [replace_nth existsb nth] in *.
  - specialize (Hs a b s). destruct (cell V h a b s), (cell V c' a b s); cbn in Hs; try discriminate; reflexivity.
  - cbn [length] in Hg. rewrite IH; [reflexivity | lia | exact Hs].
Qed.

(* replacing the non-missing values of input g by other non-missing values leaves every other
   input's propagated array unchanged *)
Theorem propagate_non_interference (d : data) cs g c' k :
  (g < length cs)%nat -> k <> g -> same_missing (nth g cs []) c' ->
  nth k (propagate V d (replace_nth g c' cs)) [] = nth k (propagate V d cs) [].
Proof.
  intros Hg Hne Hs.
  destruct (Nat.lt_ge_cases k (length cs)) as [Hk | Hk].
  2:{ rewrite (nth_overflow (propagate V d (replace_nth g c' cs))) by (rewrite propagate_length, replace_nth_length; exact Hk).
      rewrite (nth_overflow (propagate V d cs)) by (rewrite propagate_length; exact Hk). reflexivity. }
  unfold propagate.
  set (F := fun (l : list cube) (c : cube) => map (fun a0 => map (fun b0 => map (fun s0 =>
                 if missing_anywhere V l a0 b0 s0 then None else cell V c a0 b0 s0)
               (seq 0 (length (d_locs d)))) (seq 0 (length (d_leads d)))) (seq 0 (length (d_times d)))).
  change (nth k (map (F (replace_nth g c' cs)) (replace_nth g c' cs)) [] = nth k (map (F cs) cs) []).
  rewrite (nth_indep _ [] (F (replace_nth g c' cs) [])) by (rewrite map_length, replace_nth_length; exact Hk).
  rewrite (nth_indep (map (F cs) cs) [] (F cs [])) by (rewrite map_length; exact Hk).
  rewrite !map_nth. rewrite replace_nth_other by congruence.
  unfold F. apply map_ext. intros a. apply map_ext. intros b. apply map_ext. intros s.
  rewrite missing_anywhere_replace by assumption. reflexivity.
Qed.

End S.
