(* Proofs/C12_proofs.v -- shape, order and cell identity of the reported table; -acc = prefix sums. *)
From Coq Require Import ZArith List Bool Lia.
From VF Require Import Model.Table.
Import ListNotations.

Section P.
Variable V : Type.
Variable vadd : V -> V -> V.
Variable vzero : V.
Notation table := (table V vadd vzero).

Lemma nth_map_seq' {A} (f : nat -> A) n a d : (a < n)%nat -> nth a (map f (seq 0 n)) d = f a.
Proof.
  intros H. rewrite (nth_indep _ d (f O)) by (rewrite map_length, seq_length; exact H).
  rewrite map_nth. rewrite seq_nth by exact H. reflexivity.
Qed.

(* one row per slice, in axis order; one cell per input, in command-line order *)
Theorem table_rows ninputs nslices score acc : length (table ninputs nslices score acc) = nslices.
Proof. unfold Table.table, transpose_cols. rewrite map_length, seq_length. reflexivity. Qed.

Theorem table_columns ninputs nslices score acc row :
  In row (table ninputs nslices score acc) -> length row = ninputs.
Proof.
  unfold Table.table, transpose_cols. intros H. apply in_map_iff in H. destruct H as [i [<- _]].
  rewrite map_length. destruct acc; rewrite ?map_length, seq_length; reflexivity.
Qed.

(* without -acc every cell is exactly the score of that input on that slice *)
Theorem table_cell ninputs nslices score f i : (f < ninputs)%nat -> (i < nslices)%nat ->
  nth f (nth i (table ninputs nslices score false) []) None = score f i.
Proof.
  intros Hf Hi. unfold Table.table, transpose_cols.
  rewrite nth_map_seq' by exact Hi.
  rewrite (nth_indep _ None ((fun c : list (option V) => nth i c None) [])) by (rewrite !map_length, seq_length; exact Hf).
  rewrite (map_nth (fun c : list (option V) => nth i c None)).
  rewrite nth_map_seq' by exact Hf. rewrite nth_map_seq' by exact Hi. reflexivity.
Qed.

(* -acc: the cell of slice i is the sum of the scores of slices 0..i, a missing score counting as 0 *)
Fixpoint prefix_sum (acc : V) (col : list (option V)) (i : nat) : V :=
  match col, i with
  | [], _ => acc
  | c :: _, O => vadd acc (match c with Some v => v | None => vzero end)
  | c :: r, S j => prefix_sum (vadd acc (match c with Some v => v | None => vzero end)) r j
  end.

Lemma running_nth a col i d : (i < length col)%nat -> nth i (running V vadd vzero a col) d = prefix_sum a col i.
Proof.
  revert a i. induction col as [|c r IH]; intros a i Hi; [cbn in Hi; lia|].
  destruct i as [|j]; cbn [running nth prefix_sum]; [reflexivity|]. apply IH. cbn in Hi. lia.
Qed.
Lemma running_length a col : length (running V vadd vzero a col) = length col.
Proof. revert a. induction col as [|c r IH]; intros a; cbn; [reflexivity | rewrite IH; reflexivity]. Qed.

Theorem table_acc_cell ninputs nslices score f i : (f < ninputs)%nat -> (i < nslices)%nat ->
  nth f (nth i (table ninputs nslices score true) []) None
  = Some (prefix_sum vzero (map (fun j => score f j) (seq 0 nslices)) i).
Proof.
  intros Hf Hi. unfold Table.table, transpose_cols.
  rewrite nth_map_seq' by exact Hi.
  rewrite (nth_indep _ None ((fun c : list (option V) => nth i c None) [])) by (rewrite !map_length, seq_length; exact Hf).
  rewrite (map_nth (fun c : list (option V) => nth i c None)).
  rewrite (nth_indep _ [] ((fun c => map Some (running V vadd vzero vzero c)) [])) by (rewrite !map_length, seq_length; exact Hf).
  rewrite (map_nth (fun c => map Some (running V vadd vzero vzero c))).
  rewrite nth_map_seq' by exact Hf.
  rewrite (nth_indep _ None (Some vzero)) by (rewrite map_length, running_length, map_length, seq_length; exact Hi).
  rewrite (map_nth Some). f_equal. apply running_nth. rewrite map_length, seq_length. exact Hi.
Qed.
End P.
