(* Proofs/C13_proofs.v -- the argument loop: option order does not matter, --config acts as appended
   tokens, malformed command lines are rejected; vector syntax includes the end point. Axiom-free. *)
From Coq Require Import ZArith QArith List Bool Ascii String Permutation Lia Lqa.
From VF Require Import Model.Data Model.Cal Model.DataQ Model.ParseNumbers Gen.Gen_cli Model.Cli.
Import ListNotations.
Local Open Scope string_scope.

Section L.
Variable bflags : list (string * string * string).
Variable vflags : list (string * string * string * string * string).
Notation parse_loop := (parse_loop bflags vflags).

(* a command line seen as option groups *)
Inductive group : Type :=
| GBool (flag : string)
| GVal (flag value : string)
| GFile (name : string).

Definition tokens (g : group) : list string :=
  match g with GBool f => [f] | GVal f v => [f; v] | GFile n => [n] end.

Definition assigned (g : group) : list (string * string) :=
  match g with
  | GBool f => match find_bool bflags f with Some (_, var, const) => [(var, const)] | None => [] end
  | GVal f v => match find_val vflags f with
                | Some (_, var, _, evar, econst) => if String.eqb evar "" then [(var, v)] else [(var, v); (evar, econst)]
                | None => []
                end
  | GFile _ => []
  end.
Definition file_of (g : group) : list string := match g with GFile n => [n] | _ => [] end.

Definition wf (g : group) : Prop :=
  match g with
  | GBool f => starts_dash f = true /\ find_bool bflags f <> None
  | GVal f v => starts_dash f = true /\ find_bool bflags f = None /\ find_val vflags f <> None
  | GFile n => starts_dash n = false
  end.

Definition apply_group (acc : parsed) (g : group) : parsed :=
  {| p_assign := (p_assign acc ++ assigned g)%list; p_files := (p_files acc ++ file_of g)%list |}.

Lemma parsed_eq a b : p_assign a = p_assign b -> p_files a = p_files b -> a = b.
Proof. destruct a, b; cbn; intros; subst; reflexivity. Qed.

(* the loop processes a well-formed command line group by group *)
Lemma parse_loop_groups gs : Forall wf gs -> forall acc,
  parse_loop (flat_map tokens gs) acc = OK (fold_left apply_group gs acc).
Proof.
  induction gs as [|g gs IH]; intros Hwf acc; [reflexivity|].
  inversion Hwf as [|? ? Hg Hrest]; subst. cbn [flat_map fold_left].
  destruct g as [f | f v | n]; cbn [tokens app wf] in *.
  - destruct Hg as [Hd Hb]. cbn [Cli.parse_loop]. rewrite Hd.
    destruct (find_bool bflags f) as [[[fl var] const]|] eqn:E; [|congruence].
    rewrite (IH Hrest). f_equal. f_equal. apply parsed_eq; cbn; rewrite ?E, ?app_nil_r; reflexivity.
  - destruct Hg as [Hd [Hb Hv]]. cbn [Cli.parse_loop]. rewrite Hd, Hb.
    destruct (find_val vflags f) as [[[[[fl var] kind] evar] econst]|] eqn:E; [|congruence].
    rewrite (IH Hrest). f_equal. f_equal. apply parsed_eq; cbn; rewrite ?E.
    + destruct (String.eqb evar ""); cbn; rewrite <- ?app_assoc; reflexivity.
    + destruct (String.eqb evar ""); cbn; rewrite ?app_nil_r; reflexivity.
  - cbn [Cli.parse_loop]. rewrite Hg. rewrite (IH Hrest). f_equal. f_equal. apply parsed_eq; cbn; rewrite ?app_nil_r; reflexivity.
Qed.

Lemma fold_apply_assign gs acc :
  p_assign (fold_left apply_group gs acc) = (p_assign acc ++ flat_map assigned gs)%list /\
  p_files (fold_left apply_group gs acc) = (p_files acc ++ flat_map file_of gs)%list.
Proof.
  revert acc. induction gs as [|g gs IH]; intros acc; cbn [fold_left flat_map]; [rewrite !app_nil_r; split; reflexivity|].
  destruct (IH (apply_group acc g)) as [H1 H2]. rewrite H1, H2. cbn. rewrite <- !app_assoc. split; reflexivity.
Qed.

(* association lists with distinct keys: lookup does not depend on the order *)
Definition find_key (k : string) (l : list (string * string)) : option string :=
  match find (fun a => String.eqb k (fst a)) l with Some a => Some (snd a) | None => None end.

Lemma find_key_In k v l : NoDup (map fst l) -> In (k, v) l -> find_key k l = Some v.
Proof.
  unfold find_key. induction l as [|[k' v'] l IH]; intros Hn Hin; [destruct Hin|]. cbn [find fst].
  inversion Hn as [|? ? Hnot Hn']; subst. destruct Hin as [E | Hin].
  - inversion E; subst. rewrite String.eqb_refl. reflexivity.
  - destruct (String.eqb k k') eqn:Ek.
    + apply String.eqb_eq in Ek. subst. exfalso. apply Hnot. apply (in_map fst) in Hin. exact Hin.
    + apply IH; assumption.
Qed.
Lemma find_key_None k l : (forall v, ~ In (k, v) l) -> find_key k l = None.
Proof.
  unfold find_key. induction l as [|[k' v'] l IH]; intros H; [reflexivity|]. cbn [find fst].
  destruct (String.eqb k k') eqn:Ek.
  - apply String.eqb_eq in Ek. subst. exfalso. apply (H v'). left. reflexivity.
  - apply IH. intros v Hv. apply (H v). right. exact Hv.
Qed.
Lemma find_key_perm k l l' : NoDup (map fst l) -> Permutation l l' -> find_key k l = find_key k l'.
Proof.
  intros Hn Hp.
  assert (Hn' : NoDup (map fst l')) by (eapply Permutation_NoDup; [apply Permutation_map; exact Hp | exact Hn]).
  destruct (find_key k l) as [v|] eqn:E.
  - symmetry. apply find_key_In; [exact Hn'|]. eapply Permutation_in; [exact Hp|].
    unfold find_key in E. destruct (find (fun a => String.eqb k (fst a)) l) as [[k' v']|] eqn:F; [|discriminate].
    injection E as <-. apply find_some in F. destruct F as [Hin Hk]. cbn in Hk. apply String.eqb_eq in Hk. subst. exact Hin.
  - symmetry. apply find_key_None. intros v Hv.
    assert (Hin : In (k, v) l) by (eapply Permutation_in; [apply Permutation_sym; exact Hp | exact Hv]).
    rewrite (find_key_In k v l Hn Hin) in E. discriminate.
Qed.

Lemma lookup_is_find_key var p : NoDup (map fst (p_assign p)) -> lookup var p = find_key var (p_assign p).
Proof.
  intros Hn. unfold lookup, find_key. fold (find_key var (rev (p_assign p))). fold (find_key var (p_assign p)).
  symmetry. apply find_key_perm; [exact Hn | apply Permutation_rev].
Qed.

(* ORDER INDEPENDENCE: permuting the option groups and files of a well-formed command line whose
   options set distinct variables changes no variable; files keep their relative order *)
Theorem order_independent gs gs' : Forall wf gs -> Permutation gs gs' ->
  NoDup (map fst (flat_map assigned gs)) ->
  flat_map file_of gs = flat_map file_of gs' ->
  exists p p', parse_loop (flat_map tokens gs) {| p_assign := []; p_files := [] |} = OK p /\
               parse_loop (flat_map tokens gs') {| p_assign := []; p_files := [] |} = OK p' /\
               (forall var, lookup var p = lookup var p') /\ p_files p = p_files p'.
Proof.
  intros Hwf Hp Hn Hf.
  assert (Hwf' : Forall wf gs') by (rewrite Forall_forall in *; intros g Hg; apply Hwf; eapply Permutation_in; [apply Permutation_sym; exact Hp | exact Hg]).
  exists (fold_left apply_group gs {| p_assign := []; p_files := [] |}), (fold_left apply_group gs' {| p_assign := []; p_files := [] |}).
  split; [apply parse_loop_groups; exact Hwf|]. split; [apply parse_loop_groups; exact Hwf'|].
  destruct (fold_apply_assign gs {| p_assign := []; p_files := [] |}) as [A1 F1].
  destruct (fold_apply_assign gs' {| p_assign := []; p_files := [] |}) as [A2 F2]. cbn [p_assign p_files app] in *.
  assert (PP : Permutation (flat_map assigned gs) (flat_map assigned gs')) by (apply Permutation_flat_map; exact Hp).
  assert (Hn' : NoDup (map fst (flat_map assigned gs'))) by (eapply Permutation_NoDup; [apply Permutation_map; exact PP | exact Hn]).
  split.
  - intros var. rewrite !lookup_is_find_key by (rewrite ?A1, ?A2; assumption). rewrite A1, A2. apply find_key_perm; assumption.
  - rewrite F1, F2. exact Hf.
Qed.

(* REJECTIONS *)
Theorem unknown_flag_rejected a v rest acc : starts_dash a = true -> find_bool bflags a = None ->
  find_val vflags a = None -> a <> "--config" -> parse_loop (a :: v :: rest) acc = Error 12%nat.
Proof.
  intros Hd Hb Hv Hc. cbn [Cli.parse_loop]. rewrite Hd, Hb, Hv.
  destruct (String.eqb a "--config") eqn:E; [apply String.eqb_eq in E; contradiction | reflexivity].
Qed.
Theorem flag_without_value_rejected a acc : starts_dash a = true -> find_bool bflags a = None ->
  parse_loop [a] acc = Error 11%nat.
Proof. intros Hd Hb. cbn [Cli.parse_loop]. rewrite Hd, Hb. reflexivity. Qed.
End L.

(* --config: the file's tokens are appended to the command line *)
Theorem config_is_appended read pre f post toks :
  ~ In "--config" pre -> ~ In "--config" post -> read f = Some toks ->
  config_tokens read (pre ++ "--config" :: f :: post)%list = OK toks.
Proof.
  intros Hpre Hpost Hr. induction pre as [|a pre IH]; cbn [app config_tokens].
  - rewrite String.eqb_refl, Hr.
    assert (E : config_tokens read post = OK []).
    { clear -Hpost. induction post as [|b post IHp]; [reflexivity|]. cbn [config_tokens].
      destruct (String.eqb b "--config") eqn:Eb; [apply String.eqb_eq in Eb; subst; exfalso; apply Hpost; left; reflexivity|].
      apply IHp. intro K. apply Hpost. right. exact K. }
    rewrite E, app_nil_r. reflexivity.
  - destruct (String.eqb a "--config") eqn:Ea; [apply String.eqb_eq in Ea; subst; exfalso; apply Hpre; left; reflexivity|].
    apply IH. intro K. apply Hpre. right. exact K.
Qed.

(* several --config options, wherever they stand and also directly after one another: the tokens of ALL the
   files are appended, in the order of the options *)
Lemma config_tokens_app read pre f rest toks :
  ~ In "--config" pre -> read f = Some toks ->
  config_tokens read (pre ++ "--config" :: f :: rest)%list =
  match config_tokens read rest with OK t => OK (toks ++ t)%list | Error e => Error e end.
Proof.
  intros Hpre Hr. induction pre as [|a pre IH]; cbn [app config_tokens].
  - rewrite String.eqb_refl, Hr. reflexivity.
  - destruct (String.eqb a "--config") eqn:Ea; [apply String.eqb_eq in Ea; subst; exfalso; apply Hpre; left; reflexivity|].
    apply IH. intro K. apply Hpre. right. exact K.
Qed.

Theorem two_configs_back_to_back read pre f1 f2 post t1 t2 :
  ~ In "--config" pre -> ~ In "--config" post -> read f1 = Some t1 -> read f2 = Some t2 ->
  config_tokens read (pre ++ "--config" :: f1 :: "--config" :: f2 :: post)%list = OK (t1 ++ t2)%list.
Proof.
  intros Hpre Hpost H1 H2. rewrite (config_tokens_app read pre f1 _ t1 Hpre H1).
  pose proof (config_tokens_app read [] f2 post t2 (fun K => K) H2) as E2. cbn [app] in E2. rewrite E2.
  assert (E : config_tokens read post = OK []).
  { clear -Hpost. induction post as [|b post IHp]; [reflexivity|]. cbn [config_tokens].
    destruct (String.eqb b "--config") eqn:Eb; [apply String.eqb_eq in Eb; subst; exfalso; apply Hpost; left; reflexivity|].
    apply IHp. intro K. apply Hpost. right. exact K. }
  rewrite E, app_nil_r. reflexivity.
Qed.

Theorem config_without_filename_rejected read pre : ~ In "--config" pre ->
  config_tokens read (pre ++ ["--config"])%list = Error 13%nat.
Proof.
  intros Hpre. induction pre as [|a pre IH]; cbn [app config_tokens]; [reflexivity|].
  destruct (String.eqb a "--config") eqn:Ea; [apply String.eqb_eq in Ea; subst; exfalso; apply Hpre; left; reflexivity|].
  rewrite IH; [reflexivity | intro K; apply Hpre; right; exact K].
Qed.

(* range options need exactly two values *)
Theorem range_needs_two_values l : List.length l <> 2%nat -> range2 (Some l) = Error 15%nat.
Proof. intros H. destruct l as [|a [|b [|c l]]]; cbn in *; try reflexivity; congruence. Qed.

(* ---- vector syntax: a:s:b includes the end point when it is hit --------------------------- *)
Local Open Scope Q_scope.
Lemma qceil_spec q : (inject_Z (qceil q) - 1 < q /\ q <= inject_Z (qceil q))%Q.
Proof.
  unfold qceil. destruct q as [n d]. cbn [Qnum Qden].
  pose proof (Z.div_mod (- n) (Zpos d) ltac:(lia)) as H. pose proof (Z.mod_pos_bound (- n) (Zpos d) ltac:(lia)) as Hb.
  unfold Qlt, Qle, Qminus, Qplus, Qopp, inject_Z. cbn. split; nia.
Qed.

Lemma arange_length_hit a s (k : nat) : (1 # 10000 < s)%Q ->
  List.length (arange a (a + inject_Z (Z.of_nat k) * s + (1 # 10000)) s) = S k.
Proof.
  intros Hs. unfold arange.
  set (x := ((a + inject_Z (Z.of_nat k) * s + (1 # 10000) - a) / s)%Q).
  assert (Hspos : (0 < s)%Q) by (eapply Qlt_trans; [|exact Hs]; reflexivity).
  assert (Ex : (x == inject_Z (Z.of_nat k) + (1 # 10000) / s)%Q) by (unfold x; field; intro K; rewrite K in Hspos; discriminate).
  assert (H01 : (0 < (1 # 10000) / s /\ (1 # 10000) / s < 1)%Q).
  { split.
    - apply Qlt_shift_div_l; [exact Hspos|]. rewrite Qmult_0_l. reflexivity.
    - apply Qlt_shift_div_r; [exact Hspos|]. rewrite Qmult_1_l. exact Hs. }
  pose proof (qceil_spec x) as [C1 C2].
  assert (Hc : qceil x = (Z.of_nat k + 1)%Z).
  { destruct H01 as [H0 H1]. remember ((1 # 10000) / s)%Q as e eqn:He. clearbody x.
    assert (A : (inject_Z (Z.of_nat k) < inject_Z (qceil x))%Q) by lra.
    assert (B : (inject_Z (qceil x) < inject_Z (Z.of_nat k) + 2)%Q) by lra.
    rewrite <- Zlt_Qlt in A. change 2%Q with (inject_Z 2) in B. rewrite <- inject_Z_plus, <- Zlt_Qlt in B. lia. }
  rewrite Hc. destruct (Z.of_nat k + 1 <=? 0)%Z eqn:E; [apply Z.leb_le in E; lia|].
  rewrite map_length, seq_length. lia.
Qed.

(* the last element of a:s:b is b itself when b = a + k s *)
Theorem range_includes_end_point a s (k : nat) : (1 # 10000 < s)%Q ->
  exists l, arange a (a + inject_Z (Z.of_nat k) * s + (1 # 10000)) s = l /\ List.length l = S k /\
            (nth k l 0 == a + inject_Z (Z.of_nat k) * s)%Q.
Proof.
  intros Hs. eexists. split; [reflexivity|]. split; [apply arange_length_hit; exact Hs|].
  pose proof (arange_length_hit a s k Hs) as HL. unfold arange in *.
  destruct (qceil ((a + inject_Z (Z.of_nat k) * s + (1 # 10000) - a) / s) <=? 0)%Z; [cbn in HL; lia|].
  rewrite map_length, seq_length in HL.
  rewrite (nth_indep _ 0 ((fun i => a + inject_Z (Z.of_nat i) * s) O)) by (rewrite map_length, seq_length; lia).
  rewrite (map_nth (fun i => (a + inject_Z (Z.of_nat i) * s)%Q)). rewrite seq_nth by lia. reflexivity.
Qed.

(* --list-dates prints the calendar date and the clock time of each verified unix time *)
Ltac Zify.zify_post_hook ::= Z.to_euclidean_division_equations.
Lemma date_clock_spec (t : Z) : let '(dt, hh, mm, ss) := date_clock t in
  (dt = unixtime_to_date t /\ 0 <= hh < 24 /\ 0 <= mm < 60 /\ 0 <= ss < 60 /\ t = day_start t + hh * 3600 + mm * 60 + ss)%Z.
Proof.
  unfold date_clock, day_start, day_of. cbv zeta.
  split; [reflexivity|]. lia.
Qed.
