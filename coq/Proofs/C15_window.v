(* Proofs/C15_window.v -- the trailing window of -T: for a strictly increasing grid the positions
   aggregated at t are exactly those with grid[t] - h < grid[i] <= grid[t]. Axiom-free. *)
From Coq Require Import ZArith List Bool Lia Sorted.
From VF Require Import Model.Window.
Import ListNotations.
Local Open Scope Z_scope.

Fixpoint increasing (l : list Z) : Prop :=
  match l with
  | a :: ((b :: _) as r) => a < b /\ increasing r
  | _ => True
  end.

Lemma increasing_nth l : increasing l -> forall i j, (i < j)%nat -> (j < length l)%nat -> nth i l 0 < nth j l 0.
Proof.
  induction l as [|a l IH]; intros H i j Hij Hj; [cbn in Hj; lia|].
  destruct l as [|b l]; [cbn in Hj; lia|]. destruct H as [Hab Hr].
  destruct j as [|j]; [lia|]. destruct i as [|i].
  - cbn [nth]. destruct j as [|j]; [exact Hab|].
    assert (nth 0 (b :: l) 0 < nth (S j) (b :: l) 0) by (apply IH; [exact Hr | lia | cbn in *; lia]).
    cbn [nth] in *. lia.
  - change (nth i (b :: l) 0 < nth j (b :: l) 0). apply IH; [exact Hr | lia | cbn in *; lia].
Qed.

Lemma first_above_spec start grid i0 k :
  first_above start grid k = Some i0 ->
  (k <= i0 < k + length grid)%nat /\ start < nth (i0 - k) grid 0 /\
  forall j, (j < i0 - k)%nat -> nth j grid 0 <= start.
Proof.
  revert k. induction grid as [|g r IH]; intros k H; [discriminate|]. cbn [first_above] in H.
  destruct (start <? g) eqn:E.
  - injection H as <-. rewrite Nat.sub_diag. apply Z.ltb_lt in E. cbn [nth length]. split; [lia|]. split; [exact E|]. intros j Hj; lia.
  - apply Z.ltb_ge in E. destruct (IH (S k) H) as [Hr [Hv Hm]]. cbn [length].
    replace (i0 - k)%nat with (S (i0 - S k)) by lia. cbn [nth]. split; [lia|]. split; [exact Hv|].
    intros [|j] Hj; [exact E | apply Hm; lia].
Qed.

Lemma first_above_exists start grid k t : (t < length grid)%nat -> start < nth t grid 0 ->
  exists i0, first_above start grid k = Some i0 /\ (i0 <= k + t)%nat.
Proof.
  revert k t. induction grid as [|g r IH]; intros k t Ht Hv; [cbn in Ht; lia|]. cbn [first_above].
  destruct (start <? g) eqn:E; [exists k; split; [reflexivity | lia]|].
  destruct t as [|t]; [cbn in Hv; apply Z.ltb_ge in E; lia|].
  destruct (IH (S k) t) as [i0 [H1 H2]]; [cbn in Ht; lia | exact Hv|]. exists i0. split; [exact H1 | lia].
Qed.

(* the positions aggregated for position t: the trailing window (grid[t] - h, grid[t]] *)
Theorem window_is_trailing grid h t i : increasing grid -> 0 < h -> (t < length grid)%nat ->
  (In i (window grid h t) <-> (i < length grid)%nat /\ nth t grid 0 - h < nth i grid 0 <= nth t grid 0).
Proof.
  intros Hinc Hh Ht. unfold window.
  destruct (first_above_exists (nth t grid 0 - h) grid O t Ht ltac:(lia)) as [i0 [E Hle]]. rewrite E.
  destruct (first_above_spec _ _ _ _ E) as [Hr [Hv Hm]]. rewrite Nat.sub_0_r in *. cbn [Nat.add] in Hle.
  rewrite in_seq. split.
  - intros [H1 H2]. assert (Hit : (i <= t)%nat) by lia. split; [lia|]. split.
    + destruct (Nat.eq_dec i i0) as [-> | Hne]; [exact Hv|].
      assert (nth i0 grid 0 < nth i grid 0) by (apply increasing_nth; [exact Hinc | lia | lia]). lia.
    + destruct (Nat.eq_dec i t) as [-> | Hne]; [lia|].
      assert (nth i grid 0 < nth t grid 0) by (apply increasing_nth; [exact Hinc | lia | lia]). lia.
  - intros [Hi [Hlo Hhi]].
    assert (Hit : (i <= t)%nat).
    { destruct (Nat.le_gt_cases i t) as [K|K]; [exact K|].
      assert (nth t grid 0 < nth i grid 0) by (apply increasing_nth; [exact Hinc | lia | lia]). lia. }
    assert (Hi0 : (i0 <= i)%nat).
    { destruct (Nat.le_gt_cases i0 i) as [K|K]; [exact K|]. specialize (Hm i K). lia. }
    lia.
Qed.

(* the window always contains t itself and never reaches beyond t *)
Theorem window_contains_self grid h t : increasing grid -> 0 < h -> (t < length grid)%nat -> In t (window grid h t).
Proof. intros Hi Hh Ht. apply window_is_trailing; try assumption. split; [exact Ht | lia]. Qed.

(* obs, fcst and every ensemble member are transformed by the SAME function of the series *)
Theorem same_transformation (V : Type) (agg : list (option V) -> option V) grid h (s1 s2 : list (option V)) :
  s1 = s2 -> preagg_series V agg grid h s1 = preagg_series V agg grid h s2.
Proof. intros ->. reflexivity. Qed.

(* a window length at least the span of the series aggregates everything up to t *)
Theorem long_window_takes_all_before grid h t i : increasing grid -> (t < length grid)%nat ->
  nth t grid 0 - nth 0 grid 0 < h -> (i <= t)%nat -> In i (window grid h t).
Proof.
  intros Hinc Ht Hspan Hit.
  assert (Hh : 0 < h).
  { destruct t as [|t']; [lia|]. assert (nth 0 grid 0 < nth (S t') grid 0) by (apply increasing_nth; [exact Hinc | lia | lia]). lia. }
  apply window_is_trailing; try assumption. split; [lia|]. split.
  - destruct i as [|i']; [lia|].
    assert (nth 0 grid 0 < nth (S i') grid 0) by (apply increasing_nth; [exact Hinc | lia | lia]). lia.
  - destruct (Nat.eq_dec i t) as [-> | Hne]; [lia|].
    assert (nth i grid 0 < nth t grid 0) by (apply increasing_nth; [exact Hinc | lia | lia]). lia.
Qed.

(* REFUTED for grids that are not increasing (lead times of a NetCDF file keep file order):
   the positions aggregated are then not the trailing window *)
Theorem window_refuted_for_unsorted_grid :
  let grid := [6; 0; 3] in   (* lead times 6, 0, 3 in file order *)
  window grid 4 2 = [0%nat; 1%nat; 2%nat] /\       (* position 2 (lead 3) aggregates leads 6, 0, 3 *)
  ~ (nth 2 grid 0 - 4 < nth 0 grid 0 <= nth 2 grid 0).   (* but lead 6 is not in (3-4, 3] *)
Proof. cbn. split; [reflexivity | lia]. Qed.
