(* Proofs/C11_conv.v -- date / unix time / day number conversions are mutually inverse (1900-2100). *)
From Coq Require Import ZArith List Bool Lia.
From VF Require Import Model.Cal Proofs.C11_proofs.
Import ListNotations.
Local Open Scope Z_scope.

(* conversions are mutually inverse for every calendar day in range *)
Lemma days_in_month_le y m : days_in_month y m <= 31.
Proof.
  unfold days_in_month. destruct (m =? 2); [destruct (is_leap y); lia|].
  destruct ((m =? 4) || (m =? 6) || (m =? 9) || (m =? 11)); lia.
Qed.

(* a YYYYMMDD integer splits back into its parts *)
Lemma split_date y m d : 1 <= m <= 12 -> 1 <= d <= 31 ->
  (y * 10000 + m * 100 + d) / 10000 = y /\
  ((y * 10000 + m * 100 + d) / 100) mod 100 = m /\
  (y * 10000 + m * 100 + d) mod 100 = d.
Proof.
  intros Hm Hd. split; [|split].
  - symmetry. apply Z.div_unique with (m * 100 + d); lia.
  - replace ((y * 10000 + m * 100 + d) / 100) with (y * 100 + m) by (apply Z.div_unique with d; lia).
    symmetry. apply Z.mod_unique with y; lia.
  - symmetry. apply Z.mod_unique with (y * 100 + m); lia.
Qed.

Lemma day_ok_facts z : day_lo <= z <= day_hi ->
  let '(y, m, d) := civil_from_days z in
  1 <= m <= 12 /\ 1 <= d <= 31 /\ days_from_civil y m d = z /\
  days_from_civil y m 1 = z - d + 1 /\ days_from_civil y 1 1 <= z < days_from_civil (y + 1) 1 1 /\
  date_to_daynum (daynum_to_date z) = z.
Proof.
  intros R. pose proof (civil_roundtrip z R) as K. unfold day_ok in K.
  destruct (civil_from_days z) as [[y m] d].
  apply andb_true_iff in K; destruct K as [K K9]. apply andb_true_iff in K; destruct K as [K K8].
  apply andb_true_iff in K; destruct K as [K K7]. apply andb_true_iff in K; destruct K as [K K6].
  apply andb_true_iff in K; destruct K as [K K5]. apply andb_true_iff in K; destruct K as [K K4].
  apply andb_true_iff in K; destruct K as [K K3]. apply andb_true_iff in K; destruct K as [K K2].
  unfold valid_date in K.
  apply andb_true_iff in K; destruct K as [K V4]. apply andb_true_iff in K; destruct K as [K V3].
  apply andb_true_iff in K; destruct K as [V1 V2].
  apply Z.leb_le in V1, V2, V3, V4, K4. apply Z.eqb_eq in K2, K3, K9. apply Z.ltb_lt in K5.
  pose proof (days_in_month_le y m). repeat split; lia.
Qed.

Theorem date_unixtime_roundtrip t : day_lo * 86400 <= t < (day_hi + 1) * 86400 ->
  date_to_unixtime (unixtime_to_date t) = day_start t.
Proof.
  intros H. unfold date_to_unixtime, unixtime_to_date, day_start.
  assert (R : day_lo <= day_of t <= day_hi).
  { unfold day_of. unfold day_lo, day_hi in *. split.
    - apply Z.div_le_lower_bound; lia.
    - apply Z.lt_succ_r. apply Z.div_lt_upper_bound; lia. }
  pose proof (day_ok_facts (day_of t) R) as K.
  destruct (civil_from_days (day_of t)) as [[y m] d].
  destruct K as (Hm & Hd & K1 & _).
  destruct (split_date y m d Hm Hd) as (E1 & E2 & E3). rewrite E1, E2, E3, K1. reflexivity.
Qed.

(* the plotting date number of a date is its day number; converting back gives the date *)
Theorem daynum_roundtrip z : day_lo <= z <= day_hi -> date_to_daynum (daynum_to_date z) = z.
Proof.
  intros R. pose proof (day_ok_facts z R) as K. destruct (civil_from_days z) as [[y m] d]. tauto.
Qed.

(* month and year buckets: the start is the first of the month / of January at 00:00, not after t,
   and t is before the next year's start *)
Theorem month_start_spec t : day_lo * 86400 <= t < (day_hi + 1) * 86400 ->
  month_start t <= t /\ month_start t mod 86400 = 0 /\
  month_start t = (day_of t - dom_of t + 1) * 86400 /\ 1 <= dom_of t <= 31.
Proof.
  intros H.
  assert (R : day_lo <= day_of t <= day_hi).
  { unfold day_of. unfold day_lo, day_hi in *. split.
    - apply Z.div_le_lower_bound; lia.
    - apply Z.lt_succ_r. apply Z.div_lt_upper_bound; lia. }
  pose proof (day_ok_facts (day_of t) R) as K.
  unfold month_start, year_of, month_of, dom_of.
  destruct (civil_from_days (day_of t)) as [[y m] d].
  destruct K as (Hm & Hd & K1 & K2 & _). rewrite K2.
  pose proof (proj1 (day_start_spec t)) as D. unfold day_start in D.
  split; [lia|]. split; [apply Z_mod_mult|]. split; [reflexivity | lia].
Qed.

Theorem year_start_spec t : day_lo * 86400 <= t < (day_hi + 1) * 86400 ->
  year_start t <= t < days_from_civil (year_of t + 1) 1 1 * 86400 /\ year_start t mod 86400 = 0.
Proof.
  intros H.
  assert (R : day_lo <= day_of t <= day_hi).
  { unfold day_of. unfold day_lo, day_hi in *. split.
    - apply Z.div_le_lower_bound; lia.
    - apply Z.lt_succ_r. apply Z.div_lt_upper_bound; lia. }
  pose proof (day_ok_facts (day_of t) R) as K.
  unfold year_start, year_of.
  destruct (civil_from_days (day_of t)) as [[y m] d].
  destruct K as (_ & _ & _ & _ & K5 & _).
  pose proof (day_start_spec t) as D. unfold day_start in D.
  split; [lia | apply Z_mod_mult].
Qed.
