(* Proofs/C20_proofs.v -- properties of the helper-script models (Model/Scripts.v). *)
From Coq Require Import ZArith QArith Qround List Bool Lia Lra Lqa.
From VF Require Import Model.Scripts.
Import ListNotations.
Local Open Scope Q_scope.

(* ---------- accumulate --------------------------------------------------------------------- *)
Fixpoint all_present (l : list (option Q)) : bool :=
  match l with [] => true | Some _ :: r => all_present r | None :: _ => false end.
Fixpoint qsum (l : list (option Q)) : Q :=
  match l with [] => 0 | Some v :: r => v + qsum r | None :: r => qsum r end.

Lemma osum_from_none l :
  fold_left (fun acc x => match acc, x with Some a, Some b => Some (a + b) | _, _ => None end) l None = None.
Proof. induction l as [|x l IH]; cbn; auto. Qed.

Lemma osum_from l : forall a,
  match fold_left (fun acc x => match acc, x with Some a, Some b => Some (a + b) | _, _ => None end) l (Some a) with
  | Some v => all_present l = true /\ v == a + qsum l
  | None => all_present l = false
  end.
Proof.
  induction l as [|x l IH]; intros a; cbn.
  - split; [reflexivity | lra].
  - destruct x as [b|].
    + specialize (IH (a + b)).
      destruct (fold_left _ l (Some (a + b))) as [v|]; [|exact IH].
      destruct IH as [Hp Hv]. split; [exact Hp | rewrite Hv; lra].
    + rewrite osum_from_none. reflexivity.
Qed.

(* a window sum is present iff every value in the window is, and then it is their sum *)
Lemma osum_spec l :
  match osum l with
  | Some v => all_present l = true /\ v == qsum l
  | None => all_present l = false
  end.
Proof.
  unfold osum. pose proof (osum_from l 0) as H.
  destruct (fold_left _ l (Some 0)) as [v|]; [|exact H].
  destruct H as [Hp Hv]. split; [exact Hp | rewrite Hv; lra].
Qed.

Lemma acc_window_length w ig s : length (acc_window w ig s) = length s.
Proof. unfold acc_window. rewrite map_length, seq_length. reflexivity. Qed.
Lemma acc_cumulative_length ig s : length (acc_cumulative ig s) = length s.
Proof. unfold acc_cumulative. rewrite map_length, seq_length. reflexivity. Qed.

Lemma zero_missing_length s : length (zero_missing s) = length s.
Proof. unfold zero_missing. apply map_length. Qed.

Lemma nth_map_seq {A} (f : nat -> A) n i d : (i < n)%nat -> nth i (map f (seq 0 n)) d = f i.
Proof.
  intros Hi. rewrite nth_indep with (d' := f 0%nat) by (rewrite map_length, seq_length; exact Hi).
  rewrite map_nth. rewrite seq_nth by exact Hi. reflexivity.
Qed.

(* position i of the windowed output: missing while the window is incomplete, else the sum of the
   w values ending at i (of the series with missing values zeroed when -i is given) *)
Lemma acc_window_nth w ig s i : (i < length s)%nat ->
  nth i (acc_window w ig s) None =
    if Nat.ltb i (w - 1) then None
    else osum (take w (drop (i + 1 - w) (if ig then zero_missing s else s))).
Proof. intros Hi. unfold acc_window. rewrite nth_map_seq by exact Hi. reflexivity. Qed.

Lemma take_length {A} n (l : list A) : length (take n l) = Nat.min n (length l).
Proof. revert l; induction n as [|n IH]; intros [|x l]; cbn; auto. Qed.
Lemma drop_length {A} n (l : list A) : length (drop n l) = (length l - n)%nat.
Proof. revert l; induction n as [|n IH]; intros [|x l]; cbn; auto. Qed.
Lemma nth_drop {A} n (l : list A) j d : nth j (drop n l) d = nth (n + j) l d.
Proof. revert l; induction n as [|n IH]; intros [|x l]; cbn; auto. destruct j; reflexivity. Qed.
Lemma nth_take {A} n (l : list A) j d : (j < n)%nat -> nth j (take n l) d = nth j l d.
Proof.
  revert l j; induction n as [|n IH]; intros [|x l] j Hj; cbn; try lia; auto.
  destruct j; [reflexivity | apply IH; lia].
Qed.

(* a complete window really holds w values: exactly positions i-w+1 .. i *)
Lemma window_exact w (s : list (option Q)) i : (1 <= w)%nat -> (w - 1 <= i)%nat -> (i < length s)%nat ->
  length (take w (drop (i + 1 - w) s)) = w /\
  forall j, (j < w)%nat -> nth j (take w (drop (i + 1 - w) s)) None = nth (i + 1 - w + j) s None.
Proof.
  intros Hw Hi Hl. split.
  - rewrite take_length, drop_length. lia.
  - intros j Hj. rewrite nth_take by exact Hj. apply nth_drop.
Qed.

Lemma acc_cumulative_nth ig s i : (i < length s)%nat ->
  nth i (acc_cumulative ig s) None = osum (take (S i) (if ig then zero_missing s else s)).
Proof. intros Hi. unfold acc_cumulative. rewrite nth_map_seq by exact Hi. reflexivity. Qed.

Lemma all_present_zero_missing s : all_present (zero_missing s) = true.
Proof. induction s as [|[v|] s IH]; cbn; auto. Qed.
Lemma all_present_take n s : all_present s = true -> all_present (take n s) = true.
Proof. revert s; induction n as [|n IH]; intros [|[v|] s] H; cbn in *; auto. Qed.
Lemma all_present_drop n s : all_present s = true -> all_present (drop n s) = true.
Proof. revert s; induction n as [|n IH]; intros [|[v|] s] H; cbn in *; auto. discriminate. Qed.

(* with -i no complete window is ever missing *)
Lemma acc_window_ignore_present w s i : (i < length s)%nat -> (w - 1 <= i)%nat ->
  nth i (acc_window w true s) None <> None.
Proof.
  intros Hi Hw. rewrite acc_window_nth by exact Hi.
  destruct (Nat.ltb_spec i (w - 1)) as [Hlt|Hge]; [lia|].
  pose proof (osum_spec (take w (drop (i + 1 - w) (zero_missing s)))) as Hs.
  destruct (osum _); [discriminate|].
  rewrite all_present_take in Hs; [discriminate|].
  apply all_present_drop, all_present_zero_missing.
Qed.

(* ---------- ens2prob: cumulative probabilities ------------------------------------------------ *)
Lemma qltb_trans m t t' : t <= t' -> qltb m t = true -> qltb m t' = true.
Proof.
  unfold qltb. intros Ht H. apply negb_true_iff in H. apply negb_true_iff.
  destruct (Qle_bool t' m) eqn:E; [|reflexivity].
  apply Qle_bool_iff in E. assert (Qle_bool t m = true) by (apply Qle_bool_iff; lra). congruence.
Qed.

Lemma count_below_mono t t' l : t <= t' -> (count_below t l <= count_below t' l)%nat.
Proof.
  intros Ht. unfold count_below. induction l as [|m l IH]; cbn; [lia|].
  destruct (qltb m t) eqn:E.
  - rewrite (qltb_trans _ _ _ Ht E). cbn. lia.
  - destruct (qltb m t'); cbn; lia.
Qed.
Lemma count_below_le t l : (count_below t l <= length l)%nat.
Proof. unfold count_below. induction l as [|m l IH]; cbn; [lia|]. destruct (qltb m t); cbn; lia. Qed.

Lemma frac_le (a b n : nat) : (a <= b)%nat -> (0 < n)%nat ->
  inject_Z (Z.of_nat a) / inject_Z (Z.of_nat n) <= inject_Z (Z.of_nat b) / inject_Z (Z.of_nat n).
Proof.
  intros Hab Hn. apply Qmult_le_compat_r.
  - rewrite <- Zle_Qle. lia.
  - apply Qinv_le_0_compat. change 0 with (inject_Z 0). rewrite <- Zle_Qle. lia.
Qed.
Lemma frac_unit (a n : nat) : (a <= n)%nat -> (0 < n)%nat ->
  0 <= inject_Z (Z.of_nat a) / inject_Z (Z.of_nat n) <= 1.
Proof.
  intros Ha Hn.
  assert (Hp : 0 < inject_Z (Z.of_nat n)) by (change 0 with (inject_Z 0); rewrite <- Zlt_Qlt; lia).
  split.
  - apply Qle_shift_div_l; [exact Hp|]. rewrite Qmult_0_l. change 0 with (inject_Z 0). rewrite <- Zle_Qle. lia.
  - apply Qle_shift_div_r; [exact Hp|]. rewrite Qmult_1_l. rewrite <- Zle_Qle. lia.
Qed.

Lemma cdf_bounds t members p : ens_cdf t members = Some p -> 0 <= p <= 1.
Proof.
  unfold ens_cdf. destruct (present members) as [|x l] eqn:E; [discriminate|].
  intros H; injection H as <-.
  apply (frac_unit (count_below t (x :: l)) (length (x :: l))); [apply count_below_le | cbn; lia].
Qed.

Lemma cdf_monotone t t' members p p' : t <= t' ->
  ens_cdf t members = Some p -> ens_cdf t' members = Some p' -> p <= p'.
Proof.
  unfold ens_cdf. intros Ht. destruct (present members) as [|x l] eqn:E; [discriminate|].
  intros H H'; injection H as <-; injection H' as <-.
  apply (frac_le (count_below t (x :: l)) (count_below t' (x :: l)) (length (x :: l)));
    [apply count_below_mono; exact Ht | cbn; lia].
Qed.

(* the cdf is defined exactly when at least one member is present *)
Lemma cdf_defined t members : ens_cdf t members = None <-> present members = [].
Proof. unfold ens_cdf. destruct (present members); split; intros H; congruence. Qed.

(* ---------- ens2prob: quantiles ----------------------------------------------------------------- *)
Fixpoint qsorted (l : list Q) : Prop :=
  match l with [] => True | x :: r => (forall y, In y r -> x <= y) /\ qsorted r end.

Lemma qinsert_in x l y : In y (qinsert x l) <-> y = x \/ In y l.
Proof.
  induction l as [|h t IH]; cbn; [intuition congruence|].
  destruct (Qle_bool x h); cbn; [intuition congruence|]. rewrite IH. tauto.
Qed.
Lemma qinsert_sorted x l : qsorted l -> qsorted (qinsert x l).
Proof.
  induction l as [|h t IH]; cbn; intros Hs; [split; [intros y []|exact I]|].
  destruct (Qle_bool x h) eqn:E.
  - apply Qle_bool_iff in E. cbn. split; [|exact Hs].
    intros y [->|Hy]; [exact E|]. destruct Hs as [Hh _]. specialize (Hh y Hy). lra.
  - assert (h <= x).
    { destruct (Qlt_le_dec h x) as [L|L]; [lra|]. apply Qle_bool_iff in L. congruence. }
    destruct Hs as [Hh Ht]. cbn. split; [|apply IH; exact Ht].
    intros y Hy. apply qinsert_in in Hy. destruct Hy as [->|Hy]; [assumption | apply Hh; exact Hy].
Qed.
Lemma qsort_in l y : In y (qsort l) <-> In y l.
Proof. induction l as [|x l IH]; cbn; [tauto|]. rewrite qinsert_in, IH. split; intros [H|H]; auto. Qed.
Lemma qsort_sorted l : qsorted (qsort l).
Proof. induction l as [|x l IH]; cbn; [exact I | apply qinsert_sorted; exact IH]. Qed.
Lemma qinsert_length x l : length (qinsert x l) = S (length l).
Proof. induction l as [|h t IH]; cbn; [reflexivity|]. destruct (Qle_bool x h); cbn [length]; rewrite ?IH; reflexivity. Qed.
Lemma qsort_length l : length (qsort l) = length l.
Proof. unfold qsort. induction l as [|x l IH]; cbn [fold_right length]; [reflexivity|]. rewrite qinsert_length, IH; reflexivity. Qed.

Lemma sorted_nth_mono l : qsorted l -> forall i j d, (i <= j)%nat -> (j < length l)%nat -> nth i l d <= nth j l d.
Proof.
  induction l as [|x l IH]; intros Hs i j d Hij Hj; cbn in Hj; [lia|].
  destruct Hs as [Hx Hs]. destruct i, j; cbn; try lia; try lra.
  - apply Hx. apply nth_In. lia.
  - apply IH; [exact Hs | lia | lia].
Qed.

Lemma last_nth (l : list Q) d : last l d = nth (length l - 1) l d.
Proof.
  induction l as [|x l IH]; [reflexivity|]. destruct l as [|y l]; [reflexivity|].
  change (last (x :: y :: l) d) with (last (y :: l) d). rewrite IH. cbn. rewrite Nat.sub_0_r. reflexivity.
Qed.

Definition q_index (q : Q) (m : nat) : nat :=
  if Qeq_bool q 1 then (m - 1)%nat else Z.to_nat (qfloor (q * inject_Z (Z.of_nat (m - 1)))).

Lemma quantile_as_nth q x l :
  ens_quantile q (x :: l) = Some (nth (q_index q (length (x :: l))) (qsort (x :: l)) x).
Proof.
  unfold ens_quantile, q_index. destruct (Qeq_bool q 1); [|reflexivity].
  rewrite last_nth, qsort_length. reflexivity.
Qed.

Lemma qfloor_floor q : qfloor q = Qfloor q.
Proof. destruct q; reflexivity. Qed.

Lemma q_index_bound q m : 0 <= q <= 1 -> (0 < m)%nat -> (q_index q m < m)%nat.
Proof.
  intros [H0 H1] Hm. unfold q_index. destruct (Qeq_bool q 1); [lia|].
  rewrite qfloor_floor.
  assert (Hle : q * inject_Z (Z.of_nat (m - 1)) <= inject_Z (Z.of_nat (m - 1))).
  { rewrite <- (Qmult_1_l (inject_Z (Z.of_nat (m - 1)))) at 2. apply Qmult_le_compat_r; [exact H1|].
    change 0 with (inject_Z 0). rewrite <- Zle_Qle. lia. }
  apply Qfloor_resp_le in Hle. rewrite Qfloor_Z in Hle.
  assert (0 <= Qfloor (q * inject_Z (Z.of_nat (m - 1))))%Z.
  { change 0%Z with (Qfloor 0). apply Qfloor_resp_le. apply Qmult_le_0_compat; [exact H0|].
    change 0 with (inject_Z 0). rewrite <- Zle_Qle. lia. }
  lia.
Qed.

Lemma q_index_mono q q' m : 0 <= q -> q <= q' -> q' <= 1 -> (0 < m)%nat -> (q_index q m <= q_index q' m)%nat.
Proof.
  intros H0 Hqq H1 Hm. unfold q_index.
  destruct (Qeq_bool q' 1) eqn:E'.
  - destruct (Qeq_bool q 1) eqn:E; [lia|].
    pose proof (q_index_bound q m (conj H0 (Qle_trans _ _ _ Hqq H1)) Hm) as B.
    unfold q_index in B. rewrite E in B. lia.
  - destruct (Qeq_bool q 1) eqn:E.
    + apply Qeq_bool_iff in E. assert (q' == 1) by lra. apply Qeq_bool_iff in H. congruence.
    + rewrite !qfloor_floor. apply Z2Nat.inj_le.
      * change 0%Z with (Qfloor 0). apply Qfloor_resp_le. apply Qmult_le_0_compat; [exact H0|].
        change 0 with (inject_Z 0). rewrite <- Zle_Qle. lia.
      * change 0%Z with (Qfloor 0). apply Qfloor_resp_le. apply Qmult_le_0_compat; [lra|].
        change 0 with (inject_Z 0). rewrite <- Zle_Qle. lia.
      * apply Qfloor_resp_le. apply Qmult_le_compat_r; [exact Hqq|].
        change 0 with (inject_Z 0). rewrite <- Zle_Qle. lia.
Qed.

(* every quantile is one of the members (hence within the ensemble range) *)
Lemma quantile_is_member q members v : 0 <= q <= 1 -> ens_quantile q members = Some v -> In v members.
Proof.
  intros Hq. destruct members as [|x l]; [discriminate|].
  rewrite quantile_as_nth. intros H; injection H as <-.
  apply qsort_in. apply nth_In. rewrite qsort_length. apply q_index_bound; [exact Hq | cbn; lia].
Qed.

Lemma quantile_in_range q members v lo hi : 0 <= q <= 1 ->
  (forall m, In m members -> lo <= m <= hi) -> ens_quantile q members = Some v -> lo <= v <= hi.
Proof. intros Hq Hr Hv. apply Hr. eapply quantile_is_member; eassumption. Qed.

Lemma quantile_monotone q q' members v v' : 0 <= q -> q <= q' -> q' <= 1 ->
  ens_quantile q members = Some v -> ens_quantile q' members = Some v' -> v <= v'.
Proof.
  intros H0 Hqq H1. destruct members as [|x l]; [discriminate|].
  rewrite !quantile_as_nth. intros H H'; injection H as <-; injection H' as <-.
  apply sorted_nth_mono; [exact (qsort_sorted (x :: l)) | apply q_index_mono; auto; cbn; lia |].
  change (qinsert x (qsort l)) with (qsort (x :: l)). rewrite qsort_length. apply q_index_bound; [split; lra | cbn; lia].
Qed.

(* level 0 is the minimum, level 1 the maximum *)
Lemma quantile_0_is_min members v : ens_quantile 0 members = Some v -> forall m, In m members -> v <= m.
Proof.
  destruct members as [|x l]; [discriminate|]. rewrite quantile_as_nth.
  intros H m Hm; injection H as <-.
  apply qsort_in in Hm. apply In_nth with (d := x) in Hm. destruct Hm as [j [Hj <-]].
  apply sorted_nth_mono; [exact (qsort_sorted (x :: l)) | | exact Hj].
  assert (E : q_index 0 (length (x :: l)) = 0%nat) by (unfold q_index, qfloor; reflexivity).
  cbn [length] in E |- *. rewrite E. lia.
Qed.

(* ---------- ens2prob: PIT ------------------------------------------------------------------------ *)
Lemma pit_missing_obs members : ens_pit None members = None.
Proof. reflexivity. Qed.
Lemma pit_fraction o x l :
  ens_pit (Some o) (x :: l) =
    Some (inject_Z (Z.of_nat (count_below o (x :: l))) / inject_Z (Z.of_nat (length (x :: l)))).
Proof. reflexivity. Qed.
Lemma pit_bounds obs members p : ens_pit obs members = Some p -> 0 <= p <= 1.
Proof.
  destruct obs as [o|]; [|discriminate]. destruct members as [|x l]; [discriminate|].
  rewrite pit_fraction. intros H; injection H as <-.
  apply (frac_unit (count_below o (x :: l)) (length (x :: l))); [apply count_below_le | cbn; lia].
Qed.

(* ---------- expandverif ----------------------------------------------------------------------------- *)
Lemma find_index_none p l i : find_index p l i = None <-> forall x, In x l -> p x = false.
Proof.
  revert i; induction l as [|y l IH]; intros i; cbn.
  - split; [intros _ x [] | reflexivity].
  - destruct (p y) eqn:E.
    + split; [discriminate|]. intros H. specialize (H y (or_introl eq_refl)). congruence.
    + rewrite IH. split.
      * intros H x [<-|Hx]; [exact E | apply H; exact Hx].
      * intros H x Hx. apply H. right; exact Hx.
Qed.

Lemma find_index_some p l : forall i j, find_index p l i = Some j ->
  (i <= j)%nat /\ (j - i < length l)%nat /\ p (nth (j - i) l 0%Z) = true /\
  forall k, (k < j - i)%nat -> p (nth k l 0%Z) = false.
Proof.
  induction l as [|y l IH]; intros i j; cbn; [discriminate|].
  destruct (p y) eqn:E.
  - intros H; injection H as <-. rewrite Nat.sub_diag. cbn [length nth].
    split; [lia|]. split; [lia|]. split; [exact E|]. intros k Hk; lia.
  - intros H. apply IH in H. destruct H as (H1 & H2 & H3 & H4).
    replace (j - i)%nat with (S (j - S i)) by lia. cbn [length nth].
    split; [lia|]. split; [lia|]. split; [exact H3|].
    intros [|k] Hk; [exact E | apply H4; lia].
Qed.

(* an observation is placed ONLY where the valid time matches that of a source case *)
Lemma expand_nowhere_else {A} st sl (rows : list A) t l :
  ~ In (t + l)%Z (valid_times st sl) -> expand_cell st sl rows t l = None.
Proof.
  intros Hn. unfold expand_cell.
  assert (H : find_index (Z.eqb (t + l)) (valid_times st sl) 0 = None).
  { apply find_index_none. intros x Hx. destruct (Z.eqb_spec (t + l) x) as [e|]; [subst x; contradiction | reflexivity]. }
  rewrite H. reflexivity.
Qed.

(* ... and it IS placed wherever the valid time matches (one row per source case), with the value
   of the first source case having that valid time *)
Lemma expand_placed {A} st sl (rows : list A) t l :
  length rows = length (valid_times st sl) -> In (t + l)%Z (valid_times st sl) ->
  exists i v, expand_cell st sl rows t l = Some v /\ nth_error rows i = Some v /\
              nth i (valid_times st sl) 0%Z = (t + l)%Z /\
              forall k, (k < i)%nat -> nth k (valid_times st sl) 0%Z <> (t + l)%Z.
Proof.
  intros Hlen Hin. unfold expand_cell.
  destruct (find_index (Z.eqb (t + l)) (valid_times st sl) 0) as [i|] eqn:E.
  - apply find_index_some in E. destruct E as (_ & Hlt & Heq & Hfirst). rewrite Nat.sub_0_r in *.
    destruct (nth_error rows i) as [v|] eqn:Ev.
    + exists i, v. repeat split; auto.
      * apply Z.eqb_eq in Heq. congruence.
      * intros k Hk Hc. specialize (Hfirst k Hk). rewrite Hc, Z.eqb_refl in Hfirst. discriminate.
    + apply nth_error_None in Ev. lia.
  - exfalso. rewrite find_index_none in E. specialize (E _ Hin). rewrite Z.eqb_refl in E. discriminate.
Qed.

Lemma valid_times_spec st sl v : In v (valid_times st sl) <-> exists t l, In t st /\ In l sl /\ v = (t + l)%Z.
Proof.
  unfold valid_times. rewrite in_flat_map. split.
  - intros [t [Ht Hv]]. apply in_map_iff in Hv. destruct Hv as [l [<- Hl]]. exists t, l. auto.
  - intros [t [l [Ht [Hl ->]]]]. exists t. split; [exact Ht|]. apply in_map_iff. exists l. auto.
Qed.
