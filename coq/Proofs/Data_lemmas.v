(* Proofs/Data_lemmas.v -- list lemmas behind the dataset theorems: sort_uniq, intersect,
   first_index, common_values, index_list, cut. Axiom-free (Z / lists only). *)
From Coq Require Import ZArith List Bool Lia Sorted.
From VF Require Import Model.Data.
Import ListNotations.
Local Open Scope Z_scope.

Lemma zmem_In x l : zmem x l = true <-> In x l.
Proof.
  unfold zmem. rewrite existsb_exists. split.
  - intros [y [Hy E]]. apply Z.eqb_eq in E. subst. exact Hy.
  - intros H. exists x. split; [exact H | apply Z.eqb_refl].
Qed.

Lemma zinsert_In x y l : In y (zinsert x l) <-> y = x \/ In y l.
Proof.
  induction l as [|h t IH]; cbn [zinsert].
  - cbn. intuition.
  - destruct (x <? h) eqn:E1; [cbn; intuition|].
    destruct (x =? h) eqn:E2.
    + apply Z.eqb_eq in E2. subst. cbn. intuition.
    + cbn [In]. rewrite IH. intuition.
Qed.

Lemma sort_uniq_In x l : In x (sort_uniq l) <-> In x l.
Proof.
  induction l as [|h t IH]; cbn [sort_uniq fold_right]; [tauto|].
  fold (sort_uniq t). rewrite zinsert_In, IH. cbn. intuition.
Qed.

(* strictly increasing lists *)
Definition ssorted (l : list Z) : Prop := StronglySorted Z.lt l.

Lemma zinsert_sorted x l : ssorted l -> ssorted (zinsert x l).
Proof.
  unfold ssorted. induction l as [|h t IH]; intros Hs; cbn [zinsert].
  - repeat constructor.
  - inversion Hs as [|? ? Ht Hall]; subst.
    destruct (x <? h) eqn:E1.
    + apply Z.ltb_lt in E1. constructor; [exact Hs|].
      constructor; [exact E1|]. rewrite Forall_forall in *. intros y Hy. specialize (Hall y Hy). lia.
    + destruct (x =? h) eqn:E2; [exact Hs|].
      apply Z.ltb_ge in E1. apply Z.eqb_neq in E2.
      constructor; [apply IH; exact Ht|].
      rewrite Forall_forall in *. intros y Hy. apply zinsert_In in Hy. destruct Hy as [-> | Hy]; [lia | auto].
Qed.

Lemma sort_uniq_sorted l : ssorted (sort_uniq l).
Proof.
  induction l as [|h t IH]; cbn [sort_uniq fold_right]; [constructor|].
  apply zinsert_sorted. exact IH.
Qed.

Lemma ssorted_NoDup l : ssorted l -> NoDup l.
Proof.
  unfold ssorted. induction l as [|h t IH]; intros Hs; [constructor|].
  inversion Hs as [|? ? Ht Hall]; subst. constructor; [|auto].
  intro Hin. rewrite Forall_forall in Hall. specialize (Hall h Hin). lia.
Qed.

Lemma ssorted_filter p l : ssorted l -> ssorted (filter p l).
Proof.
  unfold ssorted. induction l as [|h t IH]; intros Hs; cbn [filter]; [constructor|].
  inversion Hs as [|? ? Ht Hall]; subst. destruct (p h); [|auto].
  constructor; [auto|]. rewrite Forall_forall in *. intros y Hy. apply filter_In in Hy. apply Hall. tauto.
Qed.

Lemma intersect_In x a b : In x (intersect a b) <-> In x a /\ In x b.
Proof.
  unfold intersect. rewrite sort_uniq_In, filter_In, zmem_In. tauto.
Qed.
Lemma intersect_sorted a b : ssorted (intersect a b).
Proof. apply sort_uniq_sorted. Qed.

(* ---- first_index -------------------------------------------------------------------------- *)
Lemma first_index_Some x l i : first_index x l = Some i ->
  (i < length l)%nat /\ nth i l 0 = x /\ forall j, (j < i)%nat -> nth j l 0 <> x.
Proof.
  revert i. induction l as [|h t IH]; intros i H; cbn [first_index] in H; [discriminate|].
  destruct (x =? h) eqn:E.
  - inversion H; subst. apply Z.eqb_eq in E. subst. cbn. repeat split; [lia | intros j Hj; lia].
  - destruct (first_index x t) as [k|] eqn:Ek; cbn in H; [|discriminate]. inversion H; subst.
    destruct (IH k eq_refl) as [Hlen [Hnth Hmin]]. apply Z.eqb_neq in E. cbn [length nth].
    repeat split; [lia | exact Hnth |]. intros [|j] Hj; cbn; [congruence | apply Hmin; lia].
Qed.
Lemma first_index_In x l : In x l -> exists i, first_index x l = Some i.
Proof.
  induction l as [|h t IH]; intros H; [destruct H|]. cbn [first_index].
  destruct (x =? h) eqn:E; [eauto|]. apply Z.eqb_neq in E.
  destruct H as [-> | H]; [congruence|]. destruct (IH H) as [i Hi]. rewrite Hi. cbn. eauto.
Qed.
Lemma first_index_None x l : first_index x l = None -> ~ In x l.
Proof.
  intros H Hin. destruct (first_index_In x l Hin) as [i Hi]. congruence.
Qed.

(* every common value is looked up at a position that holds exactly that value *)
Lemma index_list_nth values own :
  (forall v, In v values -> In v own) ->
  map (nth_or 0 own) (index_list values own) = values.
Proof.
  intros Hsub. unfold index_list. rewrite map_map. rewrite <- (map_id values) at 2.
  apply map_ext_in. intros v Hv. destruct (first_index_In v own (Hsub v Hv)) as [i Hi]. rewrite Hi.
  unfold nth_or. apply (first_index_Some v own i Hi).
Qed.
Lemma index_list_length values own : length (index_list values own) = length values.
Proof. unfold index_list. apply map_length. Qed.

(* ---- common_values (np.intersect1d folded over the inputs, merged with the user's list) ------ *)
Definition fold_step (acc : option (list Z)) (k : list Z) : option (list Z) :=
  match acc with
  | None => Some (sort_uniq k)
  | Some a => Some (intersect a (sort_uniq k))
  end.

Lemma common_values_unfold keys aux :
  common_values keys aux =
  match fold_left fold_step keys aux with Some a => sort_uniq a | None => [] end.
Proof. unfold common_values, fold_step. destruct aux; reflexivity. Qed.

Lemma fold_step_spec keys : forall acc,
  match fold_left fold_step keys acc with
  | Some r => forall x, In x r <-> (match acc with Some a => In x a | None => keys <> [] end)
                               /\ forall k, In k keys -> In x k
  | None => acc = None /\ keys = []
  end.
Proof.
  induction keys as [|k keys IH]; intros acc; cbn [fold_left].
  - destruct acc as [a|]; [|tauto]. intros x. split; [intros H; split; [exact H | intros k []] | tauto].
  - specialize (IH (fold_step acc k)). destruct (fold_left fold_step keys (fold_step acc k)) as [r|].
    + intros x. rewrite IH. destruct acc as [a|]; cbn [fold_step].
      * rewrite intersect_In, sort_uniq_In. split.
        -- intros [[Ha Hk] Hall]. split; [exact Ha|]. intros k' [<- | Hk']; auto.
        -- intros [Ha Hall]. split; [split; [exact Ha | apply Hall; left; reflexivity]|].
           intros k' Hk'. apply Hall. right. exact Hk'.
      * rewrite sort_uniq_In. split.
        -- intros [Hk Hall]. split; [discriminate|]. intros k' [<- | Hk']; auto.
        -- intros [_ Hall]. split; [apply Hall; left; reflexivity|]. intros k' Hk'. apply Hall. right. exact Hk'.
    + destruct IH as [IH _]. destruct acc; discriminate IH.
Qed.

Theorem common_values_spec keys aux x : keys <> [] ->
  In x (common_values keys aux) <->
  (match aux with Some a => In x a | None => True end) /\ forall k, In k keys -> In x k.
Proof.
  intros Hne. rewrite common_values_unfold. pose proof (fold_step_spec keys aux) as H.
  destruct (fold_left fold_step keys aux) as [r|].
  - rewrite sort_uniq_In, H. destruct aux; tauto.
  - destruct H as [_ H]. congruence.
Qed.

Theorem common_values_sorted keys aux : ssorted (common_values keys aux).
Proof.
  rewrite common_values_unfold. destruct (fold_left fold_step keys aux); [apply sort_uniq_sorted | constructor].
Qed.

(* ---- cut ----------------------------------------------------------------------------------- *)
Section C.
Variable V : Type.
Lemma cell_cut (c : cube V) It Il Is a b s :
  (a < length It)%nat -> (b < length Il)%nat -> (s < length Is)%nat ->
  cell V (cut V c It Il Is) a b s = cell V c (nth a It O) (nth b Il O) (nth s Is O).
Proof.
  intros Ha Hb Hs. unfold cell at 1, cut.
  rewrite (nth_indep _ [] (map (fun b0 => map (fun s0 => cell V c O b0 s0) Is) Il)) by (rewrite map_length; exact Ha).
  rewrite (map_nth (fun a0 => map (fun b0 => map (fun s0 => cell V c a0 b0 s0) Is) Il) It O a).
  rewrite (nth_indep _ [] (map (fun s0 => cell V c (nth a It O) O s0) Is)) by (rewrite map_length; exact Hb).
  rewrite (map_nth (fun b0 => map (fun s0 => cell V c (nth a It O) b0 s0) Is) Il O b).
  rewrite (nth_indep _ None (cell V c (nth a It O) (nth b Il O) O)) by (rewrite map_length; exact Hs).
  rewrite (map_nth (fun s0 => cell V c (nth a It O) (nth b Il O) s0) Is O s).
  reflexivity.
Qed.
End C.
