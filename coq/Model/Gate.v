(* Model/Gate.v -- hand-written glue: which Output class and which metric object verif.driver.run
   builds for `-m <name>` (without -sort / -hist), composed with the GENERATED gating statements.
   No proofs here. *)
From Coq Require Import String List Bool.
From VF Require Import Gen.Gen_caps.
Import ListNotations.
Local Open Scope string_scope.

Definition find_out (n : string) : option ocap := find (fun o => String.eqb (oc_name o) n) output_caps.
Definition find_metric (n : string) : option mcap :=
  find (fun c => String.eqb (mc_name c) n && mc_valid c) metric_caps.

(* -m <name>: a special diagram, or Standard with the named metric, or Standard with FromField *)
Definition select (name : string) : option (ocap * option mcap) :=
  match find (fun d => String.eqb (fst d) name) diagram_chain with
  | Some d => match find_out (snd d) with Some o => Some (o, None) | None => None end
  | None =>
      match find_out "Standard" with
      | None => None
      | Some o =>
          match find_metric name with
          | Some c => Some (o, Some c)
          | None => match find (fun c => String.eqb (mc_name c) "fromfield") metric_caps with
                    | Some c => Some (o, Some c)
                    | None => None
                    end
          end
      end
  end.

(* 1 = the requested axis is kept, 0 = dropped with a warning, 2 = the name cannot be resolved *)
Definition axis_kept (name axis : string) : nat :=
  match select name with
  | None => 2
  | Some (o, m) => match gate o m (Some axis) with Some _ => 1 | None => 0 end
  end.

(* which core method `-type <t>` finally calls, and whether the selected Output class defines it (otherwise the
   abstract base class answers with an explanatory error exit): 1 = defined, 0 = not defined, 2 = unknown name *)
Definition smem (x : string) (l : list string) : bool := existsb (String.eqb x) l.
Definition core_of (ty : string) : string :=
  match find (fun p => String.eqb ty (fst p)) type_dispatch with Some p => snd p | None => default_core end.
Definition type_supported (name ty : string) : nat :=
  match select name with
  | None => 2
  | Some (o, _) => if smem (core_of ty) (oc_methods o) then 1 else 0
  end.
