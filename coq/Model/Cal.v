(* Model/Cal.v -- proleptic Gregorian civil calendar over Z (days since 1970-01-01) and the
   bucket functions of verif/axis.py.  Python's datetime / calendar.timegm are external library
   code: they are REPLACED by these definitions and tied by the correspondence check. *)
From Coq Require Import ZArith List Bool.
Import ListNotations.
Local Open Scope Z_scope.

Definition days_from_civil (y m d : Z) : Z :=
  let y' := if m <=? 2 then y - 1 else y in
  let era := y' / 400 in
  let yoe := y' - era * 400 in
  let mp := if m >? 2 then m - 3 else m + 9 in
  let doy := (153 * mp + 2) / 5 + d - 1 in
  let doe := yoe * 365 + yoe / 4 - yoe / 100 + doy in
  era * 146097 + doe - 719468.

Definition civil_from_days (z : Z) : Z * Z * Z :=
  let z' := z + 719468 in
  let era := z' / 146097 in
  let doe := z' - era * 146097 in
  let yoe := (doe - doe / 1460 + doe / 36524 - doe / 146096) / 365 in
  let y := yoe + era * 400 in
  let doy := doe - (365 * yoe + yoe / 4 - yoe / 100) in
  let mp := (5 * doy + 2) / 153 in
  let d := doy - (153 * mp + 2) / 5 + 1 in
  let m := if mp <? 10 then mp + 3 else mp - 9 in
  (if m <=? 2 then y + 1 else y, m, d).

Definition is_leap (y : Z) : bool :=
  ((y mod 4 =? 0) && negb (y mod 100 =? 0)) || (y mod 400 =? 0).
Definition days_in_month (y m : Z) : Z :=
  if m =? 2 then (if is_leap y then 29 else 28)
  else if (m =? 4) || (m =? 6) || (m =? 9) || (m =? 11) then 30 else 31.
Definition valid_date (y m d : Z) : bool :=
  (1 <=? m) && (m <=? 12) && (1 <=? d) && (d <=? days_in_month y m).

Definition day_of (t : Z) : Z := t / 86400.                     (* floor: UTC day number *)
Definition year_of (t : Z) : Z := let '(y, _, _) := civil_from_days (day_of t) in y.
Definition month_of (t : Z) : Z := let '(_, m, _) := civil_from_days (day_of t) in m.
Definition dom_of (t : Z) : Z := let '(_, _, d) := civil_from_days (day_of t) in d.

(* verif.axis: Year / Month / Week / Day give the unix time of the start of the period *)
Definition day_start (t : Z) : Z := day_of t * 86400.
Definition month_start (t : Z) : Z := days_from_civil (year_of t) (month_of t) 1 * 86400.
Definition year_start (t : Z) : Z := days_from_civil (year_of t) 1 1 * 86400.
Definition weekday (t : Z) : Z := (day_of t + 3) mod 7.         (* Monday = 0; 1970-01-01 was a Thursday *)
Definition week_start (t : Z) : Z := (day_of t - weekday t) * 86400.
Definition second_of_day (t : Z) : Z := t mod 86400.            (* Timeofday = this / 3600 *)
Definition dayofmonth (t : Z) : Z := dom_of t.
Definition monthofyear (t : Z) : Z := month_of t.
(* Dayofyear maps the date into the leap year 2000: Mar 1 is always day 61 *)
Definition dayofyear (t : Z) : Z :=
  days_from_civil 2000 (month_of t) (dom_of t) - days_from_civil 2000 1 1 + 1.
(* Leadtimeday: int(l / 24) with l in 1/1000 h (truncation toward zero) *)
Definition leadtimeday (l : Z) : Z := Z.quot l 24000.

(* dates as YYYYMMDD integers (verif.util.date_to_unixtime and back) *)
Definition date_to_unixtime (date : Z) : Z :=
  days_from_civil (date / 10000) (date / 100 mod 100) (date mod 100) * 86400.
Definition unixtime_to_date (t : Z) : Z :=
  let '(y, m, d) := civil_from_days (day_of t) in y * 10000 + m * 100 + d.
(* --list-dates: the date and the clock time (hour, minute, second) of a unix time *)
Definition date_clock (t : Z) : Z * Z * Z * Z :=
  let diff := t mod 86400 in (unixtime_to_date t, diff / 3600, (diff mod 3600) / 60, diff mod 60).
(* matplotlib date number (days since 1970-01-01 for the default epoch): unixtime / 86400 *)
Definition date_to_daynum (date : Z) : Z :=
  days_from_civil (date / 10000) (date / 100 mod 100) (date mod 100).
Definition daynum_to_date (n : Z) : Z :=
  let '(y, m, d) := civil_from_days n in y * 10000 + m * 100 + d.
