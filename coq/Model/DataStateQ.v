(* Model/DataStateQ.v -- the stateful model at V := Q with history rendering for the harness. *)
From Coq Require Import ZArith QArith List Bool PrimFloat.
From VF Require Import Base.Num Model.Data Model.Cal Model.DataQ Model.DataState.
Import ListNotations.

Definition stepQ (copy_all : bool) := @step Q qltb qsub qdiv copy_all axis_of.
Definition runQ (copy_all : bool) := @run Q qltb qsub qdiv copy_all axis_of.
Definition get_scores_allQ := @get_scores_all Q qltb qsub qdiv.

(* request encoding shared with the harness: axis number 99 = All *)
Definition mk_key (r : list field * nat * nat * nat) : key :=
  let '(fs, k, ax, ai) := r in
  {| k_fields := fs; k_input := k; k_axis := if Nat.eqb ax 99 then SAll else SAx ax ai |}.

Local Open Scope float_scope.
Definition enc_ids (s : state Q) (ids : list nat) : list float :=
  f_of_nat (length ids) :: flat_map (fun id => enc_col (flat_of Q (read Q s id))) ids.

(* for each request of the history: the arrays handed out as they were AT RETURN TIME, and the same
   objects as they are AT THE END of the history; -7 code for an error exit (which ends the history) *)
Fixpoint run_render (copy_all : bool) (d : dataQ) (s : state Q) (rqs : list key)
  : list (list float * list nat) * state Q :=
  match rqs with
  | [] => ([], s)
  | r :: rest =>
      match stepQ copy_all d s r with
      | Error e => ([([-7; f_of_nat e], [])], s)
      | OK (s1, ids) =>
          let '(outs, sf) := run_render copy_all d s1 rest in
          ((enc_ids s1 ids, ids) :: outs, sf)
      end
  end.

Definition run_history (copy_all : bool) (cfg : configQ) (ins : list inputQ) (reqs : list request) : list float :=
  match mk_dataQ cfg ins with
  | Error e => [-7; f_of_nat e]
  | OK d =>
      let '(outs, sf) := run_render copy_all d (init Q) (map mk_key reqs) in
      flat_map (fun o => -9 :: fst o ++ (-8 :: enc_ids sf (snd o))) outs
  end.

(* the pure answer of a fresh dataset to one request (All or sliced) *)
Definition pure_answer (cfg : configQ) (ins : list inputQ) (r : request) : list float :=
  match mk_dataQ cfg ins with
  | Error e => [-7; f_of_nat e]
  | OK d =>
      let '(fs, k, ax, ai) := r in
      if Nat.eqb ax 99 then enc_scores (get_scores_allQ d fs k)
      else enc_scores (get_scoresQ d fs k (axis_of ax) ai)
  end.
