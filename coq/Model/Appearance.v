(* Model/Appearance.v -- hand-written model of how an appearance option reaches the figure:
   command line --(argument loop, Model/Cli.v)--> driver variable --(pl.<attr> = <var>, GENERATED
   table pl_attrs)--> attribute of the Output object --(read in verif/output.py, GENERATED table
   output_reads)--> matplotlib call.  The last arrow is observed on the real figure by ./check C17.
   No proofs here. *)
From Coq Require Import String List Bool Arith.
From VF Require Import Model.Data Gen.Gen_cli Model.Cli.
Import ListNotations.
Local Open Scope string_scope.

(* the documented appearance options (property C17) *)
Definition appearance_flags : list string :=
  ["-title"; "-xlabel"; "-ylabel"; "-clabel"; "-xlim"; "-ylim"; "-clim"; "-xticks"; "-yticks"; "-xticklabels"; "-yticklabels";
   "-xrot"; "-yrot"; "-xlog"; "-ylog"; "-leg"; "-legfs"; "-legloc"; "-lc"; "-ls"; "-lw"; "-ma"; "-ms";
   "-labfs"; "-tickfs"; "-titlefs"; "-afs"; "-gc"; "-gs"; "-gw"; "-nogrid"; "-sp"; "-aspect"; "-fs"; "-dpi";
   "-left"; "-right"; "-top"; "-bottom"; "-nomargin"; "-a"; "-af"; "-f"].

Definition mem (s : string) (l : list string) : bool := existsb (String.eqb s) l.

Definition var_of_flag (f : string) : option string :=
  match find (fun x => String.eqb f (fst (fst (fst (fst x))))) valued_flags with
  | Some (_, v, _, _, _) => Some v
  | None => match find (fun x => String.eqb f (fst (fst x))) bool_flags with
            | Some (_, v, _) => Some v
            | None => None
            end
  end.

(* attributes of the Output object assigned from a driver variable (`pl.a = v` or `pl.a = not v`) *)
Definition attrs_of_var (v : string) : list string :=
  map fst (filter (fun p => String.eqb (snd p) v || String.eqb (snd p) ("not " ++ v)) pl_attrs).

(* the option's value ends up in an attribute that verif/output.py reads, or is handed to Data (-leg) *)
Definition reaches_figure (f : string) : bool :=
  match var_of_flag f with
  | None => false
  | Some v => existsb (fun a => mem a output_reads) (attrs_of_var v) || mem v (map snd data_args)
  end.

(* the raw value an option contributes to the figure for a given command line *)
Definition figure_value (argv : list string) (f : string) : result (option string) :=
  match parse_args (fun _ => None) argv with
  | Error e => Error e
  | OK p => match var_of_flag f with Some v => OK (lookup v p) | None => OK None end
  end.

(* position (from 1) of the token supplying the value, 0 = option absent, 1000 = a boolean switch that
   is on/off; lets the harness read the model's answer without printing strings *)
Fixpoint index_of (s : string) (l : list string) (i : nat) : nat :=
  match l with [] => 0 | x :: r => if String.eqb s x then i else index_of s r (S i) end.
Definition figure_value_index (argv : list string) (f : string) : nat :=
  match figure_value argv f with
  | Error _ => 2000
  | OK None => 0
  | OK (Some v) => if String.eqb v "True" || String.eqb v "False" then 1000 else index_of v argv 0
  end.

(* line style cycling (Output._get_plot_options): line i takes element i mod n *)
Definition cyc {A} (l : list A) (i : nat) (d : A) : A := nth (i mod length l) l d.
