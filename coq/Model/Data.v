(* Model/Data.v -- hand-written executable model of verif/data.py (Data.__init__,
   _get_common_indices, _get_score, get_scores, _apply_axis), function by function.
   No proofs here (so the model still runs when a proof breaks); theorems are in Proofs/Data_*.v.

   Coordinates (unix time, lead time, location id, lat/lon/elev) are integers: the harness
   generates lead times / metadata as multiples of 0.001 and passes them scaled by 1000.
   Values are an abstract type V (instantiated with Q by the harness); `option V` = value or
   missing (NaN).  A non-finite anomaly (division by a zero climatology) is missing.            *)
From Coq Require Import ZArith List Bool.
Import ListNotations.
Local Open Scope Z_scope.

(* ---- small list utilities --------------------------------------------------------------- *)
Fixpoint zinsert (x : Z) (l : list Z) : list Z :=
  match l with
  | [] => [x]
  | h :: t => if x <? h then x :: l else if x =? h then l else h :: zinsert x t
  end.
(* np.unique(np.sort(l)): ascending, no duplicates *)
Definition sort_uniq (l : list Z) : list Z := fold_right zinsert [] l.
Definition zmem (x : Z) (l : list Z) : bool := existsb (Z.eqb x) l.
(* np.intersect1d(a, b): sorted unique common values *)
Definition intersect (a b : list Z) : list Z := sort_uniq (filter (fun x => zmem x b) a).

Fixpoint first_index (x : Z) (l : list Z) : option nat :=
  match l with
  | [] => None
  | h :: t => if x =? h then Some O else option_map S (first_index x t)
  end.

Inductive result (A : Type) : Type := OK (a : A) | Error (msg : nat).
Arguments OK {A}. Arguments Error {A}.
(* error codes = the message classes of verif.util.error in data.py *)
Definition E_latlon := 1%nat.
Definition E_elev := 2%nat.
Definition E_times := 3%nat.
Definition E_leads := 4%nat.
Definition E_locs := 5%nat.
Definition E_noobs := 6%nat.
Definition E_nofield := 7%nat.
Definition E_input_index := 8%nat.

Inductive field : Type := FObs | FFcst | FPit | FThr (t : Z) | FQuant (q : Z) | FOther (n : nat).
Definition field_eqb (a b : field) : bool :=
  match a, b with
  | FObs, FObs | FFcst, FFcst | FPit, FPit => true
  | FThr x, FThr y | FQuant x, FQuant y => x =? y
  | FOther x, FOther y => Nat.eqb x y
  | _, _ => false
  end.

Record loc := { l_id : Z; l_lat : Z; l_lon : Z; l_elev : Z }.

Section D.
Variable V : Type.
Variable vltb : V -> V -> bool.                (* strict order on values, for -obsrange *)
Variable vsub : V -> V -> option V.            (* anomaly by subtraction *)
Variable vdiv : V -> V -> option V.            (* anomaly by division; None when not finite *)

Definition cube := list (list (list (option V))).     (* [time][lead][location] *)

Record input := {
  i_times : list Z;
  i_leads : list Z;
  i_locs : list loc;
  i_fields : list (field * cube)
}.

Definition find_field (f : field) (inp : input) : option cube :=
  match find (fun p => field_eqb f (fst p)) (i_fields inp) with Some p => Some (snd p) | None => None end.

Record config := {
  c_times : option (list Z);
  c_dates : option (list Z);       (* unix times of 00:00 UTC of the selected dates *)
  c_tods : option (list Z);        (* hours of day, in 1/1000 h *)
  c_leads : option (list Z);
  c_locs : option (list Z);
  c_locs_x : option (list Z);
  c_lat : option (Z * Z);
  c_lon : option (Z * Z);
  c_elev : option (Z * Z);
  c_obs_range : option (V * V);
  c_clim : option input;
  c_clim_divide : bool
}.

Record data := {
  d_inputs : list input;          (* climatology appended last *)
  d_has_clim : bool;
  d_clim_divide : bool;
  d_obs_range : option (V * V);
  d_times : list Z;
  d_leads : list Z;
  d_locs : list loc;
  d_timesI : list (list nat);     (* per input (incl. clim): position of each common value *)
  d_leadsI : list (list nat);
  d_locsI : list (list nat)
}.

(* ---- Data._get_common_indices ------------------------------------------------------------ *)
Definition common_values (keys : list (list Z)) (aux : option (list Z)) : list Z :=
  let start := match aux with
               | Some a => Some a
               | None => None
               end in
  let folded :=
    fold_left (fun acc k => match acc with
                            | None => Some (sort_uniq k)
                            | Some a => Some (intersect a (sort_uniq k))
                            end) keys start in
  match folded with Some a => sort_uniq a | None => [] end.

Definition index_list (values own : list Z) : list nat :=
  map (fun v => match first_index v own with Some i => i | None => O end) values.

Definition common_indices (keys : list (list Z)) (aux : option (list Z)) : list (list nat) :=
  let cv := common_values keys aux in map (index_list cv) keys.

(* ---- Data.__init__ ----------------------------------------------------------------------- *)
(* a range option constrains only when it is GIVEN (inclusive ends); -latrange alone says nothing about longitudes *)
Definition in_given (r : option (Z * Z)) (x : Z) : bool :=
  match r with
  | Some (a, b) => (a <=? x) && (x <=? b)
  | None => true
  end.

Definition is_nil {A} (l : list A) : bool := match l with [] => true | _ => false end.
Definition is_none {A} (o : option A) : bool := match o with None => true | Some _ => false end.

(* resolve -latrange/-lonrange/-l/-elevrange/-lx to a list of location ids (data.py:102-152) *)
Definition latlon_ids (cfg : config) (locs : list loc) : list Z :=
  map l_id (filter (fun s => in_given (c_lat cfg) (l_lat s)
                          && in_given (c_lon cfg) (l_lon s)) locs).
Definition elev_ids (lo hi : Z) (locs : list loc) : list Z :=
  map l_id (filter (fun s => (lo <=? l_elev s) && (l_elev s <=? hi)) locs).

Definition loc_step1 (cfg : config) (first : input) : result (list Z) :=
  if is_none (c_lat cfg) && is_none (c_lon cfg) then
    OK (match c_locs cfg with Some l => l | None => map l_id (i_locs first) end)
  else
    let ll := latlon_ids cfg (i_locs first) in
    let use := match c_locs cfg with
               | Some l => filter (fun x => zmem x ll) l
               | None => ll
               end in
    if is_nil use then Error E_latlon else OK use.

Definition loc_step2 (cfg : config) (first : input) (use : list Z) : result (list Z) :=
  match c_elev cfg with
  | None => OK use
  | Some (lo, hi) =>
      (* verif.util.intersect = list(set(a) & set(b)); order irrelevant (sorted later) *)
      let use2 := filter (fun x => zmem x (elev_ids lo hi (i_locs first))) use in
      if is_nil use2 then Error E_elev else OK use2
  end.

Definition loc_step3 (cfg : config) (use : list Z) : list Z :=
  match c_locs_x cfg with
  | Some lx => filter (fun x => negb (zmem x lx)) use
  | None => use
  end.

Definition use_locations (cfg : config) (first : input) : result (list Z) :=
  match loc_step1 cfg first with
  | Error e => Error e
  | OK u1 =>
      match loc_step2 cfg first u1 with
      | Error e => Error e
      | OK u2 => OK (loc_step3 cfg u2)
      end
  end.

Definition nth_or {A} (d : A) (l : list A) (i : nat) : A := nth i l d.

Definition date_ok (cfg : config) (t : Z) : bool :=
  match c_dates cfg with
  | Some ds => zmem (t / 86400 * 86400) ds      (* int(np.floor(t / 86400)) * 86400: the start of t's UTC day, also before 1970 *)
  | None => true
  end.
Definition tod_ok (cfg : config) (t : Z) : bool :=
  match c_tods cfg with
  | Some hs => existsb (fun h => (Z.modulo t 86400) * 1000 =? h * 3600) hs   (* int(t % 86400)/3600 in tods *)
  | None => true
  end.

Definition mk_data (cfg : config) (ins : list input) : result data :=
  match ins with
  | [] => Error E_input_index
  | first :: _ =>
    let all := match c_clim cfg with Some c => ins ++ [c] | None => ins end in
    match use_locations cfg first with
    | Error e => Error e
    | OK use =>
      let tkeys := map i_times all in
      let lkeys := map i_leads all in
      let skeys := map (fun i => map l_id (i_locs i)) all in
      let timesI := common_indices tkeys (c_times cfg) in
      let leadsI := common_indices lkeys (c_leads cfg) in
      let locsI := common_indices skeys (Some use) in
      let tI := hd [] timesI in let lI := hd [] leadsI in let sI := hd [] locsI in
      if is_nil tI then Error E_times
      else if is_nil lI then Error E_leads
      else if is_nil sI then Error E_locs
      else
        let times0 := map (nth_or 0 (i_times first)) tI in
        let times := filter (fun t => date_ok cfg t && tod_ok cfg t) times0 in
        let leads := map (nth_or 0 (i_leads first)) lI in
        let locs := map (nth_or (Build_loc 0 0 0 0) (i_locs first)) sI in
        (* indices recomputed with the filtered times as the user list *)
        let timesI2 := common_indices tkeys (Some times) in
        if is_nil times then Error E_times          (* -d / -tod left no time: "No valid times selected" *)
        else
        OK {| d_inputs := all; d_has_clim := match c_clim cfg with Some _ => true | None => false end;
              d_clim_divide := c_clim_divide cfg; d_obs_range := c_obs_range cfg;
              d_times := times; d_leads := leads; d_locs := locs;
              d_timesI := timesI2; d_leadsI := leadsI; d_locsI := locsI |}
    end
  end.

Definition num_inputs (d : data) : nat :=
  (length (d_inputs d) - (if d_has_clim d then 1 else 0))%nat.

(* ---- Data._get_score --------------------------------------------------------------------- *)
Definition cell (c : cube) (a b s : nat) : option V :=
  nth s (nth b (nth a c []) []) None.

(* temp[Itimes,:,:][:,Ileadtimes,:][:,:,Ilocations] *)
Definition cut (c : cube) (It Il Is : list nat) : cube :=
  map (fun a => map (fun b => map (fun s => cell c a b s) Is) Il) It.

Definition cut_input (d : data) (k : nat) (c : cube) : cube :=
  cut c (nth k (d_timesI d) []) (nth k (d_leadsI d) []) (nth k (d_locsI d) []).

(* the per-input arrays of a field before missing-value propagation; None = the input lacks it *)
Definition loaded (d : data) (f : field) : list (option cube) :=
  map (fun p => match find_field f (snd p) with
                | Some c => Some (cut_input d (fst p) c)
                | None => None
                end)
      (combine (seq 0 (length (d_inputs d))) (d_inputs d)).

(* observations are shared: an input without them uses the first input (in order, climatology
   included) that has them *)
Definition share_obs (l : list (option cube)) : result (list cube) :=
  match find (fun o => match o with Some _ => true | None => false end) l with
  | Some (Some c0) => OK (map (fun o => match o with Some c => c | None => c0 end) l)
  | _ => Error E_noobs
  end.

Definition require_all (l : list (option cube)) : result (list cube) :=
  if forallb (fun o => match o with Some _ => true | None => false end) l
  then OK (map (fun o => match o with Some c => c | None => [] end) l)
  else Error E_nofield.

Definition missing_anywhere (cs : list cube) (a b s : nat) : bool :=
  existsb (fun c => match cell c a b s with None => true | Some _ => false end) cs.

(* "if one configuration has a missing value, set all configurations to missing" *)
Definition propagate (d : data) (cs : list cube) : list cube :=
  let nt := length (d_times d) in let nl := length (d_leads d) in let ns := length (d_locs d) in
  map (fun c =>
         map (fun a => map (fun b => map (fun s =>
              if missing_anywhere cs a b s then None else cell c a b s)
            (seq 0 ns)) (seq 0 nl)) (seq 0 nt)) cs.

Definition get_score_all (d : data) (f : field) : result (list cube) :=
  let l := loaded d f in
  match (match f with FObs => share_obs l | _ => require_all l end) with
  | Error e => Error e
  | OK cs => OK (propagate d cs)
  end.

Definition get_score (d : data) (f : field) (k : nat) : result cube :=
  match get_score_all d f with
  | Error e => Error e
  | OK cs => OK (nth k cs [])
  end.

(* ---- Data._apply_axis / get_scores ---------------------------------------------------------- *)
Inductive axis : Type :=
| AxTime                       (* one slice per initialisation time *)
| AxTimeBucket (b : Z -> Z)    (* year/month/week/day/timeofday/dayofyear/dayofmonth/monthofyear *)
| AxLead                       (* one slice per lead time (bucket = identity) *)
| AxLeadBucket (b : Z -> Z)    (* leadtimeday *)
| AxLoc                        (* location / lat / lon / elev: one slice per location *)
| AxNo.                        (* no / threshold / obs / fcst: everything pooled *)

Definition flatten3 (c : cube) : list (option V) := concat (map (@concat _) c).

Definition select {A} (I : list nat) (l : list A) (dflt : A) : list A := map (fun i => nth i l dflt) I.

Definition positions_where (p : Z -> bool) (l : list Z) : list nat :=
  map fst (filter (fun q => p (snd q)) (combine (seq 0 (length l)) l)).

Definition bucket_positions (b : Z -> Z) (vals : list Z) (k : nat) : list nat :=
  let bs := map b vals in
  let u := sort_uniq bs in
  positions_where (fun x => x =? nth k u 0) bs.

Definition apply_axis (d : data) (ax : axis) (k : nat) (c : cube) : list (option V) :=
  match ax with
  | AxTime => flatten3 [nth k c []]
  | AxTimeBucket b => flatten3 (select (bucket_positions b (d_times d) k) c [])
  | AxLead => flatten3 (map (fun plane => [nth k plane []]) c)
  | AxLeadBucket b =>
      flatten3 (map (fun plane => select (bucket_positions b (d_leads d) k) plane []) c)
  | AxLoc => flatten3 (map (map (fun row => [nth k row None])) c)
  | AxNo => flatten3 c
  end.

Definition axis_size (d : data) (ax : axis) : nat :=
  match ax with
  | AxTime => length (d_times d)
  | AxTimeBucket b => length (sort_uniq (map b (d_times d)))
  | AxLead => length (d_leads d)
  | AxLeadBucket b => length (sort_uniq (map b (d_leads d)))
  | AxLoc => length (d_locs d)
  | AxNo => 1%nat
  end.

Definition is_obs_or_fcst (f : field) : bool :=
  match f with FObs | FFcst => true | _ => false end.

Definition mask_obs_range (r : option (V * V)) (x : option V) : option V :=
  match r, x with
  | Some (lo, hi), Some v => if vltb v lo then None else if vltb hi v then None else Some v
  | _, _ => x
  end.

Definition anomaly (divide : bool) (x c : option V) : option V :=
  match x, c with
  | Some v, Some w => if divide then vdiv v w else vsub v w
  | _, _ => None
  end.

(* one requested field as a flat list along the slice, after obs-range masking and anomaly *)
Definition field_values (d : data) (f : field) (k : nat) (ax : axis) (ai : nat)
           (clim : option (list (option V))) : result (list (option V)) :=
  match get_score d f k with
  | Error e => Error e
  | OK c =>
      let c1 := match f with
                | FObs => map (map (map (mask_obs_range (d_obs_range d)))) c
                | _ => c
                end in
      let flat := apply_axis d ax ai c1 in
      OK (match clim with
          | Some cl => if is_obs_or_fcst f
                       then map (fun p => anomaly (d_clim_divide d) (fst p) (snd p)) (combine flat cl)
                       else flat
          | None => flat
          end)
  end.

Fixpoint collect {A} (l : list (result A)) : result (list A) :=
  match l with
  | [] => OK []
  | Error e :: _ => Error e
  | OK a :: r => match collect r with OK t => OK (a :: t) | Error e => Error e end
  end.

Definition is_some {A} (o : option A) : bool := match o with Some _ => true | None => false end.

(* positions of the slice where every requested field is valid *)
Definition valid_mask (cols : list (list (option V))) : list bool :=
  match cols with
  | [] => []
  | c0 :: _ => map (fun i => forallb (fun c => is_some (nth i c None)) cols) (seq 0 (length c0))
  end.

Definition keep_valid (mask : list bool) (col : list (option V)) : list (option V) :=
  map snd (filter (fun p => fst p) (combine mask col)).

(* Data.get_scores for every axis except All *)
Definition get_scores (d : data) (fields : list field) (k : nat) (ax : axis) (ai : nat)
  : result (list (list (option V))) :=
  if negb (Nat.ltb k (num_inputs d)) then Error E_input_index else
  let do_clim := d_has_clim d && existsb is_obs_or_fcst fields in
  let climr :=
    if do_clim then
      match get_score d FFcst (length (d_inputs d) - 1) with
      | Error e => Error e
      | OK c => OK (Some (apply_axis d ax ai c))
      end
    else OK None in
  match climr with
  | Error e => Error e
  | OK clim =>
    match collect (map (fun f => field_values d f k ax ai clim) fields) with
    | Error e => Error e
    | OK cols =>
        let mask := valid_mask cols in
        let kept := map (keep_valid mask) cols in
        match kept with
        | [] :: _ => OK (map (fun _ => [None]) cols)     (* no valid data: one NaN per field *)
        | _ => OK kept
        end
    end
  end.

(* Data.get_scores for axis = All: whole arrays (flattened row-major here), invalid cells set to
   NaN rather than removed; an array without any time is replaced by the single NaN *)
Definition field_values_all (d : data) (f : field) (k : nat) (clim : option (list (option V)))
  : result (list (option V)) :=
  match get_score d f k with
  | Error e => Error e
  | OK c =>
      let c1 := match f with
                | FObs => map (map (map (mask_obs_range (d_obs_range d)))) c
                | _ => c
                end in
      let flat := flatten3 c1 in
      OK (match clim with
          | Some cl => if is_obs_or_fcst f
                       then map (fun p => anomaly (d_clim_divide d) (fst p) (snd p)) (combine flat cl)
                       else flat
          | None => flat
          end)
  end.

Definition get_scores_all (d : data) (fields : list field) (k : nat) : result (list (list (option V))) :=
  if negb (Nat.ltb k (num_inputs d)) then Error E_input_index else
  let do_clim := d_has_clim d && existsb is_obs_or_fcst fields in
  let climr :=
    if do_clim then
      match get_score d FFcst (length (d_inputs d) - 1) with
      | Error e => Error e
      | OK c => OK (Some (flatten3 c))
      end
    else OK None in
  match climr with
  | Error e => Error e
  | OK clim =>
    match collect (map (fun f => field_values_all d f k clim) fields) with
    | Error e => Error e
    | OK cols =>
        let mask := valid_mask cols in
        match d_times d with
        | [] => OK (map (fun _ => [None]) cols)
        | _ => OK (map (fun col => map (fun p : bool * option V => if fst p then snd p else None) (combine mask col)) cols)
        end
    end
  end.

End D.

Arguments OK {A}. Arguments Error {A}.
Arguments i_times {V}. Arguments i_leads {V}. Arguments i_locs {V}. Arguments i_fields {V}.
Arguments d_inputs {V}. Arguments d_has_clim {V}. Arguments d_clim_divide {V}. Arguments d_obs_range {V}.
Arguments d_times {V}. Arguments d_leads {V}. Arguments d_locs {V}.
Arguments d_timesI {V}. Arguments d_leadsI {V}. Arguments d_locsI {V}.
Arguments c_times {V}. Arguments c_dates {V}. Arguments c_tods {V}. Arguments c_leads {V}. Arguments c_locs {V}.
Arguments c_locs_x {V}. Arguments c_lat {V}. Arguments c_lon {V}. Arguments c_elev {V}. Arguments c_obs_range {V}.
Arguments c_clim {V}. Arguments c_clim_divide {V}.
Arguments axis_size {V}. Arguments num_inputs {V}.
