(* Model/TextParse.v -- hand-written model of verif.input.Text on LEXED lines (header tokens and row
   tokens; whitespace splitting is Python's str.split).  Scope: files with a location/id column;
   numeric tokens are plain decimals [-]digits[.digits] (what else float() accepts is outside the
   model: None), -999 and non-numeric tokens are missing.  Coordinates are scaled integers (time in
   seconds, lead time / lat / lon / elev in 1/1000), values are rationals.  No proofs here. *)
From Coq Require Import ZArith QArith List Bool Ascii String.
From VF Require Import Model.Data Model.Cal Model.ParseNumbers.
Import ListNotations.
Local Open Scope string_scope.

(* Text._clean: float(token), -999 -> NaN, not a number -> NaN *)
Definition clean (tok : string) : option Q :=
  match parse_decimal (list_ascii_of_string tok) with
  | Some q => if Qeq_bool q (-999 # 1) then None else Some q
  | None => None
  end.

Fixpoint index_of (name : string) (header : list string) (i : nat) : option nat :=
  match header with
  | [] => None
  | h :: r =>
      (* indices[att] = i : a later column with the same name wins *)
      match index_of name r (S i) with
      | Some j => Some j
      | None => if String.eqb h name then Some i else None
      end
  end.
(* "offset" is an alias of "leadtime" in the header *)
Definition canon (h : string) : string := if String.eqb h "offset" then "leadtime" else h.
Definition col (header : list string) (name : string) : option nat := index_of name (map canon header) 0.
Definition tok_at (row : list string) (i : option nat) : option string :=
  match i with Some j => nth_error row j | None => None end.
Definition num_at (header row : list string) (name : string) : option Q :=
  match tok_at row (col header name) with Some t => clean t | None => None end.

Definition first_char (s : string) : option ascii := match s with String c _ => Some c | EmptyString => None end.
Definition rest (s : string) : string := match s with String _ r => r | EmptyString => "" end.
Definition is_number_str (s : string) : bool :=
  match parse_decimal (list_ascii_of_string s) with Some _ => true | None => false end.
Definition starts (c : ascii) (s : string) : bool := match first_char s with Some d => Ascii.eqb c d | None => false end.

Definition regular : list string :=
  ["obs"; "fcst"; "id"; "location"; "lat"; "lon"; "elev"; "altitude"; "hour"; "date"; "unixtime"; "leadtime"; "offset"].
Definition mem_str (s : string) (l : list string) : bool := existsb (String.eqb s) l.

Inductive colkind : Type := KRegular | KThreshold (t : Q) | KQuantile (q : Q) | KMember (m : Q) | KOther | KPit.
Definition classify (h : string) : colkind :=
  if String.eqb h "pit" then KPit
  else if mem_str h regular then KRegular
  else
    let num := parse_decimal (list_ascii_of_string (rest h)) in
    match num with
    | Some v =>
        if starts "q" h then KQuantile v
        else if starts "p" h then KThreshold v
        else if starts "e" h then KMember v
        else KOther
    | None => KOther
    end.

(* one data row as a record *)
Record rec := {
  r_time : Z; r_lead : Z; r_id : Z; r_lat : Z; r_lon : Z; r_elev : Z;
  r_vals : list (string * option Q)        (* column name -> cleaned value, for every data column *)
}.

Definition milli (q : option Q) : option Z :=
  match q with Some v => q_is_int (v * 1000)%Q | None => None end.
Definition unit_ (q : option Q) : option Z :=
  match q with Some v => q_is_int v | None => None end.
Definition zdefault (o : option Z) : Z := match o with Some z => z | None => 0%Z end.

(* is this column a data column (its value is stored per case)? *)
Definition is_data_col (h : string) : bool :=
  match classify h with
  | KRegular => String.eqb h "obs" || String.eqb h "fcst"
  | _ => true
  end.

Definition row_record (header row : list string) : option rec :=
  if negb (Nat.eqb (List.length row) (List.length header)) then None else
  let time :=
    match col header "date" with
    | Some _ =>
        match unit_ (num_at header row "date") with
        | Some d =>
            let add := match col header "hour" with
                       | Some _ => match milli (num_at header row "hour") with Some h => Some (h * 3600 / 1000)%Z | None => None end
                       | None => Some 0%Z
                       end in
            match add with Some a => Some (date_to_unixtime d + a)%Z | None => None end
        | None => None
        end
    | None =>
        match col header "unixtime" with
        | Some _ => unit_ (num_at header row "unixtime")
        | None => Some 0%Z
        end
    end in
  let lead := match col header "leadtime" with Some _ => milli (num_at header row "leadtime") | None => Some 0%Z end in
  let id := match col header "location" with
            | Some _ => unit_ (num_at header row "location")
            | None => unit_ (num_at header row "id")
            end in
  match time, lead, id with
  | Some t, Some l, Some i =>
      let elev := match col header "altitude" with
                  | Some _ => num_at header row "altitude"
                  | None => num_at header row "elev"
                  end in
      Some {| r_time := t; r_lead := l; r_id := i;
              r_lat := zdefault (milli (num_at header row "lat"));
              r_lon := zdefault (milli (num_at header row "lon"));
              r_elev := zdefault (milli elev);
              r_vals := map (fun h => (h, num_at header row h))
                            (filter is_data_col (map canon header)) |}
  | _, _, _ => None
  end.

(* ---- assembling the dataset from the records --------------------------------------------------- *)
(* location metadata: the FIRST row mentioning an id fixes its lat/lon/elev *)
Fixpoint loc_table (recs : list rec) (seen : list loc) : list loc :=
  match recs with
  | [] => seen
  | r :: rest =>
      if existsb (fun s => Z.eqb (l_id s) (r_id r)) seen then loc_table rest seen
      else loc_table rest (seen ++ [Build_loc (r_id r) (r_lat r) (r_lon r) (r_elev r)])%list
  end.

Definition find_loc (id : Z) (locs : list loc) : loc :=
  match find (fun s => Z.eqb (l_id s) id) locs with Some s => s | None => Build_loc id 0 0 0 end.

(* the value of a data column at a case: the LAST row with those coordinates (dictionary overwrite) *)
Definition lookup_val (name : string) (r : rec) : option (option Q) :=
  match find (fun p => String.eqb name (fst p)) (rev (r_vals r)) with Some p => Some (snd p) | None => None end.
Definition same_case (t l i : Z) (r : rec) : bool := Z.eqb (r_time r) t && Z.eqb (r_lead r) l && Z.eqb (r_id r) i.
Definition cell_of (recs : list rec) (name : string) (t l i : Z) : option Q :=
  match find (same_case t l i) (rev recs) with
  | Some r => match lookup_val name r with Some v => v | None => None end
  | None => None
  end.

Record text_input := {
  t_times : list Z; t_leads : list Z; t_locs : list loc;       (* locations sorted by id *)
  t_columns : list string;                                     (* data columns present *)
  t_cube : string -> list (list (list (option Q)))             (* [time][lead][location] per data column *)
}.

Definition assemble (header : list string) (recs : list rec) : text_input :=
  let times := sort_uniq (map r_time recs) in
  let leads := sort_uniq (map r_lead recs) in
  let tbl := loc_table recs [] in
  let ids := sort_uniq (map r_id recs) in
  {| t_times := times; t_leads := leads; t_locs := map (fun i => find_loc i tbl) ids;
     t_columns := filter is_data_col (map canon header);
     t_cube := fun name => map (fun t => map (fun l => map (fun i => cell_of recs name t l i) ids) leads) times |}.

(* header check of the reader: at least one of obs / fcst / p* / q* *)
Definition header_ok (header : list string) : bool :=
  existsb (fun w => String.eqb w "obs" || String.eqb w "fcst" || starts "p" w || starts "q" w) header.

Fixpoint all_records (header : list string) (rows : list (list string)) : option (list rec) :=
  match rows with
  | [] => Some []
  | r :: rest => match row_record header r, all_records header rest with
                 | Some x, Some t => Some (x :: t)
                 | _, _ => None
                 end
  end.

(* error codes: 31 header without data columns, 32 row outside the model / wrong number of columns *)
Definition parse_text (header : list string) (rows : list (list string)) : result text_input :=
  if negb (header_ok header) then Error 31%nat else
  match all_records header rows with
  | Some recs => OK (assemble header recs)
  | None => Error 32%nat
  end.

(* the numeric value carried by a p/q/e column name *)
Definition thresholds_of (header : list string) : list Q :=
  flat_map (fun h => match classify h with KThreshold t => [t] | _ => [] end) header.
Definition quantiles_of (header : list string) : list Q :=
  flat_map (fun h => match classify h with KQuantile q => [q] | _ => [] end) header.
Definition members_of (header : list string) : list Q :=
  flat_map (fun h => match classify h with KMember m => [m] | _ => [] end) header.
