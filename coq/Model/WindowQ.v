(* Model/WindowQ.v -- Window.v at V := Q with the aggregators expressible over Q, and rendering. *)
From Coq Require Import ZArith QArith Qabs List Bool PrimFloat.
From VF Require Import Base.Num Model.DataQ Model.Window.
Import ListNotations.
Local Open Scope Q_scope.

Definition all_some (l : list (option Q)) : option (list Q) :=
  fold_right (fun o acc => match o, acc with Some x, Some t => Some (x :: t) | _, _ => None end) (Some []) l.
Definition qsum (l : list Q) : Q := fold_left Qplus l 0.
Definition qlen (l : list Q) : Q := inject_Z (Z.of_nat (length l)).
Definition qmin2 (a b : Q) : Q := if Qle_bool a b then a else b.
Definition qmax2 (a b : Q) : Q := if Qle_bool a b then b else a.
Fixpoint qinsert (x : Q) (l : list Q) : list Q :=
  match l with [] => [x] | h :: t => if Qle_bool x h then x :: l else h :: qinsert x t end.
Definition qsort (l : list Q) : list Q := fold_right qinsert [] l.

(* aggregators by number: 0 mean 1 sum 2 min 3 max 4 range 5 count 6 change 7 abschange 8 meanabs 9 absmean
   10 median 11 variance.  A missing value poisons every aggregate except count. *)
Definition aggq (k : nat) (l : list (option Q)) : option Q :=
  match k with
  | 5%nat => Some (inject_Z (Z.of_nat (length (filter (fun o => match o with Some _ => true | None => false end) l))))
  | 6%nat => match hd None l, last l None with Some a, Some b => Some (b - a) | _, _ => None end   (* only the ends matter *)
  | 7%nat => match hd None l, last l None with Some a, Some b => Some (Qabs (b - a)) | _, _ => None end
  | _ =>
    match all_some l with
    | None => None
    | Some v =>
      match v with
      | [] => None
      | x :: r =>
        match k with
        | 0%nat => Some (qsum v / qlen v)
        | 1%nat => Some (qsum v)
        | 2%nat => Some (fold_left qmin2 r x)
        | 3%nat => Some (fold_left qmax2 r x)
        | 4%nat => Some (fold_left qmax2 r x - fold_left qmin2 r x)
        | 6%nat => Some (last r x - x)
        | 7%nat => Some (Qabs (last r x - x))
        | 8%nat => Some (qsum (map Qabs v) / qlen v)
        | 9%nat => Some (Qabs (qsum v / qlen v))
        | 10%nat => let s := qsort v in let n := length v in
                    if Nat.even n then Some ((nth (n / 2 - 1) s 0 + nth (n / 2) s 0) / 2) else Some (nth (n / 2) s 0)
        | _ => let m := qsum v / qlen v in Some (qsum (map (fun y => (y - m) * (y - m)) v) / qlen v)
        end
      end
    end
  end.

Local Open Scope float_scope.
Definition enc_cube (c : list (list (list (option Q)))) : list float :=
  flat_map (fun p => flat_map (fun r => map f_of_oQ r) p) c.
Definition run_preagg (lead_axis : bool) (k : nat) (grid : list Z) (h : Z) (c : list (list (list (option Q)))) : list float :=
  enc_cube (if lead_axis then preagg_leadtime Q (aggq k) grid h c else preagg_time Q (aggq k) grid h c).
