(* Model/ParseNumbers.v -- hand-written model of verif.util.parse_numbers (vector syntax of the
   command line): "3", "3,4,5", "3:5", "3:2:12", combinations; dates step by calendar days.
   Numbers are exact rationals (the implementation rounds np.arange results to 7 decimals; for
   inputs with at most 3 decimals the exact values are what the rounding produces).
   Error codes: 1 bad character, 2 empty value, 3 zero step, 4 more than three colon fields,
   5 unsupported by the model (non-integral / non-positive date step: see DESIGN.md).  No proofs here. *)
From Coq Require Import ZArith QArith List Bool Ascii String.
From VF Require Import Model.Data Model.Cal.
Import ListNotations.
Local Open Scope Z_scope.

Definition is_digit (c : ascii) : bool := (48 <=? Z.of_nat (nat_of_ascii c)) && (Z.of_nat (nat_of_ascii c) <=? 57).
Definition digit_val (c : ascii) : Z := Z.of_nat (nat_of_ascii c) - 48.
Definition allowed (c : ascii) : bool :=
  is_digit c || Ascii.eqb c "-" || Ascii.eqb c "." || Ascii.eqb c ":" || Ascii.eqb c ",".

Fixpoint split_on (sep : ascii) (s : list ascii) (cur : list ascii) : list (list ascii) :=
  match s with
  | [] => [rev cur]
  | c :: r => if Ascii.eqb c sep then rev cur :: split_on sep r [] else split_on sep r (c :: cur)
  end.

(* [-]digits[.digits]  (what float() accepts among the allowed characters, minus exotic forms
   such as "1.", ".5", "--1": those answer None = outside the model) *)
Fixpoint digits_val (s : list ascii) (acc : Z) : option Z :=
  match s with
  | [] => Some acc
  | c :: r => if is_digit c then digits_val r (acc * 10 + digit_val c) else None
  end.
Definition is_nil_a (l : list ascii) : bool := match l with [] => true | _ => false end.
Definition strip_sign (s : list ascii) : bool * list ascii :=
  match s with
  | c :: r => if Ascii.eqb c "-" then (true, r) else (false, s)
  | [] => (false, [])
  end.
Definition parse_decimal (s : list ascii) : option Q :=
  let '(neg, body) := strip_sign s in
  match split_on "." body [] with
  | [ip] =>
      if is_nil_a ip then None else
      match digits_val ip 0 with
      | Some v => Some (inject_Z (if neg then - v else v))
      | None => None
      end
  | [ip; fp] =>
      if is_nil_a ip || is_nil_a fp then None else
      match digits_val ip 0, digits_val fp 0 with
      | Some a, Some b =>
          let d := Z.pow 10 (Z.of_nat (List.length fp)) in
          let q := (a * d + b) # (Z.to_pos d) in
          Some (if neg then Qopp q else q)
      | _, _ => None
      end
  | _ => None
  end.

Definition qceil (q : Q) : Z := - ((- Qnum q) / Zpos (Qden q)).     (* ceiling *)

(* np.arange(start, stop, step): start + i*step for i < ceil((stop - start) / step) *)
Definition arange (start stop step : Q) : list Q :=
  let n := qceil ((stop - start) / step)%Q in
  if n <=? 0 then [] else map (fun i => (start + inject_Z (Z.of_nat i) * step)%Q) (seq 0 (Z.to_nat n)).

Definition q_is_int (q : Q) : option Z :=
  if (Qnum q mod Zpos (Qden q) =? 0) then Some (Qnum q / Zpos (Qden q)) else None.

(* dates: date, get_date(date, step), ... while date <= end (compared as YYYYMMDD integers) *)
Fixpoint date_range (fuel : nat) (daynum last_date step : Z) : list Z :=
  match fuel with
  | O => []
  | S f => let date := daynum_to_date daynum in
           if date <=? last_date then date :: date_range f (daynum + step) last_date step else []
  end.

Fixpoint date_range_down (fuel : nat) (daynum first_date step : Z) : list Z :=
  match fuel with
  | O => []
  | S f => let date := daynum_to_date daynum in
           if first_date <=? date then date :: date_range_down f (daynum + step) first_date step else []
  end.

Definition one_range (is_date : bool) (fields : list (list ascii)) : result (list Q) :=
  match fields with
  | [a] => match parse_decimal a with Some v => OK [v] | None => Error 5%nat end
  | [a; b] | [a; _; b] =>
      let stepf := match fields with [_; s; _] => parse_decimal s | _ => Some 1%Q end in
      match parse_decimal a, stepf, parse_decimal b with
      | Some start, Some step, Some stop =>
          if Qeq_bool step 0 then Error 3%nat else
          if is_date then
            match q_is_int start, q_is_int step, q_is_int stop with
            | Some d0, Some st, Some d1 =>
                (* the loop runs between min(start, end) and max(start, end): upwards for a positive
                   step, downwards from the later date for a negative one *)
                let lo := Z.min d0 d1 in let hi := Z.max d0 d1 in
                let first := if (0 <? st) then lo else hi in
                if negb (valid_date (first / 10000) (first / 100 mod 100) (first mod 100)) then Error 5%nat
                else if (0 <? st) then OK (map inject_Z (date_range (Z.to_nat (hi - lo + 2)) (date_to_daynum lo) hi st))
                else OK (map inject_Z (date_range_down (Z.to_nat (hi - lo + 2)) (date_to_daynum hi) lo st))
            | _, _, _ => Error 5%nat
            end
          else
            let sgn := if Qle_bool 0 step then 1%Q else (-1)%Q in
            OK (arange start (stop + sgn * (1 # 10000))%Q step)
      | _, _, _ => Error 5%nat
      end
  | _ => Error 4%nat
  end.

Fixpoint collect_ranges (is_date : bool) (parts : list (list ascii)) : result (list Q) :=
  match parts with
  | [] => OK []
  | p :: r =>
      let fields := split_on ":" p [] in
      if existsb (fun f => match f with [] => true | _ => false end) fields then Error 2%nat else
      match one_range is_date fields with
      | Error e => Error e
      | OK v => match collect_ranges is_date r with OK t => OK (v ++ t) | Error e => Error e end
      end
  end.

Definition parse_numbers (is_date : bool) (s : string) : result (list Q) :=
  let cs := list_ascii_of_string s in
  if negb (forallb allowed cs) then Error 1%nat
  else collect_ranges is_date (split_on "," cs []).
