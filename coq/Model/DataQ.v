(* Model/DataQ.v -- the dataset model instantiated at V := Q, plus the canonical rendering of
   its results as flat float lists for the correspondence check. *)
From Coq Require Import ZArith QArith List Bool PrimFloat.
From VF Require Import Base.Num Model.Data Model.Cal.
Import ListNotations.

Definition qltb (a b : Q) : bool := negb (Qle_bool b a).
Definition qsub (a b : Q) : option Q := Some (a - b)%Q.
Definition qdiv (a b : Q) : option Q := if Qeq_bool b 0 then None else Some (a / b)%Q.

Definition inputQ := input Q.
Definition configQ := config Q.
Definition dataQ := data Q.
Definition mk_dataQ : configQ -> list inputQ -> result dataQ := @mk_data Q.
Definition get_scoresQ := @get_scores Q qltb qsub qdiv.

Local Open Scope float_scope.
Definition f_of_Z (z : Z) : float := FloatInst.f_ofZ z.
Definition f_of_nat (n : nat) : float := FloatInst.f_ofZ (Z.of_nat n).
Definition f_of_Q (q : Q) : float := FloatInst.f_ofZ (Qnum q) / FloatInst.f_ofpos (Qden q).
Definition f_of_oQ (o : option Q) : float := match o with Some q => f_of_Q q | None => nan end.

Definition enc_col (c : list (option Q)) : list float := f_of_nat (length c) :: map f_of_oQ c.
Definition enc_scores (r : result (list (list (option Q)))) : list float :=
  match r with
  | Error e => [-7; f_of_nat e]
  | OK cols => f_of_nat (length cols) :: flat_map enc_col cols
  end.
Definition enc_zlist (l : list Z) : list float := f_of_nat (length l) :: map f_of_Z l.
Definition enc_dims (d : dataQ) : list float :=
  enc_zlist (d_times d) ++ enc_zlist (d_leads d) ++ enc_zlist (map l_id (d_locs d)).

(* axes by number (the harness uses the same numbering) *)
Definition axis_of (n : nat) : axis :=
  match n with
  | 0 => AxTime | 1 => AxLead | 2 => AxLoc | 3 => AxNo
  | 4 => AxLeadBucket leadtimeday
  | 5 => AxTimeBucket year_start | 6 => AxTimeBucket month_start | 7 => AxTimeBucket week_start
  | 8 => AxTimeBucket day_start | 9 => AxTimeBucket second_of_day | 10 => AxTimeBucket dayofyear
  | 11 => AxTimeBucket dayofmonth | _ => AxTimeBucket monthofyear
  end%nat.

Definition request := (list field * nat * nat * nat)%type.   (* fields, input, axis number, slice *)

Definition run_case (cfg : configQ) (ins : list inputQ) (reqs : list request) : list float :=
  match mk_dataQ cfg ins with
  | Error e => [-7; f_of_nat e]
  | OK d =>
      enc_dims d ++
      flat_map (fun r => let '(fs, k, ax, ai) := r in
                         -9 :: enc_scores (get_scoresQ d fs k (axis_of ax) ai)) reqs
  end.

(* sizes of all axes, for the harness to enumerate slices *)
Definition axis_sizes (cfg : configQ) (ins : list inputQ) : list float :=
  match mk_dataQ cfg ins with
  | Error e => [-7; f_of_nat e]
  | OK d => map (fun n => f_of_nat (axis_size d (axis_of n))) (seq 0 13)
  end.
