(* Model/Rank.v -- the rank view (-type rank, Standard._plot_rank_core): every slice of the axis is
     Invalid   some input has no score there (the slice is left out),
     Tie       the first two inputs are closer than the tolerance (counted under "None"),
     Ranked p  p = the inputs ordered by score (argsort; reversed for positively oriented scores).
   The bar of input i at rank position j is the share of the counted slices in which input i stands at position j. *)
From Coq Require Import List Arith Bool.
Import ListNotations.

Inductive slice := Invalid | Tie | Ranked (p : list nat).

Definition counted (s : slice) : bool := match s with Invalid => false | _ => true end.
Definition is_tie (s : slice) : bool := match s with Tie => true | _ => false end.
Definition at_pos (F i j : nat) (s : slice) : bool := match s with Ranked p => Nat.eqb (nth j p F) i | _ => false end.

Definition count_slices (f : slice -> bool) (rows : list slice) : nat := length (filter f rows).
(* numerator of the bar of input i at rank position j; of the "None" bar; denominator *)
Definition rank_count (F i j : nat) (rows : list slice) : nat := count_slices (at_pos F i j) rows.
Definition tie_count (rows : list slice) : nat := count_slices is_tie rows.
Definition valid_count (rows : list slice) : nat := count_slices counted rows.
