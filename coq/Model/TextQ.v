(* Model/TextQ.v -- rendering of the text-reader model for the correspondence check. *)
From Coq Require Import ZArith QArith List Bool String PrimFloat.
From VF Require Import Base.Num Model.Data Model.DataQ Model.ParseNumbers Model.TextParse.
Import ListNotations.
Local Open Scope float_scope.

Definition enc_text (r : result text_input) (cols : list string) : list float :=
  match r with
  | Error e => [-7; f_of_nat e]
  | OK ti =>
      (enc_zlist (t_times ti) ++ enc_zlist (t_leads ti)
       ++ (f_of_nat (List.length (t_locs ti)) :: flat_map (fun s => [f_of_Z (l_id s); f_of_Z (l_lat s); f_of_Z (l_lon s); f_of_Z (l_elev s)]) (t_locs ti))
       ++ flat_map (fun name => flat_map (fun p => flat_map (fun row => map f_of_oQ row) p) (t_cube ti name)) cols)%list
  end.
Definition run_text (header : list string) (rows : list (list string)) (cols : list string) : list float :=
  enc_text (parse_text header rows) cols.
