(* Model/Render.v -- canonical rendering of model results as lists of primitive floats, so the
   harness can print one line per case with vm_compute and parse it without ambiguity. *)
From Coq Require Import PrimFloat List Bool.
From VF Require Import Base.Num Base.Vec Base.Event.
Import ListNotations.
Local Open Scope float_scope.

Definition r_bool (b : bool) : float := if b then 1 else 0.
Definition r_obool (o : option bool) : float :=
  match o with None => 2 | Some true => 1 | Some false => 0 end.
(* error exits are rendered as the sentinel -7 *)
Definition r_ofloat (o : option float) : list float :=
  match o with Some v => [v] | None => [-7] end.
Definition r_interval (o : option (interval XF)) : list float :=
  match o with
  | Some iv => [(iv_lower iv : float); (iv_upper iv : float); r_bool (iv_lower_eq iv); r_bool (iv_upper_eq iv)]
  | None => [-7]
  end.
Definition r_quad (q : float * float * float * float) : list float :=
  let '(a, b, c, d) := q in [a; b; c; d].
