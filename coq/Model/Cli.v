(* Model/Cli.v -- hand-written generic model of the argument loop of verif.driver.run, driven by
   the GENERATED option tables (Gen/Gen_cli.v), composed with Model/ParseNumbers.v and Model/Data.v
   for the data-selection options.  No proofs here.
   Error codes: 11 missing value after a flag, 12 unknown flag, 13 --config without file name,
   14 unreadable config file, 15 a range option without exactly two values, 16 -T <= 0,
   17 quantile outside [0,1], 18 value outside the model (non-integral time etc.), 20+e parse_numbers error e. *)
From Coq Require Import ZArith QArith List Bool Ascii String.
From VF Require Import Model.Data Model.Cal Model.DataQ Model.ParseNumbers Gen.Gen_cli.
Import ListNotations.
Local Open Scope string_scope.

Definition starts_dash (s : string) : bool :=
  match s with String c _ => Ascii.eqb c "-" | EmptyString => false end.

Record parsed := { p_assign : list (string * string); p_files : list string }.
Definition assign (v c : string) (p : parsed) : parsed :=
  {| p_assign := (p_assign p ++ [(v, c)])%list; p_files := p_files p |}.
Definition add_file (f : string) (p : parsed) : parsed :=
  {| p_assign := p_assign p; p_files := (p_files p ++ [f])%list |}.

Section Loop.
(* the tables are parameters so that the theorems hold for ANY option table *)
Variable bflags : list (string * string * string).
Variable vflags : list (string * string * string * string * string).

Definition find_bool (a : string) := find (fun f => String.eqb a (fst (fst f))) bflags.
Definition find_val (a : string) := find (fun f => String.eqb a (fst (fst (fst (fst f))))) vflags.

Fixpoint parse_loop (argv : list string) (acc : parsed) : result parsed :=
  match argv with
  | [] => OK acc
  | arg :: rest =>
      if starts_dash arg then
        match find_bool arg with
        | Some (_, var, const) => parse_loop rest (assign var const acc)
        | None =>
            match rest with
            | [] => Error 11%nat
            | v :: rest' =>
                match find_val arg with
                | Some (_, var, _, evar, econst) =>
                    let acc1 := assign var v acc in
                    parse_loop rest' (if String.eqb evar "" then acc1 else assign evar econst acc1)
                | None => if String.eqb arg "--config" then parse_loop rest' acc else Error 12%nat
                end
            end
        end
      else parse_loop rest (add_file arg acc)
  end.
End Loop.

(* first pass: the tokens of every --config file are appended to the command line *)
Fixpoint config_tokens (read : string -> option (list string)) (argv : list string) : result (list string) :=
  match argv with
  | [] => OK []
  | a :: rest =>
      if String.eqb a "--config" then
        match rest with
        | [] => Error 13%nat
        | f :: rest' =>
            match read f with
            | None => Error 14%nat
            | Some toks => match config_tokens read rest' with OK t => OK (toks ++ t)%list | Error e => Error e end
            end
        end
      else config_tokens read rest
  end.

(* argv[0] is the program name: both passes start at index 1 *)
Definition parse_args (read : string -> option (list string)) (argv : list string) : result parsed :=
  match config_tokens read (tl argv) with
  | Error e => Error e
  | OK extra => parse_loop bool_flags valued_flags (tl argv ++ extra)%list {| p_assign := []; p_files := [] |}
  end.

(* the last assignment to a variable wins *)
Definition lookup (var : string) (p : parsed) : option string :=
  match find (fun a => String.eqb var (fst a)) (rev (p_assign p)) with Some a => Some (snd a) | None => None end.

(* ---- from the parsed variables to the constructor arguments of verif.data.Data ------------- *)
Definition numbers_of (is_date : bool) (tok : option string) : result (option (list Q)) :=
  match tok with
  | None => OK None
  | Some s => match parse_numbers is_date s with OK l => OK (Some l) | Error e => Error (20 + e)%nat end
  end.

Definition q_to_int (q : Q) : option Z := q_is_int q.
Definition q_to_milli (q : Q) : option Z := q_is_int (q * 1000)%Q.
Fixpoint all_opt {A B} (f : A -> option B) (l : list A) : option (list B) :=
  match l with
  | [] => Some []
  | x :: r => match f x, all_opt f r with Some y, Some t => Some (y :: t) | _, _ => None end
  end.
Definition keep_opt {A B} (f : A -> option B) (l : list A) : list B :=
  flat_map (fun x => match f x with Some y => [y] | None => [] end) l.

Definition range2 (l : option (list Q)) : result (option (Z * Z)) :=
  match l with
  | None => OK None
  | Some [a; b] => match q_to_milli a, q_to_milli b with Some x, Some y => OK (Some (x, y)) | _, _ => Error 18%nat end
  | Some _ => Error 15%nat
  end.

Definition data_var (kw : string) : string :=
  match find (fun a => String.eqb kw (fst a)) data_args with Some a => snd a | None => "" end.

(* which input a file name denotes is given by the harness *)
Definition build_config (p : parsed) (files : string -> option inputQ) : result configQ :=
  let tok kw := lookup (data_var kw) p in
  match numbers_of false (tok "times"), numbers_of true (tok "dates"), numbers_of false (tok "tods"),
        numbers_of false (tok "leadtimes"), numbers_of false (tok "locations"), numbers_of false (tok "locations_x"),
        numbers_of false (tok "lat_range"), numbers_of false (tok "lon_range"), numbers_of false (tok "elev_range"),
        numbers_of false (tok "obs_range") with
  | OK times, OK dates, OK tods, OK leads, OK locs, OK locsx, OK lat, OK lon, OK elev, OK obsr =>
    match range2 lat, range2 lon, range2 elev with
    | OK latr, OK lonr, OK elevr =>
      match (match obsr with None => OK None | Some [a; b] => OK (Some (a, b)) | Some _ => Error 15%nat end) with
      | Error e => Error e
      | OK obs_range =>
        let clim := match tok "clim" with Some f => files f | None => None end in
        let divide := match lookup (data_var "clim_type") p with Some "divide" => true | _ => false end in
        OK {| c_times := option_map (keep_opt q_to_int) times;
              c_dates := option_map (fun l => map date_to_unixtime (keep_opt q_to_int l)) dates;
              c_tods := option_map (fun l => map (fun q => Z.quot (Qnum q) (Zpos (Qden q)) * 1000)%Z l) tods;
              c_leads := option_map (keep_opt q_to_milli) leads;
              c_locs := option_map (keep_opt q_to_int) locs;
              c_locs_x := option_map (keep_opt q_to_int) locsx;
              c_lat := latr; c_lon := lonr; c_elev := elevr; c_obs_range := obs_range;
              c_clim := clim; c_clim_divide := divide |}
      end
    | Error e, _, _ | _, Error e, _ | _, _, Error e => Error e
    end
  | Error e, _, _, _, _, _, _, _, _, _ | _, Error e, _, _, _, _, _, _, _, _ | _, _, Error e, _, _, _, _, _, _, _
  | _, _, _, Error e, _, _, _, _, _, _ | _, _, _, _, Error e, _, _, _, _, _ | _, _, _, _, _, Error e, _, _, _, _
  | _, _, _, _, _, _, Error e, _, _, _ | _, _, _, _, _, _, _, Error e, _, _ | _, _, _, _, _, _, _, _, Error e, _
  | _, _, _, _, _, _, _, _, _, Error e => Error e
  end.

(* -T must be positive; quantiles (-q) must lie in [0, 1] *)
Definition validate (p : parsed) : result unit :=
  let tcheck :=
    match lookup (data_var "dim_agg_length") p with
    | None => OK tt
    | Some s => match parse_decimal (list_ascii_of_string s) with
                | Some q => match q_is_int q with
                            | Some z => if (z <=? 0)%Z then Error 16%nat else OK tt
                            | None => Error 18%nat
                            end
                | None => Error 18%nat
                end
    end in
  match tcheck with
  | Error e => Error e
  | OK _ =>
    match lookup "quantiles" p with
    | None => OK tt
    | Some s => match parse_numbers false s with
                | Error e => Error (20 + e)%nat
                | OK l => if existsb (fun q => negb (Qle_bool 0 q) || negb (Qle_bool q 1)) l then Error 17%nat else OK tt
                end
    end
  end.

(* what --list-times / --list-locations print: the verified dimensions *)
Definition cli_dims (read : string -> option (list string)) (files : string -> option inputQ) (argv : list string)
  : result (list Z * list Z * list Z) :=
  match parse_args read argv with
  | Error e => Error e
  | OK p =>
    match validate p, build_config p files with
    | Error e, _ => Error e
    | _, Error e => Error e
    | OK _, OK cfg =>
      match all_opt files (p_files p) with
      | None => Error 19%nat
      | Some ins =>
        match mk_dataQ cfg ins with
        | Error e => Error e
        | OK d => OK (d_times d, d_leads d, map l_id (d_locs d))
        end
      end
    end
  end.
