(* Model/Scripts.v -- hand-written models of the helper scripts' transformations (scripts/accumulate.py,
   ens2prob.py, expandverif.py), per series / per case.  Writing NetCDF files is outside the model.
   No proofs here. *)
From Coq Require Import ZArith QArith List Bool.
Import ListNotations.
Local Open Scope Q_scope.

Definition osum (l : list (option Q)) : option Q :=
  fold_left (fun acc x => match acc, x with Some a, Some b => Some (a + b) | _, _ => None end) l (Some 0).
Definition zero_missing (l : list (option Q)) : list (option Q) :=
  map (fun x => match x with Some v => Some v | None => Some 0 end) l.

Fixpoint drop {A} (n : nat) (l : list A) : list A :=
  match n, l with O, _ => l | _, [] => [] | S m, _ :: t => drop m t end.
Fixpoint take {A} (n : nat) (l : list A) : list A :=
  match n, l with O, _ => [] | _, [] => [] | S m, x :: t => x :: take m t end.

(* accumulate -w w (w >= 2): position i holds the sum of positions i-w+1 .. i; incomplete windows
   are missing; with -i missing values count as 0 (but incomplete windows stay missing) *)
Definition acc_window (w : nat) (ignore : bool) (s : list (option Q)) : list (option Q) :=
  let s' := if ignore then zero_missing s else s in
  map (fun i => if Nat.ltb i (w - 1) then None else osum (take w (drop (i + 1 - w) s'))) (seq 0 (length s)).

(* accumulate without -w: running sum from the start (np.cumsum / np.nancumsum) *)
Definition acc_cumulative (ignore : bool) (s : list (option Q)) : list (option Q) :=
  let s' := if ignore then zero_missing s else s in
  map (fun i => osum (take (S i) s')) (seq 0 (length s)).

Definition accumulate (w : option nat) (ignore : bool) (s : list (option Q)) : list (option Q) :=
  match w with
  | None => acc_cumulative ignore s
  | Some n => if Nat.ltb 1 n then acc_window n ignore s else s
  end.

(* ens2prob: cumulative probability at a threshold = fraction of the PRESENT members strictly below it *)
Definition present (members : list (option Q)) : list Q :=
  flat_map (fun m => match m with Some v => [v] | None => [] end) members.
Definition qltb (a b : Q) : bool := negb (Qle_bool b a).
Definition count_below (t : Q) (l : list Q) : nat := length (filter (fun m => qltb m t) l).
Definition ens_cdf (t : Q) (members : list (option Q)) : option Q :=
  match present members with
  | [] => None
  | p => Some (inject_Z (Z.of_nat (count_below t p)) / inject_Z (Z.of_nat (length p)))
  end.

(* quantiles: zero-order hold on the sorted members at levels linspace(0, 1, M); level 1 is the maximum *)
Fixpoint qinsert (x : Q) (l : list Q) : list Q :=
  match l with [] => [x] | h :: t => if Qle_bool x h then x :: l else h :: qinsert x t end.
Definition qsort (l : list Q) : list Q := fold_right qinsert [] l.
Definition qfloor (q : Q) : Z := Qnum q / Zpos (Qden q).
Definition ens_quantile (q : Q) (members : list Q) : option Q :=
  match members with
  | [] => None
  | x :: _ =>
      let s := qsort members in
      let m := length members in
      if Qeq_bool q 1 then Some (last s x)
      else Some (nth (Z.to_nat (qfloor (q * inject_Z (Z.of_nat (m - 1))))) s x)
  end.

(* PIT: fraction of members strictly below the observation *)
Definition ens_pit (obs : option Q) (members : list Q) : option Q :=
  match obs, members with
  | Some o, _ :: _ => Some (inject_Z (Z.of_nat (count_below o members)) / inject_Z (Z.of_nat (length members)))
  | _, _ => None
  end.

(* expandverif: the observation placed at (initialisation time, lead time) is that of the first
   source case (time-major order) with the same valid time; nothing otherwise *)
Definition valid_times (times leads : list Z) : list Z :=
  flat_map (fun t => map (fun l => (t + l)%Z) leads) times.      (* lead times already in seconds *)
Fixpoint find_index (p : Z -> bool) (l : list Z) (i : nat) : option nat :=
  match l with [] => None | x :: r => if p x then Some i else find_index p r (S i) end.
Definition expand_cell {A} (src_times src_leads : list Z) (src_rows : list A) (t l : Z) : option A :=
  match find_index (Z.eqb (t + l)) (valid_times src_times src_leads) O with
  | Some i => nth_error src_rows i
  | None => None
  end.
