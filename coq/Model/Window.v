(* Model/Window.v -- hand-written model of verif.data.preaggregate_leadtime / preaggregate_time
   (-T h, -Tagg, -Tx): every position t of a series is replaced by the aggregate of the positions
   from the FIRST index whose coordinate is > grid[t] - h through t (in file order).  No proofs here. *)
From Coq Require Import ZArith List Bool.
Import ListNotations.
Local Open Scope Z_scope.

(* np.where(grid > start)[0][0] *)
Fixpoint first_above (start : Z) (grid : list Z) (i : nat) : option nat :=
  match grid with
  | [] => None
  | g :: r => if start <? g then Some i else first_above start r (S i)
  end.

(* range(i0, t+1) *)
Definition window (grid : list Z) (h : Z) (t : nat) : list nat :=
  match first_above (nth t grid 0 - h) grid O with
  | Some i0 => seq i0 (S t - i0)
  | None => []
  end.

Section W.
Variable V : Type.
Variable agg : list (option V) -> option V.

Definition preagg_series (grid : list Z) (h : Z) (s : list (option V)) : list (option V) :=
  map (fun t => agg (map (fun i => nth i s None) (window grid h t))) (seq 0 (length grid)).

(* cubes are [time][lead][location] *)
Definition cube := list (list (list (option V))).
Definition nloc (c : cube) : nat := length (hd [] (hd [] c)).
Definition nlead (c : cube) : nat := length (hd [] c).

(* along lead time: for every (time, location) the series over the lead index *)
Definition preagg_leadtime (leads : list Z) (h : Z) (c : cube) : cube :=
  map (fun plane =>
         let ns := length (hd [] plane) in
         let per_loc := map (fun s => preagg_series leads h (map (fun row => nth s row None) plane)) (seq 0 ns) in
         map (fun b => map (fun sl => nth b sl None) per_loc) (seq 0 (length leads)))
      c.

(* along time (h given in hours: the grid is in seconds) *)
Definition preagg_time (times : list Z) (h_seconds : Z) (c : cube) : cube :=
  let nl := nlead c in let ns := nloc c in
  let series b s := map (fun plane => nth s (nth b plane []) None) c in
  let res := map (fun b => map (fun s => preagg_series times h_seconds (series b s)) (seq 0 ns)) (seq 0 nl) in
  map (fun a => map (fun b => map (fun s => nth a (nth s (nth b res []) []) None) (seq 0 ns)) (seq 0 nl))
      (seq 0 (length times)).
End W.
