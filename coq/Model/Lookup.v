(* Model/Lookup.v -- how Data._get_score finds a stored threshold (or quantile) column of ONE input:
   I = np.where(np.isclose(input.thresholds, field.threshold))[0]; the column is threshold_scores[..., I[0]]
   when I is not empty, otherwise the field is derived from the ensemble (or the run stops).
   Thresholds are exact rationals here (np.isclose on values that are equal or clearly apart). *)
From Coq Require Import QArith List Bool.
Import ListNotations.

Section L.
Variable A : Type.      (* a column: the array of one threshold *)

Fixpoint find_index (thr : list Q) (t : Q) (i : nat) : option nat :=
  match thr with
  | [] => None
  | x :: r => if Qeq_bool x t then Some i else find_index r t (S i)
  end.

(* the column delivered for threshold t by an input that stores the thresholds `thr` with the columns `cols` *)
Definition stored_column (thr : list Q) (cols : list A) (t : Q) : option A :=
  match find_index thr t 0 with
  | Some i => nth_error cols i
  | None => None          (* not stored: derived from the ensemble, or an error exit *)
  end.
End L.
