(* Model/Brier.v -- hand-written glue around the GENERATED per-bin bodies of BsRel/BsRes/BssRel/BssRes
   (Gen/Gen_prob.v): the loop over the 10 probability bins writing into an array initialised with
   NaN, the final nanmean and the division by the uncertainty; and the ensemble-derived fields of
   Data._get_score.  Generic over NumOps (runs on floats, theorems at XR).  No proofs here. *)
From Coq Require Import ZArith List Bool.
From VF Require Import Base.Num Base.Vec Base.Event Gen.Gen_interval Gen.Gen_prob.
Import ListNotations.

Section B.
Variable Ops : NumOps.
Notation T := (numT Ops).

(* bs[I] = values: positions of the mask take the next value, in order *)
Fixpoint place (mask : list bool) (vals : list T) (arr : list T) : list T :=
  match mask, arr with
  | [], _ => arr
  | _, [] => []
  | true :: m, a :: r => match vals with v :: vs => v :: place m vs r | [] => a :: place m [] r end
  | false :: m, a :: r => a :: place m vals r
  end.

Definition binned (bin : T -> T -> T -> list T -> list T -> list bool * list T) (obs fcst : list T) : T :=
  let obs_mean := vmean Ops obs in
  let init := map (fun _ => n_nan Ops) fcst in
  let arr := fold_left (fun a e => let '(m, v) := bin (fst e) (snd e) obs_mean obs fcst in place m v a)
                       (consecutive Ops (brier_edges Ops)) init in
  vnanmean Ops arr.

Definition BsRel_model := binned (BsRel_bin Ops).
Definition BsRes_model := binned (BsRes_bin Ops).
Definition bsunc (obs : list T) : T :=
  let om := vmean Ops obs in vnanmean Ops (map (fun x => sq Ops (n_sub Ops om x)) obs).
Definition over_unc (x : T) (obs : list T) : T :=
  if n_eqb Ops (bsunc obs) (n_lit Ops 0 1) then n_nan Ops else n_div Ops x (bsunc obs).
Definition BssRel_model (obs fcst : list T) : T := over_unc (binned (BssRel_bin Ops) obs fcst) obs.
Definition BssRes_model (obs fcst : list T) : T := over_unc (binned (BssRes_bin Ops) obs fcst) obs.

(* ---- ensemble-derived fields (data.py:508-548) --------------------------------------------- *)
(* P(X <= t) = fraction of the non-missing members at or below t; missing when no member is present *)
Definition thr_from_ens (t : T) (members : list T) : T :=
  let present := filter (fun m => negb (n_isnan Ops m)) members in
  n_div Ops (n_ofnat Ops (length (filter (fun m => n_leb Ops m t) present))) (n_ofnat Ops (length present)).

(* np.quantile(members, q, method="normal_unbiased"): virtual index n q + q/4 + 3/8 - 1 (0-based), clipped
   to [0, n-1], linear interpolation between the neighbouring order statistics; any missing member => NaN *)
Definition quantile_from_ens (q : T) (members : list T) : T :=
  if vanynan Ops members then n_nan Ops else
  match members with
  | [] => n_nan Ops
  | _ =>
    let s := vsort Ops members in
    let n := length members in
    let h0 := n_sub Ops (n_add Ops (n_add Ops (n_mul Ops (n_ofnat Ops n) q) (n_div Ops q (n_lit Ops 4 1))) (n_lit Ops 3 8)) (n_lit Ops 1 1) in
    let h := if n_ltb Ops h0 (n_lit Ops 0 1) then n_lit Ops 0 1
             else if n_ltb Ops (n_ofnat Ops (n - 1)) h0 then n_ofnat Ops (n - 1) else h0 in
    perc_scan Ops s h 0 n
  end.
End B.
