(* Model/Diagrams.v -- hand-written models of the defining statistics of the special diagrams of
   verif/output.py, over any NumOps instance (theorems: XR, evaluation: XF).  Inputs are the arrays
   data.get_scores returns (the common valid cases of each input; C01-C15 cover that part), outputs are
   the coordinates handed to matplotlib.  No proofs here. *)
From Coq Require Import ZArith List Bool.
From VF Require Import Base.Num Base.Vec Base.Event Gen.Gen_interval Gen.Gen_contingency.
Import ListNotations.

Section D.
Variable Ops : NumOps.
Notation T := (numT Ops).
Notation vec := (list T).
Notation nan := (n_nan Ops).

Definition lit (z : Z) : T := n_lit Ops z 1.
Definition vsel (mask : list bool) (v : vec) : vec := vselect mask v.
Definition notnan (x : T) : bool := negb (n_isnan Ops x).
(* np.mean of a possibly empty selection: nan (with a warning) when empty *)
Definition mean_sel (mask : list bool) (v : vec) : T := vmean Ops (vsel mask v).
(* verif.util.nanmean: mean of the non-missing values, nan when there is none *)
Definition nanmean (v : vec) : T := vmean Ops (filter notnan v).

(* ---- bins ----------------------------------------------------------------------------------- *)
Definition in_co (lo hi v : T) : bool := n_leb Ops lo v && n_ltb Ops v hi.     (* lo <= v <  hi *)
Definition in_oc (lo hi v : T) : bool := n_ltb Ops lo v && n_leb Ops v hi.     (* lo <  v <= hi *)
Definition in_cc (lo hi v : T) : bool := n_leb Ops lo v && n_leb Ops v hi.     (* lo <= v <= hi *)
Fixpoint pairs (edges : vec) : list (T * T) :=
  match edges with a :: ((b :: _) as r) => (a, b) :: pairs r | _ => [] end.
(* the binning rules found in verif/output.py and verif/util.py *)
Inductive binrule : Type :=
| CO            (* [e_i, e_i+1)                         util.bin, scatter boxes *)
| COL           (* [e_i, e_i+1), last bin closed        np.histogram, reliability, discrimination *)
| OC            (* (e_i, e_i+1]                         spread-skill *)
| OCF.          (* (e_i, e_i+1], first bin closed       change *)
(* for each bin, in order: does it contain v? *)
Fixpoint member (rule : binrule) (first : bool) (edges : vec) (v : T) : list bool :=
  match edges with
  | a :: ((b :: r) as t) =>
      let last := match r with [] => true | _ => false end in
      (match rule with
       | CO => in_co a b v
       | COL => if last then in_cc a b v else in_co a b v
       | OC => in_oc a b v
       | OCF => if first then in_cc a b v else in_oc a b v
       end) :: member rule false t v
  | _ => []
  end.
(* mask of the values lying in bin i *)
Definition bin_mask (rule : binrule) (edges : vec) (i : nat) (values : vec) : list bool :=
  map (fun v => nth i (member rule true edges v) false) values.
Definition nbins (edges : vec) : nat := length (pairs edges).

(* ---- -hist: share (%) of the values inside each interval ------------------------------------------------ *)
Definition count_within (iv : interval Ops) (v : vec) : T :=
  n_ofnat Ops (length (filter (fun x => is_some_true (iv_within Ops iv x)) v)).
Definition hist_percent (ivs : list (interval Ops)) (v : vec) : vec :=
  let c := map (fun iv => count_within iv v) ivs in
  map (fun x => n_div Ops (n_mul Ops x (lit 100)) (vsum Ops c)) c.

(* ---- -sort / qq: sorted values ------------------------------------------------------------------------- *)
Definition sorted (v : vec) : vec := vsort Ops v.
(* np.linspace(0, 100, n)[i] *)
Definition percent_axis (n : nat) : vec :=
  match n with
  | O => []
  | S O => [lit 0]
  | _ => map (fun i => n_mul Ops (n_ofnat Ops i) (n_div Ops (lit 100) (n_ofnat Ops (n - 1)))) (seq 0 n)
  end.

(* ---- change: MAE against the change of the observation from the previous time ----------------------- *)
(* obs, fcst: one flat vector (lead time x location) per time, in time order *)
Fixpoint diffs (rows : list vec) : list vec :=
  match rows with a :: ((b :: _) as r) => vmap2 Ops (n_sub Ops) b a :: diffs r | _ => [] end.
Definition abs_err (obs fcst : list vec) : list vec :=
  map (fun p => vmap2 Ops (fun o f => n_abs Ops (n_sub Ops o f)) (fst p) (snd p)) (combine obs fcst).
Definition change_curve (edges : vec) (obs fcst : list vec) : vec * vec :=
  let ch := concat (diffs obs) in
  let er := concat (tl (abs_err obs fcst)) in
  (map (fun i => nanmean (vsel (bin_mask OCF edges i ch) ch)) (seq 0 (nbins edges)),
   map (fun i => nanmean (vsel (bin_mask OCF edges i ch) er)) (seq 0 (nbins edges))).

(* ---- cond: mean of y where x lies in the interval (metric.Conditional / XConditional) ------------------ *)
Definition cond_mean (iv : interval Ops) (x y : vec) : T :=
  mean_sel (map (fun v => is_some_true (iv_within Ops iv v)) x) y.

Definition cond_median (iv : interval Ops) (x : vec) : T :=
  vmedian Ops (vsel (map (fun v => is_some_true (iv_within Ops iv v)) x) x).

(* ---- reliability: per probability bin [e_i, e_i+1): mean probability, observed frequency, count ------ *)
Definition rel_bin (min_count : nat) (edges : vec) (i : nat) (obs01 p : vec) : T * T * T :=
  let m := bin_mask COL edges i p in
  let n := length (vsel m p) in
  (if Nat.eqb n 0 then lit 0 else vmean Ops (vsel m p),
   if Nat.leb min_count n && negb (Nat.eqb n 0) then vmean Ops (vsel m obs01) else nan,
   n_ofnat Ops n).
Definition reliability (min_count : nat) (edges obs01 p : vec) : list (T * T * T) :=
  map (fun i => rel_bin min_count edges i obs01 p) (seq 0 (nbins edges)).

(* ---- discrimination: share (%) of the forecasts in each bin, given the event did / did not occur -------- *)
Definition discrimination (edges obs01 p : vec) : vec * vec :=
  let p0 := vsel (map (fun o => n_eqb Ops o (lit 0)) obs01) p in
  let p1 := vsel (map (fun o => n_eqb Ops o (lit 1)) obs01) p in
  let share (q : vec) (i : nat) :=
      n_mul Ops (n_div Ops (n_ofnat Ops (length (vsel (bin_mask COL edges i q) q))) (n_ofnat Ops (length q))) (lit 100) in
  (map (share p0) (seq 0 (nbins edges)), map (share p1) (seq 0 (nbins edges))).

(* ---- roc: hit rate and false alarm rate for the event "probability >= level" -------------------------- *)
Definition roc_point (level : T) (ev : list bool) (p : vec) : T * T :=
  let fy := map (fun q => n_leb Ops level q) p in
  let cnt (f : bool -> bool -> bool) := length (filter (fun b => b) (map (fun z => f (fst z) (snd z)) (combine fy ev))) in
  let a := cnt andb in
  let b := cnt (fun x y => x && negb y) in
  let c := cnt (fun x y => negb x && y) in
  let d := cnt (fun x y => negb x && negb y) in
  if Nat.ltb 0 (a + c) && Nat.ltb 0 (b + d)
  then (n_div Ops (n_ofnat Ops b) (n_ofnat Ops (b + d)), n_div Ops (n_ofnat Ops a) (n_ofnat Ops (a + c)))
  else (nan, nan).
Definition roc (levels : vec) (ev : list bool) (p : vec) : list (T * T) :=
  ((lit 1, lit 1) :: map (fun l => roc_point l ev p) levels) ++ [(lit 0, lit 0)].

(* ---- pithist: np.histogram (last bin closed on the right), as shares in % ------------------------------- *)
Definition histogram (edges v : vec) : list nat :=
  map (fun i => length (vsel (bin_mask COL edges i v) v)) (seq 0 (nbins edges)).
Definition pithist (edges pit : vec) : vec :=
  let c := histogram edges pit in
  let tot := fold_left Nat.add c 0%nat in
  map (fun k => n_mul Ops (n_div Ops (n_mul Ops (n_ofnat Ops k) (lit 1)) (n_ofnat Ops tot)) (lit 100)) c.

(* ---- spread-skill: per spread bin (t_i-1, t_i]: mean spread and RMSE ----------------------------------------- *)
Definition spreadskill (thresholds obs fcst lower upper : vec) : vec * vec :=
  let spread := vmap2 Ops (n_sub Ops) upper lower in
  let skill := vmap2 Ops (fun o f => sq Ops (n_sub Ops o f)) obs fcst in
  let one (b : T * T) :=
      let m := map (fun z => notnan (fst z) && notnan (snd z) && in_oc (fst b) (snd b) (fst z)) (combine spread skill) in
      if Nat.eqb (length (vsel m spread)) 0 then (nan, nan)
      else (vmean Ops (vsel m spread), n_sqrt Ops (vmean Ops (vsel m skill))) in
  let r := map one (pairs thresholds) in
  (nan :: map fst r, nan :: map snd r).

(* ---- verif.util.fill: polygon along the lower curve, back along the upper one ---------------------------- *)
Definition fill_polygon (x lower upper : vec) : list (T * T) :=
  let keep (y : vec) := filter (fun p => notnan (fst p) && notnan (snd p)) (combine x y) in
  keep lower ++ rev (keep upper).
(* which columns of the obsfcst table bound the i-th shaded band of input f (F inputs, nq quantiles) *)
Definition obsfcst_band (F f nq i : nat) : nat * nat := (F + f + 1 + i * F, F + f + 1 + F * (nq - 1 - i))%nat.

(* ---- freq: share of the values inside each interval (np.nanmean of the masked membership) ------------------- *)
Definition freq_line (ivs : list (interval Ops)) (v : vec) : vec :=
  map (fun iv => mamean Ops (map (iv_within Ops iv) v)) ivs.

(* ---- marginal: mean forecast probability of the event and observed frequency, per threshold ----------------- *)
Definition marginal_point (ev01 p : vec) : T * T := (vmean Ops p, vmean Ops ev01).

(* ---- error decomposition: systematic error (mean obs - fcst) against unsystematic error sqrt(mse - bias^2) ------ *)
Definition error_point (obs fcst : vec) : T * T :=
  let e := vmap2 Ops (n_sub Ops) obs fcst in
  let s := vmean Ops e in
  let mse := vmean Ops (map (sq Ops) e) in
  (n_sqrt Ops (n_sub Ops (sq Ops (n_sqrt Ops mse)) (sq Ops s)), s).

(* ---- Taylor diagram: forecast standard deviation at the angle arccos(correlation) ----------------------------------- *)
Definition taylor_point (normalise : bool) (obs fcst : vec) : T * T :=
  let r := pearson Ops obs fcst in
  let sd := if normalise then n_div Ops (vstd Ops fcst) (vstd Ops obs) else vstd Ops fcst in
  (n_mul Ops sd r, n_mul Ops sd (n_sqrt Ops (n_sub Ops (lit 1) (sq Ops r)))).

(* ---- performance diagram: success ratio (1 - false alarm ratio) against probability of detection (GENERATED table and formulas) ---- *)
Definition performance_point (iv : interval Ops) (obs fcst : vec) : T * T :=
  let '(a, b, c, d) := compute_abcd Ops iv iv obs fcst in
  (n_sub Ops (lit 1) (contingency_finish Ops (Far_abcd Ops a b c d)), contingency_finish Ops (Hit_abcd Ops a b c d)).

(* ---- economic value: at the cost-loss ratio a a case ACTS when its probability is at least a (expense a) and
        otherwise does not act (expense 1 when the event occurs); the value relates the mean expense to the
        expenses of a climatological and of a perfect forecast ------------------------------------------------------ *)
Definition econ_acts (a : T) (p : vec) : list bool := map (fun q => n_leb Ops a q) p.
Definition econ_waits (a : T) (p : vec) : list bool := map (fun q => n_ltb Ops q a) p.
Definition count_true (l : list bool) : nat := length (filter (fun b => b) l).
Definition econ_expense (a : T) (ev : list bool) (p : vec) : T :=
  let nact := count_true (econ_acts a p) in
  let nloss := count_true (map (fun z => andb (fst z) (snd z)) (combine (econ_waits a p) ev)) in
  n_div Ops (n_add Ops (n_mul Ops a (n_ofnat Ops nact)) (n_mul Ops (lit 1) (n_ofnat Ops nloss))) (n_ofnat Ops (length ev)).
Definition econ_value (a : T) (ev : list bool) (p : vec) : T :=
  let clim := vmean Ops (map (of_bool Ops) ev) in
  let clim_cost := if n_ltb Ops a (n_mul Ops clim (lit 1)) then a else n_mul Ops clim (lit 1) in
  let perfect := n_mul Ops clim a in
  if n_eqb Ops clim_cost perfect then lit 0
  else n_div Ops (n_sub Ops clim_cost (econ_expense a ev p)) (n_sub Ops clim_cost perfect).

(* ---- deterministic ROC (droc, droc0): false alarm rate against hit rate of the event `iv` for the observation and `fiv`
        for the forecast, one point per forecast interval, between the end points (1,1) and (0,0) (GENERATED table and formulas) ---- *)
Definition droc_point (iv fiv : interval Ops) (obs fcst : vec) : T * T :=
  let '(a, b, c, d) := compute_abcd Ops iv fiv obs fcst in
  (contingency_finish Ops (Fa_abcd Ops a b c d), contingency_finish Ops (Hit_abcd Ops a b c d)).
Definition droc (iv : interval Ops) (fivs : list (interval Ops)) (obs fcst : vec) : list (T * T) :=
  ((lit 1, lit 1) :: map (fun fiv => droc_point iv fiv obs fcst) fivs) ++ [(lit 0, lit 0)].

(* ---- Murphy diagram: mean elementary score at the probability threshold e; a case contributes through exactly one of
        the three terms (p > e and no event; p < e and event; p = e) ------------------------------------------------------- *)
Definition frac (m : list bool) : T := n_div Ops (n_ofnat Ops (count_true m)) (n_ofnat Ops (length m)).
Definition murphy_over (e : T) (p : vec) : list bool := map (fun q => n_ltb Ops e q) p.
Definition murphy_under (e : T) (p : vec) : list bool := map (fun q => n_ltb Ops q e) p.
Definition murphy_equal (e : T) (p : vec) : list bool := map (fun q => n_eqb Ops q e) p.
Definition murphy_score (e : T) (ev : list bool) (p : vec) : T :=
  let two_e := n_mul Ops (lit 2) e in
  let t1 := n_mul Ops two_e (frac (map (fun z => andb (fst z) (negb (snd z))) (combine (murphy_over e p) ev))) in
  let t2 := n_mul Ops (n_mul Ops (lit 2) (n_sub Ops (lit 1) e)) (frac (map (fun z => andb (fst z) (snd z)) (combine (murphy_under e p) ev))) in
  let t3 := n_mul Ops (n_mul Ops two_e (n_sub Ops (lit 1) e)) (frac (murphy_equal e p)) in
  n_add Ops (n_add Ops t1 t2) t3.

(* ---- inverse reliability: per bin [e_i, e_i+1) of the forecast quantile: mean quantile value against the share of
        observations at or below it (needs two cases; an empty bin keeps x = 0) ------------------------------------------------ *)
Definition invrel_point (lo hi : T) (obs q : vec) : T * T :=
  let m := map (fun v => in_co lo hi v) q in
  let k := count_true m in
  if Nat.eqb k 0 then (lit 0, nan)
  else (vmean Ops (vsel m q),
        if Nat.leb 2 k then frac (map snd (filter fst (combine m (map (fun z => n_leb Ops (fst z) (snd z)) (combine obs q))))) else nan).
Definition invreliability (edges obs q : vec) : vec * vec :=
  let r := map (fun b => invrel_point (fst b) (snd b) obs q) (pairs edges) in (map fst r, map snd r).

(* ---- ignorance contribution: per probability bin (np.histogram rule: last bin closed) the mean probability, the summed
        ignorance -log2 p (event) / -log2 (1 - p) (no event) scaled by bins / cases, and the count ---------------------------- *)
Definition ign_bin (edges : vec) (i : nat) (ev : list bool) (p : vec) : T * T * nat :=
  let m := bin_mask COL edges i p in
  let k := count_true m in
  if Nat.eqb k 0 then (nan, nan, 0%nat)
  else
    let sel := filter fst (combine m (combine ev p)) in
    let s1 := vsum Ops (map (fun z => n_log2 Ops (snd (snd z))) (filter (fun z => fst (snd z)) sel)) in
    let s0 := vsum Ops (map (fun z => n_log2 Ops (n_sub Ops (lit 1) (snd (snd z)))) (filter (fun z => negb (fst (snd z))) sel)) in
    (vmean Ops (vsel m p), n_sub Ops (n_neg Ops s1) s0, k).
Definition igncontrib (edges : vec) (ev : list bool) (p : vec) : vec * vec * list nat :=
  let r := map (fun i => ign_bin edges i ev p) (seq 0 (nbins edges)) in
  let tot := fold_left Nat.add (map snd r) 0%nat in
  (map (fun z => fst (fst z)) r,
   map (fun z => n_mul Ops (n_div Ops (snd (fst z)) (n_ofnat Ops tot)) (n_ofnat Ops (nbins edges))) r,
   map snd r).

(* ---- autocorr / autocov: for every ordered pair (i, j) of coordinates along the chosen dimension, the distance
        |c_i - c_j| / scale against the correlation (np.corrcoef) or covariance (np.cov, n - 1) of the two error series over
        the positions where both are present (at least two) ------------------------------------------------------------------- *)
Definition vcov1 (x y : vec) : T :=
  let mx := vmean Ops x in
  let my := vmean Ops y in
  n_div Ops (vsum Ops (vmap2 Ops (fun a b => n_mul Ops (n_sub Ops a mx) (n_sub Ops b my)) x y)) (n_ofnat Ops (length x - 1)).
Definition auto_value (cov : bool) (x y : vec) : T :=
  let m := map (fun z => notnan (fst z) && notnan (snd z)) (combine x y) in
  let xs := vsel m x in
  let ys := vsel m y in
  if Nat.leb 2 (length xs) then (if cov then vcov1 xs ys else pearson Ops xs ys) else nan.
Definition auto_points (cov : bool) (scale : T) (coords : vec) (rows : list vec) : vec * vec :=
  let idx := seq 0 (length coords) in
  (flat_map (fun i => map (fun j => n_div Ops (n_abs Ops (n_sub Ops (nth i coords nan) (nth j coords nan))) scale) idx) idx,
   flat_map (fun i => map (fun j => auto_value cov (nth i rows []) (nth j rows [])) idx) idx).

(* ---- time series / meteogram: mean over locations (and times) ---------------------------------------------- *)
Definition row_nanmeans (rows : list vec) : vec := map nanmean rows.
End D.
