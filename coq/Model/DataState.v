(* Model/DataState.v -- the STATEFUL reading of verif.data.Data.get_scores: two caches and a heap of
   array objects with identity, with every in-place write of the code:
     - Data._get_score propagates missing values IN PLACE into the cached per-input arrays (at load);
     - get_scores masks observations outside -obsrange IN PLACE in the cached array;
     - for axis = All, _apply_axis hands out the array it was given; when [copy_all] is false that
       is the cached array itself, which get_scores then masks IN PLACE with the request's
       validity (data.py:296-299).  [copy_all = true] models the repaired code (a copy is made).
   No proofs here.  Histories end at the first error exit (verif.util.error terminates the program). *)
From Coq Require Import ZArith List Bool.
From VF Require Import Model.Data.
Import ListNotations.

Section DS.
Variable V : Type.
Variable vltb : V -> V -> bool.
Variable vsub vdiv : V -> V -> option V.
Variable copy_all : bool.

Notation cube := (cube V).

(* every array object is stored flat in row-major order; cubes keep their (lead, location) sizes *)
Inductive obj : Type :=
| OCube (c : cube)                               (* a cached per-field array, [time][lead][location] *)
| OFlat (l : list (option V))                    (* a 1-D array handed out for a slice *)
| OArr (nt : nat) (l : list (option V)).         (* a whole 3-D array handed out for axis = All: number of times, row-major content *)

Inductive saxis : Type := SAll | SAx (ax : nat) (ai : nat).   (* axis number as in DataQ.axis_of *)

Record key := { k_fields : list field; k_input : nat; k_axis : saxis }.

Definition saxis_eqb (a b : saxis) : bool :=
  match a, b with
  | SAll, SAll => true
  | SAx x i, SAx y j => Nat.eqb x y && Nat.eqb i j
  | _, _ => false
  end.
Fixpoint fields_eqb (a b : list field) : bool :=
  match a, b with
  | [], [] => true
  | x :: a', y :: b' => field_eqb x y && fields_eqb a' b'
  | _, _ => false
  end.
Definition key_eqb (a b : key) : bool :=
  fields_eqb (k_fields a) (k_fields b) && Nat.eqb (k_input a) (k_input b) && saxis_eqb (k_axis a) (k_axis b).

Record state := {
  heap : list obj;                            (* object id = position *)
  fcache : list (field * list nat);           (* field -> ids of the per-input arrays (climatology last) *)
  scache : list (key * list nat)              (* request -> ids of the arrays handed out *)
}.

Definition init : state := {| heap := []; fcache := []; scache := [] |}.

Definition alloc (s : state) (o : obj) : state * nat :=
  ({| heap := heap s ++ [o]; fcache := fcache s; scache := scache s |}, length (heap s)).

Fixpoint set_nth {A} (n : nat) (x : A) (l : list A) : list A :=
  match l, n with
  | [], _ => []
  | _ :: t, O => x :: t
  | h :: t, S m => h :: set_nth m x t
  end.

Definition write (s : state) (id : nat) (o : obj) : state :=
  {| heap := set_nth id o (heap s); fcache := fcache s; scache := scache s |}.

Definition read (s : state) (id : nat) : obj := nth id (heap s) (OFlat []).
Definition read_cube (s : state) (id : nat) : cube := match read s id with OCube c => c | _ => [] end.

Fixpoint alloc_all (s : state) (os : list obj) : state * list nat :=
  match os with
  | [] => (s, [])
  | o :: r => let '(s1, i) := alloc s o in let '(s2, is_) := alloc_all s1 r in (s2, i :: is_)
  end.

Definition find_fcache (s : state) (f : field) : option (list nat) :=
  match find (fun p => field_eqb f (fst p)) (fcache s) with Some p => Some (snd p) | None => None end.

(* Data._get_score: load the field for every input, propagate missing values, cache *)
Definition ensure_field (d : data V) (s : state) (f : field) : result (state * list nat) :=
  match find_fcache s f with
  | Some ids => OK (s, ids)
  | None =>
      match get_score_all V d f with
      | Error e => Error e
      | OK cs =>
          (* the propagated arrays are fresh objects; inputs without observations share the
             object of the first input that has them *)
          let shares := match f with
                        | FObs => map (fun o : option cube => match o with Some _ => false | None => true end) (loaded V d f)
                        | _ => map (fun _ => false) cs
                        end in
          let first_own := match find (fun p => negb (snd p)) (combine (seq 0 (length cs)) shares) with
                           | Some p => fst p | None => O end in
          let '(s1, own_ids) := alloc_all s (map (fun c => OCube c) cs) in
          let ids := map (fun p : nat * bool => if snd p then nth first_own own_ids O else fst p) (combine own_ids shares) in
          OK ({| heap := heap s1; fcache := (f, ids) :: fcache s1; scache := scache s1 |}, ids)
      end
  end.

(* the flat view used for every axis except All *)
Definition slice_of (d : data V) (ax : axis) (ai : nat) (c : cube) : list (option V) := apply_axis V d ax ai c.

Definition flat_of (o : obj) : list (option V) :=
  match o with OCube c => flatten3 V c | OFlat l => l | OArr _ l => l end.

(* write a flat list back into an object of the same shape *)
Fixpoint take {A} (n : nat) (l : list A) : list A :=
  match n, l with O, _ => [] | _, [] => [] | S m, x :: t => x :: take m t end.
Fixpoint drop {A} (n : nat) (l : list A) : list A :=
  match n, l with O, _ => l | _, [] => [] | S m, _ :: t => drop m t end.
Definition refill_row (row : list (option V)) (l : list (option V)) : list (option V) * list (option V) :=
  (take (length row) l, drop (length row) l).
Fixpoint refill_plane (p : list (list (option V))) (l : list (option V)) : list (list (option V)) * list (option V) :=
  match p with
  | [] => ([], l)
  | row :: r => let '(row', l1) := refill_row row l in let '(r', l2) := refill_plane r l1 in (row' :: r', l2)
  end.
Fixpoint refill_cube (c : cube) (l : list (option V)) : cube :=
  match c with
  | [] => []
  | p :: r => let '(p', l1) := refill_plane p l in p' :: refill_cube r l1
  end.
Definition with_flat (o : obj) (l : list (option V)) : obj :=
  match o with OCube c => OCube (refill_cube c l) | OFlat _ => OFlat l | OArr n _ => OArr n l end.

Definition axis_table : nat -> axis := fun _ => AxNo.   (* overridden by the instance; see DataStateQ *)

Section Step.
Variable axis_of : nat -> axis.

(* one call of Data.get_scores.  Returns the new state and the ids of the arrays handed out. *)
Definition step (d : data V) (s : state) (rq : key) : result (state * list nat) :=
  match find (fun p => key_eqb rq (fst p)) (scache s) with
  | Some p => OK (s, snd p)
  | None =>
    let fields := k_fields rq in let k := k_input rq in
    if negb (Nat.ltb k (num_inputs d)) then Error E_input_index else
    let do_clim := d_has_clim d && existsb is_obs_or_fcst fields in
    (* climatology: the cached forecast array of the last input, sliced *)
    let climr : result (state * option (list (option V))) :=
      if do_clim then
        match ensure_field d s FFcst with
        | Error e => Error e
        | OK (s1, ids) =>
            let c := read_cube s1 (nth (length (d_inputs d) - 1) ids O) in
            OK (s1, Some (match k_axis rq with
                          | SAll => flatten3 V c
                          | SAx ax ai => slice_of d (axis_of ax) ai c
                          end))
        end
      else OK (s, None) in
    match climr with
    | Error e => Error e
    | OK (s1, clim) =>
      (* per field: (state, id of `curr`, whether curr is a brand-new object) *)
      let per_field :=
        fold_left (fun (acc : result (state * list nat)) (f : field) =>
          match acc with
          | Error e => Error e
          | OK (st, out) =>
            match ensure_field d st f with
            | Error e => Error e
            | OK (st1, ids) =>
              let fid := nth k ids O in
              (* -obsrange: masked IN PLACE in the cached array *)
              let st2 := match f with
                         | FObs => write st1 fid (OCube (map (map (map (mask_obs_range V vltb (d_obs_range d)))) (read_cube st1 fid)))
                         | _ => st1
                         end in
              let c := read_cube st2 fid in
              let needs_op := match clim with Some _ => is_obs_or_fcst f | None => false end in
              match k_axis rq with
              | SAll =>
                  if needs_op then
                    let cl := match clim with Some l => l | None => [] end in
                    let vals := map (fun p : option V * option V => anomaly V vsub vdiv (d_clim_divide d) (fst p) (snd p)) (combine (flatten3 V c) cl) in
                    let '(st3, nid) := alloc st2 (OArr (length c) vals) in OK (st3, out ++ [nid])
                  else if copy_all then
                    let '(st3, nid) := alloc st2 (OArr (length c) (flatten3 V c)) in OK (st3, out ++ [nid])
                  else OK (st2, out ++ [fid])             (* the cached array itself *)
              | SAx ax ai =>
                  let flat := slice_of d (axis_of ax) ai c in
                  let vals := if needs_op
                              then map (fun p : option V * option V => anomaly V vsub vdiv (d_clim_divide d) (fst p) (snd p))
                                       (combine flat (match clim with Some l => l | None => [] end))
                              else flat in
                  let '(st3, nid) := alloc st2 (OFlat vals) in OK (st3, out ++ [nid])
              end
            end
          end) fields (OK (s1, [])) in
      match per_field with
      | Error e => Error e
      | OK (s2, cur) =>
        let cols := map (fun id => flat_of (read s2 id)) cur in
        let mask := valid_mask V cols in
        match k_axis rq with
        | SAll =>
            (* scores[i][invalid] = nan, IN PLACE in whatever object `curr` is *)
            let s3 := fold_left (fun st id =>
                        let o := read st id in
                        write st id (with_flat o (map (fun p : bool * option V => if fst p then snd p else None) (combine mask (flat_of o)))))
                      cur s2 in
            let s4 := match cur with
                      | id0 :: _ => match read s3 id0 with
                                    | OCube [] | OArr O _ =>    (* shape[0] == 0: replaced by one NaN per field *)
                                        let '(st, ids) := alloc_all s3 (map (fun _ => OFlat [None]) cur) in
                                        (st, ids)
                                    | _ => (s3, cur)
                                    end
                      | [] => (s3, cur)
                      end in
            let '(s5, outids) := s4 in
            OK ({| heap := heap s5; fcache := fcache s5; scache := (rq, outids) :: scache s5 |}, outids)
        | SAx _ _ =>
            let kept := map (keep_valid V mask) cols in
            let kept' := match kept with [] :: _ => map (fun _ => [None]) cols | _ => kept end in
            let '(s3, outids) := alloc_all s2 (map (fun l => OFlat l) kept') in
            OK ({| heap := heap s3; fcache := fcache s3; scache := (rq, outids) :: scache s3 |}, outids)
        end
      end
    end
  end.

(* run a history; stop at the first error.  Returns the final state and, per request, the ids *)
Fixpoint run (d : data V) (s : state) (rqs : list key) : state * list (result (list nat)) :=
  match rqs with
  | [] => (s, [])
  | r :: rest =>
      match step d s r with
      | Error e => (s, [Error e])
      | OK (s1, ids) => let '(s2, outs) := run d s1 rest in (s2, OK ids :: outs)
      end
  end.
End Step.
End DS.

