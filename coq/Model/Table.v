(* Model/Table.v -- hand-written model of what -type text / -type csv report (verif/output.py:
   Standard._get_x_y, Output.text, Output.csv): one row per slice in axis order, one column per
   input in command-line order, cells = the score of that input on that slice (averaged over the
   given thresholds for data axes), -acc = running sums along the axis with missing scores counted
   as 0.  Numbers are exact here; the %g rounding is checked numerically by the harness.
   Score functions over Q for the end-to-end comparison: mae, bias, count (num).  No proofs here. *)
From Coq Require Import ZArith QArith Qabs List Bool PrimFloat.
From VF Require Import Model.Data Model.Cal Model.DataQ.
Import ListNotations.

Section T.
Variable V : Type.
Variable vadd : V -> V -> V.
Variable vzero : V.

(* np.nan_to_num then np.cumsum(axis=0), per column *)
Fixpoint running (acc : V) (col : list (option V)) : list V :=
  match col with
  | [] => []
  | c :: r => let a := vadd acc (match c with Some v => v | None => vzero end) in a :: running a r
  end.

(* y[slice][input] from the per-input columns *)
Definition transpose_cols (ncol nrow : nat) (cols : list (list (option V))) : list (list (option V)) :=
  map (fun i => map (fun c => nth i c None) cols) (seq 0 nrow).

Definition table (ninputs nslices : nat) (score : nat -> nat -> option V) (acc : bool) : list (list (option V)) :=
  let cols := map (fun f => map (fun i => score f i) (seq 0 nslices)) (seq 0 ninputs) in
  let cols' := if acc then map (fun c => map Some (running vzero c)) cols else cols in
  transpose_cols ninputs nslices cols'.
End T.

(* ---- scores over Q ------------------------------------------------------------------------- *)
Local Open Scope Q_scope.
Definition pairs_of (cols : list (list (option Q))) : option (list (Q * Q)) :=
  match cols with
  | [o; f] =>
      match o with
      | [None] => Some []
      | _ => Some (flat_map (fun p => match p with (Some a, Some b) => [(a, b)] | _ => [] end) (combine o f))
      end
  | _ => None
  end.
Definition q_mean (l : list Q) : option Q :=
  match l with [] => None | _ => Some (fold_left Qplus l 0 / inject_Z (Z.of_nat (length l))) end.

(* 0 mae, 1 bias, 2 number of valid pairs (-m num is not a metric: the harness uses count for checking) *)
Definition score_of (metric : nat) (d : dataQ) (k : nat) (ax : nat) (ai : nat) : option Q :=
  match get_scoresQ d [FObs; FFcst] k (axis_of ax) ai with
  | Error _ => None
  | OK cols =>
      match pairs_of cols with
      | None => None
      | Some ps =>
          match metric with
          | 0%nat => q_mean (map (fun p => Qabs (fst p - snd p)) ps)
          | 1%nat => q_mean (map (fun p => snd p - fst p) ps)
          | _ => match ps with [] => None | _ => Some (inject_Z (Z.of_nat (length ps))) end
          end
      end
  end.

Local Open Scope float_scope.
Definition run_table (cfg : configQ) (ins : list inputQ) (metric ax : nat) (acc : bool) : list float :=
  match mk_dataQ cfg ins with
  | Error e => [-7; f_of_nat e]
  | OK d =>
      let t := table Q Qplus 0%Q (num_inputs d) (axis_size d (axis_of ax)) (fun f i => score_of metric d f ax i) acc in
      f_of_nat (length t) :: flat_map (fun row => map f_of_oQ row) t
  end.
