(* Base/Event.v -- hand-written glue types for the event layer: the eight documented bin types,
   interval records, and numpy's masked-boolean semantics (modelled, not verified):
   masked & x = masked, masked | x = masked, np.ma.sum skips masked entries and the sum of an
   all-masked (or empty... see masum) vector is `masked`, which every later consumer treats as NaN. *)
From Coq Require Import List Bool ZArith.
From VF Require Import Base.Num Base.Vec.
Import ListNotations.

Inductive bintype : Type :=
| Below | BelowEq | Above | AboveEq | Within | EqWithin | WithinEq | EqWithinEq.

Definition all_bintypes : list bintype :=
  [Below; BelowEq; Above; AboveEq; Within; EqWithin; WithinEq; EqWithinEq].

Definition mandb (a b : option bool) : option bool :=
  match a, b with Some x, Some y => Some (andb x y) | _, _ => None end.
Definition morb (a b : option bool) : option bool :=
  match a, b with Some x, Some y => Some (orb x y) | _, _ => None end.

Section E.
Variable Ops : NumOps.

Record interval := { iv_lower : numT Ops; iv_upper : numT Ops; iv_lower_eq : bool; iv_upper_eq : bool }.

Definition is_some_true (o : option bool) : bool := match o with Some true => true | _ => false end.
Definition is_some (o : option bool) : bool := match o with Some _ => true | None => false end.

(* np.ma.sum over masked booleans *)
Definition masum (l : list (option bool)) : numT Ops :=
  if existsb is_some l then n_ofnat Ops (length (filter is_some_true l))
  else match l with [] => n_ofnat Ops 0 | _ => n_nan Ops end.

(* np.mean over masked booleans: mean of the unmasked entries; masked (= NaN) when there is none *)
Definition mamean (l : list (option bool)) : numT Ops :=
  let valid := filter is_some l in
  n_div Ops (n_ofnat Ops (length (filter is_some_true valid))) (n_ofnat Ops (length valid)).

(* v[I] for a boolean position mask *)
Definition vselect (mask : list bool) (v : list (numT Ops)) : list (numT Ops) :=
  map snd (filter (fun p => fst p) (combine mask v)).

End E.
Arguments vselect {Ops}.
Arguments iv_lower {Ops}. Arguments iv_upper {Ops}. Arguments iv_lower_eq {Ops}. Arguments iv_upper_eq {Ops}.
