(* Base/Num.v -- number domains for the formula layer.

   [xnum A] = IEEE-like extended numbers over an exact carrier A:
     NaN | NInf | PInf | Fin a
   with the special-value rules of IEEE-754 arithmetic (signed zeros and
   rounding are NOT modelled: a finite operation is exact).

   [NumOps] is the interface the translated Python formulas are written
   against (coq/Gen/*.v, regenerated from /repo on every run).  Two
   instances:  XR (carrier R, used by the theorems)  and  XF (Coq primitive
   binary64 floats, used to *run* the same generated definitions for the
   translation-validation check against the real Python code).            *)

From Coq Require Import Reals ZArith List Bool Lra.
From Coq Require PrimFloat Uint63.
Import ListNotations.

Set Implicit Arguments.

Inductive xnum (A : Type) : Type :=
| NaN : xnum A
| NInf : xnum A
| PInf : xnum A
| Fin : A -> xnum A.
Arguments NaN {A}. Arguments NInf {A}. Arguments PInf {A}.

(* ---------------------------------------------------------------------- *)
(* exact carrier                                                           *)

Record BaseOps := {
  bT : Type;
  b_ofZ : Z -> bT;
  b_add : bT -> bT -> bT;
  b_sub : bT -> bT -> bT;
  b_mul : bT -> bT -> bT;
  b_div : bT -> bT -> bT;       (* only called with a non-zero divisor *)
  b_opp : bT -> bT;
  b_eqb : bT -> bT -> bool;
  b_ltb : bT -> bT -> bool;
  b_sqrt : bT -> bT;            (* only called on values >= 0 *)
  b_cbrt : bT -> bT;            (* only called on values >= 0 *)
  b_ln : bT -> bT;              (* only called on values > 0 *)
  b_exp : bT -> bT
}.

Section X.
Variable F : BaseOps.
Notation A := (bT F).
Notation X := (xnum A).

Definition z0 : A := b_ofZ F 0.
Definition is0 (a : A) : bool := b_eqb F a z0.
Definition pos (a : A) : bool := b_ltb F z0 a.
Definition neg (a : A) : bool := b_ltb F a z0.

Definition x_lit (n : Z) (d : positive) : X :=
  match d with
  | xH => Fin (b_ofZ F n)
  | _ => Fin (b_div F (b_ofZ F n) (b_ofZ F (Zpos d)))
  end.

Definition x_neg (x : X) : X :=
  match x with
  | NaN => NaN | NInf => PInf | PInf => NInf | Fin a => Fin (b_opp F a)
  end.

Definition x_add (x y : X) : X :=
  match x, y with
  | NaN, _ | _, NaN => NaN
  | PInf, NInf | NInf, PInf => NaN
  | PInf, _ | _, PInf => PInf
  | NInf, _ | _, NInf => NInf
  | Fin a, Fin b => Fin (b_add F a b)
  end.

Definition x_sub (x y : X) : X :=
  match x, y with
  | NaN, _ | _, NaN => NaN
  | PInf, PInf | NInf, NInf => NaN
  | PInf, _ | _, NInf => PInf
  | NInf, _ | _, PInf => NInf
  | Fin a, Fin b => Fin (b_sub F a b)
  end.

(* sign of a finite value: 0 zero, 1 positive, 2 negative *)
Definition inf_of_sign (positive_ : bool) : X := if positive_ then PInf else NInf.

Definition x_mul (x y : X) : X :=
  match x, y with
  | NaN, _ | _, NaN => NaN
  | Fin a, Fin b => Fin (b_mul F a b)
  | PInf, PInf | NInf, NInf => PInf
  | PInf, NInf | NInf, PInf => NInf
  | PInf, Fin a | Fin a, PInf =>
      if is0 a then NaN else inf_of_sign (pos a)
  | NInf, Fin a | Fin a, NInf =>
      if is0 a then NaN else inf_of_sign (neg a)
  end.

Definition x_div (x y : X) : X :=
  match x, y with
  | NaN, _ | _, NaN => NaN
  | Fin a, Fin b =>
      if is0 b then (if is0 a then NaN else inf_of_sign (pos a))
      else Fin (b_div F a b)
  | Fin _, PInf | Fin _, NInf => Fin z0
  | PInf, Fin b => inf_of_sign (negb (neg b))     (* x/+0 = +inf; signed zero not modelled *)
  | NInf, Fin b => inf_of_sign (neg b)
  | _, _ => NaN                                    (* inf / inf *)
  end.

Definition x_abs (x : X) : X :=
  match x with
  | NaN => NaN | NInf => PInf | PInf => PInf
  | Fin a => Fin (if neg a then b_opp F a else a)
  end.

Definition x_sqrt (x : X) : X :=
  match x with
  | NaN => NaN | NInf => NaN | PInf => PInf
  | Fin a => if neg a then NaN else Fin (b_sqrt F a)
  end.

(* x ** (1.0/3) : NaN for negative bases, as numpy's float power *)
Definition x_cbrt (x : X) : X :=
  match x with
  | NaN => NaN | NInf => PInf | PInf => PInf
  | Fin a => if neg a then NaN else Fin (b_cbrt F a)
  end.

Definition x_ln (x : X) : X :=
  match x with
  | NaN => NaN | NInf => NaN | PInf => PInf
  | Fin a => if neg a then NaN else if is0 a then NInf else Fin (b_ln F a)
  end.

Definition x_exp (x : X) : X :=
  match x with
  | NaN => NaN | NInf => Fin z0 | PInf => PInf
  | Fin a => Fin (b_exp F a)
  end.

Definition x_log2 (x : X) : X :=
  x_div (x_ln x) (Fin (b_ln F (b_ofZ F 2))).

Definition x_isnan (x : X) : bool := match x with NaN => true | _ => false end.
Definition x_isinf (x : X) : bool := match x with NInf | PInf => true | _ => false end.

Definition x_eqb (x y : X) : bool :=
  match x, y with
  | Fin a, Fin b => b_eqb F a b
  | PInf, PInf | NInf, NInf => true
  | _, _ => false
  end.

Definition x_ltb (x y : X) : bool :=
  match x, y with
  | NaN, _ | _, NaN => false
  | Fin a, Fin b => b_ltb F a b
  | NInf, NInf => false
  | NInf, _ => true
  | _, NInf => false
  | PInf, _ => false
  | _, PInf => true
  end.

Definition x_leb (x y : X) : bool := x_ltb x y || x_eqb x y.

End X.

(* ---------------------------------------------------------------------- *)
(* the interface generated code is written against                         *)

Record NumOps := {
  numT : Type;
  n_nan : numT;
  n_pinf : numT;
  n_ninf : numT;
  n_lit : Z -> positive -> numT;        (* the rational n/d *)
  n_ofnat : nat -> numT;
  n_add : numT -> numT -> numT;
  n_sub : numT -> numT -> numT;
  n_mul : numT -> numT -> numT;
  n_div : numT -> numT -> numT;
  n_neg : numT -> numT;
  n_abs : numT -> numT;
  n_sqrt : numT -> numT;
  n_cbrt : numT -> numT;
  n_ln : numT -> numT;
  n_log2 : numT -> numT;
  n_exp : numT -> numT;
  n_eqb : numT -> numT -> bool;
  n_ltb : numT -> numT -> bool;
  n_leb : numT -> numT -> bool;
  n_isnan : numT -> bool;
  n_isinf : numT -> bool
}.

Definition xops (F : BaseOps) : NumOps := {|
  numT := xnum (bT F);
  n_nan := NaN; n_pinf := PInf; n_ninf := NInf;
  n_lit := x_lit F;
  n_ofnat := fun n => Fin (b_ofZ F (Z.of_nat n));
  n_add := @x_add F; n_sub := @x_sub F; n_mul := @x_mul F; n_div := @x_div F;
  n_neg := @x_neg F; n_abs := @x_abs F; n_sqrt := @x_sqrt F; n_cbrt := @x_cbrt F;
  n_ln := @x_ln F; n_log2 := @x_log2 F; n_exp := @x_exp F;
  n_eqb := @x_eqb F; n_ltb := @x_ltb F; n_leb := @x_leb F;
  n_isnan := @x_isnan F; n_isinf := @x_isinf F
|}.

(* ---------------------------------------------------------------------- *)
(* carrier R                                                               *)

Definition Reqb (x y : R) : bool := if Req_EM_T x y then true else false.
Definition Rltb (x y : R) : bool := if Rlt_dec x y then true else false.

Lemma Reqb_true x y : Reqb x y = true <-> x = y.
Proof. unfold Reqb; destruct (Req_EM_T x y); split; intros; congruence. Qed.
Lemma Reqb_false x y : Reqb x y = false <-> x <> y.
Proof. unfold Reqb; destruct (Req_EM_T x y); split; intros; congruence. Qed.
Lemma Rltb_true x y : Rltb x y = true <-> (x < y)%R.
Proof. unfold Rltb; destruct (Rlt_dec x y); split; intros; try congruence; tauto. Qed.
Lemma Rltb_false x y : Rltb x y = false <-> (y <= x)%R.
Proof. unfold Rltb; destruct (Rlt_dec x y); split; intros; try congruence; lra. Qed.

Definition Rcbrt (x : R) : R := if Req_EM_T x 0 then 0%R else Rpower x (/3).

Definition RBase : BaseOps := {|
  bT := R; b_ofZ := IZR;
  b_add := Rplus; b_sub := Rminus; b_mul := Rmult; b_div := Rdiv; b_opp := Ropp;
  b_eqb := Reqb; b_ltb := Rltb;
  b_sqrt := sqrt; b_cbrt := Rcbrt; b_ln := ln; b_exp := exp
|}.

Definition XR : NumOps := xops RBase.
Notation xr := (xnum R).

(* ---------------------------------------------------------------------- *)
(* carrier Q (exact, computable; no sqrt/ln/exp: those poison to a marker)  *)

From Coq Require Import QArith.

Definition QBase : BaseOps := {|
  bT := Q; b_ofZ := inject_Z;
  b_add := Qplus; b_sub := Qminus; b_mul := Qmult; b_div := Qdiv; b_opp := Qopp;
  b_eqb := Qeq_bool; b_ltb := fun x y => negb (Qle_bool y x);
  b_sqrt := fun x => x; b_cbrt := fun x => x; b_ln := fun x => x; b_exp := fun x => x
|}.
Definition XQ : NumOps := xops QBase.

(* ---------------------------------------------------------------------- *)
(* primitive floats: executable instance (evaluation only, no theorems)     *)

Module FloatInst.
Import PrimFloat.
Local Open Scope float_scope.

Definition f_isnan (x : float) : bool := negb (eqb x x).
Definition f_isinf (x : float) : bool := eqb x infinity || eqb x neg_infinity.

Fixpoint f_ofpos (p : positive) : float :=
  match p with
  | xH => 1
  | xO q => 2 * f_ofpos q
  | xI q => 2 * f_ofpos q + 1
  end.
Definition f_ofZ (z : Z) : float :=
  match z with Z0 => 0 | Zpos p => f_ofpos p | Zneg p => - f_ofpos p end.
Definition f_lit (n : Z) (d : positive) : float :=
  match d with xH => f_ofZ n | _ => f_ofZ n / f_ofpos d end.

(* ln by range reduction + atanh series; accuracy ~1e-15, enough for the
   1e-9 tolerance of the translation-validation comparison *)
Definition ln2 : float := 0x1.62e42fefa39efp-1.
Fixpoint atanh_series (k : nat) (s2 term : float) (n : float) (acc : float) : float :=
  match k with
  | O => acc
  | S k' => atanh_series k' s2 (term * s2) (n + 2) (acc + term / n)
  end.
Definition f_ln (x : float) : float :=
  if f_isnan x then nan
  else if ltb x 0 then nan
  else if eqb x 0 then neg_infinity
  else if eqb x infinity then infinity
  else
    let '(m, e) := frshiftexp x in
    let ef := of_uint63 e - 2101 in
    let '(m, ef) := if ltb m 0x1.6a09e667f3bcdp-1 then (2 * m, ef - 1) else (m, ef) in
    let s := (m - 1) / (m + 1) in
    ef * ln2 + 2 * atanh_series 16 (s * s) s 1 0.

Fixpoint exp_series (k : nat) (r term : float) (n : float) (acc : float) : float :=
  match k with
  | O => acc
  | S k' => exp_series k' r (term * r / n) (n + 1) (acc + term)
  end.
Fixpoint sq_n (k : nat) (x : float) : float :=
  match k with O => x | S k' => sq_n k' (x * x) end.
Definition f_exp (x : float) : float :=
  if f_isnan x then nan
  else if eqb x infinity then infinity
  else if eqb x neg_infinity then 0
  else sq_n 10 (exp_series 24 (x / 1024) 1 1 0).

Definition f_cbrt (x : float) : float :=
  if f_isnan x then nan else if ltb x 0 then nan
  else if eqb x 0 then 0 else if eqb x infinity then infinity
  else f_exp (f_ln x / 3).

Definition XF : NumOps := {|
  numT := float;
  n_nan := nan; n_pinf := infinity; n_ninf := neg_infinity;
  n_lit := f_lit;
  n_ofnat := fun n => f_ofZ (Z.of_nat n);
  n_add := add; n_sub := sub; n_mul := mul; n_div := div;
  n_neg := opp; n_abs := abs; n_sqrt := sqrt; n_cbrt := f_cbrt;
  n_ln := f_ln; n_log2 := fun x => f_ln x / ln2; n_exp := f_exp;
  n_eqb := eqb; n_ltb := ltb; n_leb := leb;
  n_isnan := f_isnan; n_isinf := f_isinf
|}.
End FloatInst.
Definition XF : NumOps := FloatInst.XF.
