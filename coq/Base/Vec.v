(* Base/Vec.v -- numpy's 1-D reductions restated over any NumOps instance.
   These definitions are part of the trusted base (numpy is modelled, not
   verified): population variance, linear-interpolation percentile, NaN
   propagation in min/max/median/percentile, NaNs sorted last.             *)

From Coq Require Import ZArith List Bool.
From VF Require Import Base.Num.
Import ListNotations.

Section Vec.
Variable Ops : NumOps.
Notation T := (numT Ops).
Notation vec := (list T).

Definition zero : T := n_lit Ops 0 1.
Definition one : T := n_lit Ops 1 1.

Definition vlen (v : vec) : T := n_ofnat Ops (length v).
Definition vsum (v : vec) : T := fold_left (n_add Ops) v zero.
Definition vmean (v : vec) : T := n_div Ops (vsum v) (vlen v).
Definition sq (x : T) : T := n_mul Ops x x.
Definition vvar (v : vec) : T :=
  let m := vmean v in vmean (map (fun x => sq (n_sub Ops x m)) v).
Definition vstd (v : vec) : T := n_sqrt Ops (vvar v).

Definition vmap2 (f : T -> T -> T) (a b : vec) : vec :=
  map (fun p => f (fst p) (snd p)) (combine a b).
Definition vmap2b (f : T -> T -> bool) (a b : vec) : list bool :=
  map (fun p => f (fst p) (snd p)) (combine a b).
Definition of_bool (b : bool) : T := if b then one else zero.
Definition bsum (l : list bool) : T := n_ofnat Ops (length (filter (fun b => b) l)).

Definition vanynan (v : vec) : bool := existsb (n_isnan Ops) v.
Definition n_min2 (x y : T) : T := if n_ltb Ops y x then y else x.
Definition n_max2 (x y : T) : T := if n_ltb Ops x y then y else x.
Definition vmin (v : vec) : T :=
  if vanynan v then n_nan Ops else
  match v with [] => n_nan Ops | x :: r => fold_left n_min2 r x end.
Definition vmax (v : vec) : T :=
  if vanynan v then n_nan Ops else
  match v with [] => n_nan Ops | x :: r => fold_left n_max2 r x end.

Fixpoint vinsert (x : T) (l : vec) : vec :=
  match l with
  | [] => [x]
  | h :: t => if n_leb Ops x h then x :: l else h :: vinsert x t
  end.
Definition vsort (v : vec) : vec := fold_right vinsert [] v.

Definition vnth (v : vec) (i : nat) : T := nth i v (n_nan Ops).

(* numpy.percentile(v, p) with p in [0,100], default method "linear":
   h = p/100*(n-1); result = s[i] + (h-i)*(s[i+1]-s[i]) for i = floor h, evaluated as numpy's _lerp does
   (a + (b-a)*t for t < 1/2, b - (b-a)*(1-t) for t >= 1/2): the same real number, the same rounding.    *)
Fixpoint perc_scan (s : vec) (h : T) (i : nat) (fuel : nat) : T :=
  match fuel with
  | O => n_nan Ops
  | S f =>
      let fi := n_ofnat Ops i in
      if n_eqb Ops h fi then vnth s i
      else if n_ltb Ops h (n_ofnat Ops (S i)) then
        (let t := n_sub Ops h fi in
         let a := vnth s i in let b := vnth s (S i) in let d := n_sub Ops b a in
         if n_leb Ops (n_lit Ops 1 2) t then n_sub Ops b (n_mul Ops d (n_sub Ops (n_lit Ops 1 1) t))
         else n_add Ops a (n_mul Ops d t))
      else perc_scan s h (S i) f
  end.
Definition vpercentile (v : vec) (p : T) : T :=
  if vanynan v then n_nan Ops else
  match v with
  | [] => n_nan Ops
  | _ =>
    let s := vsort v in
    let h := n_mul Ops (n_div Ops p (n_lit Ops 100 1)) (n_ofnat Ops (length v - 1)) in
    perc_scan s h 0 (length v)
  end.

Definition vmedian (v : vec) : T :=
  if vanynan v then n_nan Ops else
  match v with
  | [] => n_nan Ops
  | _ =>
    let s := vsort v in
    let n := length v in
    if Nat.even n then
      n_div Ops (n_add Ops (vnth s (n / 2 - 1)) (vnth s (n / 2))) (n_lit Ops 2 1)
    else vnth s (n / 2)
  end.

Definition vnumvalid (v : vec) : T :=
  n_ofnat Ops (length (filter (fun x => negb (n_isnan Ops x)) v)).
Definition vrange (v : vec) : T := n_sub Ops (vmax v) (vmin v).
Definition vfirst (v : vec) : T := vnth v 0.
Definition vlast (v : vec) : T := vnth v (length v - 1).

(* keep the pairs where neither side is NaN (ObsFcstBased.compute_from_obs_fcst) *)
Definition valid_pairs (obs fcst : vec) : list (T * T) :=
  filter (fun p => negb (n_isnan Ops (fst p) || n_isnan Ops (snd p))) (combine obs fcst).

(* np.nanmean: mean over the non-NaN entries; NaN when there is none *)
Definition vnanmean (v : vec) : T := vmean (filter (fun x => negb (n_isnan Ops x)) v).

(* library functions that are specified by name only (modelled, not verified) *)
Definition pearson (a b : vec) : T :=
  let ma := vmean a in let mb := vmean b in
  let da := map (fun x => n_sub Ops x ma) a in
  let db := map (fun x => n_sub Ops x mb) b in
  n_div Ops (vsum (vmap2 (n_mul Ops) da db))
          (n_sqrt Ops (n_mul Ops (vsum (map sq da)) (vsum (map sq db)))).

(* average ranks (ties share the mean of their positions), for Spearman's rho *)
Definition vrank (v : vec) (x : T) : T :=
  let less := length (filter (fun y => n_ltb Ops y x) v) in
  let eq := length (filter (fun y => n_eqb Ops y x) v) in
  n_add Ops (n_ofnat Ops less) (n_div Ops (n_ofnat Ops (S eq)) (n_lit Ops 2 1)).
Definition spearman_spec (a b : vec) : T :=
  pearson (map (vrank a) a) (map (vrank b) b).

(* Kendall's tau-b over all pairs i<j *)
Fixpoint pairs_after {A} (l : list A) : list (A * A) :=
  match l with [] => [] | x :: r => map (fun y => (x, y)) r ++ pairs_after r end.
Definition kendall_spec (a b : vec) : T :=
  let ps := pairs_after (combine a b) in
  let sgn (x y : T) : T := if n_ltb Ops x y then one else if n_ltb Ops y x then n_neg Ops one else zero in
  let s := vsum (map (fun p => n_mul Ops (sgn (fst (fst p)) (fst (snd p))) (sgn (snd (fst p)) (snd (snd p)))) ps) in
  let ta := length (filter (fun p => n_eqb Ops (fst (fst p)) (fst (snd p))) ps) in
  let tb := length (filter (fun p => n_eqb Ops (snd (fst p)) (snd (snd p))) ps) in
  let n0 := length ps in
  n_div Ops s (n_sqrt Ops (n_mul Ops (n_ofnat Ops (n0 - ta)) (n_ofnat Ops (n0 - tb)))).

End Vec.
