(* Properties/C13.v -- Command-line options mean what the help text says.
   bool_flags / valued_flags / data_args / validations are GENERATED from /repo's verif/driver.py;
   parse_loop / config_tokens / range2 / arange are the hand models (Model/Cli.v, Model/ParseNumbers.v)
   tied by ./check C13.  Axiom-free. *)
From Coq Require Import ZArith QArith List Bool Ascii String Permutation.
From VF Require Import Model.Data Model.Cal Model.DataQ Model.ParseNumbers Gen.Gen_cli Model.Cli Proofs.C13_proofs.
Import ListNotations.
Local Open Scope string_scope.

(* ---- the wiring, as documented in the help text --------------------------------------------- *)
(* (flag, constructor argument of the dataset, how the value is read) *)
Definition documented_selection : list (string * string * string) :=
  [("-l", "locations", "numbers"); ("-lx", "locations_x", "numbers");
   ("-latrange", "lat_range", "numbers"); ("-lonrange", "lon_range", "numbers"); ("-elevrange", "elev_range", "numbers");
   ("-obsrange", "obs_range", "numbers"); ("-o", "leadtimes", "numbers"); ("-t", "times", "numbers");
   ("-d", "dates", "dates"); ("-tod", "tods", "ints"); ("-c", "clim", "input"); ("-C", "clim", "input");
   ("-leg", "legend", "label"); ("-obs", "obs_field", "field"); ("-fcst", "fcst_field", "field");
   ("-T", "dim_agg_length", "int"); ("-Tagg", "dim_agg_method", "aggregator"); ("-Tx", "dim_agg_axis", "axis")].

Definition wired (d : string * string * string) : bool :=
  let '(flag, kw, kind) := d in
  match find (fun f => String.eqb flag (fst (fst (fst (fst f))))) valued_flags with
  | Some (_, var, k, _, _) =>
      String.eqb k kind &&
      match find (fun a => String.eqb kw (fst a)) data_args with
      | Some (_, v) => String.eqb v var
      | None => false
      end
  | None => false
  end.

Theorem C13_selection_options_reach_documented_argument : forallb wired documented_selection = true.
Proof. vm_compute. reflexivity. Qed.

(* -c subtracts, -C divides *)
Theorem C13_climatology_operation :
  (exists v k, In ("-c", v, k, "clim_type", "subtract") valued_flags) /\
  (exists v k, In ("-C", v, k, "clim_type", "divide") valued_flags) /\
  In ("clim_type", "clim_type") data_args.
Proof. repeat split; try (do 2 eexists); cbn; tauto. Qed.

(* flags are unique: no option is shadowed by an earlier branch of the chain *)
Theorem C13_flags_are_unique :
  NoDup (map (fun f => fst (fst f)) bool_flags ++ map (fun f => fst (fst (fst (fst f)))) valued_flags).
Proof.
  apply (NoDup_count_occ' string_dec). intros x Hx.
  repeat (destruct Hx as [<- | Hx]; [vm_compute; reflexivity|]). destruct Hx.
Qed.

(* the validations of the driver, in order *)
Theorem C13_validations_as_documented :
  validations = ["lat_range is not None and len(lat_range) != 2"; "lon_range is not None and len(lon_range) != 2";
                 "elev_range is not None and len(elev_range) != 2"; "obs_range is not None and len(obs_range) != 2";
                 "dim_agg_length is not None and dim_agg_length <= 0"] /\
  quantile_check = ["len(quantiles) == 0 or np.min(quantiles) < 0 or np.max(quantiles) > 1"].
Proof. split; reflexivity. Qed.

(* ---- the argument loop, for ANY option table --------------------------------------------------- *)
Theorem C13_option_order_does_not_matter : forall bflags vflags gs gs',
  Forall (wf bflags vflags) gs -> Permutation gs gs' ->
  NoDup (map fst (flat_map (assigned bflags vflags) gs)) ->
  flat_map file_of gs = flat_map file_of gs' ->
  exists p p', parse_loop bflags vflags (flat_map tokens gs) {| p_assign := []; p_files := [] |} = OK p /\
               parse_loop bflags vflags (flat_map tokens gs') {| p_assign := []; p_files := [] |} = OK p' /\
               (forall var, lookup var p = lookup var p') /\ p_files p = p_files p'.
Proof. exact order_independent. Qed.

Theorem C13_config_tokens_are_appended : forall read pre f post toks,
  ~ In "--config" pre -> ~ In "--config" post -> read f = Some toks ->
  config_tokens read (pre ++ "--config" :: f :: post)%list = OK toks.
Proof. exact config_is_appended. Qed.

Theorem C13_two_config_files_one_after_the_other : forall read pre f1 f2 post t1 t2,
  ~ In "--config" pre -> ~ In "--config" post -> read f1 = Some t1 -> read f2 = Some t2 ->
  config_tokens read (pre ++ "--config" :: f1 :: "--config" :: f2 :: post)%list = OK (t1 ++ t2)%list.
Proof. exact two_configs_back_to_back. Qed.

Theorem C13_unknown_flag_rejected : forall bflags vflags a v rest acc, starts_dash a = true ->
  find_bool bflags a = None -> find_val vflags a = None -> a <> "--config" ->
  parse_loop bflags vflags (a :: v :: rest) acc = Error 12%nat.
Proof. exact unknown_flag_rejected. Qed.
Theorem C13_flag_without_value_rejected : forall bflags vflags a acc, starts_dash a = true ->
  find_bool bflags a = None -> parse_loop bflags vflags [a] acc = Error 11%nat.
Proof. exact flag_without_value_rejected. Qed.
Theorem C13_config_without_filename_rejected : forall read pre, ~ In "--config" pre ->
  config_tokens read (pre ++ ["--config"])%list = Error 13%nat.
Proof. exact config_without_filename_rejected. Qed.
Theorem C13_range_needs_exactly_two_values : forall l, List.length l <> 2%nat -> range2 (Some l) = Error 15%nat.
Proof. exact range_needs_two_values. Qed.

(* ---- vector syntax ----------------------------------------------------------------------------- *)
Local Open Scope Q_scope.
Theorem C13_range_includes_the_end_point : forall a s (k : nat), (1 # 10000 < s) ->
  exists l, arange a (a + inject_Z (Z.of_nat k) * s + (1 # 10000)) s = l /\ List.length l = S k /\
            (nth k l 0 == a + inject_Z (Z.of_nat k) * s).
Proof. exact range_includes_end_point. Qed.

(* --list-dates: date and hh:mm:ss of every verified time, for every unix time (also those not on the hour) *)
Theorem C13_list_dates_clock : forall t : Z, let '(dt, hh, mm, ss) := date_clock t in
  (dt = unixtime_to_date t /\ 0 <= hh < 24 /\ 0 <= mm < 60 /\ 0 <= ss < 60 /\ t = day_start t + hh * 3600 + mm * 60 + ss)%Z.
Proof. exact date_clock_spec. Qed.
Print Assumptions C13_list_dates_clock.
Print Assumptions C13_option_order_does_not_matter.
Print Assumptions C13_range_includes_the_end_point.
Print Assumptions C13_selection_options_reach_documented_argument.

Local Open Scope string_scope.
Example C13_nonvacuous :
  parse_numbers false "3:2:9,1" = OK [3; 5; 7; 9; 1]%Q /\
  parse_numbers true "20120227:20120301" = OK [20120227; 20120228; 20120229; 20120301]%Q /\
  exists p, parse_args (fun _ => None) ["verif"; "a.txt"; "-latrange"; "50,60"; "-acc"; "b.txt"] = OK p /\
            lookup "lat_range" p = Some "50,60" /\ p_files p = ["a.txt"; "b.txt"].
Proof. split; [vm_compute; reflexivity|]. split; [vm_compute; reflexivity|]. eexists. vm_compute. repeat split. Qed.
