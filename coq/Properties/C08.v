(* Properties/C08.v -- Probabilistic scores follow their definitions; event probability from the CDF.
   get_p_prob, Bs/BsUnc/Bss cores and brier_edges are GENERATED from /repo's verif/metric.py;
   thr_from_ens is the hand model (Model/Brier.v) of the ensemble fallback in Data._get_score. *)
From Coq Require Import Reals ZArith List Bool.
From VF Require Import Base.Num Base.Vec Base.Event Gen.Gen_interval Gen.Gen_prob Model.Brier Proofs.RList Proofs.C08_proofs Proofs.C08_cov Proofs.C08_murphy.
Import ListNotations.
Local Open Scope R_scope.

(* the probability of an event: P(X <= upper) - P(X <= lower), with 1 and 0 at the infinite ends *)
Theorem C08_event_probability_from_cdf : forall bt t u a b,
  exists iv, interval_of XR bt (Fin t) (Fin u) = Some iv /\
  get_p_prob XR iv (Fin a) (Fin b) =
  Fin (match bt with Below | BelowEq => b - 0 | Above | AboveEq => 1 - a | _ => b - a end).
Proof. exact event_prob. Qed.

(* the event indicator paired with it: missing for a missing observation, 0 or 1 for a present one *)
Theorem C08_missing_observation_has_missing_indicator : forall iv, get_p_obs XR iv NaN = NaN.
Proof. exact missing_obs_missing_indicator. Qed.
Theorem C08_present_observation_has_01_indicator : forall iv o, exists b, get_p_obs XR iv (Fin o) = of_bool XR b.
Proof. exact present_obs_indicator. Qed.

(* Brier score, uncertainty and skill score equal their definitions on vectors of any length *)
Theorem C08_brier_score_definition : forall obs p, length obs = length p -> obs <> [] ->
  Bs_core XR (F obs) (F p) = Fin (rmean (map sqr (map2r Rminus p obs))).
Proof. exact Bs_value. Qed.
Theorem C08_brier_score_nonnegative : forall obs p, length obs = length p -> obs <> [] ->
  exists v, Bs_core XR (F obs) (F p) = Fin v /\ 0 <= v.
Proof. exact Bs_in_0_1_lower. Qed.
Theorem C08_uncertainty_definition : forall obs p, obs <> [] ->
  BsUnc_core XR (F obs) (F p) = Fin (rmean (map sqr (map (fun o => rmean obs - o) obs))).
Proof. exact BsUnc_value. Qed.
Theorem C08_brier_skill_score_definition : forall obs p, length obs = length p -> obs <> [] ->
  Bss_core XR (F obs) (F p) =
  let bs := rmean (map sqr (map2r Rminus p obs)) in
  let unc := rmean (map sqr (map (fun o => rmean obs - o) obs)) in
  if Reqb unc 0 then NaN else Fin ((unc - bs) / unc).
Proof. exact Bss_value. Qed.

(* the Brier score of an event equals that of its complement *)
Theorem C08_brier_score_of_complement : forall obs p, length obs = length p -> obs <> [] ->
  Bs_core XR (F (map (fun x => 1 - x) obs)) (F (map (fun x => 1 - x) p)) = Bs_core XR (F obs) (F p).
Proof. exact Bs_complement. Qed.

(* every forecast probability in [0, 1] (1 included: the top edge is 1.001) lies in exactly one of
   the ten bins [e_i, e_i+1) used by the reliability and resolution terms *)
Theorem C08_probability_in_exactly_one_bin : forall p, 0 <= p <= 1 -> bins_holding edgesR p = 1%nat.
Proof. exact probability_in_exactly_one_bin. Qed.
Theorem C08_ten_bins : length (brier_edges XR) = 11%nat.
Proof. reflexivity. Qed.

(* probability from the ensemble: the fraction of the PRESENT members at or below the threshold,
   in [0, 1]; missing members are ignored; missing when every member is missing *)
Theorem C08_probability_from_ensemble : forall t l, l <> [] ->
  thr_from_ens XR (Fin t) (F l) =
  Fin (IZR (Z.of_nat (length (filter (fun m => n_leb XR m (Fin t)) (F l)))) / nR l).
Proof. exact thr_from_ens_all_present. Qed.
Theorem C08_probability_from_ensemble_in_0_1 : forall t l, l <> [] ->
  exists v, thr_from_ens XR (Fin t) (F l) = Fin v /\ 0 <= v <= 1.
Proof. exact thr_from_ens_in_0_1. Qed.
Theorem C08_missing_members_ignored : forall t (ms : list xr),
  thr_from_ens XR t ms = thr_from_ens XR t (filter (fun m => negb (n_isnan XR m)) ms).
Proof. exact thr_from_ens_ignores_missing. Qed.
Theorem C08_all_members_missing_is_missing : forall t n, thr_from_ens XR (Fin t) (repeat NaN n) = NaN.
Proof. exact thr_from_ens_all_missing. Qed.

(* quantile (pinball) score: every term is non-negative for a level in [0, 1] (perfect score 0) *)
Theorem C08_pinball_term_nonnegative : forall q e, 0 <= q <= 1 -> 0 <= e * (q - (if Rltb e 0 then 1 else 0)).
Proof. exact pinball_term_nonneg. Qed.

(* quantile coverage ("capture"): the share of cases whose observation lies between the two forecast quantiles;
   the lower end is closed iff the bin type closes the lower end, the upper end iff it closes the upper end *)
Theorem C08_coverage_counts_observations_inside_the_quantile_interval : forall a b le ue obs q0 q1,
  length obs = length q0 -> length obs = length q1 ->
  QuantileCoverage_core XR (Build_interval XR (Fin a) (Fin b) le ue) (F obs) (F q0) (F q1) =
  bmean XR (map (fun t => inside le ue (snd (fst t)) (fst (fst t)) (snd t)) (zip3 obs q0 q1)).
Proof. exact coverage_two_sided. Qed.
Theorem C08_coverage_below_looks_at_the_upper_quantile : forall b le ue obs q0 q1,
  QuantileCoverage_core XR (Build_interval XR NInf (Fin b) le ue) (F obs) (F q0) (F q1) =
  bmean XR (map (fun t => if ue then (Rltb (snd t) (fst t) || Reqb (snd t) (fst t)) else Rltb (snd t) (fst t)) (combine q1 obs)).
Proof. exact coverage_below. Qed.
Print Assumptions C08_coverage_counts_observations_inside_the_quantile_interval.

Print Assumptions C08_brier_skill_score_definition.
Print Assumptions C08_probability_in_exactly_one_bin.
Print Assumptions C08_missing_members_ignored.
Print Assumptions C08_missing_observation_has_missing_indicator.

(* the Murphy decomposition BS = REL - RES + UNC, bin by bin: for the observations o of the cases in one probability bin
   whose forecasts all equal p, and the overall observed frequency obar,
     sum (p - o_i)^2 = n (p - mean o)^2 - n (mean o - obar)^2 + sum (obar - o_i)^2
   (the bin's share of n*BS, n*REL, n*RES and n*UNC).  PARTIAL: the summation over the ten bins of the executable model
   (Model/Brier.v: place / nanmean) is checked numerically on every run by ./check C08, not proved. *)
Theorem C08_murphy_identity_per_bin : forall (p obar : R) o, o <> [] ->
  rsum (map (fun x => (p - x) * (p - x)) o) =
  nR o * ((p - rmean o) * (p - rmean o)) - nR o * ((rmean o - obar) * (rmean o - obar)) + rsum (map (fun x => (obar - x) * (obar - x)) o).
Proof. exact murphy_bin_identity. Qed.
(* the whole score: for ANY grouping of the cases into groups sharing one forecast value (the ten probability bins when the
   forecasts take one value per bin) the summed squared errors are REL - RES + UNC, UNC being independent of the grouping *)
Theorem C08_murphy_decomposition_over_any_grouping : forall (obar : R) (groups : list (R * list R)),
  (forall g, In g groups -> snd g <> []) ->
  rsum (map g_bs groups) = rsum (map g_rel groups) - rsum (map (g_res obar) groups) + rsum (map (g_unc obar) groups).
Proof. exact murphy_decomposition. Qed.
Theorem C08_uncertainty_independent_of_grouping : forall (obar : R) (groups : list (R * list R)),
  rsum (map (g_unc obar) groups) = rsum (map (fun x => (obar - x) * (obar - x)) (concat (map snd groups))).
Proof. exact g_unc_concat. Qed.
Print Assumptions C08_murphy_identity_per_bin.
Print Assumptions C08_murphy_decomposition_over_any_grouping.
