(* Properties/C07.v -- Event definitions (-b) are the documented open/closed intervals.
   Only statements; every proof is `exact <lemma>` from Proofs/C07_proofs.v.  All definitions
   mentioned (within_elem, within_scalar, interval_of, get_intervals, apply_threshold,
   apply_threshold_prob) are GENERATED from /repo's verif/interval.py and verif/util.py. *)
From Coq Require Import Reals List Bool Lra.
From VF Require Import Base.Num Base.Vec Base.Event Gen.Gen_interval Proofs.C07_proofs.
Import ListNotations.
Local Open Scope R_scope.

(* (a) for each of the 8 bin types, membership in the interval that get_intervals builds from
       thresholds t (and u) is exactly the documented event, for every finite value *)
Theorem C07_within_is_documented_event : forall bt t u r,
  exists iv, interval_of XR bt (Fin t) (Fin u) = Some iv /\
  (within_iv iv (Fin r) = Some true <-> doc_event bt t u (Fin r)) /\
  (within_iv iv (Fin r) = Some false <-> ~ doc_event bt t u (Fin r)).
Proof. exact within_spec_fin. Qed.
Print Assumptions C07_within_is_documented_event.

(* missing values belong to no event (masked answer), and only missing values are masked *)
Theorem C07_nan_in_no_event : forall bt t u,
  exists iv, interval_of XR bt (Fin t) (Fin u) = Some iv /\ within_iv iv NaN = None /\ ~ doc_event bt t u NaN.
Proof. exact within_spec_nan. Qed.
Print Assumptions C07_nan_in_no_event.

Theorem C07_masked_iff_nan : forall iv x, within_iv iv x = None <-> x = NaN.
Proof. exact within_none_iff_nan. Qed.
Print Assumptions C07_masked_iff_nan.

(* scalars and arrays: the two branches of Interval.within agree *)
Theorem C07_array_agrees_with_scalar : forall lower upper le ue x,
  within_elem XR lower upper le ue x = within_scalar XR lower upper le ue x.
Proof. exact within_elem_scalar. Qed.
Print Assumptions C07_array_agrees_with_scalar.

(* infinite values lie outside every "within" event, as documented *)
Theorem C07_within_family_excludes_infinities : forall bt t u x,
  bt_pairs bt = true -> (x = PInf \/ x = NInf) ->
  exists iv, interval_of XR bt (Fin t) (Fin u) = Some iv /\ within_iv iv x = Some false /\ ~ doc_event bt t u x.
Proof. exact within_spec_inf_within. Qed.
Print Assumptions C07_within_family_excludes_infinities.

(* PARTIAL at +-inf for the one-sided types: the full statement "for every extended value" is
   FALSE of the faithful model: +inf > t but Interval(t, inf, False, False).within(inf) is False. *)
Theorem C07_one_sided_infinite_end_refuted :
  exists bt t iv, interval_of XR bt (Fin t) (Fin t) = Some iv /\
     doc_event bt t t PInf /\ within_iv iv PInf = Some false.
Proof. exact within_inf_refuted. Qed.
Print Assumptions C07_one_sided_infinite_end_refuted.

(* (b) binary thresholding (util.apply_threshold) agrees with interval membership *)
Theorem C07_thresholding_agrees_with_membership : forall bt t u r,
  exists iv b, interval_of XR bt (Fin t) (Fin u) = Some iv /\
    within_iv iv (Fin r) = Some b /\
    apply_threshold XR bt (Fin t) (Some (Fin u)) (Fin r) = Some (of_bool XR b).
Proof. exact threshold_agrees_fin. Qed.
Print Assumptions C07_thresholding_agrees_with_membership.

Theorem C07_thresholding_keeps_nan : forall bt t u,
  apply_threshold XR bt (Fin t) (Some (Fin u)) NaN = Some NaN.
Proof. exact threshold_nan. Qed.
Print Assumptions C07_thresholding_keeps_nan.

Theorem C07_thresholding_without_upper : forall bt t r,
  (bt_pairs bt = true -> apply_threshold XR bt (Fin t) None (Fin r) = None) /\
  (bt_pairs bt = false -> apply_threshold XR bt (Fin t) None (Fin r)
                          = apply_threshold XR bt (Fin t) (Some (Fin t)) (Fin r)).
Proof. exact threshold_upper_none. Qed.
Print Assumptions C07_thresholding_without_upper.

(* (c) within= events of consecutive increasing thresholds: disjoint, jointly cover (first, last] *)
Theorem C07_within_eq_partition : forall ts a r,
  increasing (a :: ts) ->
  (a < r <= last ts a -> count_in (a :: ts) r = 1%nat) /\
  (~ (a < r <= last ts a) -> count_in (a :: ts) r = 0%nat).
Proof. exact within_eq_partition. Qed.
Print Assumptions C07_within_eq_partition.

(* (d) above is the complement of below= (and above= of below) on non-missing values *)
Theorem C07_above_complements_beloweq : forall t r,
  exists iva ivb ba bb,
    interval_of XR Above (Fin t) (Fin t) = Some iva /\ interval_of XR BelowEq (Fin t) (Fin t) = Some ivb /\
    within_iv iva (Fin r) = Some ba /\ within_iv ivb (Fin r) = Some bb /\ ba = negb bb.
Proof. exact above_complements_beloweq. Qed.
Print Assumptions C07_above_complements_beloweq.

Theorem C07_aboveeq_complements_below : forall t r,
  exists iva ivb ba bb,
    interval_of XR AboveEq (Fin t) (Fin t) = Some iva /\ interval_of XR Below (Fin t) (Fin t) = Some ivb /\
    within_iv iva (Fin r) = Some ba /\ within_iv ivb (Fin r) = Some bb /\ ba = negb bb.
Proof. exact aboveeq_complements_below. Qed.
Print Assumptions C07_aboveeq_complements_below.

(* (e) event probabilities from the CDF: c, 1 - c, c_upper - c; error exit without c_upper *)
Theorem C07_event_probability : forall bt c cu,
  apply_threshold_prob XR c bt (Some cu) =
  Some (match bt with
        | Below | BelowEq => c
        | Above | AboveEq => n_sub XR (Fin 1) c
        | _ => n_sub XR cu c
        end).
Proof. exact prob_flip. Qed.
Print Assumptions C07_event_probability.

Theorem C07_get_intervals_count : forall bt (ts : list xr),
  length (get_intervals XR bt ts) = if bt_pairs bt then (length ts - 1)%nat else length ts.
Proof. exact get_intervals_length. Qed.
Print Assumptions C07_get_intervals_count.

(* non-vacuity: a concrete increasing threshold list and a value on a closed end *)
Example C07_partition_nonvacuous :
  increasing [0; 1; 2.5] /\ count_in [0; 1; 2.5] 1 = 1%nat /\ count_in [0; 1; 2.5] 0 = 0%nat.
Proof.
  pose proof (within_eq_partition [1; 2.5] 0 1) as H1.
  pose proof (within_eq_partition [1; 2.5] 0 0) as H0.
  assert (I : increasing [0; 1; 2.5]) by (cbn; repeat split; lra).
  split; [exact I|]. split.
  - apply (proj1 (H1 I)). cbn. lra.
  - apply (proj2 (H0 I)). cbn. lra.
Qed.
