(* Properties/C04.v -- Missing data never enters a score as a number.
   Statements about Model/Data.v (tied to verif/data.py by ./check C04); axiom-free, except the last block
   (the token rule of the text reader, GENERATED from verif/input.py Text._clean, over the extended reals). *)
From Coq Require Import Reals ZArith List Bool.
From VF Require Import Base.Num Gen.Gen_io Model.Data Proofs.Data_lemmas Proofs.Data_score Proofs.Data_coord Proofs.C03_proofs Proofs.C04_text.
Import ListNotations.

Section P.
Variable V : Type.
Variable vltb : V -> V -> bool.
Variable vsub vdiv : V -> V -> option V.

(* what get_scores hands to a metric is, for every requested field, a list of numbers only -- or,
   when no case is valid, the single NaN for every field; never a placeholder among numbers *)
Theorem C04_delivered_values_are_numbers_or_single_nan : forall (d : data V) fields k ax ai res,
  get_scores V vltb vsub vdiv d fields k ax ai = OK res ->
  Forall (fun col => col = [None]) res \/ Forall (all_numbers V) res.
Proof. exact (get_scores_numbers_or_nan V vltb vsub vdiv). Qed.

(* a position is kept only if every requested field is valid there *)
Theorem C04_kept_positions_valid_in_every_field : forall (cols : list (list (option V))) col x,
  In col cols -> In x (keep_valid V (valid_mask V cols) col) -> exists v, x = Some v.
Proof. exact (kept_values_are_numbers V). Qed.

(* a slice without any valid case delivers nothing (and get_scores then reports the single NaN) *)
Theorem C04_all_invalid_slice_is_empty : forall (mask : list bool) (col : list (option V)),
  forallb negb mask = true -> keep_valid V mask col = [].
Proof. exact (keep_valid_none V). Qed.

(* a value missing in ANY input makes the case missing for EVERY input (dropped, not replaced) *)
Theorem C04_missing_anywhere_is_missing_everywhere : forall (d : data V) cs k a b s,
  (k < length cs)%nat -> in_grid V d a b s ->
  cell V (nth k (propagate V d cs) []) a b s =
  if missing_anywhere V cs a b s then None else cell V (nth k cs []) a b s.
Proof. exact (propagate_cell V). Qed.

(* non-finite results of the climatology operation are missing *)
Theorem C04_nonfinite_anomaly_is_missing : forall divide (x c : option V),
  anomaly V vsub vdiv divide x c =
  match x, c with Some v, Some w => if divide then vdiv v w else vsub v w | _, _ => None end.
Proof. exact (anomaly_spec V vsub vdiv). Qed.
End P.
Print Assumptions C04_delivered_values_are_numbers_or_single_nan.
Print Assumptions C04_missing_anywhere_is_missing_everywhere.

Example C04_nonvacuous :
  keep_valid nat (valid_mask nat [[Some 1; None; Some 3]; [Some 4; Some 5; None]]%nat) [Some 1; None; Some 3]%nat = [Some 1%nat].
Proof. vm_compute. reflexivity. Qed.

(* ---- the text reader's token rule (generated): `parsed` = what Python's float(token) returns, None = ValueError ------ *)
(* a token that is not a number (NA, na, missing, ...) is missing *)
Theorem C04_unparsable_token_is_missing : text_cell XR None = NaN.
Proof. exact text_unparsable. Qed.
(* a token that parses to the NUMBER -999 is missing, however it is spelled (-999, -999.0, -9.99e2: same parsed value) *)
Theorem C04_minus_999_token_is_missing : text_cell XR (Some (Fin (-999)%R)) = NaN.
Proof. exact text_sentinel. Qed.
Theorem C04_nan_token_is_missing : text_cell XR (Some NaN) = NaN.
Proof. exact text_nan. Qed.
(* every other number is delivered exactly, and the placeholder never comes out as a number *)
Theorem C04_other_tokens_unchanged : forall r : R, r <> (-999)%R -> text_cell XR (Some (Fin r)) = Fin r.
Proof. exact text_keeps. Qed.
Theorem C04_placeholder_never_delivered : forall p, text_cell XR p <> Fin (-999)%R.
Proof. exact text_never_placeholder. Qed.
Print Assumptions C04_placeholder_never_delivered.
