(* Properties/C16.v -- diagrams draw the quantities their definitions prescribe.
   PARTIAL.  Model/Diagrams.v holds executable models of the defining statistics of: -hist, -sort,
   obsfcst (lines and shaded bands), qq, scatter points, change, cond, reliability, discrimination, roc,
   pithist, spreadskill, freq, marginal, error, taylor, performance, economicvalue, droc/droc0, murphy, invreliability, bsdecomp and timeseries lines; standard line plots
   (also with -acc) are compared with the -type csv table
   that C12 ties to the Data model.  ./check C16 reads the coordinates back from the matplotlib
   artists and compares them with these models (vm_compute, float instance) on the arrays the real
   Data object delivers.  Not modelled: fss, against, meteo, maps,
   impact views, the quantile lines of scatter (the rank view: Model/Rank.v).
   The theorems below are about the BINNING rules of the model (Model/Diagrams.member), for all
   strictly increasing edges and all values: "every valid case falls in exactly one bin". *)
From Coq Require Import Reals ZArith List Bool Lra.
From VF Require Import Base.Num Base.Vec Base.Event Gen.Gen_interval Model.Diagrams Proofs.RList Proofs.C16_proofs Proofs.C16_hist Proofs.C16_econ Model.Rank Proofs.C16_rank.
Import ListNotations.
Local Open Scope R_scope.

(* np.histogram rule -- pithist, reliability, discrimination: [e_i, e_i+1), the last bin closed *)
Theorem C16_histogram_bins_exactly_one : forall a e v, increasing (a :: e) -> e <> [] -> a <= v <= last_edge (a :: e) ->
  count COL true (a :: e) v = 1%nat.
Proof. intros a e v Hs Hne Hv. apply count_col_inside; assumption. Qed.
(* change: (e_i, e_i+1], the first bin closed *)
Theorem C16_change_bins_exactly_one : forall a e v, increasing (a :: e) -> e <> [] -> a <= v <= last_edge (a :: e) ->
  count OCF true (a :: e) v = 1%nat.
Proof. intros a e v Hs Hne Hv. apply count_ocf_inside; assumption. Qed.
(* plain half-open bins -- util.bin, scatter boxes -- partition [first, last) ... *)
Theorem C16_half_open_bins_exactly_one : forall a e v, increasing (a :: e) -> a <= v < last_edge (a :: e) ->
  count CO true (a :: e) v = 1%nat.
Proof. intros a e v Hs Hv. apply count_co_inside; assumption. Qed.
(* ... but NOT the closed range: the top edge is in no bin.  (This was the rule of the reliability and
   discrimination diagrams before the fix: commits recorded in KNOWN_FINDINGS.txt.) *)
Theorem C16_half_open_bins_lose_the_top_edge : forall a e, increasing (a :: e) -> count CO true (a :: e) (last_edge (a :: e)) = 0%nat.
Proof. intros a e Hs. apply count_co_top; exact Hs. Qed.
(* spread-skill bins (t_i-1, t_i] partition (first, last]; the bottom edge is in no bin *)
Theorem C16_left_open_bins_exactly_one : forall a e v, increasing (a :: e) -> a < v <= last_edge (a :: e) ->
  count OC false (a :: e) v = 1%nat.
Proof. intros a e v Hs Hv. apply (count_oc_inside e a Hs v Hv). Qed.
Theorem C16_left_open_bins_lose_the_bottom_edge : forall a e, increasing (a :: e) -> count OC true (a :: e) a = 0%nat.
Proof. exact (fun a e => count_oc_bottom e a). Qed.

(* obsfcst: the i-th band lies between the i-th lowest and the i-th highest quantile of the same input *)
Theorem C16_obsfcst_bands_pair_symmetric_quantiles : forall Fn f nq i, (i < nq)%nat ->
  obsfcst_band Fn f nq i = (qcol Fn f i, qcol Fn f (nq - 1 - i)).
Proof. exact band_pairs_symmetric_quantiles. Qed.
Theorem C16_fill_polygon_covers_all_valid_points : forall x lo up,
  length (fill_polygon XR x lo up) =
  (length (filter (fun p => notnan XR (fst p) && notnan XR (snd p)) (combine x lo)) +
   length (filter (fun p => notnan XR (fst p) && notnan XR (snd p)) (combine x up)))%nat.
Proof. exact fill_polygon_length. Qed.

(* -hist: the shares drawn add up to 100 % as soon as one value lies in a bin *)
Theorem C16_hist_shares_add_up_to_100 : forall ivs v,
  (exists iv, In iv ivs /\ count_within XR iv v <> Fin 0) ->
  exists l, hist_percent XR ivs v = map (@Fin R) l /\ rsum l = 100.
Proof. exact hist_percent_sums_to_100. Qed.

(* -m freq: every drawn frequency is a share in [0, 1] *)
Theorem C16_freq_values_are_shares : forall ivs v y, In y (freq_line XR ivs v) ->
  (forall iv, In iv ivs -> exists x b, In x v /\ iv_within XR iv x = Some b) ->
  exists r, y = Fin r /\ 0 <= r <= 1.
Proof. exact freq_line_in_unit_interval. Qed.

(* -m economicvalue: at every cost-loss ratio each case is in exactly one of the two groups (acts / does not act),
   also when its probability EQUALS the ratio (it then acts) *)
Theorem C16_economic_value_groups_partition_the_cases : forall a ps,
  (count_true (econ_acts XR (Fin a) (map (@Fin R) ps)) + count_true (econ_waits XR (Fin a) (map (@Fin R) ps)))%nat = length ps.
Proof. exact econ_partition. Qed.
Theorem C16_probability_equal_to_the_ratio_acts : forall a : R,
  n_leb XR (Fin a) (Fin a) = true /\ n_ltb XR (Fin a) (Fin a) = false.
Proof. exact econ_equal_acts. Qed.

(* -m murphy: at every probability threshold each case is in exactly one of the three classes (p > e, p < e, p = e) whose
   terms make up the mean elementary score *)
Theorem C16_murphy_classes_partition_the_cases : forall e ps,
  (count_true (murphy_over XR (Fin e) (map (@Fin R) ps)) + count_true (murphy_under XR (Fin e) (map (@Fin R) ps))
   + count_true (murphy_equal XR (Fin e) (map (@Fin R) ps)))%nat = length ps.
Proof. exact murphy_partition. Qed.

(* -type rank: at every rank position the bars of the inputs and the "None" bar account for every counted slice exactly once
   (so the stacked shares add up to 1); a slice where some input has no score is in no bar *)
Theorem C16_rank_bars_account_for_every_counted_slice : forall F j rows, well_ranked F j rows ->
  (sum_upto F (fun i => rank_count F i j rows) + tie_count rows = valid_count rows)%nat.
Proof. exact rank_counts_partition. Qed.

(* non-vacuity *)
Example C16_example : increasing [0; 1/2; 1] /\ [0; 1/2; 1] <> [] /\ 0 <= 1 <= last_edge [0; 1/2; 1].
Proof. unfold last_edge; cbn. repeat split; try lra. discriminate. Qed.

Print Assumptions C16_histogram_bins_exactly_one.
Print Assumptions C16_change_bins_exactly_one.
Print Assumptions C16_half_open_bins_exactly_one.
Print Assumptions C16_half_open_bins_lose_the_top_edge.
Print Assumptions C16_left_open_bins_exactly_one.
Print Assumptions C16_left_open_bins_lose_the_bottom_edge.
Print Assumptions C16_obsfcst_bands_pair_symmetric_quantiles.
Print Assumptions C16_fill_polygon_covers_all_valid_points.
Print Assumptions C16_hist_shares_add_up_to_100.
Print Assumptions C16_economic_value_groups_partition_the_cases.
Print Assumptions C16_murphy_classes_partition_the_cases.
Print Assumptions C16_rank_bars_account_for_every_counted_slice.
