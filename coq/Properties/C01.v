(* Properties/C01.v -- Fair comparison: every input is scored on the identical set of cases.
   Statements about Model/Data.v (tied to verif/data.py by ./check C01); axiom-free.
   `cs` is the list of per-input arrays of one field on the common grid, climatology last
   (get_score_all d f = OK (propagate d cs), by definition of the model). *)
From Coq Require Import ZArith List Bool.
From VF Require Import Model.Data Proofs.Data_lemmas Proofs.Data_score Proofs.Data_coord.
Import ListNotations.

Section P.
Variable V : Type.

(* a case contributes to input k's array only if EVERY input (and the climatology) has a value for
   that quantity at that case; then the value is input k's own *)
Theorem C01_case_needs_every_input : forall (d : data V) cs k a b s v,
  (k < length cs)%nat -> in_grid V d a b s ->
  (cell V (nth k (propagate V d cs) []) a b s = Some v <->
   cell V (nth k cs []) a b s = Some v /\ forall c, In c cs -> exists w, cell V c a b s = Some w).
Proof. exact (propagate_valid_iff V). Qed.

(* all inputs are scored on exactly the same cases, for any number of inputs *)
Theorem C01_same_cases_for_all_inputs : forall (d : data V) cs k k' a b s,
  (k < length cs)%nat -> (k' < length cs)%nat -> in_grid V d a b s ->
  is_some (cell V (nth k (propagate V d cs) []) a b s) = is_some (cell V (nth k' (propagate V d cs) []) a b s).
Proof. exact (propagate_same_cases V). Qed.

(* changing the non-missing values of input g (same missingness) never changes what any other
   input k delivers *)
Theorem C01_non_interference : forall (d : data V) cs g c' k,
  (g < length cs)%nat -> k <> g -> same_missing V (nth g cs []) c' ->
  nth k (propagate V d (replace_nth g c' cs)) [] = nth k (propagate V d cs) [].
Proof. exact (propagate_non_interference V). Qed.

(* the per-request validity mask: every requested field delivers the same number of cases *)
Theorem C01_same_number_of_cases_per_field : forall mask (c1 c2 : list (option V)),
  length c1 = length c2 -> length (keep_valid V mask c1) = length (keep_valid V mask c2).
Proof. exact (keep_valid_length V). Qed.

(* an input without observations is scored against those of the first input that has them *)
Theorem C01_observations_are_shared : forall (l : list (option (cube V))) cs,
  share_obs V l = OK cs ->
  exists c0, find (fun o => match o with Some _ => true | None => false end) l = Some (Some c0) /\
             cs = map (fun o => match o with Some c => c | None => c0 end) l.
Proof.
  intros l cs. unfold share_obs.
  destruct (find (fun o => match o with Some _ => true | None => false end) l) as [[c0|]|]; try discriminate.
  intros H. injection H as <-. exists c0. split; reflexivity.
Qed.
End P.
Print Assumptions C01_case_needs_every_input.
Print Assumptions C01_same_cases_for_all_inputs.
Print Assumptions C01_non_interference.
Print Assumptions C01_observations_are_shared.

(* non-vacuity: three inputs, a case missing in the last one is missing for all; another is kept *)
Definition exd : data nat := Build_data nat [] false false None [0%Z] [0%Z] [Build_loc 1 0 0 0; Build_loc 2 0 0 0] [] [] [].
Definition excs : list (cube nat) := [ [[[Some 1; Some 2]]]; [[[Some 3; Some 4]]]; [[[None; Some 6]]] ]%nat.
Example C01_nonvacuous :
  cell nat (nth 0 (propagate nat exd excs) []) 0 0 0 = None /\
  cell nat (nth 0 (propagate nat exd excs) []) 0 0 1 = Some 2%nat /\
  cell nat (nth 1 (propagate nat exd excs) []) 0 0 1 = Some 4%nat.
Proof. vm_compute. repeat split. Qed.
