(* Properties/C18.v -- Query results are independent of query history and repeatable.
   Model/DataState.v is the stateful reading of Data.get_scores (caches, heap of array objects with
   identity, all in-place writes); Model/Data.v is the pure answer of a freshly built dataset. *)
From Coq Require Import ZArith QArith List Bool.
From VF Require Import Base.Num Model.Data Model.Cal Model.DataQ Model.DataState Model.DataStateQ Proofs.C18_proofs Proofs.C18_frame Proofs.C18_refine.
Import ListNotations.
Open Scope Z_scope.

(* a two-location dataset whose forecast is missing at the second location *)
Definition w_in : inputQ :=
  Build_input Q [0] [0] [Build_loc 1 0 0 0; Build_loc 2 0 0 0]
    [(FObs, [[[Some (1#1)%Q; Some (2#1)%Q]]]); (FFcst, [[[Some (5#1)%Q; None]]])].
Definition w_cfg : configQ := Build_config Q None None None None None None None None None None None false.
Definition w_all : key := {| k_fields := [FObs; FFcst]; k_input := 0; k_axis := SAll |}.
Definition w_obs : key := {| k_fields := [FObs]; k_input := 0; k_axis := SAx 3 0 |}.

Definition answer_after (copy_all : bool) (hist : list key) (r : key) : option (list (list (option Q))) :=
  match mk_dataQ w_cfg [w_in] with
  | Error _ => None
  | OK d =>
      let '(s, _) := runQ copy_all d (init Q) hist in
      match stepQ copy_all d s r with
      | OK (s1, ids) => Some (map (fun id => flat_of Q (read Q s1 id)) ids)
      | Error _ => None
      end
  end.

(* REFUTED for the code as pinned (whole-array requests hand out the cached array and mask it in
   place): after get_scores([Obs,Fcst], 0, All) the request get_scores(Obs, 0, No) loses a case *)
Theorem C18_history_independence_refuted_without_copy :
  answer_after false [] w_obs = Some [[Some (1#1)%Q; Some (2#1)%Q]] /\
  answer_after false [w_all] w_obs = Some [[Some (1#1)%Q]].
Proof. vm_compute. split; reflexivity. Qed.

(* with the repair (a copy is handed out) the same history is harmless *)
Theorem C18_witness_history_harmless_with_copy :
  answer_after true [w_all] w_obs = answer_after true [] w_obs.
Proof. vm_compute. reflexivity. Qed.
Print Assumptions C18_history_independence_refuted_without_copy.

(* FOR HISTORIES OF ANY LENGTH (induction over the request list, invariant: the handed-out objects, the
   cached field arrays and the heap bound; Proofs/C18_frame.v): with the repair in place, the arrays
   returned by a call are never altered by any later sequence of calls -- "earlier results stay what
   they were".  Together with C18_repeated_request_same_objects (a repeated request returns
   those very objects) this is the REPEATABILITY half of the property, for every dataset, value type,
   option set and history. *)
Theorem C18_returned_arrays_never_altered :
  forall V vltb vsub vdiv axis_of (d : data V) hist1 rq hist2 s2 ids,
  step V vltb vsub vdiv true axis_of d (fst (run V vltb vsub vdiv true axis_of d (init V) hist1)) rq = OK (s2, ids) ->
  forall id, In id ids -> read V (fst (run V vltb vsub vdiv true axis_of d s2 hist2)) id = read V s2 id.
Proof. exact returned_arrays_never_altered. Qed.
Print Assumptions C18_returned_arrays_never_altered.

(* HISTORY INDEPENDENCE, for histories of ANY length (refinement of the stateful model to the pure one;
   Proofs/C18_refine.v: invariant = heap discipline of C18_frame + "every cached field array holds the
   propagated array of a fresh load, up to the idempotent -obsrange mask" + "every cached answer holds
   the pure answer" + "observation arrays are not aliased with other fields"):
   whatever requests were made before -- any fields, inputs, axes, slices, in any order, any number --
   the repaired get_scores answers a request with exactly the arrays [pure] = Data.get_scores /
   Data.get_scores_all of a freshly built dataset computes, and fails exactly when it fails.
   [pure] is the model the dataset properties C01-C04, C11, C14 are proved about and that the
   correspondence check compares with the real verif.data.Data on every run. *)
Theorem C18_answers_independent_of_history :
  forall V vltb vsub vdiv axis_of (d : data V) hist rq,
  match step V vltb vsub vdiv true axis_of d (fst (run V vltb vsub vdiv true axis_of d (init V) hist)) rq with
  | OK (s', ids) => pure V vltb vsub vdiv axis_of d rq = OK (contents V s' ids)
  | Error e => pure V vltb vsub vdiv axis_of d rq = Error e
  end.
Proof. exact answers_like_fresh. Qed.
Print Assumptions C18_answers_independent_of_history.

(* one call, from any state satisfying the invariant: the answer is the pure one and the invariant is kept *)
Theorem C18_one_call_refines :
  forall V vltb vsub vdiv axis_of (d : data V) s rq, FULL V vltb vsub vdiv axis_of d s ->
  match step V vltb vsub vdiv true axis_of d s rq with
  | OK (s', ids) => pure V vltb vsub vdiv axis_of d rq = OK (contents V s' ids) /\ FULL V vltb vsub vdiv axis_of d s'
  | Error e => pure V vltb vsub vdiv axis_of d rq = Error e
  end.
Proof. exact step_refines. Qed.
Print Assumptions C18_one_call_refines.

(* two further facts used above, stated on their own: *)
Theorem C18_repeated_request_same_objects :
  forall V vltb vsub vdiv copy_all axis_of (d : data V) (s : state V) rq p,
  find (fun p => key_eqb rq (fst p)) (scache V s) = Some p ->
  step V vltb vsub vdiv copy_all axis_of d s rq = OK (s, snd p).
Proof. exact step_cache_hit. Qed.

Theorem C18_obsrange_mask_idempotent : forall V vltb r (c : cube V),
  map (map (map (mask_obs_range V vltb r))) (map (map (map (mask_obs_range V vltb r))) c)
  = map (map (map (mask_obs_range V vltb r))) c.
Proof. exact mask_cube_idempotent. Qed.
Print Assumptions C18_repeated_request_same_objects.
