(* Properties/C18.v -- Query results are independent of query history and repeatable.
   Model/DataState.v is the stateful reading of Data.get_scores (caches, heap of array objects with
   identity, all in-place writes); Model/Data.v is the pure answer of a freshly built dataset. *)
From Coq Require Import ZArith QArith List Bool.
From VF Require Import Base.Num Model.Data Model.Cal Model.DataQ Model.DataState Model.DataStateQ Proofs.C18_proofs Proofs.C18_frame.
Import ListNotations.
Open Scope Z_scope.

(* a two-location dataset whose forecast is missing at the second location *)
Definition w_in : inputQ :=
  Build_input Q [0] [0] [Build_loc 1 0 0 0; Build_loc 2 0 0 0]
    [(FObs, [[[Some (1#1)%Q; Some (2#1)%Q]]]); (FFcst, [[[Some (5#1)%Q; None]]])].
Definition w_cfg : configQ := Build_config Q None None None None None None None None None None None false.
Definition w_all : key := {| k_fields := [FObs; FFcst]; k_input := 0; k_axis := SAll |}.
Definition w_obs : key := {| k_fields := [FObs]; k_input := 0; k_axis := SAx 3 0 |}.

Definition answer_after (copy_all : bool) (hist : list key) (r : key) : option (list (list (option Q))) :=
  match mk_dataQ w_cfg [w_in] with
  | Error _ => None
  | OK d =>
      let '(s, _) := runQ copy_all d (init Q) hist in
      match stepQ copy_all d s r with
      | OK (s1, ids) => Some (map (fun id => flat_of Q (read Q s1 id)) ids)
      | Error _ => None
      end
  end.

(* REFUTED for the code as pinned (whole-array requests hand out the cached array and mask it in
   place): after get_scores([Obs,Fcst], 0, All) the request get_scores(Obs, 0, No) loses a case *)
Theorem C18_history_independence_refuted_without_copy :
  answer_after false [] w_obs = Some [[Some (1#1)%Q; Some (2#1)%Q]] /\
  answer_after false [w_all] w_obs = Some [[Some (1#1)%Q]].
Proof. vm_compute. split; reflexivity. Qed.

(* with the repair (a copy is handed out) the same history is harmless *)
Theorem C18_witness_history_harmless_with_copy :
  answer_after true [w_all] w_obs = answer_after true [] w_obs.
Proof. vm_compute. reflexivity. Qed.
Print Assumptions C18_history_independence_refuted_without_copy.

(* FOR HISTORIES OF ANY LENGTH (induction over the request list, invariant: the handed-out objects, the
   cached field arrays and the heap bound; Proofs/C18_frame.v): with the repair in place, the arrays
   returned by a call are never altered by any later sequence of calls -- "earlier results stay what
   they were".  Together with C18_repeated_request_same_objects_partial (a repeated request returns
   those very objects) this is the REPEATABILITY half of the property, for every dataset, value type,
   option set and history. *)
Theorem C18_returned_arrays_never_altered :
  forall V vltb vsub vdiv axis_of (d : data V) hist1 rq hist2 s2 ids,
  step V vltb vsub vdiv true axis_of d (fst (run V vltb vsub vdiv true axis_of d (init V) hist1)) rq = OK (s2, ids) ->
  forall id, In id ids -> read V (fst (run V vltb vsub vdiv true axis_of d s2 hist2)) id = read V s2 id.
Proof. exact returned_arrays_never_altered. Qed.
Print Assumptions C18_returned_arrays_never_altered.

(* PARTIAL (general statements proved so far; the invariant proof that EVERY history of the
   repaired step function answers like a fresh dataset is work in progress -- until then that
   statement is carried by the exhaustive-history correspondence and the falsifier of ./check C18):
   repeating a request returns the very same objects without touching the state; the in-place
   -obsrange mask is idempotent, so applying it again for a later request cannot change an array. *)
Theorem C18_repeated_request_same_objects_partial :
  forall V vltb vsub vdiv copy_all axis_of (d : data V) (s : state V) rq p,
  find (fun p => key_eqb rq (fst p)) (scache V s) = Some p ->
  step V vltb vsub vdiv copy_all axis_of d s rq = OK (s, snd p).
Proof. exact step_cache_hit. Qed.

Theorem C18_obsrange_mask_idempotent_partial : forall V vltb r (c : cube V),
  map (map (map (mask_obs_range V vltb r))) (map (map (map (mask_obs_range V vltb r))) c)
  = map (map (map (mask_obs_range V vltb r))) c.
Proof. exact mask_cube_idempotent. Qed.
Print Assumptions C18_repeated_request_same_objects_partial.
