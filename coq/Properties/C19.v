(* Properties/C19.v -- documented metric / axis / output combinations never crash.
   PARTIAL.  What a theorem can carry is the decision logic that protects the numerical code: the
   capability tables (class attributes of every metric and output) and the gating statements of
   verif.driver.run, GENERATED from /repo on every run (Gen/Gen_caps.v).  Whether numpy / matplotlib
   raise inside a permitted combination is runtime behaviour the model cannot exhibit: ./check C19
   enumerates the cross product on the real driver (every exception is a violation with its argv). *)
From Coq Require Import String List Bool.
From VF Require Import Gen.Gen_caps Model.Gate Proofs.C19_proofs.
Import ListNotations.
Local Open Scope string_scope.

(* for ANY capability flags (not only those of the current tables): *)
Theorem C19_gate_only_drops : forall pl m ax, gate pl m ax = None \/ gate pl m ax = ax.
Proof. exact gate_none_or_same. Qed.
Theorem C19_surviving_axis_is_supported : forall pl m ax a, gate pl m ax = Some a -> oc_x pl = true.
Proof. exact gate_axis_supported. Qed.
Theorem C19_threshold_axis_reaches_only_supporting_code : forall pl m ax, gate pl m ax = Some "threshold" ->
  oc_thr pl = true /\ (m = None \/ exists c, m = Some c /\ mc_thr c = true).
Proof. exact gate_threshold_supported. Qed.
Theorem C19_obs_fcst_axis_reaches_only_supporting_code : forall pl m ax a, gate pl m ax = Some a -> a = "obs" \/ a = "fcst" ->
  oc_field pl = true /\ (m = None \/ exists c, m = Some c /\ mc_field c = true).
Proof. exact gate_field_supported. Qed.
Theorem C19_supported_axis_is_kept : forall pl m a,
  oc_x pl = true ->
  (a = "threshold" -> oc_thr pl = true /\ m_thr m = m_some m) ->
  (a = "obs" \/ a = "fcst" -> oc_field pl = true /\ m_field m = m_some m) ->
  gate pl m (Some a) = Some a.
Proof. exact gate_keeps_supported. Qed.

(* for the tables of the CURRENT source (finite, decided by vm_compute): *)
Theorem C19_every_declared_threshold_type_is_recognised :
  (forall c, In c metric_caps -> known_rtt (mc_rtt c) = true) /\ (forall o, In o output_caps -> known_rtt (oc_rtt o) = true).
Proof. split; [exact every_metric_rtt_known | exact every_output_rtt_known]. Qed.
Theorem C19_internal_error_exit_unreachable : no_internal_error = true.
Proof. exact no_internal_error_ok. Qed.
Theorem C19_required_thresholds_are_provided : needs_are_met = true.
Proof. exact needs_are_met_ok. Qed.
Theorem C19_every_diagram_name_has_a_class : chain_classes_exist = true.
Proof. exact chain_classes_exist_ok. Qed.

(* output-type dispatch: every documented -type is routed to one of the six core methods; a standard metric
   (class Standard) defines all of them; every special diagram defines at least the plot *)
Theorem C19_every_output_type_is_routed : every_type_has_a_core = true.
Proof. exact every_type_has_a_core_ok. Qed.
Theorem C19_standard_metrics_support_every_output_type : standard_supports_all_types = true.
Proof. exact standard_supports_all_types_ok. Qed.
Theorem C19_every_diagram_can_be_plotted : every_diagram_plots = true.
Proof. exact every_diagram_plots_ok. Qed.

(* non-vacuity: obsfcst drops -x threshold, ets keeps it *)
Example C19_example :
  (match find_output "ObsFcst" with Some o => gate o None (Some "threshold") | None => Some "?" end) = None /\
  (match find_output "Standard", find (fun c => String.eqb (mc_name c) "ets") metric_caps with
   | Some o, Some c => gate o (Some c) (Some "threshold") | _, _ => None end) = Some "threshold".
Proof. vm_compute. split; reflexivity. Qed.

Print Assumptions C19_gate_only_drops.
Print Assumptions C19_surviving_axis_is_supported.
Print Assumptions C19_threshold_axis_reaches_only_supporting_code.
Print Assumptions C19_obs_fcst_axis_reaches_only_supporting_code.
Print Assumptions C19_supported_axis_is_kept.
Print Assumptions C19_every_declared_threshold_type_is_recognised.
Print Assumptions C19_internal_error_exit_unreachable.
Print Assumptions C19_required_thresholds_are_provided.
Print Assumptions C19_every_diagram_name_has_a_class.
Print Assumptions C19_standard_metrics_support_every_output_type.
