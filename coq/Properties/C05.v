(* Properties/C05.v -- Deterministic scores equal their published definitions.
   X_core / X_perfect / obsfcst_compute are GENERATED from /repo's verif/metric.py on every run;
   F l is the vector of finite reals l, agg the -agg function.  Proofs in Proofs/C05_proofs.v. *)
From Coq Require Import Reals List Bool QArith.
From VF Require Import Base.Num Base.Vec Base.Event Gen.Gen_interval Gen.Gen_detmetrics Proofs.RList Proofs.C05_proofs Proofs.C05_corr.
Import ListNotations.
Local Open Scope R_scope.

(* the pair filter: pairs with a missing side are removed; nothing left => NaN, never a number *)
Theorem C05_no_valid_pair_is_nan : forall core obs fcst,
  valid_pairs XR obs fcst = [] -> obsfcst_compute XR core obs fcst = NaN.
Proof. exact obsfcst_compute_no_pairs. Qed.
Theorem C05_score_of_valid_pairs_only : forall core obs fcst,
  valid_pairs XR obs fcst <> [] ->
  obsfcst_compute XR core obs fcst = core (map fst (valid_pairs XR obs fcst)) (map snd (valid_pairs XR obs fcst)).
Proof. exact obsfcst_compute_some_pairs. Qed.
Theorem C05_valid_pairs_have_no_missing_side : forall obs fcst p, In p (valid_pairs XR obs fcst) ->
  n_isnan XR (fst p) = false /\ n_isnan XR (snd p) = false /\ In p (combine obs fcst).
Proof. exact valid_pairs_no_nan. Qed.

(* the chosen aggregator is applied to the documented quantity, for ANY aggregator *)
Theorem C05_mae_aggregates_absolute_errors : forall obs fcst agg,
  Mae_core XR agg (F obs) (F fcst) = agg (F (map Rabs (err obs fcst))).
Proof. intros; apply Mae_uses_agg. Qed.
Theorem C05_bias_aggregates_fcst_minus_obs : forall obs fcst agg,
  Bias_core XR agg (F obs) (F fcst) = agg (F (map2r Rminus fcst obs)).
Proof. intros; apply Bias_uses_agg. Qed.
Theorem C05_diff_is_difference_of_aggregates : forall obs fcst agg,
  Diff_core XR agg (F obs) (F fcst) = n_sub XR (agg (F fcst)) (agg (F obs)).
Proof. intros; apply Diff_uses_agg. Qed.
Theorem C05_ratio_is_ratio_of_aggregates_or_nan : forall obs fcst agg,
  Ratio_core XR agg (F obs) (F fcst) =
  if n_eqb XR (agg (F obs)) (Fin 0) then NaN else n_div XR (agg (F fcst)) (agg (F obs)).
Proof. intros; apply Ratio_uses_agg. Qed.
Theorem C05_rmse_aggregates_squared_errors : forall obs fcst agg,
  Rmse_core XR agg (F obs) (F fcst) = n_sqrt XR (agg (F (map sqr (err obs fcst)))).
Proof. intros; apply Rmse_uses_agg. Qed.

(* textbook closed forms with the default aggregator, for vectors of every length >= 1 *)
Theorem C05_mae_definition : forall obs fcst, length obs = length fcst -> obs <> [] ->
  Mae_core XR (vmean XR) (F obs) (F fcst) = Fin (rmean (map Rabs (err obs fcst))).
Proof. exact Mae_value. Qed.
Theorem C05_rmse_definition : forall obs fcst, length obs = length fcst -> obs <> [] ->
  Rmse_core XR (vmean XR) (F obs) (F fcst) = Fin (sqrt (rmean (map sqr (err obs fcst)))).
Proof. exact Rmse_value. Qed.
Theorem C05_stderror_definition : forall obs fcst, length obs = length fcst -> obs <> [] ->
  StdError_core XR (F obs) (F fcst) =
  Fin (sqrt (rmean (map sqr (map (fun e => e - rmean (err obs fcst)) (err obs fcst))))).
Proof. exact StdError_value. Qed.
Theorem C05_nsec_definition_and_undefined_case : forall obs fcst, obs <> [] ->
  Nsec_core XR (F obs) (F fcst) =
  let den := rsum (map sqr (map (fun o => o - rmean obs) obs)) in
  if Reqb den 0 then NaN else Fin (1 - rsum (map sqr (map2r Rminus fcst obs)) / den).
Proof. exact Nsec_value. Qed.

(* no forecast scores better than the perfect score *)
Theorem C05_mae_never_below_zero : forall obs fcst, length obs = length fcst -> obs <> [] ->
  exists v, Mae_core XR (vmean XR) (F obs) (F fcst) = Fin v /\ 0 <= v.
Proof. exact Mae_nonneg. Qed.
Theorem C05_rmse_never_below_zero : forall obs fcst, length obs = length fcst -> obs <> [] ->
  exists v, Rmse_core XR (vmean XR) (F obs) (F fcst) = Fin v /\ 0 <= v.
Proof. exact Rmse_nonneg. Qed.
Theorem C05_stderror_never_below_zero : forall obs fcst, length obs = length fcst -> obs <> [] ->
  exists v, StdError_core XR (F obs) (F fcst) = Fin v /\ 0 <= v.
Proof. exact StdError_nonneg. Qed.
Theorem C05_nsec_never_above_one : forall obs fcst, obs <> [] -> forall v,
  Nsec_core XR (F obs) (F fcst) = Fin v -> v <= 1.
Proof. exact Nsec_le_1. Qed.

(* a forecast identical to the observations attains the declared perfect score *)
Theorem C05_mae_perfect : forall obs, obs <> [] -> Some (Mae_core XR (vmean XR) (F obs) (F obs)) = Mae_perfect XR.
Proof. exact Mae_perfect_attained. Qed.
Theorem C05_bias_perfect : forall obs, obs <> [] -> Some (Bias_core XR (vmean XR) (F obs) (F obs)) = Bias_perfect XR.
Proof. exact Bias_perfect_attained. Qed.
Theorem C05_rmse_perfect : forall obs, obs <> [] -> Some (Rmse_core XR (vmean XR) (F obs) (F obs)) = Rmse_perfect XR.
Proof. exact Rmse_perfect_attained. Qed.
Theorem C05_stderror_perfect : forall obs, obs <> [] -> Some (StdError_core XR (F obs) (F obs)) = StdError_perfect XR.
Proof. exact StdError_perfect_attained. Qed.
Theorem C05_nsec_perfect_or_undefined : forall obs, obs <> [] ->
  Nsec_core XR (F obs) (F obs) = NaN \/ Some (Nsec_core XR (F obs) (F obs)) = Nsec_perfect XR.
Proof. exact Nsec_perfect_attained. Qed.
Theorem C05_diff_perfect_any_aggregator : forall obs agg, is_fin (agg (F obs)) ->
  Some (Diff_core XR agg (F obs) (F obs)) = Diff_perfect XR.
Proof. exact Diff_perfect_attained. Qed.

Print Assumptions C05_stderror_definition.
(* correlation: Cauchy-Schwarz, hence never above the declared perfect score 1 (nor below -1); a perfect forecast scores 1 *)
Theorem C05_cauchy_schwarz : forall a b, dot a b * dot a b <= ssq a * ssq b.
Proof. exact cauchy_schwarz. Qed.
Theorem C05_corr_between_minus_one_and_one : forall obs fcst v, fcst <> [] ->
  Corr_core XR (F obs) (F fcst) = Fin v -> -1 <= v <= 1.
Proof. exact Corr_bounded. Qed.
Theorem C05_corr_of_identical_vectors_is_one : forall a, a <> [] -> 0 < ssq (dev a) -> pearson XR (F a) (F a) = Fin 1.
Proof. exact pearson_perfect. Qed.
Print Assumptions C05_corr_between_minus_one_and_one.
Print Assumptions C05_nsec_never_above_one.
Print Assumptions C05_no_valid_pair_is_nan.

(* REFUTED: the alpha index of a perfect forecast is 1, but the class declares perfect_score = 0
   (exact rational instance XQ of the same generated definition; known finding C05 alphaindex) *)
Local Open Scope Q_scope.
Definition qv (l : list Q) : list (numT XQ) := map (@Fin Q) l.
Definition fin_eqb (x : numT XQ) (q : Q) : bool := match x with Fin r => Qeq_bool r q | _ => false end.
Theorem C05_alphaindex_perfect_score_refuted :
  fin_eqb (Alphaindex_core XQ (qv [1; 2; 4]) (qv [1; 2; 4])) 1 = true /\
  Alphaindex_perfect XQ = Some (Fin (0 # 1)).
Proof. vm_compute. split; reflexivity. Qed.
