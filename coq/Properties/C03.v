(* Properties/C03.v -- Verified dimensions = intersection of inputs and the user's subset.
   Statements about the hand-written model Model/Data.v (tied to verif/data.py by the
   correspondence check of ./check C03); proofs in Proofs/C03_proofs.v. Axiom-free. *)
From Coq Require Import ZArith List Bool.
From VF Require Import Model.Data Proofs.Data_lemmas Proofs.C03_proofs.
Import ListNotations.
Local Open Scope Z_scope.

Section P.
Variable V : Type.
Variable vltb : V -> V -> bool.
Variable vsub vdiv : V -> V -> option V.

(* (a) the verified times are exactly those present in every input and the climatology file that
       satisfy -t, -d and -tod; same for lead times (-o) *)
Theorem C03_times_are_intersection_and_subset : forall (cfg : config V) ins d t,
  mk_data V cfg ins = OK d ->
  (In t (d_times d) <->
   (forall i, In i (all_inputs V cfg ins) -> In t (i_times i)) /\
   (match c_times cfg with Some l => In t l | None => True end) /\
   date_ok V cfg t = true /\ tod_ok V cfg t = true).
Proof. exact (times_spec V). Qed.

Theorem C03_leadtimes_are_intersection_and_subset : forall (cfg : config V) ins d l,
  mk_data V cfg ins = OK d ->
  (In l (d_leads d) <->
   (forall i, In i (all_inputs V cfg ins) -> In l (i_leads i)) /\
   (match c_leads cfg with Some u => In l u | None => True end)).
Proof. exact (leads_spec V). Qed.

(* locations: present in every input, and selected by -l / -latrange / -lonrange / -elevrange / -lx
   (inclusive ranges, evaluated on the first input's metadata) *)
Theorem C03_locations_are_intersection_and_subset : forall (cfg : config V) ins d x,
  mk_data V cfg ins = OK d ->
  exists first rest use, ins = first :: rest /\ use_locations V cfg first = OK use /\
  (In x (map l_id (d_locs d)) <->
   (forall i, In i (all_inputs V cfg ins) -> In x (map l_id (i_locs i))) /\ In x use).
Proof. exact (locs_spec V). Qed.

Theorem C03_location_options_select : forall (cfg : config V) first use x,
  use_locations V cfg first = OK use -> (In x use <-> loc_selected V cfg first x).
Proof. exact (use_locations_spec V). Qed.

(* -d keeps exactly the times on the requested UTC days [d, d + 86400), for every unix time -- also before 1970, where the
   pinned code truncated towards zero and attached 1969-12-31 12:00 to 1970-01-01 *)
Theorem C03_date_option_selects_whole_utc_days : forall (cfg : config V) t ds,
  c_dates cfg = Some ds -> (forall d, In d ds -> d mod 86400 = 0) ->
  (date_ok V cfg t = true <-> exists d, In d ds /\ d <= t < d + 86400).
Proof. exact (date_ok_day V). Qed.

(* a range option constrains only when it is given: -latrange alone keeps a station whatever its longitude (the
   pinned code applied -180..180 to the longitude then and silently dropped stations of files using 0..360) *)
Theorem C03_latrange_alone_selects_by_latitude_only : forall (cfg : config V) first use x a b,
  c_lat cfg = Some (a, b) -> c_lon cfg = None -> c_locs cfg = None -> c_elev cfg = None -> c_locs_x cfg = None ->
  use_locations V cfg first = OK use ->
  (In x use <-> exists s, In s (i_locs first) /\ l_id s = x /\ a <= l_lat s <= b).
Proof. exact (latrange_alone V). Qed.
Theorem C03_lonrange_alone_selects_by_longitude_only : forall (cfg : config V) first use x a b,
  c_lat cfg = None -> c_lon cfg = Some (a, b) -> c_locs cfg = None -> c_elev cfg = None -> c_locs_x cfg = None ->
  use_locations V cfg first = OK use ->
  (In x use <-> exists s, In s (i_locs first) /\ l_id s = x /\ a <= l_lon s <= b).
Proof. exact (lonrange_alone V). Qed.

(* a dataset that is built verifies at least one time, lead time and location: a selection that leaves nothing (also through
   -d / -tod) stops with an error message, so no output ever has to cope with an empty dimension *)
Theorem C03_built_dataset_is_never_empty : forall (cfg : config V) ins d, mk_data V cfg ins = OK d -> d_times d <> [].
Proof. exact (built_dataset_has_times V). Qed.

(* (b) ascending order, no duplicates *)
Theorem C03_dimensions_strictly_ascending : forall (cfg : config V) ins d,
  mk_data V cfg ins = OK d ->
  ssorted (d_times d) /\ ssorted (d_leads d) /\ ssorted (map l_id (d_locs d)).
Proof. exact (dims_sorted V). Qed.

(* (c) -obsrange discards observations outside the inclusive range, and only observations *)
Theorem C03_obsrange_masks_outside_values : forall lo hi v,
  mask_obs_range V vltb (Some (lo, hi)) (Some v) = if vltb v lo || vltb hi v then None else Some v.
Proof. exact (obsrange_spec V vltb). Qed.

(* (d) a selection that leaves no time never produces a number: every column is the single NaN *)
Theorem C03_empty_selection_never_numeric : forall (d : data V) fields k ax ai res,
  d_times d = [] ->
  get_scores V vltb vsub vdiv d fields k ax ai = OK res ->
  Forall (fun col => col = [None]) res.
Proof. exact (empty_selection_never_numeric V vltb vsub vdiv). Qed.
End P.

Print Assumptions C03_times_are_intersection_and_subset.
Print Assumptions C03_locations_are_intersection_and_subset.
Print Assumptions C03_location_options_select.
Print Assumptions C03_dimensions_strictly_ascending.
Print Assumptions C03_empty_selection_never_numeric.

(* non-vacuity: a concrete two-input construction succeeds and selects a strict subset *)
Definition ex_in1 : input Z := Build_input Z [86400; 0; 172800] [0; 6000] [Build_loc 1 60000 10000 100000; Build_loc 2 61000 11000 0] [].
Definition ex_in2 : input Z := Build_input Z [0; 172800; 5] [6000; 0; 12000] [Build_loc 2 61000 11000 0; Build_loc 1 60000 10000 100000] [].
Definition ex_cfg : config Z :=
  Build_config Z None None None (Some [6000; 7000]) None None (Some (60500, 70000)) None None None None false.
Example C03_nonvacuous :
  exists d, mk_data Z ex_cfg [ex_in1; ex_in2] = OK d /\
            d_times d = [0; 172800] /\ d_leads d = [6000] /\ map l_id (d_locs d) = [2].
Proof. eexists. split; [vm_compute; reflexivity|]. repeat split. Qed.
