(* Properties/C14.v -- Anomaly scores use the climatology at the same coordinates.
   Statements about Model/Data.v (tied to verif/data.py by ./check C14); axiom-free. *)
From Coq Require Import ZArith List Bool Lia.
From VF Require Import Model.Data Proofs.Data_lemmas Proofs.C03_proofs Proofs.Data_score Proofs.Data_coord.
Import ListNotations.
Local Open Scope Z_scope.

Section P.
Variable V : Type.
Variable vltb : V -> V -> bool.
Variable vsub vdiv : V -> V -> option V.

(* observation and forecast are replaced by (value op climatology) cell by cell along the slice ... *)
Theorem C14_obs_and_fcst_become_anomalies : forall (d : data V) f k ax ai cl c,
  is_obs_or_fcst f = true -> get_score V d f k = OK c ->
  field_values V vltb vsub vdiv d f k ax ai (Some cl) =
  OK (map (fun p => anomaly V vsub vdiv (d_clim_divide d) (fst p) (snd p))
          (combine (apply_axis V d ax ai (match f with
                                          | FObs => map (map (map (mask_obs_range V vltb (d_obs_range d)))) c
                                          | _ => c end)) cl)).
Proof. exact (anomaly_obs_fcst V vltb vsub vdiv). Qed.

(* ... and nothing else is altered *)
Theorem C14_other_fields_untouched : forall (d : data V) f k ax ai cl c,
  is_obs_or_fcst f = false -> get_score V d f k = OK c ->
  field_values V vltb vsub vdiv d f k ax ai (Some cl) = field_values V vltb vsub vdiv d f k ax ai None.
Proof. exact (anomaly_only_obs_fcst V vltb vsub vdiv). Qed.

(* missing climatology, missing value or non-finite quotient => the case is missing *)
Theorem C14_anomaly_definition : forall divide (x c : option V),
  anomaly V vsub vdiv divide x c =
  match x, c with Some v, Some w => if divide then vdiv v w else vsub v w | _, _ => None end.
Proof. exact (anomaly_spec V vsub vdiv). Qed.

(* the climatology is the LAST array of the forecast field, so a case where it is missing is
   missing for every input (propagation), and its value is looked up by coordinates like any input's *)
Theorem C14_missing_climatology_drops_case_for_every_input : forall (d : data V) cs k a b s,
  (k < length cs)%nat -> in_grid V d a b s ->
  cell V (nth (length cs - 1) cs []) a b s = None ->
  cell V (nth k (propagate V d cs) []) a b s = None.
Proof.
  intros d cs k a b s Hk Hg Hm. rewrite (propagate_cell V d cs k a b s Hk Hg).
  destruct (missing_anywhere V cs a b s) eqn:E; [reflexivity|].
  pose proof (proj1 (missing_anywhere_false V cs a b s) E (nth (length cs - 1) cs [])) as H.
  destruct H as [w Hw]; [apply nth_In; destruct cs; cbn in *; lia | congruence].
Qed.

Theorem C14_climatology_value_by_coordinate : forall (cfg : config V) ins (d : data V) i (c : cube V) a b s,
  mk_data V cfg ins = OK d -> (i < length (d_inputs d))%nat -> in_grid V d a b s ->
  let inp := nth i (d_inputs d) (Build_input V [] [] [] []) in
  cell V (cut_input V d i c) a b s =
  cell V c (pos_of (nth a (d_times d) 0) (i_times inp))
           (pos_of (nth b (d_leads d) 0) (i_leads inp))
           (pos_of (nth s (map l_id (d_locs d)) 0) (map l_id (i_locs inp))).
Proof. exact (value_by_coordinate V). Qed.

(* the climatology is never a scored input *)
Theorem C14_climatology_not_counted : forall (cfg : config V) ins d,
  mk_data V cfg ins = OK d ->
  num_inputs d = length ins /\ d_inputs d = all_inputs V cfg ins.
Proof.
  intros cfg ins d H.
  destruct (mk_data_inv V cfg ins d H) as (first & rest & use & Hins & _ & Hall & _ & _ & _ & _ & _ & _ & _ & _ & _ & Hc & _).
  split; [|exact Hall]. unfold num_inputs. rewrite Hall, Hc. unfold all_inputs.
  destruct (c_clim cfg); [rewrite app_length; cbn; lia | lia].
Qed.
End P.
Print Assumptions C14_obs_and_fcst_become_anomalies.
Print Assumptions C14_missing_climatology_drops_case_for_every_input.
Print Assumptions C14_climatology_not_counted.

Example C14_nonvacuous :
  anomaly nat (fun a b => Some (a - b)%nat) (fun a b => match b with O => None | _ => Some (a / b)%nat end) true (Some 6%nat) (Some 0%nat) = None /\
  anomaly nat (fun a b => Some (a - b)%nat) (fun a b => match b with O => None | _ => Some (a / b)%nat end) false (Some 6%nat) (Some 2%nat) = Some 4%nat.
Proof. vm_compute. split; reflexivity. Qed.
