(* Properties/C12.v -- Text and CSV outputs report exactly the computed scores.
   Model/Table.v is the hand model of Standard._get_x_y + the text/csv writers (tied by ./check C12:
   the emitted tables are parsed back and compared cell by cell). Axiom-free.
   PARTIAL: the %g / %.4g rendering of a number is library behaviour; it is checked numerically
   (6 resp. 4 significant digits) by the harness, not proved. *)
From Coq Require Import ZArith List Bool.
From VF Require Import Model.Table Proofs.C12_proofs.
Import ListNotations.

Theorem C12_one_row_per_slice : forall V vadd vzero ninputs nslices score acc,
  length (table V vadd vzero ninputs nslices score acc) = nslices.
Proof. exact table_rows. Qed.
Theorem C12_one_column_per_input : forall V vadd vzero ninputs nslices score acc row,
  In row (table V vadd vzero ninputs nslices score acc) -> length row = ninputs.
Proof. exact table_columns. Qed.
Theorem C12_cell_is_the_score : forall V vadd vzero ninputs nslices score f i,
  (f < ninputs)%nat -> (i < nslices)%nat ->
  nth f (nth i (table V vadd vzero ninputs nslices score false) []) None = score f i.
Proof. exact table_cell. Qed.
Theorem C12_acc_is_running_sum : forall V vadd vzero ninputs nslices score f i,
  (f < ninputs)%nat -> (i < nslices)%nat ->
  nth f (nth i (table V vadd vzero ninputs nslices score true) []) None
  = Some (prefix_sum V vadd vzero vzero (map (fun j => score f j) (seq 0 nslices)) i).
Proof. exact table_acc_cell. Qed.
Print Assumptions C12_acc_is_running_sum.

Example C12_nonvacuous :
  table nat Nat.add 0 2 3 (fun f i => if Nat.eqb i 1 then None else Some (10 * f + i)) true
  = [[Some 0; Some 10]; [Some 0; Some 10]; [Some 2; Some 22]].
Proof. vm_compute. reflexivity. Qed.
