(* Properties/C20.v -- the helper scripts transform series as documented.
   Model/Scripts.v is a hand-written executable model of the per-series / per-case transformations
   of scripts/accumulate.py, ens2prob.py and expandverif.py; ./check C20 runs the real scripts on
   generated files and compares every output variable with this model (and checks that everything the
   scripts do not transform is preserved).  PARTIAL: NetCDF I/O and float32 rounding are outside the
   model; values are exact rationals. *)
From Coq Require Import ZArith QArith List Bool.
From VF Require Import Model.Scripts Proofs.C20_proofs.
Import ListNotations.
Local Open Scope Q_scope.

(* --- accumulate ------------------------------------------------------------------------------ *)
Theorem C20_accumulate_keeps_series_length : forall w ig s,
  length (acc_window w ig s) = length s /\ length (acc_cumulative ig s) = length s.
Proof. intros; split; [apply acc_window_length | apply acc_cumulative_length]. Qed.

Theorem C20_window_output : forall w ig s i, (i < length s)%nat ->
  nth i (acc_window w ig s) None =
    if Nat.ltb i (w - 1) then None
    else osum (take w (drop (i + 1 - w) (if ig then zero_missing s else s))).
Proof. exact acc_window_nth. Qed.

Theorem C20_window_is_trailing_w_steps : forall w (s : list (option Q)) i, (1 <= w)%nat -> (w - 1 <= i)%nat -> (i < length s)%nat ->
  length (take w (drop (i + 1 - w) s)) = w /\
  forall j, (j < w)%nat -> nth j (take w (drop (i + 1 - w) s)) None = nth (i + 1 - w + j) s None.
Proof. exact window_exact. Qed.

Theorem C20_sum_present_iff_all_present : forall l,
  match osum l with
  | Some v => all_present l = true /\ v == qsum l
  | None => all_present l = false
  end.
Proof. exact osum_spec. Qed.

Theorem C20_cumulative_output : forall ig s i, (i < length s)%nat ->
  nth i (acc_cumulative ig s) None = osum (take (S i) (if ig then zero_missing s else s)).
Proof. exact acc_cumulative_nth. Qed.

Theorem C20_ignore_missing_fills_complete_windows : forall w s i, (i < length s)%nat -> (w - 1 <= i)%nat ->
  nth i (acc_window w true s) None <> None.
Proof. exact acc_window_ignore_present. Qed.

(* --- ens2prob --------------------------------------------------------------------------------- *)
Theorem C20_cdf_in_unit_interval : forall t members p, ens_cdf t members = Some p -> 0 <= p <= 1.
Proof. exact cdf_bounds. Qed.
Theorem C20_cdf_never_decreases_with_threshold : forall t t' members p p', t <= t' ->
  ens_cdf t members = Some p -> ens_cdf t' members = Some p' -> p <= p'.
Proof. exact cdf_monotone. Qed.
Theorem C20_cdf_missing_iff_no_member : forall t members, ens_cdf t members = None <-> present members = [].
Proof. exact cdf_defined. Qed.

Theorem C20_quantile_within_ensemble_range : forall q members v lo hi, 0 <= q <= 1 ->
  (forall m, In m members -> lo <= m <= hi) -> ens_quantile q members = Some v -> lo <= v <= hi.
Proof. exact quantile_in_range. Qed.
Theorem C20_quantile_is_a_member : forall q members v, 0 <= q <= 1 -> ens_quantile q members = Some v -> In v members.
Proof. exact quantile_is_member. Qed.
Theorem C20_quantile_never_decreases_with_level : forall q q' members v v', 0 <= q -> q <= q' -> q' <= 1 ->
  ens_quantile q members = Some v -> ens_quantile q' members = Some v' -> v <= v'.
Proof. exact quantile_monotone. Qed.
Theorem C20_quantile_0_is_minimum : forall members v, ens_quantile 0 members = Some v -> forall m, In m members -> v <= m.
Proof. exact quantile_0_is_min. Qed.

Theorem C20_pit_missing_where_obs_missing : forall members, ens_pit None members = None.
Proof. exact pit_missing_obs. Qed.
Theorem C20_pit_is_fraction_below_obs : forall o x l,
  ens_pit (Some o) (x :: l) =
    Some (inject_Z (Z.of_nat (count_below o (x :: l))) / inject_Z (Z.of_nat (length (x :: l)))).
Proof. exact pit_fraction. Qed.
Theorem C20_pit_in_unit_interval : forall obs members p, ens_pit obs members = Some p -> 0 <= p <= 1.
Proof. exact pit_bounds. Qed.

(* --- expandverif ------------------------------------------------------------------------------- *)
Theorem C20_expand_nowhere_else : forall (st sl : list Z) (rows : list (list (option Q))) t l,
  ~ In (t + l)%Z (valid_times st sl) -> expand_cell st sl rows t l = None.
Proof. intros; apply expand_nowhere_else; assumption. Qed.
Theorem C20_expand_places_first_matching_case : forall (st sl : list Z) (rows : list (list (option Q))) t l,
  length rows = length (valid_times st sl) -> In (t + l)%Z (valid_times st sl) ->
  exists i v, expand_cell st sl rows t l = Some v /\ nth_error rows i = Some v /\
              nth i (valid_times st sl) 0%Z = (t + l)%Z /\
              forall k, (k < i)%nat -> nth k (valid_times st sl) 0%Z <> (t + l)%Z.
Proof. intros; apply expand_placed; assumption. Qed.
Theorem C20_valid_times_are_time_plus_lead : forall st sl v,
  In v (valid_times st sl) <-> exists t l, In t st /\ In l sl /\ v = (t + l)%Z.
Proof. exact valid_times_spec. Qed.

(* non-vacuity: a concrete ensemble and series *)
Example C20_example :
  ens_cdf 2 [Some 1; None; Some 3; Some 2] = Some (1 # 3) /\
  ens_quantile (1 # 2) [3; 1; 2] = Some 2 /\ ens_quantile 1 [3; 1; 2] = Some 3 /\
  acc_window 2 false [Some 1; Some 2; None; Some 4; Some 5] = [None; Some 3; None; None; Some 9] /\
  acc_window 2 true [Some 1; Some 2; None; Some 4] = [None; Some 3; Some 2; Some 4] /\
  acc_cumulative false [Some 1; Some 2; None; Some 4] = [Some 1; Some 3; None; None] /\
  expand_cell [0; 86400]%Z [0; 3600]%Z [10; 11; 12; 13]%Z 82800%Z 7200%Z = Some 13%Z.
Proof. vm_compute. repeat split; reflexivity. Qed.

Print Assumptions C20_accumulate_keeps_series_length.
Print Assumptions C20_window_output.
Print Assumptions C20_window_is_trailing_w_steps.
Print Assumptions C20_sum_present_iff_all_present.
Print Assumptions C20_cumulative_output.
Print Assumptions C20_ignore_missing_fills_complete_windows.
Print Assumptions C20_cdf_in_unit_interval.
Print Assumptions C20_cdf_never_decreases_with_threshold.
Print Assumptions C20_cdf_missing_iff_no_member.
Print Assumptions C20_quantile_within_ensemble_range.
Print Assumptions C20_quantile_is_a_member.
Print Assumptions C20_quantile_never_decreases_with_level.
Print Assumptions C20_quantile_0_is_minimum.
Print Assumptions C20_pit_missing_where_obs_missing.
Print Assumptions C20_pit_is_fraction_below_obs.
Print Assumptions C20_pit_in_unit_interval.
Print Assumptions C20_expand_nowhere_else.
Print Assumptions C20_expand_places_first_matching_case.
Print Assumptions C20_valid_times_are_time_plus_lead.
