(* Properties/C06.v -- Categorical scores equal their 2x2 contingency-table definitions.
   Statements only; proofs are `exact <lemma>` from Proofs/C06_proofs.v.  X_abcd, X_perfect,
   compute_abcd and contingency_finish are GENERATED from /repo's verif/metric.py on every run;
   tb_X are the textbook definitions written from the literature in Proofs/C06_spec.v. *)
From Coq Require Import Reals List Bool ZArith Lra.
From VF Require Import Base.Num Base.Vec Base.Event Gen.Gen_interval Gen.Gen_contingency
     Proofs.C06_spec Proofs.C06_proofs.
Import ListNotations.
Local Open Scope R_scope.

(* (d) each score equals its textbook formula for EVERY real table a,b,c,d >= 0 (hence for all
       integer tables of every size), and is undefined (NaN) exactly where the textbook is *)
Theorem C06_A_is_textbook : forall a b c d, 0 <= a -> 0 <= b -> 0 <= c -> 0 <= d ->
  A_abcd XR (Fin a) (Fin b) (Fin c) (Fin d) = tb_A a b c d.
Proof. intros; apply A_def; assumption. Qed.
Print Assumptions C06_A_is_textbook.
Theorem C06_B_is_textbook : forall a b c d, 0 <= a -> 0 <= b -> 0 <= c -> 0 <= d ->
  B_abcd XR (Fin a) (Fin b) (Fin c) (Fin d) = tb_B a b c d.
Proof. intros; apply B_def; assumption. Qed.
Print Assumptions C06_B_is_textbook.
Theorem C06_C_is_textbook : forall a b c d, 0 <= a -> 0 <= b -> 0 <= c -> 0 <= d ->
  C_abcd XR (Fin a) (Fin b) (Fin c) (Fin d) = tb_C a b c d.
Proof. intros; apply C_def; assumption. Qed.
Print Assumptions C06_C_is_textbook.
Theorem C06_D_is_textbook : forall a b c d, 0 <= a -> 0 <= b -> 0 <= c -> 0 <= d ->
  D_abcd XR (Fin a) (Fin b) (Fin c) (Fin d) = tb_D a b c d.
Proof. intros; apply D_def; assumption. Qed.
Print Assumptions C06_D_is_textbook.
Theorem C06_N_is_textbook : forall a b c d, 0 <= a -> 0 <= b -> 0 <= c -> 0 <= d ->
  N_abcd XR (Fin a) (Fin b) (Fin c) (Fin d) = tb_N a b c d.
Proof. intros; apply N_def; assumption. Qed.
Print Assumptions C06_N_is_textbook.
Theorem C06_Ets_is_textbook : forall a b c d, 0 <= a -> 0 <= b -> 0 <= c -> 0 <= d ->
  Ets_abcd XR (Fin a) (Fin b) (Fin c) (Fin d) = tb_Ets a b c d.
Proof. intros; apply Ets_def; assumption. Qed.
Print Assumptions C06_Ets_is_textbook.
Theorem C06_FcstRate_is_textbook : forall a b c d, 0 <= a -> 0 <= b -> 0 <= c -> 0 <= d ->
  FcstRate_abcd XR (Fin a) (Fin b) (Fin c) (Fin d) = tb_FcstRate a b c d.
Proof. intros; apply FcstRate_def; assumption. Qed.
Print Assumptions C06_FcstRate_is_textbook.
Theorem C06_Dscore_is_textbook : forall a b c d, 0 <= a -> 0 <= b -> 0 <= c -> 0 <= d ->
  Dscore_abcd XR (Fin a) (Fin b) (Fin c) (Fin d) = tb_Dscore a b c d.
Proof. intros; apply Dscore_def; assumption. Qed.
Print Assumptions C06_Dscore_is_textbook.
Theorem C06_Threat_is_textbook : forall a b c d, 0 <= a -> 0 <= b -> 0 <= c -> 0 <= d ->
  Threat_abcd XR (Fin a) (Fin b) (Fin c) (Fin d) = tb_Threat a b c d.
Proof. intros; apply Threat_def; assumption. Qed.
Print Assumptions C06_Threat_is_textbook.
Theorem C06_Pc_is_textbook : forall a b c d, 0 <= a -> 0 <= b -> 0 <= c -> 0 <= d ->
  Pc_abcd XR (Fin a) (Fin b) (Fin c) (Fin d) = tb_Pc a b c d.
Proof. intros; apply Pc_def; assumption. Qed.
Print Assumptions C06_Pc_is_textbook.
Theorem C06_Edi_is_textbook : forall a b c d, 0 <= a -> 0 <= b -> 0 <= c -> 0 <= d ->
  Edi_abcd XR (Fin a) (Fin b) (Fin c) (Fin d) = tb_Edi a b c d.
Proof. intros; apply Edi_def; assumption. Qed.
Print Assumptions C06_Edi_is_textbook.
Theorem C06_Sedi_is_textbook : forall a b c d, 0 <= a -> 0 <= b -> 0 <= c -> 0 <= d ->
  Sedi_abcd XR (Fin a) (Fin b) (Fin c) (Fin d) = tb_Sedi a b c d.
Proof. intros; apply Sedi_def; assumption. Qed.
Print Assumptions C06_Sedi_is_textbook.
Theorem C06_Eds_is_textbook : forall a b c d, 0 <= a -> 0 <= b -> 0 <= c -> 0 <= d ->
  Eds_abcd XR (Fin a) (Fin b) (Fin c) (Fin d) = tb_Eds a b c d.
Proof. intros; apply Eds_def; assumption. Qed.
Print Assumptions C06_Eds_is_textbook.
Theorem C06_Seds_is_textbook : forall a b c d, 0 <= a -> 0 <= b -> 0 <= c -> 0 <= d ->
  Seds_abcd XR (Fin a) (Fin b) (Fin c) (Fin d) = tb_Seds a b c d.
Proof. intros; apply Seds_def; assumption. Qed.
Print Assumptions C06_Seds_is_textbook.
Theorem C06_BiasFreq_is_textbook : forall a b c d, 0 <= a -> 0 <= b -> 0 <= c -> 0 <= d ->
  BiasFreq_abcd XR (Fin a) (Fin b) (Fin c) (Fin d) = tb_BiasFreq a b c d.
Proof. intros; apply BiasFreq_def; assumption. Qed.
Print Assumptions C06_BiasFreq_is_textbook.
Theorem C06_Hss_is_textbook : forall a b c d, 0 <= a -> 0 <= b -> 0 <= c -> 0 <= d ->
  Hss_abcd XR (Fin a) (Fin b) (Fin c) (Fin d) = tb_Hss a b c d.
Proof. intros; apply Hss_def; assumption. Qed.
Print Assumptions C06_Hss_is_textbook.
Theorem C06_BaseRate_is_textbook : forall a b c d, 0 <= a -> 0 <= b -> 0 <= c -> 0 <= d ->
  BaseRate_abcd XR (Fin a) (Fin b) (Fin c) (Fin d) = tb_BaseRate a b c d.
Proof. intros; apply BaseRate_def; assumption. Qed.
Print Assumptions C06_BaseRate_is_textbook.
Theorem C06_Or_is_textbook : forall a b c d, 0 <= a -> 0 <= b -> 0 <= c -> 0 <= d ->
  Or_abcd XR (Fin a) (Fin b) (Fin c) (Fin d) = tb_Or a b c d.
Proof. intros; apply Or_def; assumption. Qed.
Print Assumptions C06_Or_is_textbook.
Theorem C06_Lor_is_textbook : forall a b c d, 0 <= a -> 0 <= b -> 0 <= c -> 0 <= d ->
  Lor_abcd XR (Fin a) (Fin b) (Fin c) (Fin d) = tb_Lor a b c d.
Proof. intros; apply Lor_def; assumption. Qed.
Print Assumptions C06_Lor_is_textbook.
Theorem C06_YulesQ_is_textbook : forall a b c d, 0 <= a -> 0 <= b -> 0 <= c -> 0 <= d ->
  YulesQ_abcd XR (Fin a) (Fin b) (Fin c) (Fin d) = tb_YulesQ a b c d.
Proof. intros; apply YulesQ_def; assumption. Qed.
Print Assumptions C06_YulesQ_is_textbook.
Theorem C06_Kss_is_textbook : forall a b c d, 0 <= a -> 0 <= b -> 0 <= c -> 0 <= d ->
  Kss_abcd XR (Fin a) (Fin b) (Fin c) (Fin d) = tb_Kss a b c d.
Proof. intros; apply Kss_def; assumption. Qed.
Print Assumptions C06_Kss_is_textbook.
Theorem C06_Hit_is_textbook : forall a b c d, 0 <= a -> 0 <= b -> 0 <= c -> 0 <= d ->
  Hit_abcd XR (Fin a) (Fin b) (Fin c) (Fin d) = tb_Hit a b c d.
Proof. intros; apply Hit_def; assumption. Qed.
Print Assumptions C06_Hit_is_textbook.
Theorem C06_Miss_is_textbook : forall a b c d, 0 <= a -> 0 <= b -> 0 <= c -> 0 <= d ->
  Miss_abcd XR (Fin a) (Fin b) (Fin c) (Fin d) = tb_Miss a b c d.
Proof. intros; apply Miss_def; assumption. Qed.
Print Assumptions C06_Miss_is_textbook.
Theorem C06_Fa_is_textbook : forall a b c d, 0 <= a -> 0 <= b -> 0 <= c -> 0 <= d ->
  Fa_abcd XR (Fin a) (Fin b) (Fin c) (Fin d) = tb_Fa a b c d.
Proof. intros; apply Fa_def; assumption. Qed.
Print Assumptions C06_Fa_is_textbook.
Theorem C06_Far_is_textbook : forall a b c d, 0 <= a -> 0 <= b -> 0 <= c -> 0 <= d ->
  Far_abcd XR (Fin a) (Fin b) (Fin c) (Fin d) = tb_Far a b c d.
Proof. intros; apply Far_def; assumption. Qed.
Print Assumptions C06_Far_is_textbook.

(* the two published forms of the Heidke skill score agree *)
Theorem C06_Hss_forms_agree : forall a b c d, 0 <= a -> 0 <= b -> 0 <= c -> 0 <= d ->
  a + b + c + d <> 0 -> (a + c) * (c + d) + (a + b) * (b + d) <> 0 ->
  tb_Hss_expected a b c d = tb_Hss a b c d.
Proof. intros; apply Hss_forms_agree; assumption. Qed.
Print Assumptions C06_Hss_forms_agree.

(* undefined formulas give NaN, never infinity: every score of a real table is a number or NaN,
   and compute_from_obs_fcst additionally maps any infinity to NaN *)
Theorem C06_scores_finite_or_nan : forall a b c d, 0 <= a -> 0 <= b -> 0 <= c -> 0 <= d ->
  Forall (fun f => fin_or_nan (f (Fin a) (Fin b) (Fin c) (Fin d))) all_scores.
Proof. exact scores_fin_or_nan. Qed.
Print Assumptions C06_scores_finite_or_nan.

Theorem C06_all_25_scores_listed : length all_scores = 25%nat.
Proof. reflexivity. Qed.

Theorem C06_result_never_infinite : forall v : xr, n_isinf XR (contingency_finish XR v) = false.
Proof. exact finish_never_inf. Qed.
Print Assumptions C06_result_never_infinite.

Theorem C06_finish_keeps_finite_values : forall v : xr,
  contingency_finish XR v = match v with PInf | NInf => NaN | _ => v end.
Proof. exact finish_spec. Qed.
Print Assumptions C06_finish_keeps_finite_values.

(* (e) a perfect forecast (no false alarms, no misses) attains the declared perfect score wherever
       the score is defined *)
Theorem C06_Ets_perfect : forall a d, 0 <= a -> 0 <= d -> perfect_ok (Ets_abcd XR) (Ets_perfect XR) a d.
Proof. exact Ets_perfect_ok. Qed.
Print Assumptions C06_Ets_perfect.
Theorem C06_Dscore_perfect : forall a d, 0 <= a -> 0 <= d -> perfect_ok (Dscore_abcd XR) (Dscore_perfect XR) a d.
Proof. exact Dscore_perfect_ok. Qed.
Print Assumptions C06_Dscore_perfect.
Theorem C06_Threat_perfect : forall a d, 0 <= a -> 0 <= d -> perfect_ok (Threat_abcd XR) (Threat_perfect XR) a d.
Proof. exact Threat_perfect_ok. Qed.
Print Assumptions C06_Threat_perfect.
Theorem C06_Pc_perfect : forall a d, 0 <= a -> 0 <= d -> perfect_ok (Pc_abcd XR) (Pc_perfect XR) a d.
Proof. exact Pc_perfect_ok. Qed.
Print Assumptions C06_Pc_perfect.
Theorem C06_Edi_perfect : forall a d, 0 <= a -> 0 <= d -> perfect_ok (Edi_abcd XR) (Edi_perfect XR) a d.
Proof. exact Edi_perfect_ok. Qed.
Print Assumptions C06_Edi_perfect.
Theorem C06_Sedi_perfect : forall a d, 0 <= a -> 0 <= d -> perfect_ok (Sedi_abcd XR) (Sedi_perfect XR) a d.
Proof. exact Sedi_perfect_ok. Qed.
Print Assumptions C06_Sedi_perfect.
Theorem C06_Eds_perfect : forall a d, 0 <= a -> 0 <= d -> perfect_ok (Eds_abcd XR) (Eds_perfect XR) a d.
Proof. exact Eds_perfect_ok. Qed.
Print Assumptions C06_Eds_perfect.
Theorem C06_Seds_perfect : forall a d, 0 <= a -> 0 <= d -> perfect_ok (Seds_abcd XR) (Seds_perfect XR) a d.
Proof. exact Seds_perfect_ok. Qed.
Print Assumptions C06_Seds_perfect.
Theorem C06_BiasFreq_perfect : forall a d, 0 <= a -> 0 <= d -> perfect_ok (BiasFreq_abcd XR) (BiasFreq_perfect XR) a d.
Proof. exact BiasFreq_perfect_ok. Qed.
Print Assumptions C06_BiasFreq_perfect.
Theorem C06_Hss_perfect : forall a d, 0 <= a -> 0 <= d -> perfect_ok (Hss_abcd XR) (Hss_perfect XR) a d.
Proof. exact Hss_perfect_ok. Qed.
Print Assumptions C06_Hss_perfect.
Theorem C06_YulesQ_perfect : forall a d, 0 <= a -> 0 <= d -> perfect_ok (YulesQ_abcd XR) (YulesQ_perfect XR) a d.
Proof. exact YulesQ_perfect_ok. Qed.
Print Assumptions C06_YulesQ_perfect.
Theorem C06_Kss_perfect : forall a d, 0 <= a -> 0 <= d -> perfect_ok (Kss_abcd XR) (Kss_perfect XR) a d.
Proof. exact Kss_perfect_ok. Qed.
Print Assumptions C06_Kss_perfect.
Theorem C06_Hit_perfect : forall a d, 0 <= a -> 0 <= d -> perfect_ok (Hit_abcd XR) (Hit_perfect XR) a d.
Proof. exact Hit_perfect_ok. Qed.
Print Assumptions C06_Hit_perfect.
Theorem C06_Miss_perfect : forall a d, 0 <= a -> 0 <= d -> perfect_ok (Miss_abcd XR) (Miss_perfect XR) a d.
Proof. exact Miss_perfect_ok. Qed.
Print Assumptions C06_Miss_perfect.
Theorem C06_Fa_perfect : forall a d, 0 <= a -> 0 <= d -> perfect_ok (Fa_abcd XR) (Fa_perfect XR) a d.
Proof. exact Fa_perfect_ok. Qed.
Print Assumptions C06_Fa_perfect.
Theorem C06_Far_perfect : forall a d, 0 <= a -> 0 <= d -> perfect_ok (Far_abcd XR) (Far_perfect XR) a d.
Proof. exact Far_perfect_ok. Qed.
Print Assumptions C06_Far_perfect.

(* (a) counting: the four cells sum to the number of valid pairs (every valid pair in exactly one
       cell, pairs with a missing side in none), for vectors of any length *)
Theorem C06_counts_sum_to_valid_pairs : forall iv fiv obs fcst,
  existsb valid_pair (combine fcst obs) = true ->
  let '(a, b, c, d) := compute_abcd XR iv fiv obs fcst in
  n_add XR (n_add XR (n_add XR a b) c) d
  = Fin (IZR (Z.of_nat (length (filter valid_pair (combine fcst obs))))).
Proof. exact abcd_sum. Qed.
Print Assumptions C06_counts_sum_to_valid_pairs.

Theorem C06_no_valid_pair_gives_missing_table : forall iv fiv obs fcst,
  fcst <> [] -> length obs = length fcst -> existsb valid_pair (combine fcst obs) = false ->
  compute_abcd XR iv fiv obs fcst = (NaN, NaN, NaN, NaN).
Proof. exact abcd_no_valid. Qed.
Print Assumptions C06_no_valid_pair_gives_missing_table.

(* (b) exchanging observations and forecasts exchanges misses and false alarms *)
Theorem C06_swap_obs_fcst : forall iv obs fcst, length obs = length fcst ->
  compute_abcd XR iv iv fcst obs = let '(a, b, c, d) := compute_abcd XR iv iv obs fcst in (a, c, b, d).
Proof. exact abcd_swap. Qed.
Print Assumptions C06_swap_obs_fcst.

(* (c) complementing the event exchanges hits with correct rejections (and false alarms with misses) *)
Theorem C06_complement_event : forall iv iv' obs fcst,
  (forall x, iv_within XR iv' x = option_map negb (iv_within XR iv x)) ->
  compute_abcd XR iv' iv' obs fcst = let '(a, b, c, d) := compute_abcd XR iv iv obs fcst in (d, c, b, a).
Proof. exact abcd_complement. Qed.
Print Assumptions C06_complement_event.

(* non-vacuity: a concrete table where ETS is defined and non-trivial, and one where it is not *)
Example C06_Ets_example :
  tb_Ets 3 1 2 4 = Fin ((3 - 4 * 5 / 10) / (6 - 4 * 5 / 10)) /\ tb_Ets 0 0 0 0 = NaN.
Proof.
  unfold tb_Ets, undefined_if, rdiv, tot. split.
  - replace (Reqb (3 + 1 + 2 + 4) 0) with false by (symmetry; apply Reqb_false; lra).
    cbv zeta. replace (Reqb (3 + 1 + 2 - (3 + 1) * (3 + 2) / (3 + 1 + 2 + 4)) 0) with false
      by (symmetry; apply Reqb_false; lra).
    f_equal. lra.
  - replace (Reqb (0 + 0 + 0 + 0) 0) with true by (symmetry; apply Reqb_true; lra). reflexivity.
Qed.
