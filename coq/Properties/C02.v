(* Properties/C02.v -- Values are matched by coordinates, not by position or file order.
   Statements about Model/Data.v (tied to verif/data.py by ./check C02); axiom-free. *)
From Coq Require Import ZArith QArith List Bool.
From VF Require Import Model.Data Proofs.Data_lemmas Proofs.C03_proofs Proofs.Data_score Proofs.Data_coord Proofs.C02_order Model.Lookup Proofs.C02_lookup.
Import ListNotations.
Local Open Scope Z_scope.

Section P.
Variable V : Type.

(* the value used for input i at common position (a,b,s) is the value that input stores at the first
   occurrence of the coordinates (time, lead time, location id) in its OWN lists, whatever the
   order of those lists and whatever the other inputs contain *)
Theorem C02_value_by_coordinate : forall (cfg : config V) ins (d : data V) i (c : cube V) a b s,
  mk_data V cfg ins = OK d -> (i < length (d_inputs d))%nat -> in_grid V d a b s ->
  let inp := nth i (d_inputs d) (Build_input V [] [] [] []) in
  cell V (cut_input V d i c) a b s =
  cell V c (pos_of (nth a (d_times d) 0) (i_times inp))
           (pos_of (nth b (d_leads d) 0) (i_leads inp))
           (pos_of (nth s (map l_id (d_locs d)) 0) (map l_id (i_locs inp))).
Proof. exact (value_by_coordinate V). Qed.

(* a coordinate present in a list is found at a position holding exactly that coordinate, the first such *)
Theorem C02_first_index_is_the_coordinate : forall x l i,
  first_index x l = Some i ->
  (i < length l)%nat /\ nth i l 0 = x /\ forall j, (j < i)%nat -> nth j l 0 <> x.
Proof. exact first_index_Some. Qed.

Theorem C02_common_coordinate_is_found : forall x l, In x l -> exists i, first_index x l = Some i.
Proof. exact first_index_In. Qed.

(* the common coordinates do not depend on the order of entries inside any input: they are the
   sorted set intersection *)
Theorem C02_common_values_order_free : forall keys aux x, keys <> [] ->
  (In x (common_values keys aux) <->
   (match aux with Some a => In x a | None => True end) /\ forall k, In k keys -> In x k).
Proof. exact common_values_spec. Qed.
End P.

(* reordering the entries of a dimension inside any input, duplicating them, or reordering the inputs
   themselves leaves the verified dimension unchanged (it is the strictly ascending list of the common members) *)
Theorem C02_entry_order_inside_inputs_is_irrelevant : forall keys keys' aux, keys <> [] ->
  Forall2 (fun k k' => Permutation.Permutation k k') keys keys' -> common_values keys aux = common_values keys' aux.
Proof. exact common_values_permuted_entries. Qed.
Theorem C02_input_order_is_irrelevant_for_the_dimensions : forall keys keys' aux, keys <> [] ->
  Permutation.Permutation keys keys' -> common_values keys aux = common_values keys' aux.
Proof. exact common_values_permuted_inputs. Qed.
Theorem C02_dimensions_depend_on_membership_only : forall keys keys' aux, keys <> [] -> keys' <> [] ->
  (forall x, (forall k, In k keys -> In x k) <-> (forall k, In k keys' -> In x k)) ->
  common_values keys aux = common_values keys' aux.
Proof. exact common_values_order_free. Qed.
(* threshold (and quantile) columns are matched by VALUE: each input lists its thresholds in its own order, possibly with extra
   ones; the column delivered for t is the one that input stores for t, and a threshold the input does not store is not found *)
Theorem C02_threshold_column_found_by_value : forall (A : Type) thr (cols : list A) t c,
  distinct thr -> stores A thr cols t c -> stored_column A thr cols t = Some c.
Proof. exact stored_column_by_value. Qed.
Theorem C02_threshold_columns_in_any_order : forall (A : Type) thr (cols : list A) thr' cols' t c,
  distinct thr -> distinct thr' -> Permutation.Permutation (combine thr cols) (combine thr' cols') ->
  stores A thr cols t c -> stored_column A thr cols t = Some c /\ stored_column A thr' cols' t = Some c.
Proof. exact stored_column_order_free. Qed.
Theorem C02_absent_threshold_is_not_found : forall (A : Type) thr (cols : list A) t,
  (forall x, In x thr -> ~ (x == t)%Q) -> stored_column A thr cols t = None.
Proof. exact absent_threshold_not_found. Qed.
Print Assumptions C02_threshold_column_found_by_value.
Print Assumptions C02_entry_order_inside_inputs_is_irrelevant.
Print Assumptions C02_value_by_coordinate.
Print Assumptions C02_common_values_order_free.

Example C02_nonvacuous : first_index 7 [3; 7; 5; 7] = Some 1%nat /\ pos_of 5 [3; 7; 5; 7] = 2%nat.
Proof. vm_compute. split; reflexivity. Qed.
Example C02_lookup_nonvacuous : stored_column nat [10 # 1; 1 # 1; 5 # 2]%Q [7; 8; 9]%nat (5 # 2)%Q = Some 9%nat /\ distinct [10 # 1; 1 # 1; 5 # 2]%Q.
Proof.
  split; [vm_compute; reflexivity|]. intros i j x y Hi Hj Hxy.
  destruct i as [|[|[|i]]]; destruct j as [|[|[|j]]]; cbn in Hi, Hj; try discriminate; try reflexivity;
    try (destruct i; discriminate); try (destruct j; discriminate);
    inversion Hi; inversion Hj; subst; vm_compute in Hxy; discriminate.
Qed.
