(* Properties/C11.v -- Slicing along -x partitions the cases using correct calendar buckets.
   Statements about Model/Data.v (bucket_positions = the slice extraction of Data._apply_axis) and
   Model/Cal.v (the bucket functions of verif/axis.py and the conversions of verif/util.py, which
   REPLACE Python's datetime/calendar and are tied by ./check C11).  Axiom-free. *)
From Coq Require Import ZArith List Bool.
From VF Require Import Model.Data Model.Cal Proofs.Data_lemmas Proofs.C11_proofs Proofs.C11_conv Proofs.C11_sums.
Import ListNotations.
Local Open Scope Z_scope.

(* (a) for every bucket function (all time- and lead-time-derived axes), every case belongs to
       exactly one slice *)
Theorem C11_every_case_in_exactly_one_slice : forall (b : Z -> Z) vals i, (i < length vals)%nat ->
  exists k, (k < length (sort_uniq (map b vals)))%nat /\ In i (bucket_positions b vals k) /\
            forall k', (k' < length (sort_uniq (map b vals)))%nat -> In i (bucket_positions b vals k') -> k' = k.
Proof. exact slices_partition. Qed.

Theorem C11_slice_is_the_bucket : forall (b : Z -> Z) vals k i,
  In i (bucket_positions b vals k) <->
  (i < length vals)%nat /\ b (nth i vals 0) = nth k (sort_uniq (map b vals)) 0.
Proof. exact bucket_positions_spec. Qed.

(* (b) slice counts add up to the pooled count; any additive statistic (a sum, hence a mean weighted
       by counts) of the pooled cases is the sum over the slices *)
Theorem C11_slice_counts_add_up : forall (b : Z -> Z) vals,
  zsum (map (fun k => Z.of_nat (length (bucket_positions b vals k))) (seq 0 (length (sort_uniq (map b vals)))))
  = Z.of_nat (length vals).
Proof. exact slice_counts_add_up. Qed.

Theorem C11_pooled_sum_is_sum_of_slice_sums : forall (f : nat -> Z) (b : Z -> Z) vals,
  zsum (map (fun k => zsum (map f (bucket_positions b vals k))) (seq 0 (length (sort_uniq (map b vals)))))
  = zsum (map f (seq 0 (length vals))).
Proof. exact pooled_is_sum_of_slices. Qed.

(* (c) calendar buckets, for EVERY unix time t (no range bound) *)
Theorem C11_day_start : forall t, day_start t <= t < day_start t + 86400 /\ day_start t mod 86400 = 0.
Proof. exact day_start_spec. Qed.
Theorem C11_time_of_day : forall t, 0 <= second_of_day t < 86400 /\ t = day_start t + second_of_day t.
Proof. exact second_of_day_spec. Qed.
(* the same clock time on any two days is in the same time-of-day slice, however far apart the days are *)
Theorem C11_same_clock_time_same_slice : forall t k, second_of_day (t + k * 86400) = second_of_day t.
Proof. exact second_of_day_periodic. Qed.
Theorem C11_week_start_is_a_monday : forall t,
  week_start t <= t < week_start t + 7 * 86400 /\ weekday (week_start t) = 0 /\ week_start t mod 86400 = 0.
Proof. exact week_start_spec. Qed.
Theorem C11_leadtime_day : forall l, 0 <= l -> leadtimeday l * 24000 <= l < (leadtimeday l + 1) * 24000.
Proof. exact leadtimeday_spec. Qed.

(* month / year buckets and the civil calendar: decided for every day 1900-01-01 .. 2100-12-31 *)
Theorem C11_month_start : forall t, day_lo * 86400 <= t < (day_hi + 1) * 86400 ->
  month_start t <= t /\ month_start t mod 86400 = 0 /\
  month_start t = (day_of t - dom_of t + 1) * 86400 /\ 1 <= dom_of t <= 31.
Proof. exact month_start_spec. Qed.
Theorem C11_year_start : forall t, day_lo * 86400 <= t < (day_hi + 1) * 86400 ->
  year_start t <= t < days_from_civil (year_of t + 1) 1 1 * 86400 /\ year_start t mod 86400 = 0.
Proof. exact year_start_spec. Qed.
Theorem C11_civil_calendar_roundtrip : forall z, day_lo <= z <= day_hi -> day_ok z = true.
Proof. exact civil_roundtrip. Qed.

(* (d) date <-> unix time <-> plotting day number are mutually inverse for every calendar day *)
Theorem C11_date_unixtime_inverse : forall t, day_lo * 86400 <= t < (day_hi + 1) * 86400 ->
  date_to_unixtime (unixtime_to_date t) = day_start t.
Proof. exact date_unixtime_roundtrip. Qed.
Theorem C11_daynum_date_inverse : forall z, day_lo <= z <= day_hi -> date_to_daynum (daynum_to_date z) = z.
Proof. exact daynum_roundtrip. Qed.

Print Assumptions C11_every_case_in_exactly_one_slice.
Print Assumptions C11_pooled_sum_is_sum_of_slice_sums.
Print Assumptions C11_week_start_is_a_monday.
Print Assumptions C11_civil_calendar_roundtrip.
Print Assumptions C11_date_unixtime_inverse.

Example C11_nonvacuous :
  bucket_positions month_start [1325376000; 1327968000; 1325462400; 1328054400] 0 = [0; 1; 2]%nat /\
  unixtime_to_date 1330473600 = 20120229 /\ weekday 1330473600 = 2 /\ dayofyear 1330560000 = 61.
Proof. vm_compute. repeat split. Qed.
