(* Properties/C10.v -- NetCDF input is read faithfully and agrees with the text format.
   clean_cell, nc_reader_table, nc_required_*, detect and text2nc_table are GENERATED from /repo
   (verif/util.py, verif/input.py, scripts/text2nc.py).  PARTIAL: the netCDF4 library, the file
   system and float32 rounding (abstract function r) are outside the model; the agreement of whole
   datasets and scores between the two formats is carried by the correspondence check of ./check C10. *)
From Coq Require Import Reals ZArith List Bool String.
From VF Require Import Base.Num Gen.Gen_io Proofs.C10_proofs.
Import ListNotations.
Local Open Scope R_scope.

(* every missing-value encoding of a NetCDF cell reads as missing ... *)
Theorem C10_masked_or_fill_value_is_missing : forall v, clean_cell XR true v = NaN.
Proof. exact clean_masked. Qed.
Theorem C10_nan_is_missing : clean_cell XR false NaN = NaN.
Proof. exact clean_nan. Qed.
Theorem C10_minus_999_is_missing : clean_cell XR false (Fin (-999)) = NaN.
Proof. exact clean_sentinel. Qed.
Theorem C10_above_1e30_is_missing : forall r, big < r -> clean_cell XR false (Fin r) = NaN.
Proof. exact clean_huge. Qed.
(* ... and every other finite value is delivered unchanged *)
Theorem C10_other_values_unchanged : forall r, r <> -999 -> r <= big -> clean_cell XR false (Fin r) = Fin r.
Proof. exact clean_keeps. Qed.
Theorem C10_cell_rule : forall r, clean_cell XR false (Fin r) = if Reqb r (-999) || Rltb big r then NaN else Fin r.
Proof. exact clean_fin. Qed.

(* text2nc: values survive to float32 precision (r = the library's rounding), missing stays missing *)
Theorem C10_converted_value_is_rounded_value : forall (r : R -> R) v, r v <> -999 -> r v <= big ->
  clean_cell XR false (write_f4 r (Fin v)) = Fin (r v).
Proof. exact roundtrip_value. Qed.
Theorem C10_converted_missing_stays_missing : forall r : R -> R, clean_cell XR false (write_f4 r NaN) = NaN.
Proof. exact roundtrip_missing. Qed.

Local Open Scope string_scope.
(* the documented layout: which NetCDF variable feeds which quantity *)
Theorem C10_reader_variables_as_documented :
  nc_reader_table =
  [("obs", "obs"); ("fcst", "fcst"); ("pit", "pit"); ("ensemble", "ensemble"); ("threshold_scores", "cdf");
   ("quantile_scores", "x"); ("other_score", "<name>"); ("_get_times", "time"); ("_get_locations", "lat");
   ("_get_locations", "lon"); ("_get_locations", "location"); ("_get_locations", "altitude");
   ("_get_leadtimes", "leadtime"); ("_get_thresholds", "threshold"); ("_get_quantiles", "quantile")] /\
  nc_required_dims = ["time"; "location"; "leadtime"] /\ nc_required_vars = ["time"; "leadtime"].
Proof. repeat split; reflexivity. Qed.

(* text2nc keeps unix times in double precision and everything else in single precision *)
Theorem C10_text2nc_types :
  In ("time", "f8") text2nc_table /\
  forall v t, In (v, t) text2nc_table -> v <> "time" -> v <> "location" -> t = "f4".
Proof.
  split; [cbn; tauto|]. intros v t H Hv Hl. cbn in H.
  repeat (destruct H as [H | H]; [inversion H; subst; try reflexivity; congruence|]). destruct H.
Qed.

(* the file type is decided from the content: the decision has no file-name argument at all, a
   NetCDF file in the verif layout is read as NetCDF, any other regular file as text *)
Theorem C10_detection_from_content :
  detect true true true true = Some 0%nat /\ detect true true false false = Some 0%nat /\
  detect true false true true = Some 1%nat /\ detect true false false true = None /\
  detect false false false true = Some 2%nat /\ detect false true true false = None.
Proof. repeat split; reflexivity. Qed.

Print Assumptions C10_cell_rule.
Print Assumptions C10_reader_variables_as_documented.
