(* Properties/C17.v -- plot appearance options are honoured in the produced figure.
   PARTIAL.  The chain  command line -> driver variable -> Output attribute -> attribute read by
   verif/output.py  is proved here over the GENERATED option tables (Gen/Gen_cli.v) and the model of
   the argument loop (Model/Cli.v): every documented option arrives, in a variable and an attribute
   of its own, independently of all other options and of their order.  The last step -- the
   matplotlib calls made from the attribute -- is runtime behaviour: ./check C17 reads the figure back
   (titles, labels, limits, ticks, rotations, scales, legend, line styles, font sizes, grid, margins,
   size, dpi, file format) for random option subsets and compares with the value this model delivers. *)
From Coq Require Import ZArith List Bool String Arith.
From VF Require Import Model.Data Gen.Gen_cli Model.Cli Model.Appearance Proofs.C13_proofs Proofs.C17_proofs.
Import ListNotations.
Local Open Scope string_scope.

(* tables of the CURRENT source (finite, vm_compute) *)
Theorem C17_every_documented_option_reaches_an_attribute_the_outputs_read :
  forall f, In f appearance_flags -> reaches_figure f = true.
Proof. exact reaches_figure_each. Qed.
Theorem C17_every_option_has_its_own_variable :
  Nat.eqb (List.length flag_vars) (List.length appearance_flags) && nodup_str flag_vars = true.
Proof. exact own_variables. Qed.
Theorem C17_every_option_has_its_own_attribute : nodup_str flag_attrs = true.
Proof. exact own_attributes. Qed.

(* the argument loop, for ANY option table *)
Theorem C17_options_are_independent : forall bflags vflags var gs1 g gs2,
  Forall (wf bflags vflags) (gs1 ++ g :: gs2) -> (forall k v, In (k, v) (assigned bflags vflags g) -> k <> var) ->
  exists p p', parse_loop bflags vflags (flat_map tokens (gs1 ++ g :: gs2)) empty = OK p /\
               parse_loop bflags vflags (flat_map tokens (gs1 ++ gs2)) empty = OK p' /\
               lookup var p = lookup var p'.
Proof. exact option_independent. Qed.
Theorem C17_last_occurrence_wins : forall bflags vflags var f v kind gs1 gs2,
  Forall (wf bflags vflags) (gs1 ++ GVal f v :: gs2) -> find_val vflags f = Some (f, var, kind, "", "") ->
  (forall g k w, In g gs2 -> In (k, w) (assigned bflags vflags g) -> k <> var) ->
  exists p, parse_loop bflags vflags (flat_map tokens (gs1 ++ GVal f v :: gs2)) empty = OK p /\ lookup var p = Some v.
Proof. exact last_occurrence_wins. Qed.
Theorem C17_absent_option_leaves_default : forall bflags vflags var gs,
  Forall (wf bflags vflags) gs -> (forall g k w, In g gs -> In (k, w) (assigned bflags vflags g) -> k <> var) ->
  exists p, parse_loop bflags vflags (flat_map tokens gs) empty = OK p /\ lookup var p = None.
Proof. exact absent_option_unset. Qed.

(* line style cycling of -lc / -ls / -lw / -ma / -ms *)
Theorem C17_style_of_line_i : forall (A : Type) (l : list A) i d, (i < List.length l)%nat -> cyc l i d = nth i l d.
Proof. exact @cyc_small. Qed.
Theorem C17_styles_cycle : forall (A : Type) (l : list A) i d, l <> [] -> cyc l (i + List.length l) d = cyc l i d.
Proof. exact @cyc_periodic. Qed.
Theorem C17_style_is_one_of_the_given : forall (A : Type) (l : list A) i d, l <> [] -> In (cyc l i d) l.
Proof. exact @cyc_in. Qed.

(* non-vacuity *)
Example C17_example :
  figure_value ["verif"; "a.txt"; "-m"; "mae"; "-xlim"; "0,5"; "-title"; "T"; "-xlim"; "1,9"; "-nogrid"] "-xlim" = OK (Some "1,9") /\
  figure_value ["verif"; "a.txt"; "-m"; "mae"; "-xlim"; "0,5"; "-title"; "T"; "-xlim"; "1,9"; "-nogrid"] "-ylim" = OK None /\
  figure_value_index ["verif"; "a.txt"; "-m"; "mae"; "-nogrid"; "-title"; "T"] "-title" = 6%nat /\
  cyc ["r"; "b"] 5 "" = "b".
Proof. vm_compute. repeat split; reflexivity. Qed.

Print Assumptions C17_every_documented_option_reaches_an_attribute_the_outputs_read.
Print Assumptions C17_every_option_has_its_own_variable.
Print Assumptions C17_every_option_has_its_own_attribute.
Print Assumptions C17_options_are_independent.
Print Assumptions C17_last_occurrence_wins.
Print Assumptions C17_absent_option_leaves_default.
Print Assumptions C17_style_of_line_i.
Print Assumptions C17_styles_cycle.
Print Assumptions C17_style_is_one_of_the_given.
