(* Properties/C09.v -- Text input files are read faithfully.
   Model/TextParse.v is the hand model of verif.input.Text on lexed lines (tied by ./check C09 on
   generated files).  Scope: files with a location/id column, plain decimal tokens.  Axiom-free. *)
From Coq Require Import ZArith QArith List Bool Ascii String Permutation.
From VF Require Import Model.Data Model.ParseNumbers Model.TextParse Proofs.Data_lemmas Proofs.C09_proofs.
Import ListNotations.
Local Open Scope Z_scope.

(* the dimensions are exactly the coordinates that occur in the rows, ascending, without duplicates *)
Theorem C09_times_are_those_in_the_file : forall header recs t,
  In t (t_times (assemble header recs)) <-> exists r, In r recs /\ r_time r = t.
Proof. exact times_are_the_coordinates_that_occur. Qed.
Theorem C09_leadtimes_are_those_in_the_file : forall header recs l,
  In l (t_leads (assemble header recs)) <-> exists r, In r recs /\ r_lead r = l.
Proof. exact leads_are_the_coordinates_that_occur. Qed.
Theorem C09_locations_are_those_in_the_file : forall header recs i,
  In i (map l_id (t_locs (assemble header recs))) <-> exists r, In r recs /\ r_id r = i.
Proof. exact ids_are_the_coordinates_that_occur. Qed.
Theorem C09_dimensions_ascending : forall header recs,
  ssorted (t_times (assemble header recs)) /\ ssorted (t_leads (assemble header recs)) /\
  ssorted (map l_id (t_locs (assemble header recs))).
Proof. exact dimensions_sorted. Qed.

(* every value is stored at its own (time, lead time, location) coordinate *)
Theorem C09_value_at_its_own_coordinate : forall header recs name a b s,
  let ti := assemble header recs in
  (a < List.length (t_times ti))%nat -> (b < List.length (t_leads ti))%nat -> (s < List.length (t_locs ti))%nat ->
  nth s (nth b (nth a (t_cube ti name) []) []) None
  = cell_of recs name (nth a (t_times ti) 0) (nth b (t_leads ti) 0) (l_id (nth s (t_locs ti) (Build_loc 0 0 0 0))).
Proof. exact cube_cell_is_value_at_coordinates. Qed.
Theorem C09_value_is_that_of_the_row_with_these_coordinates : forall pre r post name t l i,
  same_case t l i r = true -> (forall x, In x post -> same_case t l i x = false) ->
  cell_of (pre ++ r :: post) name t l i = match lookup_val name r with Some v => v | None => None end.
Proof. exact cell_is_last_matching_row. Qed.
(* combinations absent from the file are missing *)
Theorem C09_absent_combination_is_missing : forall recs name t l i,
  (forall x, In x recs -> same_case t l i x = false) -> cell_of recs name t l i = None.
Proof. exact absent_combination_is_missing. Qed.

(* rows in any order *)
Theorem C09_rows_in_any_order : forall recs recs' name t l i,
  Permutation recs recs' -> NoDup (map case_key recs) -> cell_of recs name t l i = cell_of recs' name t l i.
Proof. exact rows_in_any_order. Qed.
Theorem C09_dimensions_in_any_row_order : forall header recs recs', Permutation recs recs' ->
  t_times (assemble header recs) = t_times (assemble header recs') /\
  t_leads (assemble header recs) = t_leads (assemble header recs') /\
  map l_id (t_locs (assemble header recs)) = map l_id (t_locs (assemble header recs')).
Proof. exact dimensions_in_any_row_order. Qed.

(* columns in any order *)
Theorem C09_columns_in_any_order : forall header row header' row' name,
  NoDup (map canon header) -> List.length row = List.length header -> List.length row' = List.length header' ->
  Permutation (zipped header row) (zipped header' row') ->
  num_at header row name = num_at header' row' name.
Proof. exact columns_in_any_order. Qed.

(* location metadata comes from the first row mentioning the id *)
Theorem C09_first_row_fixes_location_metadata : forall r recs,
  In (Build_loc (r_id r) (r_lat r) (r_lon r) (r_elev r)) (loc_table (r :: recs) []).
Proof. exact first_row_fixes_metadata. Qed.

Print Assumptions C09_value_at_its_own_coordinate.
Print Assumptions C09_rows_in_any_order.
Print Assumptions C09_columns_in_any_order.

Local Open Scope string_scope.
(* column classification: p<threshold> is not pit, e<member> is not elev, q<quantile>; offset = leadtime *)
Example C09_column_classification :
  classify "p5" = KThreshold (5 # 1)%Q /\ classify "pit" = KPit /\ classify "q0.25" = KQuantile (25 # 100)%Q /\
  classify "e3" = KMember (3 # 1)%Q /\ classify "elev" = KRegular /\ classify "crps" = KOther /\ canon "offset" = "leadtime".
Proof. vm_compute. repeat split. Qed.
Example C09_nonvacuous :
  match parse_text ["date"; "hour"; "offset"; "id"; "lat"; "obs"; "fcst"]
                   [["20120101"; "6"; "3"; "7"; "60.5"; "1.5"; "-999"]; ["20120101"; "0"; "3"; "2"; "59"; "NA"; "2"]] with
  | OK ti => t_times ti = [1325376000; 1325397600]%Z /\ t_leads ti = [3000]%Z /\ map l_id (t_locs ti) = [2; 7]%Z /\
             t_cube ti "obs" = [[[None; None]]; [[None; Some (15 # 10)%Q]]]
  | Error _ => False
  end.
Proof. vm_compute. repeat split. Qed.
