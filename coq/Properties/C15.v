(* Properties/C15.v -- Aggregators and -T pre-aggregation compute the documented statistics.
   agg_X are GENERATED from /repo's verif/aggregator.py (and util.nprange/numvalid); window /
   preagg_series are the hand model Model/Window.v of verif.data.preaggregate_* (tied by ./check C15). *)
From Coq Require Import Reals ZArith List Bool Lia.
From VF Require Import Base.Num Base.Vec Base.Event Gen.Gen_interval Gen.Gen_detmetrics Gen.Gen_aggregator
     Model.Window Proofs.RList Proofs.C15_agg Proofs.C15_window.
Import ListNotations.

(* ---- each aggregator is its statistic, on vectors of finite reals of any length ------------- *)
Local Open Scope R_scope.
Theorem C15_mean : forall l, l <> [] -> agg_Mean XR (F l) = Fin (rmean l).
Proof. exact agg_Mean_value. Qed.
Theorem C15_mean_of_nothing_is_nan : agg_Mean XR (F []) = NaN.
Proof. exact agg_Mean_empty. Qed.
Theorem C15_sum : forall l, agg_Sum XR (F l) = Fin (rsum l).
Proof. exact agg_Sum_value. Qed.
Theorem C15_meanabs : forall l, l <> [] -> agg_Meanabs XR (F l) = Fin (rmean (map Rabs l)).
Proof. exact agg_Meanabs_value. Qed.
Theorem C15_absmean : forall l, l <> [] -> agg_Absmean XR (F l) = Fin (Rabs (rmean l)).
Proof. exact agg_Absmean_value. Qed.
Theorem C15_meanabs_is_not_absmean : agg_Meanabs XR (F [1; -1]) = Fin 1 /\ agg_Absmean XR (F [1; -1]) = Fin 0.
Proof. exact meanabs_differs_from_absmean. Qed.
Theorem C15_count_counts_non_missing : forall v : list xr,
  agg_Count XR v = Fin (IZR (Z.of_nat (length (filter (fun x => negb (n_isnan XR x)) v)))).
Proof. exact agg_Count_value. Qed.
Theorem C15_min : forall x l, exists m, agg_Min XR (F (x :: l)) = Fin m /\ In m (x :: l) /\ forall y, In y (x :: l) -> m <= y.
Proof. exact agg_Min_spec. Qed.
Theorem C15_max : forall x l, agg_Max XR (F (x :: l)) = Fin (fold_left Rmax l x).
Proof. exact agg_Max_value. Qed.
Theorem C15_range_is_max_minus_min : forall x l, agg_Range XR (F (x :: l)) = Fin (fold_left Rmax l x - fold_left Rmin l x).
Proof. exact agg_Range_value. Qed.
Theorem C15_change_is_last_minus_first : forall x l, agg_Change XR (F (x :: l)) = Fin (last l x - x).
Proof. exact agg_Change_value. Qed.
Theorem C15_abschange : forall x l, agg_AbsChange XR (F (x :: l)) = Fin (Rabs (last l x - x)).
Proof. exact agg_AbsChange_value. Qed.
Theorem C15_variance : forall l, l <> [] -> agg_Variance XR (F l) = Fin (rmean (map sqr (map (fun x => x - rmean l) l))).
Proof. exact agg_Variance_value. Qed.
Theorem C15_std_is_sqrt_of_variance : forall v, agg_Std XR v = n_sqrt XR (agg_Variance XR v).
Proof. exact agg_Std_is_sqrt_variance. Qed.
Theorem C15_iqr : forall v, agg_Iqr XR v = n_sub XR (vpercentile XR v (Fin 75)) (vpercentile XR v (Fin 25)).
Proof. exact agg_Iqr_is_p75_minus_p25. Qed.
Theorem C15_quantile_is_percentile : forall q v, agg_Quantile XR (Fin q) v = vpercentile XR v (Fin (q * 100)).
Proof. exact agg_Quantile_is_percentile. Qed.
Theorem C15_quantile_level_between_0_and_1 : forall q, quantile_level_ok XR (Fin q) = true <-> 0 <= q <= 1.
Proof. exact quantile_level_spec. Qed.
Theorem C15_quantile_level_nan_is_rejected : quantile_level_ok XR NaN = false.
Proof. exact quantile_level_nan_rejected. Qed.
Print Assumptions C15_variance.
Print Assumptions C15_min.

(* ---- -T h: the trailing window (l - h, l], for every increasing grid (irregular spacing, window
        shorter or longer than the series) ------------------------------------------------------ *)
Local Open Scope Z_scope.
Theorem C15_window_is_trailing : forall grid h t i, increasing grid -> 0 < h -> (t < length grid)%nat ->
  (In i (window grid h t) <-> (i < length grid)%nat /\ nth t grid 0 - h < nth i grid 0 <= nth t grid 0).
Proof. exact window_is_trailing. Qed.
Theorem C15_window_contains_current : forall grid h t, increasing grid -> 0 < h -> (t < length grid)%nat ->
  In t (window grid h t).
Proof. exact window_contains_self. Qed.
Theorem C15_long_window_takes_everything_before : forall grid h t i, increasing grid -> (t < length grid)%nat ->
  nth t grid 0 - nth 0 grid 0 < h -> (i <= t)%nat -> In i (window grid h t).
Proof. exact long_window_takes_all_before. Qed.
Theorem C15_same_function_for_obs_fcst_members : forall (V : Type) agg grid h (s1 s2 : list (option V)),
  s1 = s2 -> preagg_series V agg grid h s1 = preagg_series V agg grid h s2.
Proof. exact same_transformation. Qed.
(* REFUTED for grids that are not increasing (known finding: NetCDF lead times keep file order) *)
Theorem C15_window_refuted_for_unsorted_grid :
  let grid := [6; 0; 3] in
  window grid 4 2 = [0%nat; 1%nat; 2%nat] /\ ~ (nth 2 grid 0 - 4 < nth 0 grid 0 <= nth 2 grid 0).
Proof. exact window_refuted_for_unsorted_grid. Qed.
Print Assumptions C15_window_is_trailing.

Example C15_nonvacuous : increasing [0; 1; 2; 3; 6; 9; 12; 18; 24] /\ window [0; 1; 2; 3; 6; 9; 12; 18; 24] 3 4 = [4%nat].
Proof. cbn. repeat split; lia. Qed.
