"""targets_more -- deterministic metrics, aggregators and probabilistic formulas (C05, C15, C08)."""
import ast
import os

from py2coq import (Unsupported, Ctx, expr, block, parse_file, find_class, find_func, coq_name, lit, COQTYPE,
                    is_docstring, class_names_with)
import targets as T

HAND_MODELLED = {"Leps": "index loop over the sorted observations (hand model Model/Leps.v, tied by the harness)"}


def class_attr(cls, name):
    for st in cls.body:
        if isinstance(st, ast.Assign) and ast.unparse(st.targets[0]) == name:
            return st.value
    return None


def attr_option(cls, name, ctx=None):
    v = class_attr(cls, name)
    if v is None or (isinstance(v, ast.Constant) and v.value is None):
        return "None"
    e, t = expr(v, ctx or Ctx())
    if t != "N":
        raise Unsupported("%s is not a number" % name)
    return "Some %s" % e


def gen_detmetrics(repo, report):
    mtree = parse_file(os.path.join(repo, "verif/metric.py"))
    utree = parse_file(os.path.join(repo, "verif/util.py"))
    out = T.HEADER % ("verif/metric.py (ObsFcstBased and subclasses, Within, Conditional, XConditional, Count), verif/util.py",
                      " Gen.Gen_interval")
    out += "Section G.\nVariable Ops : NumOps.\nNotation T := (numT Ops).\n"
    out += "Variable agg : list T -> T.      (* self.aggregator, the -agg function *)\n"
    out += "Variable func : list T -> T.     (* the statistic a Conditional/XConditional metric is constructed with *)\n\n"

    # util.nprange / util.numvalid (used by the Range and Count aggregators)
    for name in ("nprange", "numvalid"):
        def one(name=name):
            fn = find_func(utree, name)
            ctx = Ctx({"data": "V", "axis": "NONE"})
            e, t = block(list(fn.body), ctx)
            return "Definition util_%s (data : list T) : T :=\n  %s.\n" % (name, e)
        out += T.emit("util_%s" % name, "verif/util.py:%s" % name, one)

    # the pair filter of ObsFcstBased.compute_from_obs_fcst
    def pair_filter():
        cls = find_class(mtree, "ObsFcstBased")
        fn = find_func(cls, "compute_from_obs_fcst")
        body = [s for s in fn.body if not is_docstring(s)]
        want = ["I = np.where(np.isnan(obs) | np.isnan(fcst) == 0)[0]", "obs = obs[I]", "fcst = fcst[I]",
                "if obs.shape[0] > 0:\n    return self._compute_from_obs_fcst(obs, fcst)\nelse:\n    return np.nan"]
        got = [ast.unparse(s) for s in body]
        if got != want:
            raise Unsupported("ObsFcstBased.compute_from_obs_fcst changed: %r" % got)
        return ("(* remove pairs with a missing side; no pair left => NaN *)\n"
                "Definition obsfcst_compute (core : list T -> list T -> T) (obs fcst : list T) : T :=\n"
                "  let ps := valid_pairs Ops obs fcst in\n"
                "  if n_ltb Ops %s (n_ofnat Ops (length ps)) then core (map fst ps) (map snd ps) else n_nan Ops.\n" % lit(0))
    out += T.emit("obsfcst_compute", "verif/metric.py:ObsFcstBased.compute_from_obs_fcst", pair_filter)

    names = class_names_with(mtree, "ObsFcstBased")
    translated = []
    for name in names:
        if name in HAND_MODELLED:
            out += "(* %s is hand-modelled: %s *)\n\n" % (name, HAND_MODELLED[name])
            continue

        def one(name=name):
            cls = find_class(mtree, name)
            fn = find_func(cls, "_compute_from_obs_fcst")
            if [a.arg for a in fn.args.args] != ["self", "obs", "fcst"]:
                raise Unsupported("signature")
            ctx = Ctx({"obs": "V", "fcst": "V"})
            e, t = block(list(fn.body), ctx)
            if t != "N":
                raise Unsupported("result type %s" % t)
            return "Definition %s_core (obs fcst : list T) : T :=\n  %s.\n" % (name, e)
        out += T.emit("%s_core" % name, "verif/metric.py:%s._compute_from_obs_fcst" % name, one)

        def meta(name=name):
            cls = find_class(mtree, name)
            ori = class_attr(cls, "orientation")
            o = 0 if ori is None else int(ast.literal_eval(ori))
            sa = class_attr(cls, "supports_aggregator")
            return ("Definition %s_perfect : option T := %s.\nDefinition %s_orientation : Z := %d.\n"
                    "Definition %s_supports_aggregator : bool := %s.\n"
                    % (name, attr_option(cls, "perfect_score"), name, o, name,
                       "true" if (sa is not None and ast.literal_eval(sa)) else "false"))
        out += T.emit("%s_meta" % name, "verif/metric.py:%s (perfect_score, orientation, supports_aggregator)" % name, meta)
        translated.append(name)

    # Within / Conditional / XConditional / Count
    def within():
        cls = find_class(mtree, "Within")
        fn = find_func(cls, "compute_from_obs_fcst")
        ctx = Ctx({"obs": "V", "fcst": "V", "interval": "IV"})
        e, t = block(list(fn.body), ctx)
        return "Definition Within_compute (obs fcst : list T) (interval_ : interval Ops) : T :=\n  %s.\n" % e
    out += T.emit("Within_compute", "verif/metric.py:Within.compute_from_obs_fcst", within)
    for cname in ("Conditional", "XConditional"):
        def cond(cname=cname):
            cls = find_class(mtree, cname)
            fn = find_func(cls, "compute_from_obs_fcst")
            ctx = Ctx({"obs": "V", "fcst": "V", "interval": "IV"})
            e, t = block(list(fn.body), ctx)
            return "Definition %s_compute (obs fcst : list T) (interval_ : interval Ops) : T :=\n  %s.\n" % (cname, e)
        out += T.emit("%s_compute" % cname, "verif/metric.py:%s.compute_from_obs_fcst" % cname, cond)
    out += "End G.\n"
    report["detmetric_classes"] = translated
    return out


def gen_aggregator(repo, report):
    atree = parse_file(os.path.join(repo, "verif/aggregator.py"))
    out = T.HEADER % ("verif/aggregator.py (every Aggregator.__call__, read for axis=None)", " Gen.Gen_detmetrics")
    out += "Section G.\nVariable Ops : NumOps.\nNotation T := (numT Ops).\n\n"
    names = class_names_with(atree, "Aggregator")
    ok = []
    for name in names:
        def one(name=name):
            cls = find_class(atree, name)
            fn = find_func(cls, "__call__")
            if [a.arg for a in fn.args.args] != ["self", "array", "axis"]:
                raise Unsupported("signature")
            body = T.specialize([s for s in fn.body if not is_docstring(s)], {"axis": None})
            attrs = {"self.quantile": ("quantile", "N")}
            ctx = Ctx({"array": "V", "axis": "NONE"}, attrs)
            e, t = block(body, ctx)
            if t != "N":
                raise Unsupported("result type %s" % t)
            e = e.replace("util_nprange", "util_nprange Ops").replace("util_numvalid", "util_numvalid Ops")
            extra = "(quantile : T) " if name == "Quantile" else ""
            return "Definition agg_%s %s(array : list T) : T :=\n  %s.\n" % (name, extra, e)
        out += T.emit("agg_%s" % name, "verif/aggregator.py:%s.__call__" % name, one)
        ok.append(name)

    def qinit():
        cls = find_class(atree, "Quantile")
        fn = find_func(cls, "__init__")
        body = [s for s in fn.body if not is_docstring(s)]
        want = ["self.quantile = quantile", "if self.quantile < 0 or self.quantile > 1:\n    verif.util.error('Quantile must be between 0 and 1')"]
        want2 = ["self.quantile = quantile", "if not (self.quantile >= 0 and self.quantile <= 1):\n    verif.util.error('Quantile must be between 0 and 1')"]
        got = [ast.unparse(s) for s in body]
        if got == want2:
            # accepted exactly when both comparisons hold (a NaN level fails them and is rejected)
            return ("(* the constructor rejects every level that is not inside [0, 1] (error exit), NaN included *)\n"
                    "Definition quantile_level_ok (quantile : T) : bool :=\n"
                    "  andb (n_leb Ops %s quantile) (n_leb Ops quantile %s).\n" % (lit(0), lit(1)))
        if got != want:
            raise Unsupported("Quantile.__init__ changed: %r" % got)
        return ("(* the constructor rejects levels outside [0, 1] (error exit); a NaN level passes both comparisons *)\n"
                "Definition quantile_level_ok (quantile : T) : bool :=\n"
                "  negb (orb (n_ltb Ops quantile %s) (n_ltb Ops %s quantile)).\n" % (lit(0), lit(1)))
    out += T.emit("quantile_level_ok", "verif/aggregator.py:Quantile.__init__", qinit)
    out += "End G.\n"
    report["aggregator_classes"] = ok
    return out


def generate(repo, files, report):
    files["Gen_detmetrics.v"] = gen_detmetrics(repo, report)
    files["Gen_aggregator.v"] = gen_aggregator(repo, report)
    import targets_prob
    targets_prob.generate(repo, files, report)
    import targets_cli
    targets_cli.generate(repo, files, report)
    import targets_io
    targets_io.generate(repo, files, report)
    import targets_caps
    targets_caps.generate(repo, files, report)
