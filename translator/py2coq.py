#!/usr/bin/env python3
"""py2coq -- fail-closed Python-ast -> Gallina translator for the formula layer of WFRT/verif.

Only the constructs listed in DESIGN.md section 4 are accepted.  Anything else raises
Unsupported; the caller then emits a comment and *no definition*, so every theorem that
mentions the missing definition fails to compile (fail closed).

The translator never executes function bodies; it reads them from the AST of the files in the
working tree given by --repo.  (String predicates over the eight documented bin types are
evaluated with Python's own `re`/`==` at translation time; see bt_predicate.)
"""
import ast
import re
import sys
from fractions import Fraction

BINTYPES = ["below", "below=", "above", "above=", "within", "=within", "within=", "=within="]
BT_CTOR = {"below": "Below", "below=": "BelowEq", "above": "Above", "above=": "AboveEq",
           "within": "Within", "=within": "EqWithin", "within=": "WithinEq", "=within=": "EqWithinEq"}


class Unsupported(Exception):
    pass


def lit(value):
    """exact decimal value of a Python literal -> n_lit Ops n d"""
    fr = Fraction(str(value))
    n, d = fr.numerator, fr.denominator
    ns = "%d" % n if n >= 0 else "(%d)" % n
    return "(n_lit Ops %s %d)" % (ns, d)


BINOP = {ast.Add: "n_add", ast.Sub: "n_sub", ast.Mult: "n_mul", ast.Div: "n_div"}
CMPOP = {ast.Lt: ("n_ltb", False), ast.Gt: ("n_ltb", True), ast.LtE: ("n_leb", False),
         ast.GtE: ("n_leb", True), ast.Eq: ("n_eqb", False)}


def free_names(node):
    return {n.id for n in ast.walk(node) if isinstance(n, ast.Name)}


class Ctx:
    """Translation context: variable types and special names.

    types: name -> 'N' number, 'B' bool, 'V' vector of numbers, 'VB' vector of bools, 'BT' bin type,
                   'F' vector->number function (the aggregator)
    attrs: 'self.<attr>' -> (coq text, type)
    subst: ast.dump of an expression -> (coq text, type)   (e.g. x[I] -> the element x)
    """

    def __init__(self, types=None, attrs=None, subst=None):
        self.types = dict(types or {})
        self.attrs = dict(attrs or {})
        self.subst = dict(subst or {})
        self.counter = 0

    def fresh(self, base="e"):
        self.counter += 1
        return "%s_%d" % (base, self.counter)

    def child(self):
        c = Ctx(self.types, self.attrs, self.subst)
        c.counter = self.counter
        return c


def coq_name(name):
    # avoid clashes with Coq keywords / constructors used in the generated files
    reserved = {"N": "N_", "I": "I_", "O": "O_", "S": "S_", "H": "H_", "F": "F_", "fun": "fun_", "at": "at_",
                "in": "in_", "let": "let_", "end": "end_", "if": "if_", "sorted": "sorted_", "sum": "sum_",
                "min": "min_", "max": "max_", "num": "num_", "denom": "denom_", "interval": "interval_"}
    return reserved.get(name, name)


def bt_predicate(node, ctx):
    """A boolean expression whose only free data name is a bin-type variable (plus `re`):
    evaluated by Python itself on each of the 8 documented strings and emitted as a match."""
    names = free_names(node) - {"re"}
    btvars = [n for n in names if ctx.types.get(n) == "BT"]
    if len(btvars) != 1 or names != set(btvars):
        return None
    var = btvars[0]
    code = compile(ast.Expression(body=node), "<bt>", "eval")
    arms = []
    for s in BINTYPES:
        val = eval(code, {"re": re, "__builtins__": {}}, {var: s})
        arms.append("%s => %s" % (BT_CTOR[s], "true" if val else "false"))
    return "(match %s with %s end)" % (coq_name(var), " | ".join(arms))


def is_np(node, name):
    return (isinstance(node, ast.Attribute) and isinstance(node.value, ast.Name)
            and node.value.id == "np" and node.attr == name)


def expr(node, ctx):
    """translate an expression; returns (coq_text, type)"""
    key = ast.dump(node)
    if key in ctx.subst:
        return ctx.subst[key]
    if isinstance(node, ast.Constant):
        if isinstance(node.value, bool):
            return ("true" if node.value else "false", "B")
        if isinstance(node.value, (int, float)):
            return (lit(node.value), "N")
        raise Unsupported("constant %r" % (node.value,))
    if isinstance(node, ast.Name):
        if node.id in ctx.types:
            t = ctx.types[node.id]
            return (coq_name(node.id), t)
        raise Unsupported("unknown name %s" % node.id)
    if isinstance(node, ast.Attribute):
        if is_np(node, "nan"):
            return ("(n_nan Ops)", "N")
        if is_np(node, "inf"):
            return ("(n_pinf Ops)", "N")
        if isinstance(node.value, ast.Name) and node.value.id == "self":
            k = "self." + node.attr
            if k in ctx.attrs:
                return ctx.attrs[k]
        if isinstance(node.value, ast.Name) and ctx.types.get(node.value.id) == "IV" \
                and node.attr in ("lower", "upper", "lower_eq", "upper_eq"):
            return ("(iv_%s %s)" % (node.attr, coq_name(node.value.id)), "B" if node.attr.endswith("_eq") else "N")
        raise Unsupported("attribute %s" % ast.unparse(node))
    if isinstance(node, ast.UnaryOp):
        if isinstance(node.op, ast.USub):
            if is_np(node.operand, "inf"):
                return ("(n_ninf Ops)", "N")
            if isinstance(node.operand, ast.Constant) and isinstance(node.operand.value, (int, float)):
                return (lit(-node.operand.value), "N")
            a, t = expr(node.operand, ctx)
            return unary("n_neg", a, t)
        if isinstance(node.op, ast.Not):
            a, t = expr(node.operand, ctx)
            if t != "B":
                raise Unsupported("not on %s" % t)
            return ("(negb %s)" % a, "B")
        raise Unsupported("unary op")
    if isinstance(node, ast.BinOp):
        if isinstance(node.op, ast.Pow):
            return power(node, ctx)
        if isinstance(node.op, (ast.BitAnd, ast.BitOr)):
            a, ta = expr(node.left, ctx)
            b, tb = expr(node.right, ctx)
            f = "andb" if isinstance(node.op, ast.BitAnd) else "orb"
            return boolop(f, a, ta, b, tb)
        if type(node.op) in BINOP:
            a, ta = expr(node.left, ctx)
            b, tb = expr(node.right, ctx)
            return binary("%s Ops" % BINOP[type(node.op)], a, ta, b, tb)
        raise Unsupported("binop %s" % type(node.op).__name__)
    if isinstance(node, ast.BoolOp):
        p = bt_predicate(node, ctx)
        if p:
            return (p, "B")
        f = "andb" if isinstance(node.op, ast.And) else "orb"
        acc, tacc = expr(node.values[0], ctx)
        for v in node.values[1:]:
            b, tb = expr(v, ctx)
            acc, tacc = boolop(f, acc, tacc, b, tb)
        return (acc, tacc)
    if isinstance(node, ast.Compare):
        p = bt_predicate(node, ctx)
        if p:
            return (p, "B")
        if len(node.ops) != 1:
            raise Unsupported("chained comparison")
        op = node.ops[0]
        if isinstance(op, ast.In) and is_np(node.left, "nan"):
            # `np.nan in [a, b]`: list membership tests identity first, then ==.  The elements
            # are freshly computed numpy scalars, never the np.nan object, and NaN != NaN.
            return ("false", "B")
        a, ta = expr(node.left, ctx)
        b, tb = expr(node.comparators[0], ctx)
        if isinstance(op, ast.NotEq):
            r, t = compare("n_eqb Ops", a, ta, b, tb)
            if t != "B":
                raise Unsupported("vector !=")
            return ("(negb %s)" % r, "B")
        if type(op) not in CMPOP:
            raise Unsupported("comparison %s" % type(op).__name__)
        f, swap = CMPOP[type(op)]
        # `v == 0` on a bool vector is element-wise negation (used in _compute_abcd)
        if isinstance(op, ast.Eq) and ta == "VB" and tb == "N" and b == lit(0):
            return ("(map negb %s)" % a, "VB")
        if isinstance(op, ast.Eq) and ta == "VOB" and tb == "N" and b == lit(0):
            return ("(map (option_map negb) %s)" % a, "VOB")
        if swap:
            a, ta, b, tb = b, tb, a, ta
        return compare("%s Ops" % f, a, ta, b, tb)
    if isinstance(node, ast.Call):
        return call(node, ctx)
    if isinstance(node, ast.IfExp):
        c, tc = expr(node.test, ctx)
        a, ta = expr(node.body, ctx)
        b, tb = expr(node.orelse, ctx)
        if tc != "B" or ta != tb:
            raise Unsupported("ifexp types")
        return ("(if %s then %s else %s)" % (c, a, b), ta)
    raise Unsupported("expression %s" % type(node).__name__)


def unary(f, a, t):
    if t == "N":
        return ("(%s Ops %s)" % (f, a), "N")
    if t == "V":
        return ("(map (%s Ops) %s)" % (f, a), "V")
    raise Unsupported("%s on %s" % (f, t))


def binary(f, a, ta, b, tb):
    # a boolean used as a number (err < 0 in the pinball loss): False = 0, True = 1
    if ta == "VB":
        a, ta = "(map (of_bool Ops) %s)" % a, "V"
    if tb == "VB":
        b, tb = "(map (of_bool Ops) %s)" % b, "V"
    if ta == "B":
        a, ta = "(of_bool Ops %s)" % a, "N"
    if tb == "B":
        b, tb = "(of_bool Ops %s)" % b, "N"
    if ta == "N" and tb == "N":
        return ("(%s %s %s)" % (f, a, b), "N")
    if ta == "V" and tb == "V":
        return ("(vmap2 Ops (%s) %s %s)" % (f, a, b), "V")
    if ta == "V" and tb == "N":
        return ("(map (fun x_ => %s x_ %s) %s)" % (f, b, a), "V")
    if ta == "N" and tb == "V":
        return ("(map (fun x_ => %s %s x_) %s)" % (f, a, b), "V")
    raise Unsupported("binary %s on %s,%s" % (f, ta, tb))


def compare(f, a, ta, b, tb):
    if ta == "N" and tb == "N":
        return ("(%s %s %s)" % (f, a, b), "B")
    if ta == "V" and tb == "V":
        return ("(vmap2b Ops (%s) %s %s)" % (f, a, b), "VB")
    if ta == "V" and tb == "N":
        return ("(map (fun x_ => %s x_ %s) %s)" % (f, b, a), "VB")
    if ta == "N" and tb == "V":
        return ("(map (fun x_ => %s %s x_) %s)" % (f, a, b), "VB")
    raise Unsupported("compare on %s,%s" % (ta, tb))


def boolop(f, a, ta, b, tb):
    if ta == "B" and tb == "B":
        return ("(%s %s %s)" % (f, a, b), "B")
    if ta == "VB" and tb == "VB":
        return ("(map (fun p_ => %s (fst p_) (snd p_)) (combine %s %s))" % (f, a, b), "VB")
    if ta == "VOB" and tb == "VOB":
        return ("(map (fun p_ => m%s (fst p_) (snd p_)) (combine %s %s))" % (f, a, b), "VOB")
    if ta == "VB" and tb == "B":
        return ("(map (fun x_ => %s x_ %s) %s)" % (f, b, a), "VB")
    if ta == "B" and tb == "VB":
        return ("(map (fun x_ => %s %s x_) %s)" % (f, a, b), "VB")
    raise Unsupported("boolop on %s,%s" % (ta, tb))


def const_value(node):
    """value of a constant arithmetic expression such as (1.0 / 3), else None"""
    try:
        if free_names(node):
            return None
        return eval(compile(ast.Expression(body=node), "<c>", "eval"), {"__builtins__": {}}, {})
    except Exception:
        return None


def power(node, ctx):
    a, t = expr(node.left, ctx)
    e = const_value(node.right)
    if e is None:
        raise Unsupported("non-constant exponent")
    if e == 2:
        body = "n_mul Ops %s %s"
        n = 2
    elif e == 3:
        body = None
        n = 3
    elif e == 0.5:
        return unary("n_sqrt", a, t)
    elif abs(e - 1.0 / 3) < 1e-15:
        return unary("n_cbrt", a, t)
    else:
        raise Unsupported("exponent %r" % e)
    if t == "N":
        if n == 2:
            return ("(let p_ := %s in n_mul Ops p_ p_)" % a, "N")
        return ("(let p_ := %s in n_mul Ops (n_mul Ops p_ p_) p_)" % a, "N")
    if t == "V":
        if n == 2:
            return ("(map (fun p_ => n_mul Ops p_ p_) %s)" % a, "V")
        return ("(map (fun p_ => n_mul Ops (n_mul Ops p_ p_) p_) %s)" % a, "V")
    raise Unsupported("power on %s" % t)


NP_UNARY = {"abs": "n_abs", "sqrt": "n_sqrt", "log": "n_ln", "log2": "n_log2", "exp": "n_exp"}
NP_REDUCE = {"mean": "vmean", "sum": "vsum", "std": "vstd", "var": "vvar", "min": "vmin", "max": "vmax",
             "median": "vmedian", "nanmean": "vnanmean"}


def call(node, ctx):
    f = node.func
    for kw in node.keywords:
        # `axis=axis` with axis statically None (the 1-D reading of an aggregator) is a no-op
        if not (kw.arg == "axis" and isinstance(kw.value, ast.Name) and ctx.types.get(kw.value.id) == "NONE"):
            raise Unsupported("keyword arguments in %s" % ast.unparse(node))
    args = node.args
    # abs(x), len(x)
    if isinstance(f, ast.Name):
        if f.id == "abs" and len(args) == 1:
            a, t = expr(args[0], ctx)
            return unary("n_abs", a, t)
        if f.id == "len" and len(args) == 1:
            a, t = expr(args[0], ctx)
            if t in ("V", "VB"):
                return ("(n_ofnat Ops (length %s))" % a, "N")
            if t == "MASK":
                return ("(n_ofnat Ops (length (filter (fun b_ => b_) %s)))" % a, "N")
            raise Unsupported("len of %s" % t)
        if f.id == "float" and len(args) == 1:
            return expr(args[0], ctx)
        raise Unsupported("call %s" % f.id)
    if isinstance(f, ast.Attribute):
        # verif.util.nprange(v) / verif.util.numvalid(v): translated from util.py as util_nprange / util_numvalid
        if ast.unparse(f) in ("verif.util.nprange", "verif.util.numvalid") and len(args) == 1:
            a, t = expr(args[0], ctx)
            if t != "V":
                raise Unsupported("%s of %s" % (ast.unparse(f), t))
            return ("(util_%s %s)" % (f.attr, a), "N")
        # self._func(v): the statistic a Conditional metric was constructed with
        if isinstance(f.value, ast.Name) and f.value.id == "self" and f.attr == "_func" and len(args) == 1:
            a, t = expr(args[0], ctx)
            if t != "V":
                raise Unsupported("_func of %s" % t)
            return ("(func %s)" % a, "N")
        # self.aggregator(v)
        if isinstance(f.value, ast.Name) and f.value.id == "self" and f.attr == "aggregator" and len(args) == 1:
            a, t = expr(args[0], ctx)
            if t != "V":
                raise Unsupported("aggregator of %s" % t)
            return ("(agg %s)" % a, "N")
        if isinstance(f.value, ast.Name) and f.value.id == "np":
            name = f.attr
            if name in NP_UNARY and len(args) == 1:
                a, t = expr(args[0], ctx)
                return unary(NP_UNARY[name], a, t)
            if name in NP_REDUCE and len(args) == 1:
                a, t = expr(args[0], ctx)
                if t == "V":
                    return ("(%s Ops %s)" % (NP_REDUCE[name], a), "N")
                if t == "VB" and name == "sum":
                    return ("(bsum Ops %s)" % a, "N")
                if t == "VB" and name == "mean":
                    return ("(vmean Ops (map (of_bool Ops) %s))" % a, "N")
                if t == "VOB" and name == "mean":
                    return ("(mamean Ops %s)" % a, "N")
                raise Unsupported("np.%s of %s" % (name, t))
            if name == "percentile" and len(args) == 2:
                a, t = expr(args[0], ctx)
                p, tp = expr(args[1], ctx)
                if t == "V" and tp == "N":
                    return ("(vpercentile Ops %s %s)" % (a, p), "N")
                raise Unsupported("np.percentile types")
            if name == "sort" and len(args) == 1:
                a, t = expr(args[0], ctx)
                if t == "V":
                    return ("(vsort Ops %s)" % a, "V")
                raise Unsupported("np.sort of %s" % t)
            if name == "isnan" and len(args) == 1:
                a, t = expr(args[0], ctx)
                if t == "N":
                    return ("(n_isnan Ops %s)" % a, "B")
                if t == "V":
                    return ("(map (n_isnan Ops) %s)" % a, "VB")
                raise Unsupported("isnan of %s" % t)
            if name == "isinf" and len(args) == 1:
                a, t = expr(args[0], ctx)
                if t == "N":
                    return ("(n_isinf Ops %s)" % a, "B")
                raise Unsupported("isinf of %s" % t)
            raise Unsupported("np.%s" % name)
        # np.ma.sum(x) on a vector of possibly-masked booleans
        if (isinstance(f.value, ast.Attribute) and isinstance(f.value.value, ast.Name)
                and f.value.value.id == "np" and f.value.attr == "ma" and f.attr == "sum" and len(args) == 1):
            a, t = expr(args[0], ctx)
            if t == "VOB":
                return ("(masum Ops %s)" % a, "N")
            raise Unsupported("np.ma.sum of %s" % t)
        # <interval>.within(v): membership of every element, masked (None) where the element is NaN
        if f.attr == "within" and len(args) == 1 and isinstance(f.value, ast.Name) \
                and ctx.types.get(f.value.id) == "IV":
            a, t = expr(args[0], ctx)
            if t == "V":
                return ("(map (iv_within Ops %s) %s)" % (coq_name(f.value.id), a), "VOB")
            raise Unsupported("within of %s" % t)
    # np.corrcoef(a, b)[1, 0] etc. are handled in subscript()
    raise Unsupported("call %s" % ast.unparse(node))


def subscript_call(node, ctx):
    """np.corrcoef(a,b)[1,0] / scipy.stats.spearmanr(a,b)[0] / kendalltau(a,b)[0]"""
    if not isinstance(node, ast.Subscript) or not isinstance(node.value, ast.Call):
        return None
    c = node.value
    name = ast.unparse(c.func)
    idx = ast.unparse(node.slice)
    spec = {("np.corrcoef", "(1, 0)"): "pearson", ("np.corrcoef", "1, 0"): "pearson",
            ("scipy.stats.spearmanr", "0"): "spearman_spec",
            ("scipy.stats.kendalltau", "0"): "kendall_spec"}.get((name, idx))
    if spec is None or len(c.args) != 2:
        return None
    a, ta = expr(c.args[0], ctx)
    b, tb = expr(c.args[1], ctx)
    if ta != "V" or tb != "V":
        raise Unsupported("%s argument types" % name)
    if spec == "pearson":
        return ("(pearson Ops %s %s)" % (a, b), "N")
    return ("(%s Ops %s %s)" % (spec, a, b), "N")


_orig_expr = expr


def expr(node, ctx):  # noqa: F811  (wrap to add subscript handling)
    if isinstance(node, ast.Subscript):
        key = ast.dump(node)
        if key in ctx.subst:
            return ctx.subst[key]
        r = subscript_call(node, ctx)
        if r:
            return r
        src = ast.unparse(node)
        # v.flatten()[-1] / v.flatten()[0]
        m = re.match(r"^(\w+)\.flatten\(\)\[(-1|0)\]$", src)
        if m and ctx.types.get(m.group(1)) == "V":
            return ("(%s Ops %s)" % ("vlast" if m.group(2) == "-1" else "vfirst", coq_name(m.group(1))), "N")
        # np.where(<interval>.within(v))[0] : the positions inside the interval (masked = outside)
        m = re.match(r"^np\.where\((\w+)\.within\((\w+)\)\)\[0\]$", src)
        if m and ctx.types.get(m.group(1)) == "IV" and ctx.types.get(m.group(2)) == "V":
            return ("(map (fun x_ => is_some_true (iv_within Ops %s x_)) %s)" % (coq_name(m.group(1)), coq_name(m.group(2))), "MASK")
        # np.where(<boolean vector expression>)[0] : positions where it holds
        if isinstance(node.value, ast.Call) and ast.unparse(node.value.func) == "np.where" and ast.unparse(node.slice) == "0" \
                and len(node.value.args) == 1:
            a, t = expr(node.value.args[0], ctx)
            if t == "VB":
                return (a, "MASK")
        # v[I] with I a position mask
        if isinstance(node.value, ast.Name) and isinstance(node.slice, ast.Name) \
                and ctx.types.get(node.value.id) == "V" and ctx.types.get(node.slice.id) == "MASK":
            return ("(vselect %s %s)" % (coq_name(node.slice.id), coq_name(node.value.id)), "V")
        raise Unsupported("subscript %s" % src)
    return _orig_expr(node, ctx)


# ------------------------------------------------------------------------------------------------
# statements: early-return normal form

def is_docstring(stmt):
    return isinstance(stmt, ast.Expr) and isinstance(stmt.value, ast.Constant) and isinstance(stmt.value.value, str)


def always_returns(stmts):
    for s in stmts:
        if isinstance(s, ast.Return):
            return True
        if isinstance(s, ast.If) and s.orelse and always_returns(s.body) and always_returns(s.orelse):
            return True
    return False


def assigned_names(stmts):
    out = []
    for s in stmts:
        if isinstance(s, ast.Assign):
            for t in s.targets:
                if isinstance(t, ast.Name):
                    if t.id not in out:
                        out.append(t.id)
                elif isinstance(t, ast.Tuple) or isinstance(t, ast.List):
                    for e in t.elts:
                        if isinstance(e, ast.Name) and e.id not in out:
                            out.append(e.id)
                else:
                    raise Unsupported("assignment target %s" % ast.unparse(t))
        elif isinstance(s, ast.If):
            for n in assigned_names(s.body) + assigned_names(s.orelse):
                if n not in out:
                    out.append(n)
        elif is_docstring(s) or isinstance(s, ast.Pass):
            pass
        else:
            raise Unsupported("statement %s in assignment block" % type(s).__name__)
    return out


def block(stmts, ctx, rettype=None, tail=None):
    """translate a statement list that ends (on every path) in return, or falls through to `tail`
    (a function ctx -> (text, type) giving the continuation)."""
    if not stmts:
        if tail is None:
            raise Unsupported("function may fall off the end")
        return tail(ctx)
    s, rest = stmts[0], stmts[1:]
    if is_docstring(s) or isinstance(s, ast.Pass):
        return block(rest, ctx, rettype, tail)
    if isinstance(s, ast.Return):
        if s.value is None:
            raise Unsupported("bare return")
        return expr(s.value, ctx)
    if isinstance(s, ast.Assign):
        if len(s.targets) != 1:
            raise Unsupported("multiple assignment")
        tgt = s.targets[0]
        if isinstance(s.value, ast.Call) and ast.unparse(s.value.func) == "data.get_scores" \
                and isinstance(tgt, (ast.List, ast.Tuple)) \
                and all(isinstance(e, ast.Name) and e.id in ctx.types for e in tgt.elts):
            # the arrays delivered by Data.get_scores are parameters of the translated function
            return block(rest, ctx, rettype, tail)
        if isinstance(tgt, ast.Name) and isinstance(s.value, ast.Call) and ast.unparse(s.value.func).startswith("verif.field."):
            return block(rest, ctx, rettype, tail)        # field descriptors (which column is read): not data
        if isinstance(tgt, ast.Name):
            e, t = expr(s.value, ctx)
            c2 = ctx.child()
            c2.types[tgt.id] = t
            body, bt = block(rest, c2, rettype, tail)
            return ("let %s := %s in\n  %s" % (coq_name(tgt.id), e, body), bt)
        raise Unsupported("assignment to %s" % ast.unparse(tgt))
    if isinstance(s, ast.If):
        c, tc = expr(s.test, ctx)
        if tc != "B":
            raise Unsupported("if on %s" % tc)
        if always_returns(s.body):
            a, ta = block(s.body, ctx, rettype, None)
            b, tb = block(list(s.orelse) + rest, ctx, rettype, tail)
            if ta != tb:
                raise Unsupported("branches of different type %s/%s" % (ta, tb))
            return ("if %s then %s else\n  %s" % (c, a, b), ta)
        if s.orelse and always_returns(s.orelse):
            b, tb = block(s.orelse, ctx, rettype, None)
            a, ta = block(list(s.body) + rest, ctx, rettype, tail)
            if ta != tb:
                raise Unsupported("branches of different type %s/%s" % (ta, tb))
            return ("if %s then %s else\n  %s" % (c, a, b), ta)
        # assignment-only if: every assigned name must already be defined (so both arms are total)
        names = assigned_names([s])
        both = set(assigned_names(list(s.body))) & set(assigned_names(list(s.orelse)))
        for n in names:
            if n not in ctx.types and n not in both:
                raise Unsupported("conditionally defined variable %s" % n)
        tup = "(" + ", ".join(coq_name(n) for n in names) + ")" if len(names) > 1 else coq_name(names[0])

        def fin(cx, names=names):
            if len(names) == 1:
                return (coq_name(names[0]), cx.types[names[0]])
            return ("(" + ", ".join(coq_name(n) for n in names) + ")", "T")
        newtypes = {}

        def fin_t(cx, names=names):
            for n in names:
                newtypes[n] = cx.types[n]
            return fin(cx)
        a, _ = block(list(s.body), ctx.child(), None, fin_t)
        b, _ = block(list(s.orelse), ctx.child(), None, fin)
        ctx = ctx.child()
        ctx.types.update(newtypes)
        body, bt = block(rest, ctx, rettype, tail)
        pat = ("'" + tup) if len(names) > 1 else tup
        return ("let %s := (if %s then %s else %s) in\n  %s" % (pat, c, a, b, body), bt)
    raise Unsupported("statement %s" % type(s).__name__)


# ------------------------------------------------------------------------------------------------
# helpers to find code

def parse_file(path):
    with open(path) as f:
        return ast.parse(f.read(), filename=path)


def find_class(tree, name):
    for n in tree.body:
        if isinstance(n, ast.ClassDef) and n.name == name:
            return n
    raise Unsupported("class %s not found" % name)


def find_func(container, name):
    body = container.body
    for n in body:
        if isinstance(n, ast.FunctionDef) and n.name == name:
            return n
    raise Unsupported("function %s not found" % name)


def class_names_with(tree, base):
    """names of classes (in source order) deriving directly from `base`"""
    out = []
    for n in tree.body:
        if isinstance(n, ast.ClassDef) and any(isinstance(b, ast.Name) and b.id == base for b in n.bases):
            out.append(n.name)
    return out


def definition(name, params, body_text, rettype):
    ps = " ".join("(%s : %s)" % (coq_name(p), t) for p, t in params)
    return "Definition %s %s : %s :=\n  %s.\n" % (name, ps, rettype, body_text)


COQTYPE = {"MASK": "list bool", "N": "numT Ops", "B": "bool", "V": "list (numT Ops)", "VB": "list bool", "BT": "bintype",
           "OB": "option bool", "VOB": "list (option bool)", "IV": "interval Ops"}
