"""targets_caps -- capability tables and the gating logic of verif/driver.py as Gallina (C19).

Read from the ASTs (never executed):
  * verif/metric.py, verif/output.py: every class with its base class and the constant class
    attributes (supports_*, require_threshold_type, min/max_num_thresholds, description), resolved
    along single inheritance;
  * verif/driver.py (run): the `elif metric == "<name>": pl = verif.output.<Class>()` chain, the
    three statements that drop an unsupported -x, and the chains choosing the default threshold type.
"""
import ast
import os

from py2coq import Unsupported, parse_file, find_func
import targets as T


def cstr(s):
    return '"%s"' % s.replace('"', '""')


def cbool(b):
    return "true" if b else "false"


def class_table(tree, root):
    """{class name: (base name or None, {attr: constant})} for classes deriving from root (incl.)"""
    classes = {}
    for n in tree.body:
        if not isinstance(n, ast.ClassDef):
            continue
        if len(n.bases) != 1:
            raise Unsupported("class %s has %d bases" % (n.name, len(n.bases)))
        base = ast.unparse(n.bases[0]).split(".")[-1]
        attrs = {}
        for st in n.body:
            if isinstance(st, ast.Assign) and len(st.targets) == 1 and isinstance(st.targets[0], ast.Name):
                name = st.targets[0].id
                if isinstance(st.value, ast.Constant):
                    attrs[name] = ("const", st.value.value)
                else:
                    attrs[name] = ("expr", ast.unparse(st.value))
        classes[n.name] = (base, attrs)

    def derives(c):
        seen = set()
        while c in classes and c not in seen:
            if c == root:
                return True
            seen.add(c)
            c = classes[c][0]
        return c == root
    return {c: v for c, v in classes.items() if derives(c)}, classes


def resolve(classes, cname, attr, default=None):
    c = cname
    seen = set()
    while c in classes and c not in seen:
        seen.add(c)
        if attr in classes[c][1]:
            return classes[c][1][attr]
        c = classes[c][0]
    return default


def const_of(v, what, kinds):
    if v is None:
        raise Unsupported("%s is not defined" % what)
    kind, val = v
    if kind != "const" or not isinstance(val, kinds):
        raise Unsupported("%s is not a constant of the expected type: %r" % (what, val))
    return val


def opt_nat(v, what):
    if v is None or (v[0] == "const" and v[1] is None):
        return "None"
    val = const_of(v, what, (int,))
    return "(Some %d%%nat)" % val


# ---- boolean conditions of the gating statements ---------------------------------------------------

def cond(e):
    """Python condition over axis / pl / m / plot_type -> Gallina bool (variables pl : ocap, m : option mcap,
    ax : option string, plot_type : string)"""
    src = ast.unparse(e)
    if isinstance(e, ast.BoolOp):
        op = " && " if isinstance(e.op, ast.And) else " || "
        return "(" + op.join(cond(v) for v in e.values) + ")"
    if isinstance(e, ast.UnaryOp) and isinstance(e.op, ast.Not):
        return "(negb %s)" % cond(e.operand)
    atoms = {
        "axis is not None": "(ax_some ax)",
        "axis is None": "(negb (ax_some ax))",
        "m is not None": "(m_some m)",
        "m is None": "(negb (m_some m))",
        "pl.supports_x": "(oc_x pl)",
        "pl.supports_threshold": "(oc_thr pl)",
        "pl.supports_field": "(oc_field pl)",
        "m.supports_threshold": "(m_thr m)",
        "m.supports_field": "(m_field m)",
        "pl.require_threshold_type is not None": "(negb (String.eqb (oc_rtt pl) \"\"))",
        "pl.require_threshold_type is None": "(String.eqb (oc_rtt pl) \"\")",
    }
    if src in atoms:
        return atoms[src]
    if isinstance(e, ast.Compare) and len(e.ops) == 1:
        left, right = ast.unparse(e.left), e.comparators[0]
        if isinstance(e.ops[0], ast.Eq) and left == "axis" and ast.unparse(right).startswith("verif.axis."):
            return "(ax_is ax %s)" % cstr(ast.unparse(right)[len("verif.axis."):].rstrip("()").lower())
        if isinstance(e.ops[0], ast.In) and left == "axis" and isinstance(right, ast.List):
            names = []
            for el in right.elts:
                s = ast.unparse(el)
                if not s.startswith("verif.axis."):
                    raise Unsupported("axis list element %s" % s)
                names.append(s[len("verif.axis."):].rstrip("()").lower())
            return "(" + " || ".join("ax_is ax %s" % cstr(n) for n in names) + ")"
        if isinstance(e.ops[0], ast.Eq) and isinstance(right, ast.Constant) and isinstance(right.value, str):
            lhs = {"plot_type": "plot_type", "pl.require_threshold_type": "(oc_rtt pl)", "m.require_threshold_type": "(m_rtt m)"}.get(left)
            if lhs is not None:
                return "(String.eqb %s %s)" % (lhs, cstr(right.value))
    raise Unsupported("condition not understood: %s" % src)


def gate_stmt(st):
    """one `if <cond>: warning; [thresholds = None;] axis = None` statement"""
    if st.orelse:
        raise Unsupported("gating statement with an else branch")
    drops_axis = False
    for b in st.body:
        s = ast.unparse(b)
        if s.startswith("verif.util.warning("):
            continue
        if s == "axis = None":
            drops_axis = True
        elif s == "thresholds = None":
            pass
        else:
            raise Unsupported("unexpected statement in a gating block: %s" % s)
    if not drops_axis:
        raise Unsupported("gating block does not reset the axis")
    return cond(st.test)


def ttype_chain(stmts):
    """if/elif chain assigning ttype -> Gallina expression of type ttype"""
    if not stmts:
        return "TNone"
    if len(stmts) != 1:
        raise Unsupported("more than one statement in a ttype branch: %s" % "; ".join(ast.unparse(s) for s in stmts)[:200])
    st = stmts[0]
    if isinstance(st, ast.Assign) and ast.unparse(st.targets[0]) == "ttype" and isinstance(st.value, ast.Constant):
        return "TNone" if st.value.value is None else "(TT %s)" % cstr(st.value.value)
    if isinstance(st, ast.Expr) and ast.unparse(st).startswith("verif.util.error("):
        return "TError"
    if isinstance(st, ast.If):
        return "(if %s then %s else %s)" % (cond(st.test), ttype_chain(st.body), ttype_chain(st.orelse))
    raise Unsupported("statement in a ttype chain: %s" % ast.unparse(st)[:200])


def gen_caps(repo, report):
    mtree = parse_file(os.path.join(repo, "verif/metric.py"))
    otree = parse_file(os.path.join(repo, "verif/output.py"))
    dtree = parse_file(os.path.join(repo, "verif/driver.py"))
    run = find_func(dtree, "run")
    out = ("(* GENERATED by translator/targets_caps.py from verif/metric.py, verif/output.py and verif/driver.py (run) -- do not edit. *)\n"
           "From Coq Require Import String List Bool.\nImport ListNotations.\nOpen Scope string_scope.\n\n"
           "Record mcap := { mc_name : string; mc_valid : bool; mc_rtt : string; mc_thr : bool; mc_field : bool; mc_agg : bool;\n"
           "                 mc_minq : option nat; mc_maxq : option nat }.\n"
           "Record ocap := { oc_name : string; oc_valid : bool; oc_rtt : string; oc_x : bool; oc_thr : bool; oc_field : bool; oc_acc : bool;\n"
           "                 oc_methods : list string }.      (* the drawing / table methods the class (or an ancestor below Output) defines *)\n"
           "Inductive ttype := TNone | TT (s : string) | TError.\n\n"
           "Definition ax_some (ax : option string) : bool := match ax with Some _ => true | None => false end.\n"
           "Definition ax_is (ax : option string) (n : string) : bool := match ax with Some a => String.eqb a n | None => false end.\n"
           "Definition m_some (m : option mcap) : bool := match m with Some _ => true | None => false end.\n"
           "Definition m_thr (m : option mcap) : bool := match m with Some c => mc_thr c | None => false end.\n"
           "Definition m_field (m : option mcap) : bool := match m with Some c => mc_field c | None => false end.\n"
           "Definition m_rtt (m : option mcap) : string := match m with Some c => mc_rtt c | None => \"\" end.\n\n")

    def rtt(classes, c):
        v = resolve(classes, c, "require_threshold_type")
        if v is None or (v[0] == "const" and v[1] is None):
            return ""
        return const_of(v, "%s.require_threshold_type" % c, (str,))

    def valid(classes, c):
        v = resolve(classes, c, "description")
        return not (v is None or (v[0] == "const" and v[1] is None))

    def flag(classes, c, a):
        return const_of(resolve(classes, c, a), "%s.%s" % (c, a), (bool,))

    mcls, mall = class_table(mtree, "Metric")
    rows = []
    for c in sorted(mcls, key=lambda s: s.lower()):
        rows.append("{| mc_name := %s; mc_valid := %s; mc_rtt := %s; mc_thr := %s; mc_field := %s; mc_agg := %s; mc_minq := %s; mc_maxq := %s |}" % (
            cstr(c.lower()), cbool(valid(mall, c)), cstr(rtt(mall, c)), cbool(flag(mall, c, "supports_threshold")),
            cbool(flag(mall, c, "supports_field")), cbool(flag(mall, c, "supports_aggregator")),
            opt_nat(resolve(mall, c, "min_num_thresholds"), c + ".min_num_thresholds"), opt_nat(resolve(mall, c, "max_num_thresholds"), c + ".max_num_thresholds")))
    out += "Definition metric_caps : list mcap :=\n  [%s].\n\n" % ";\n   ".join(rows)

    ocls, oall = class_table(otree, "Output")
    CORES = ["_plot_core", "_map_core", "_plot_rank_core", "_plot_impact_core", "_plot_mapimpact_core", "_get_x_y"]
    defs = {n.name: {st.name for st in n.body if isinstance(st, ast.FunctionDef)} for n in otree.body if isinstance(n, ast.ClassDef)}

    def methods_of(c):
        """core methods defined by the class or an ancestor other than the abstract base Output"""
        found, seen = [], set()
        while c in oall and c != "Output" and c not in seen:
            seen.add(c)
            found += [m for m in CORES if m in defs.get(c, ()) and m not in found]
            c = oall[c][0]
        return [m for m in CORES if m in found]
    # which core method each public entry point of Output calls, and which entry point the driver calls per -type
    entry = {}
    base = [n for n in otree.body if isinstance(n, ast.ClassDef) and n.name == "Output"][0]
    for st in base.body:
        if isinstance(st, ast.FunctionDef) and st.name in ("plot", "map", "plot_rank", "plot_impact", "plot_mapimpact", "text", "csv"):
            called = [m for m in CORES if any(isinstance(x, ast.Attribute) and x.attr == m for x in ast.walk(st))]
            if len(called) != 1:
                raise Unsupported("Output.%s calls %r of the core methods" % (st.name, called))
            entry[st.name] = called[0]
    disp = []
    for n in ast.walk(run):
        if isinstance(n, ast.If) and isinstance(n.test, ast.Compare) and ast.unparse(n.test.left) == "plot_type" and \
                isinstance(n.test.comparators[0], ast.Constant):
            calls = [ast.unparse(b) for b in n.body if ast.unparse(b).startswith("pl.") and ast.unparse(b).endswith("(data)")]
            if len(calls) == 1:
                disp.append((n.test.comparators[0].value, calls[0][3:-6]))
    # the final else of the chain: pl.plot(data)
    if not any(t == "text" for t, _ in disp) or not all(m in entry for _, m in disp) or "plot" not in entry:
        raise Unsupported("output type dispatch of driver.run not understood: %r" % disp)
    rows = []
    for c in sorted(ocls, key=lambda s: s.lower()):
        rows.append("{| oc_name := %s; oc_valid := %s; oc_rtt := %s; oc_x := %s; oc_thr := %s; oc_field := %s; oc_acc := %s; oc_methods := [%s] |}" % (
            cstr(c), cbool(valid(oall, c)), cstr(rtt(oall, c)), cbool(flag(oall, c, "supports_x")),
            cbool(flag(oall, c, "supports_threshold")), cbool(flag(oall, c, "supports_field")), cbool(flag(oall, c, "supports_acc")),
            "; ".join(cstr(m) for m in methods_of(c))))
    out += "Definition output_caps : list ocap :=\n  [%s].\n\n" % ";\n   ".join(rows)
    out += ("(* -type <t> -> the core method that is finally called (driver.run dispatch, then Output.<entry point>); any other type: plot *)\n"
            "Definition type_dispatch : list (string * string) :=\n  [%s].\nDefinition default_core : string := %s.\n\n" % (
                "; ".join("(%s, %s)" % (cstr(t), cstr(entry[m])) for t, m in disp), cstr(entry["plot"])))

    # the -m <name> -> Output class chain
    chain = []
    for n in ast.walk(run):
        if isinstance(n, ast.If) and isinstance(n.test, ast.Compare) and ast.unparse(n.test.left) == "metric" and \
                isinstance(n.test.ops[0], ast.Eq) and isinstance(n.test.comparators[0], ast.Constant) and len(n.body) == 1:
            b = ast.unparse(n.body[0])
            if b.startswith("pl = verif.output.") and b.endswith(")"):
                chain.append((n.test.comparators[0].value, b[len("pl = verif.output."):].split("(")[0]))
    if len(chain) < 10:
        raise Unsupported("diagram chain not found in driver.run")
    out += "(* -m <name> handled by a special Output class *)\nDefinition diagram_chain : list (string * string) :=\n  [%s].\n\n" % ";\n   ".join(
        "(%s, %s)" % (cstr(a), cstr(b)) for a, b in chain)

    # the three statements dropping an unsupported -x, in source order
    gates = []
    for n in ast.walk(run):
        if isinstance(n, ast.If):
            t = ast.unparse(n.test)
            if (t.startswith("axis is not None and") and "supports_x" in t) or t.startswith("axis == verif.axis.Threshold() and") or \
                    t.startswith("axis in [verif.axis.Obs(), verif.axis.Fcst()] and"):
                gates.append((n.lineno, n))
    gates.sort(key=lambda p: p[0])
    if len(gates) != 3:
        raise Unsupported("expected the 3 statements that drop an unsupported -x in driver.run, found %d" % len(gates))
    for i, (_, g) in enumerate(gates):
        out += "(* driver.py:%d  if %s *)\nDefinition gate_test%d (pl : ocap) (m : option mcap) (ax : option string) : bool :=\n  %s.\n" % (
            g.lineno, ast.unparse(g.test).replace("*)", "* )"), i + 1, gate_stmt(g))
    out += ("Definition gate_step (test : ocap -> option mcap -> option string -> bool) (pl : ocap) (m : option mcap) (ax : option string) : option string :=\n"
            "  if test pl m ax then None else ax.\n"
            "Definition gate (pl : ocap) (m : option mcap) (ax : option string) : option string :=\n"
            "  gate_step gate_test3 pl m (gate_step gate_test2 pl m (gate_step gate_test1 pl m ax)).\n\n")

    # default threshold type: the chain inside `if thresholds is None:`
    blocks = [n for n in ast.walk(run) if isinstance(n, ast.If) and ast.unparse(n.test) == "thresholds is None"]
    blk = None
    for b in blocks:
        if b.body and ast.unparse(b.body[0]) == "ttype = None":
            blk = b
    if blk is None or len(blk.body) < 2 or not isinstance(blk.body[1], ast.If):
        raise Unsupported("default threshold type chain not found")
    out += "(* driver.py:%d: which default thresholds are created when -r is absent *)\nDefinition default_ttype (plot_type : string) (pl : ocap) (m : option mcap) : ttype :=\n  %s.\n\n" % (
        blk.lineno, ttype_chain([blk.body[1]]))
    # quantile chain: `ttype = None` followed by `if pl.require_threshold_type == 'quantile'` at function level
    qchain = None
    body = run.body
    for i, st in enumerate(body[:-1]):
        if ast.unparse(st) == "ttype = None" and isinstance(body[i + 1], ast.If) and "quantile" in ast.unparse(body[i + 1].test):
            qchain = body[i + 1]
    if qchain is None:
        raise Unsupported("quantile type chain not found")
    out += "(* driver.py:%d: does the run need quantiles? *)\nDefinition quantile_ttype (pl : ocap) (m : option mcap) : ttype :=\n  %s.\n" % (
        qchain.lineno, ttype_chain([qchain]))
    report["caps"] = {"metric_classes": len(mcls), "output_classes": len(ocls), "diagram_chain": len(chain)}
    return out


def generate(repo, files, report):
    try:
        files["Gen_caps.v"] = gen_caps(repo, report)
        T.REPORT["translated"].append({"name": "Gen_caps", "source": "verif/driver.py:run, verif/metric.py, verif/output.py (class attributes)"})
    except Unsupported as e:
        T.REPORT["unsupported"].append({"name": "Gen_caps", "source": "verif/driver.py:run", "reason": str(e)})
        files["Gen_caps.v"] = "(* UNSUPPORTED Gen_caps: %s *)\n" % str(e).replace("*)", "* )")
