"""targets_prob -- probabilistic metric formulas (C08): Brier family, pinball loss, spherical, ignorance,
marginal ratio, spread, quantile coverage.  Data access (which columns are requested) is not
translated: the arrays get_scores delivers are parameters."""
import ast
import os
from fractions import Fraction

from py2coq import (Unsupported, Ctx, expr, block, parse_file, find_class, find_func, coq_name, lit, is_docstring)
import targets as T


def rat(x):
    fr = Fraction(float(x))
    n = "%d" % fr.numerator if fr.numerator >= 0 else "(%d)" % fr.numerator
    return "(n_lit Ops %s %d)" % (n, fr.denominator)


def gen_prob(repo, report):
    mtree = parse_file(os.path.join(repo, "verif/metric.py"))
    out = T.HEADER % ("verif/metric.py (probabilistic metrics)", " Gen.Gen_interval")
    out += "Section G.\nVariable Ops : NumOps.\nNotation T := (numT Ops).\n\n"

    for name in ("Bs", "BsUnc", "Bss"):
        def one(name=name):
            fn = find_func(find_class(mtree, name), "compute_from_obs_fcst")
            if [a.arg for a in fn.args.args] != ["self", "obs", "fcst"]:
                raise Unsupported("signature")
            e, t = block(list(fn.body), Ctx({"obs": "V", "fcst": "V"}))
            return "Definition %s_core (obs fcst : list T) : T :=\n  %s.\n" % (name, e)
        out += T.emit("%s_core" % name, "verif/metric.py:%s.compute_from_obs_fcst" % name, one)

    # the probability bins of the reliability / resolution terms
    def edges():
        import numpy as np
        want = ["self._edges = np.linspace(0, 1, num_edges)", "self._edges[-1] = 1.001"]
        for cname in ("BsRel", "BsRes", "BssRel", "BssRes"):
            fn = find_func(find_class(mtree, cname), "__init__")
            got = [ast.unparse(s) for s in fn.body if not is_docstring(s)]
            if got != want:
                raise Unsupported("%s.__init__ changed: %r" % (cname, got))
            if ast.unparse(fn.args) != "self, num_edges=11":
                raise Unsupported("%s.__init__ signature: %s" % (cname, ast.unparse(fn.args)))
        e = np.linspace(0, 1, 11)       # library call, evaluated; the values are the doubles numpy uses
        e[-1] = 1.001
        return ("(* np.linspace(0, 1, 11) with the last edge set to 1.001, as exact values of the doubles *)\n"
                "Definition brier_edges : list T :=\n  [%s].\n" % ";\n   ".join(rat(x) for x in e))
    out += T.emit("brier_edges", "verif/metric.py:BsRel.__init__ (and BsRes, BssRel, BssRes)", edges)

    # one bin of the binned terms: (members, values written for the members)
    for cname, var in (("BsRel", "bs"), ("BsRes", "bs"), ("BssRel", "bsrel"), ("BssRes", "bsres")):
        def one(cname=cname, var=var):
            fn = find_func(find_class(mtree, cname), "compute_from_obs_fcst")
            body = [s for s in fn.body if not is_docstring(s)]
            T.expect(body[0], "%s = np.nan * np.zeros(len(fcst), 'float')" % var, "%s init" % cname)
            T.expect(body[1], "obs_mean = np.mean(obs)", "%s obs_mean" % cname)
            loop = body[2]
            if not isinstance(loop, ast.For) or ast.unparse(loop.iter) != "range(0, len(self._edges) - 1)":
                raise Unsupported("%s loop header" % cname)
            lb = list(loop.body)
            if len(lb) != 2 or not isinstance(lb[1], ast.If) or ast.unparse(lb[1].test) != "len(I) > 0" or lb[1].orelse:
                raise Unsupported("%s loop body shape" % cname)
            inner = lb[1].body
            store = inner[-1]
            if not (isinstance(store, ast.Assign) and ast.unparse(store.targets[0]) == "%s[I]" % var):
                raise Unsupported("%s store" % cname)
            e0 = ast.parse("self._edges[i]").body[0].value
            e1 = ast.parse("self._edges[i + 1]").body[0].value
            ctx = Ctx({"obs": "V", "fcst": "V", "obs_mean": "N"}, {}, {ast.dump(e0): ("lo", "N"), ast.dump(e1): ("hi", "N")})
            stmts = [lb[0]] + list(inner[:-1]) + [ast.Assign([ast.Name("values_", ast.Store())], store.value)]

            def fin(cx):
                if cx.types.get("I") != "MASK" or cx.types.get("values_") not in ("V", "N"):
                    raise Unsupported("%s: unexpected types %r" % (cname, cx.types))
                v = "values_" if cx.types["values_"] == "V" else "(map (fun _ => values_) (vselect I_ fcst))"
                return ("(I_, %s)" % v, "P")
            e, _ = block(stmts, ctx, None, fin)
            tail = [ast.unparse(s) for s in body[3:]]
            return ("(* one bin [lo, hi) of %s: membership mask and the values stored for the members *)\n"
                    "Definition %s_bin (lo hi obs_mean : T) (obs fcst : list T) : list bool * list T :=\n  %s.\n"
                    "(* tail: %s *)\n" % (cname, cname, e, " ; ".join(tail).replace("*)", "* )")))
        out += T.emit("%s_bin" % cname, "verif/metric.py:%s.compute_from_obs_fcst (loop body)" % cname, one)

    # pinball loss (QuantileScore): the part after the arrays are fetched
    def pinball():
        fn = find_func(find_class(mtree, "QuantileScore"), "compute_single")
        body = [s for s in fn.body if not is_docstring(s)]
        T.expect(body[0], "[obs, pred_q] = get_q(data, input_index, axis, axis_index, interval)", "QuantileScore fetch")
        e, t = block(body[1:], Ctx({"obs": "V", "pred_q": "V", "interval": "IV"}))
        return ("(* interval.lower carries the quantile level *)\n"
                "Definition QuantileScore_core (interval_ : interval Ops) (obs pred_q : list T) : T :=\n  %s.\n" % e)
    out += T.emit("QuantileScore_core", "verif/metric.py:QuantileScore.compute_single", pinball)

    def spread():
        fn = find_func(find_class(mtree, "Spread"), "compute_single")
        body = [s for s in fn.body if not is_docstring(s)]
        e, t = block(body, Ctx({"q0": "V", "q1": "V", "interval": "IV"}))
        return "Definition Spread_core (q0 q1 : list T) : T :=\n  %s.\n" % e
    out += T.emit("Spread_core", "verif/metric.py:Spread.compute_single", spread)

    def marginal():
        fn = find_func(find_class(mtree, "MarginalRatio"), "compute_single")
        body = [s for s in fn.body if not is_docstring(s)]
        tail = body[1:]
        T.expect(tail[0], "obs = interval.within(obs)", "MarginalRatio event")
        ctx = Ctx({"obs": "V", "p0": "V", "p1": "V", "interval": "IV"})
        # obs is rebound to the masked membership vector
        e, t = block(tail, ctx)
        return ("(* p0, p1: the CDF columns at the interval's ends (0 resp. 1 at an infinite end) *)\n"
                "Definition MarginalRatio_core (interval_ : interval Ops) (obs p0 p1 : list T) : T :=\n  %s.\n" % e)
    out += T.emit("MarginalRatio_core", "verif/metric.py:MarginalRatio.compute_single", marginal)

    # element-wise scores with masked overwrite: Spherical, Ign0
    for cname, var in (("Spherical", "sp"), ("Ign0", "ign")):
        def one(cname=cname, var=var):
            fn = find_func(find_class(mtree, cname), "compute_single")
            body = [s for s in fn.body if not is_docstring(s)]
            T.expect(body[0], "[obsP, p] = get_p(data, input_index, axis, axis_index, interval)", "%s fetch" % cname)
            T.expect(body[1], "I0 = np.where(obsP == 0)[0]", "%s I0" % cname)
            T.expect(body[2], "I1 = np.where(obsP == 1)[0]", "%s I1" % cname)
            T.expect(body[-1], "return np.mean(%s)" % var, "%s return" % cname)
            pi0 = ast.parse("p[I0]").body[0].value
            ctx = Ctx({"obsP": "N", "p": "N"}, {}, {ast.dump(pi0): ("p", "N")})
            text = ""
            for st in body[3:-1]:
                if not isinstance(st, ast.Assign):
                    raise Unsupported("%s: statement %s" % (cname, ast.unparse(st)))
                tgt = ast.unparse(st.targets[0])
                e, t = expr(st.value, ctx)
                if t != "N":
                    raise Unsupported("%s: element type %s" % (cname, t))
                if tgt == var:
                    text += "let %s := %s in\n  " % (var, e)
                    ctx.types[var] = "N"
                elif tgt == "%s[I0]" % var:
                    text += "let %s := (if n_eqb Ops obsP %s then %s else %s) in\n  " % (var, lit(0), e, var)
                else:
                    raise Unsupported("%s: target %s" % (cname, tgt))
            return ("(* per case: the score of probability p when the event did (obsP = 1) or did not (obsP = 0) occur *)\n"
                    "Definition %s_elem (obsP p : T) : T :=\n  %s%s.\n"
                    "Definition %s_core (obsP p : list T) : T := vmean Ops (vmap2 Ops %s_elem obsP p).\n"
                    % (cname, text, var, cname, cname))
        out += T.emit("%s_core" % cname, "verif/metric.py:%s.compute_single" % cname, one)

    # QuantileCoverage: which comparison is made under which inclusion flag, per branch
    def coverage():
        fn = find_func(find_class(mtree, "QuantileCoverage"), "compute_single")
        body = [st for st in fn.body if not is_docstring(st)]
        top = [st for st in body if isinstance(st, ast.If)]
        if len(top) != 1:
            raise Unsupported("QuantileCoverage: expected one top-level if chain")
        OPS = {ast.LtE: "n_leb Ops x y", ast.Lt: "n_ltb Ops x y", ast.GtE: "n_leb Ops y x", ast.Gt: "n_ltb Ops y x"}

        def cmp_of(e):
            if not (isinstance(e, ast.Compare) and len(e.ops) == 1 and type(e.ops[0]) in OPS):
                raise Unsupported("QuantileCoverage: comparison %s" % ast.unparse(e))
            def nm(x):
                src = ast.unparse(x)
                if not src.endswith("[I]") or src[:-3] not in ("obs", "q0", "q1"):
                    raise Unsupported("QuantileCoverage: operand %s" % src)
                return src[:-3]
            return "(vmap2b Ops (fun x y => %s) %s %s)" % (OPS[type(e.ops[0])], nm(e.left), nm(e.comparators[0]))

        def flagged(st):
            """`if interval.<flag>: X = cmp / return np.mean(cmp) else: ...` -> (target, gallina bool-vector expr)"""
            t = ast.unparse(st.test)
            if t not in ("interval.lower_eq", "interval.upper_eq") or len(st.body) != 1 or len(st.orelse) != 1:
                raise Unsupported("QuantileCoverage: inclusion test %s" % t)
            def one(b):
                if isinstance(b, ast.Return):
                    src = ast.unparse(b.value)
                    if not (src.startswith("np.mean(") and isinstance(b.value, ast.Call) and len(b.value.args) == 1):
                        raise Unsupported("QuantileCoverage: return %s" % src)
                    return "ret", cmp_of(b.value.args[0])
                if isinstance(b, ast.Assign) and isinstance(b.targets[0], ast.Name):
                    return b.targets[0].id, cmp_of(b.value)
                raise Unsupported("QuantileCoverage: statement %s" % ast.unparse(b))
            (ta, ea), (tb, eb) = one(st.body[0]), one(st.orelse[0])
            if ta != tb:
                raise Unsupported("QuantileCoverage: branches assign different names")
            return ta, "(if iv_%s interval_ then %s else %s)" % (t.split(".")[1], ea, eb)

        def branch(stmts):
            env = {}
            for st in stmts:
                if isinstance(st, ast.Assign) and ast.unparse(st.value).startswith("data.get_scores("):
                    continue
                if isinstance(st, ast.Assign) and ast.unparse(st.targets[0]) == "I":
                    continue            # the validity filter: the arrays handed to the core are already filtered
                if isinstance(st, ast.If):
                    tgt, e = flagged(st)
                    if tgt == "ret":
                        return "(bmean %s)" % e
                    env[tgt] = e
                    continue
                if isinstance(st, ast.Return):
                    src = ast.unparse(st.value)
                    if src == "np.mean(c0 & c1)" and "c0" in env and "c1" in env:
                        return "(bmean (map (fun p => andb (fst p) (snd p)) (combine %s %s)))" % (env["c0"], env["c1"])
                    raise Unsupported("QuantileCoverage: return %s" % src)
                raise Unsupported("QuantileCoverage: statement %s" % ast.unparse(st))
            raise Unsupported("QuantileCoverage: branch without return")
        n0 = top[0]
        if ast.unparse(n0.test) != "np.isinf(interval.lower)" or len(n0.orelse) != 1 or not isinstance(n0.orelse[0], ast.If) or \
                ast.unparse(n0.orelse[0].test) != "np.isinf(interval.upper)":
            raise Unsupported("QuantileCoverage: branch tests")
        b1, b2, b3 = branch(n0.body), branch(n0.orelse[0].body), branch(n0.orelse[0].orelse)
        return ("(* np.mean of a boolean vector *)\n"
                "Definition bmean (l : list bool) : T := n_div Ops (bsum Ops l) (n_ofnat Ops (length l)).\n"
                "(* obs, q0, q1: the cases where all requested arrays are valid (the np.where filter) *)\n"
                "Definition QuantileCoverage_core (interval_ : interval Ops) (obs q0 q1 : list T) : T :=\n"
                "  if n_isinf Ops (iv_lower interval_) then %s\n  else if n_isinf Ops (iv_upper interval_) then %s\n  else %s.\n" % (b1, b2, b3))
    out += T.emit("QuantileCoverage_core", "verif/metric.py:QuantileCoverage.compute_single", coverage)
    out += "End G.\n"
    return out


def generate(repo, files, report):
    files["Gen_prob.v"] = gen_prob(repo, report)
