"""targets_io -- NetCDF side (C10): util.clean's cell rule, the Netcdf reader's variable table, the
variables text2nc writes and their types, the format detection of verif.input.get_input."""
import ast
import os

from py2coq import Unsupported, Ctx, expr, parse_file, find_class, find_func, is_docstring, lit
import targets as T


def cstr(s):
    return '"%s"' % s.replace('"', '""')


def gen_io(repo, report):
    utree = parse_file(os.path.join(repo, "verif/util.py"))
    itree = parse_file(os.path.join(repo, "verif/input.py"))
    ttree = parse_file(os.path.join(repo, "scripts/text2nc.py"))
    out = T.HEADER % ("verif/util.py (clean), verif/input.py (Netcdf, get_input), scripts/text2nc.py", "")
    out = out.replace("From Coq Require Import ZArith List Bool.", "From Coq Require Import ZArith List Bool String.")
    out += "Section G.\nVariable Ops : NumOps.\nNotation T := (numT Ops).\n\n"

    def clean():
        fn = find_func(utree, "clean")
        body = [s for s in fn.body if not is_docstring(s)]
        want = ["if len(data.shape) == 1 and data.shape[0] == 0:\n    return np.zeros(0)",
                "data = data[:].astype(float)", "q = np.ma.filled(data, fill_value=-999)"]
        got = [ast.unparse(s) for s in body[:3]]
        if got != want:
            raise Unsupported("util.clean framing changed: %r" % got)
        if len(body) != 6 or ast.unparse(body[5]) != "return q":
            raise Unsupported("util.clean tail")
        # the two masked stores, element-wise on q
        texts = []
        ctx = Ctx({"q": "N"})
        cur = "q0"
        for st in body[3:5]:
            if not (isinstance(st, ast.Assign) and isinstance(st.targets[0], ast.Subscript) and ast.unparse(st.targets[0].value) == "q"):
                raise Unsupported("util.clean store: %s" % ast.unparse(st))
            c, tc = expr(st.targets[0].slice, ctx)
            v, tv = expr(st.value, ctx)
            if tc != "B" or tv != "N":
                raise Unsupported("util.clean store types")
            texts.append((c, v))
        return ("(* one cell of a NetCDF variable: `masked` = the cell is masked / equals the variable's fill value *)\n"
                "Definition clean_cell (masked : bool) (v : T) : T :=\n"
                "  let q := if masked then %s else v in\n"
                "  let q := if %s then %s else q in\n"
                "  let q := if %s then %s else q in\n  q.\n" % (lit(-999), texts[0][0], texts[0][1], texts[1][0], texts[1][1]))
    out += T.emit("clean_cell", "verif/util.py:clean", clean)

    def text_clean():
        fn = find_func(find_class(itree, "Text"), "_clean")
        body = [s for s in fn.body if not is_docstring(s)]
        if [a.arg for a in fn.args.args] != ["self", "value"] or len(body) != 1 or not isinstance(body[0], ast.Try):
            raise Unsupported("Text._clean is not a single try statement over (self, value): %r" % [ast.unparse(s) for s in body])
        tr = body[0]
        if tr.orelse or tr.finalbody or len(tr.handlers) != 1 or ast.unparse(tr.handlers[0].type) != "ValueError" or \
                [ast.unparse(s) for s in tr.handlers[0].body] != ["return np.nan"]:
            raise Unsupported("Text._clean handler: %r" % ast.unparse(tr))
        tb = tr.body
        if len(tb) != 3 or ast.unparse(tb[0]) != "fvalue = float(value)" or ast.unparse(tb[2]) != "return fvalue" or \
                not isinstance(tb[1], ast.If) or tb[1].orelse or [ast.unparse(s) for s in tb[1].body] != ["fvalue = np.nan"]:
            raise Unsupported("Text._clean body: %r" % [ast.unparse(s) for s in tb])
        c, tc = expr(tb[1].test, Ctx({"fvalue": "N"}))
        if tc != "B":
            raise Unsupported("Text._clean test is not boolean: %s" % ast.unparse(tb[1].test))
        return ("(* one token of a text file.  `parsed` = the result of Python's float(token): None when it raises ValueError *)\n"
                "Definition text_cell (parsed : option T) : T :=\n"
                "  match parsed with\n  | Some fvalue => if %s then (n_nan Ops) else fvalue\n  | None => (n_nan Ops)\n  end.\n" % c)
    out += T.emit("text_cell", "verif/input.py:Text._clean", text_clean)
    out += "End G.\n\nOpen Scope string_scope.\n"

    # which NetCDF variable feeds which field of the reader
    def reader_table():
        cls = find_class(itree, "Netcdf")
        rows = []
        for fn in cls.body:
            if not isinstance(fn, ast.FunctionDef):
                continue
            src = ast.unparse(fn)
            for n in ast.walk(fn):
                if isinstance(n, ast.Call) and ast.unparse(n.func) == "verif.util.clean" and len(n.args) == 1:
                    a = ast.unparse(n.args[0])
                    if a.startswith("self._file.variables["):
                        key = a[len("self._file.variables["):-1]
                        rows.append((fn.name, key.strip("'\"") if key[0] in "'\"" else "<" + key + ">"))
        return ("(* reader method, NetCDF variable it reads through util.clean *)\n"
                "Definition nc_reader_table : list (string * string) :=\n  [%s].\n"
                % ";\n   ".join("(%s, %s)" % (cstr(a), cstr(b)) for a, b in rows))
    out += T.emit("nc_reader_table", "verif/input.py:Netcdf", reader_table)

    def required():
        fn = find_func(find_class(itree, "Netcdf"), "is_valid")
        dims = vars_ = None
        for n in ast.walk(fn):
            if isinstance(n, ast.Assign) and ast.unparse(n.targets[0]) == "required_dims":
                dims = ast.literal_eval(n.value)
            if isinstance(n, ast.Assign) and ast.unparse(n.targets[0]) == "required_vars":
                vars_ = ast.literal_eval(n.value)
        if dims is None or vars_ is None:
            raise Unsupported("Netcdf.is_valid requirements not found")
        return ("Definition nc_required_dims : list string := [%s].\nDefinition nc_required_vars : list string := [%s].\n"
                % ("; ".join(cstr(d) for d in dims), "; ".join(cstr(v) for v in vars_)))
    out += T.emit("nc_required", "verif/input.py:Netcdf.is_valid", required)

    def detection():
        fn = find_func(itree, "get_input")
        want = ("is_nc = verif.util.is_valid_nc(filename)\n"
                "if is_nc:\n    if verif.input.Netcdf.is_valid(filename):\n        input = verif.input.Netcdf(filename)\n"
                "    elif verif.input.Comps.is_valid(filename):\n        input = verif.input.Comps(filename)\n    else:\n"
                "        verif.util.error(\"File '\" + filename + \"' does not have the correct Netcdf format\")\n"
                "elif verif.input.Text.is_valid(filename):\n    input = verif.input.Text(filename)\nelse:\n"
                "    verif.util.error(\"File '\" + filename + \"' is not a valid input file\")\nreturn input")
        got = "\n".join(ast.unparse(s) for s in fn.body if not is_docstring(s))
        if got != want:
            raise Unsupported("get_input changed:\n%s" % got)
        return ("(* the reader chosen from the CONTENT of the file: 0 Netcdf, 1 Comps, 2 Text, None = error exit *)\n"
                "Definition detect (is_netcdf_file has_verif_layout has_comps_layout is_regular_file : bool) : option nat :=\n"
                "  if is_netcdf_file then (if has_verif_layout then Some 0 else if has_comps_layout then Some 1 else None)\n"
                "  else if is_regular_file then Some 2 else None.\n")
    out += T.emit("detect", "verif/input.py:get_input", detection)

    def writer_table():
        fn = find_func(ttree, "main")
        rows = []
        for n in ast.walk(fn):
            if isinstance(n, ast.Call) and isinstance(n.func, ast.Attribute) and n.func.attr == "createVariable" and len(n.args) >= 2:
                name = n.args[0]
                nm = ast.literal_eval(name) if isinstance(name, ast.Constant) else "<" + ast.unparse(name) + ">"
                rows.append((nm, ast.literal_eval(n.args[1])))
        return ("(* variable written by text2nc, NetCDF type *)\nDefinition text2nc_table : list (string * string) :=\n  [%s].\n"
                % ";\n   ".join("(%s, %s)" % (cstr(a), cstr(b)) for a, b in rows))
    out += T.emit("text2nc_table", "scripts/text2nc.py:main", writer_table)
    return out


def generate(repo, files, report):
    files["Gen_io.v"] = gen_io(repo, report)
