#!/bin/bash
# usage: tools/try_mutant.sh <PID> <patch.diff> [tier]   -- apply a seeded change to /repo, run the check, undo it
set -u
pid=$1; patch=$2; tier=${3:-quick}
cd /repo || exit 2
if ! git diff --quiet; then echo "/repo is dirty"; exit 2; fi
git apply "$patch" || { echo "patch does not apply"; exit 2; }
cd /verif
./check "$pid" --tier "$tier" > /tmp/try_mutant_out.txt 2>/tmp/try_mutant_err.txt
rc=$?
git -C /repo checkout -- .
grep -E "^(VIOLATION|KNOWN-FINDING)" /tmp/try_mutant_out.txt | cut -c1-300
echo "rc=$rc"
