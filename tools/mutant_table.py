#!/usr/bin/env python3
"""development-time only: build the DESIGN.md table of seeded changes from run logs (tsv: name, rc, replay key) and fill meta.json"""
import json, os, re, sys
HERE = os.path.dirname(os.path.dirname(os.path.abspath(__file__)))
runs = sys.argv[1:]          # later files override earlier ones
res = {}
for fn in runs:
    for line in open(fn):
        parts = line.rstrip("\n").split("\t")
        if len(parts) >= 2 and parts[0] != "done":
            res[parts[0]] = (parts[1], parts[2] if len(parts) > 2 else "")
first = {}
if len(runs) > 1:
    for line in open(runs[0]):
        parts = line.rstrip("\n").split("\t")
        if len(parts) >= 2:
            first[parts[0]] = parts[1]
rows = []
for m in sorted(os.listdir(os.path.join(HERE, "seeded"))):
    d = os.path.join(HERE, "seeded", m)
    if not os.path.isdir(d) or m.startswith("_"):
        continue
    patch = open(os.path.join(d, "patch.diff")).read()
    files = sorted(set(re.findall(r"^\+\+\+ b/(\S+)", patch, re.M)))
    meta = json.load(open(os.path.join(d, "meta.json")))
    rc, key = res.get(m, ("?", ""))
    neutral = "neutralised" in json.dumps(meta)
    if rc == "rc=1":
        verdict = "caught: " + (key.replace(".json", "").replace(" no-failing-input-found", " (broken obligation, no concrete input)") or "violation")
        if first.get(m) == "rc=0":
            verdict += " — missed by the check as it was when the change arrived; the check was strengthened"
    elif neutral:
        verdict = "equivalent since fix c0f782e (demo passes on the repaired tree): nothing to catch"
    else:
        verdict = "NOT caught (" + rc + ")"
    meta["detected_by"] = verdict
    json.dump(meta, open(os.path.join(d, "meta.json"), "w"), indent=1)
    rows.append("| %s | %s | %s |" % (m, ", ".join(files), verdict))
print("| seeded change | file(s) | `./check <id> --tier quick` |\n|---|---|---|")
print("\n".join(rows))
