#!/bin/bash
# development-time only: apply every seeded change in turn, run the owning check (quick), undo, record the verdict
cd /verif
out=${1:-/tmp/mutants.tsv}
: > $out
for d in $(ls -d seeded/*_[34]/ 2>/dev/null) $(ls -d seeded/*_[12]/); do
  m=$(basename $d); pid=${m%%_*}
  if ! git -C /repo apply --check $PWD/$d/patch.diff 2>/dev/null; then echo -e "$m\tPATCH-DOES-NOT-APPLY" >> $out; continue; fi
  git -C /repo apply $PWD/$d/patch.diff
  res=$(./check $pid --tier quick 2>&1); rc=$?
  git -C /repo checkout -- .
  v=$(echo "$res" | grep '^VIOLATION' | head -1 | sed 's#.*replay=/verif/evidence/replay/##')
  echo -e "$m\trc=$rc\t$v" >> $out
done
echo done >> $out
