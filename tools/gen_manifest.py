#!/usr/bin/env python3
"""writes /verif/MANIFEST.json from the table below (one place to keep it consistent)"""
import json
import os

HERE = os.path.dirname(os.path.dirname(os.path.abspath(__file__)))
TB = ("Trusted: Coq 8.16.1 kernel and vm_compute (no native_compute); stdlib axioms reported by Print Assumptions "
      "(ClassicalDedekindReals.sig_forall_dec, sig_not_dec, functional_extensionality_dep, Classical_Prop.classic for "
      "theorems over R; none for Z/Q/list theorems); the Python-ast->Gallina translator; the correspondence harness; "
      "numpy/IEEE/matplotlib/netCDF4 behaviour as restated in coq/Base (modelled, not verified); float rounding outside every theorem.")

CLAIMED = {
    "C07": ("proof", "Theorems in Properties/C07.v about the definitions GENERATED on every run from verif/interval.py and "
            "verif/util.py (8 documented events = interval membership for all real values, NaN in no event, array = scalar branch, "
            "thresholding agrees with membership, within= partition of (first,last] for every increasing list by induction, "
            "complements, event probabilities); translation validation of the generated code on primitive floats against the "
            "real functions over the complete order-relation grid; falsifier against the documented inequalities. QuantileCoverage for all 8 bin types with observations ON the quantile forecasts: each end of the interval is closed exactly when the bin type says so.",
            "7 C07", "Coq proof over translated source + translation validation"),
}
CLAIMED["C06"] = ("proof", "Properties/C06.v: each of the 25 GENERATED compute_from_abcd formulas equals its textbook definition "
    "(written from the literature in Proofs/C06_spec.v, incl. EDS/SEDS in their published ln(a/n) forms via ln_mult) for every real table "
    "a,b,c,d >= 0 and is NaN exactly where the textbook is undefined; never infinite; perfect forecasts attain the declared "
    "perfect_score (read from the class) wherever defined; the generated counting function puts every valid pair in exactly one cell "
    "(sum = #valid pairs, induction over vectors of any length), swap and complement symmetries. Translation validation on floats "
    "against compute_from_abcd/_compute_abcd; falsifier with an independent oracle over all tables up to a total and vectors "
    "realising them for all 8 bin types.", "7 C06", "Coq proof over translated source + translation validation")
DATA_NOTE = ("Hand-written executable model of verif/data.py (coq/Model/Data.v, mirrors Data.__init__, _get_common_indices, _get_score, "
    "get_scores, _apply_axis function by function) with axiom-free theorems for all numbers of inputs, all dimension sizes and orders; "
    "tied on every run by evaluating the model in coqc (vm_compute) and verif.data.Data on the same seeded datasets / options / requests "
    "and diffing every returned array; a third, independent coordinate-keyed oracle decides whether a disagreement is a concrete failing "
    "input; metamorphic falsifier on the implementation. ")
CLAIMED["C01"] = ("proof", DATA_NOTE + "C01: a case contributes only if every input and the climatology have it, same cases for all inputs, "
    "non-interference of one input's values on the others (propagation theorems), observation sharing. Datasets include infinite values (read as missing by the model: unusable in EVERY input). Falsifier harness/probtie.py: scores using several quantities (observation + two threshold probabilities, stored in different orders per input or derived from ensembles with all-missing cases) are taken over the cases where all of them are present in every input; likewise the spread-skill ratio (obs, fcst and two quantile columns per input).", "7 C01", "Coq proof over hand model + correspondence check")
CLAIMED["C02"] = ("proof", DATA_NOTE + "C02: Model/Lookup.v: a stored threshold column is found by its VALUE in each input's own list (theorems C02_threshold_column_found_by_value, C02_absent_threshold_is_not_found; the index the model finds is compared with the column the implementation reads). PIT randomisation at a discrete mass only touches cells whose own observation equals x0 (inputs in shuffled orders). The coordinates the dataset reports are compared with set arithmetic. Text files with interleaved rows and one conflicting-metadata row. Further value_by_coordinate (the cell used is the one stored at the first occurrence of the coordinates in the "
    "input's own lists, through the index recomputation after -d/-tod), first-index and order-free intersection lemmas; permutation of "
    "entries / input order checked metamorphically on the implementation. Added theorems: the verified dimensions depend on membership only -- permuting (or duplicating) the entries inside any input, or permuting the inputs, leaves them unchanged (strictly ascending lists with equal members are equal).", "7 C02", "Coq proof over hand model + correspondence check")
CLAIMED["C03"] = ("proof", DATA_NOTE + "C03: membership iff for times / lead times / locations incl. all nine subsetting options with inclusive ranges, "
    "strictly ascending dimensions, -obsrange masking, empty selection never numeric. The specification says a range option constrains only when GIVEN (C03_latrange_alone_selects_by_latitude_only, _lonrange_) and that -d keeps exactly the times on the requested UTC days for EVERY unix time, also before 1970 (C03_date_option_selects_whole_utc_days); both had been copied from the code and were rewritten from the property text (two defects fixed). Pools include longitudes in 0..360 and times before 1970; 13 option sets are also run through the real command line and compared with the rows of -type csv. A -d / -tod selection that leaves no time is an error exit in model and code (C03_built_dataset_is_never_empty).", "7 C03", "Coq proof over hand model + correspondence check")
CLAIMED["C04"] = ("proof", DATA_NOTE + "C04: get_scores delivers numbers only or the single NaN, kept positions valid in every requested field, "
    "missing anywhere => missing everywhere, non-finite anomaly missing; missing-vs-deleted metamorphic relation, reader encodings and "
    "all-missing slices for a metric sample checked on the implementation, also when the same Data object is asked a second time (cached answer) with every kind of aggregator. The token rule of the text reader (Text._clean) is GENERATED from /repo (Gen_io.text_cell) with theorems over the extended reals: a token that is no number, NaN or the NUMBER -999 in any spelling is missing, every other number is kept, the placeholder is never delivered; tied to Text._clean on 47 tokens per run. Whole-array requests (no axis): a case missing in one requested field is missing in every returned array; a missing token in the date / unixtime column drops the row.", "7 C04", "Coq proof over hand model + correspondence check")
CLAIMED["C14"] = ("proof", DATA_NOTE + "C14: obs/fcst become value (-|/) climatology cell by cell, other fields untouched, missing climatology or "
    "non-finite quotient drops the case for every input, climatology looked up by coordinates and never counted as an input; "
    "-c X versus X as extra input compared on the implementation; six -c / -C combinations (also through --config; the LAST climatology option decides file and operation) through the real command line against hand-computed anomalies; name and legend lists for climatologies sharing a file name with a verified input; -obsrange together with a climatology is kept in 40% of the datasets (the range is about the raw observation); two datasets built from the same list of inputs see the same verified files.", "7 C14", "Coq proof over hand model + correspondence check")
CLAIMED["C11"] = ("proof", DATA_NOTE + "C11: every case in exactly one slice for any bucket function (all 17 axes), slice counts and any additive "
    "statistic add up to the pooled one, calendar facts for EVERY unix time (day, week = Monday, time of day, lead-time day), civil "
    "calendar / month / year buckets and date<->unixtime<->daynum inverses decided for every day 1900-2100 (vm_compute over a finite "
    "domain lifted by forallb_forall, bound in the statement); Model/Cal.v tied to datetime/calendar/matplotlib by comparison "
    "(every day 1900-2100 in the thorough tier). The dataset tie runs with -d / -tod / -t selections (the slices are those of the selected times) and with equal clock times (06:20) on dates decades apart.", "7 C11", "Coq proof over hand model + correspondence check")
CLAIMED["C18"] = ("proof", "Stateful executable Coq model of Data.get_scores (Model/DataState.v: both caches, a heap of array objects with identity, "
    "every in-place write of the code). THEOREMS, for histories of ANY length, any dataset / options / value type, by invariant induction "
    "over the request list (Proofs/C18_frame.v, C18_refine.v, ~1200 lines, axiom-free): (1) REFINEMENT -- after any history the repaired "
    "get_scores answers a request with exactly the arrays the pure model of a freshly built dataset computes (the model C01-C04/C11/C14 are "
    "about) and fails exactly when it fails; (2) arrays handed out are never altered by later calls; (3) a repeated request returns the same "
    "objects; (4) the pinned code's semantics (cached array handed out and masked in place) REFUTES history independence with a 2-request "
    "witness (reproduced on the implementation, repaired by fix c0f782e). TIE: the model is evaluated by vm_compute and compared with ONE "
    "real verif.data.Data object over the same histories (exhaustive to length 2 / 3 over a 12-request menu per dataset plus random "
    "histories to length 10; arrays at return time AND the same objects at the end of the history); falsifier: every response vs a fresh "
    "Data, earlier arrays / inputs unchanged (obs, fcst, pit, ensemble, stored threshold and quantile arrays, other fields), repeatability; fields DERIVED from the ensemble (quantile levels, threshold probabilities) mixed with member requests are checked on the implementation only (not in the model), also under a climatology; the first slices of year / month / week / day axes whose values coincide at calendar boundaries are asked in every order; inputs whose dimensions already are the dataset's (every cut is the identity) are generated.",
    "7 C18", "Coq refinement proof of a hand-written state-machine model (invariant induction over histories) + exhaustive-history correspondence check")
TRANS_NOTE = ("Python-ast -> Gallina translator regenerates the definitions from /repo on every run (fail-closed); theorems over the "
    "extended reals XR (NaN | -inf | +inf | finite real, IEEE special-value rules, exact finite arithmetic); the same generated text is run on "
    "Coq primitive floats and diffed against the real classes (translation validation); falsifier with independent textbook oracles. ")
CLAIMED["C05"] = ("proof", TRANS_NOTE + "C05: pair filter (no valid pair => NaN, only valid pairs scored), the chosen aggregator is applied to "
    "the documented quantity for ANY aggregator (mae, bias, diff, ratio, rmse), closed forms / undefined cases / never-better-than-perfect / "
    "perfect-forecast theorems for mae, bias, rmse, stderror, nsec, diff on vectors of every length; 21 metric classes x 16 aggregators "
    "validated; alphaindex perfect score REFUTED (known finding), leps not modelled (falsifier only); rank correlations are named "
    "specifications compared with scipy. Added: Cauchy-Schwarz for lists of reals, hence the generated Corr is within [-1, 1] whenever it is a number and equals 1 for identical vectors. The generator includes constant-offset forecasts (error without spread), all-negative pairs and constant observations that are not exactly representable (known finding zero-variance-rounding: the exact `== 0` guards miss them in floating point; the XR theorems hold). The driver assigns -agg to every metric: one that does not support it must ignore it; an obs/fcst statistic with any aggregator leaves the pairs the dataset hands out unchanged.", "7 C05", "Coq proof over translated source + translation validation")
CLAIMED["C08"] = ("proof", TRANS_NOTE + "C08: event probability from the CDF for all 8 bin types, Brier score / uncertainty / skill score closed forms, "
    "complement symmetry, every probability in [0,1] lies in exactly one of the 10 bins (exact double edges, top edge 1.001), ensemble-derived "
    "probability = fraction of present members (in [0,1], missing members ignored, all missing => NaN), pinball terms non-negative. The "
    "binned reliability/resolution terms are generated per bin + hand glue (Model/Brier.v) and validated on floats; the Murphy "
    "decomposition is PROVED per bin (C08_murphy_identity_per_bin: for forecasts equal to the bin value, sum (p-o)^2 = n(p-mean)^2 - n(mean-obar)^2 + sum (obar-o)^2, any number of cases) and the whole-score identity BS = REL - RES + UNC is checked on every run on inputs whose forecasts are the bin centres. Added: QuantileCoverage translated (three branches); theorems pin the lower/upper inclusion flag to its own end of the interval; falsifier for metrics that write into the arrays cached in the dataset. Theorem on the regenerated get_p: a missing observation has a missing event indicator (never \"occurred\"), a present one 0 or 1; every probabilistic metric is NaN on a day without observations (real Data). Quantile-based scores (Spread, SpreadSkillRatio, QuantileScore, QuantileCoverage) through the real Data against the definitions on the file's quantile columns over the jointly valid cases, with stored levels that differ from the requested ones by rounding only (single-precision coordinate, computed level) and an ensemble present. PIT at a discrete probability mass (x0 / x1): drawn from [0, pit] / [pit, 1] exactly where the observation equals the bound, the stored value elsewhere. Murphy decomposition proved over ANY grouping of the cases into groups sharing a forecast value (C08_murphy_decomposition_over_any_grouping).", "7 C08", "Coq proof over translated source + translation validation")
CLAIMED["C15"] = ("proof", TRANS_NOTE + "C15: every generated aggregator is its statistic (mean, sum, meanabs != absmean, count, min, max, range, change, "
    "abschange, variance, std, iqr, quantile with level in [0,1]); -T: hand model Model/Window.v of preaggregate_leadtime/_time with the "
    "theorem that for every strictly increasing grid the aggregated positions are exactly the trailing window (l-h, l] (irregular spacing, "
    "any window length), same function for obs/fcst/members; REFUTED for unsorted grids (known finding); model tied over Q for 12 aggregators; "
    "aggregation along every axis of arrays up to 4-D and ensemble pre-aggregation checked on the implementation. Falsifier enumerates every aggregator along every axis of 1-4-D arrays; every aggregator is also compared with an independent statistic on vectors incl. equal non-representable values and small spreads on large offsets; the ensemble pre-aggregation runs on TWO inputs whose files share a base name; a NaN quantile level is rejected (theorem on the regenerated guard); two inputs on different lead-time grids are windowed each on its own grid, whichever is asked first; the window tie compares to 1e-9 (float32 storage of the pinned code fixed).", "7 C15",
    "Coq proof over translated source + hand model with correspondence check")
CLAIMED["C13"] = ("proof", "Option tables GENERATED from driver.run's AST on every run (boolean chain, valued chain with parser kind, Data(...) "
    "keywords, pl.<attr> block, validations); theorems: every documented data-selection flag reaches its documented constructor "
    "argument with the documented parser (decided over the finite table), flags unique, -c/-C set subtract/divide, validations as "
    "documented; for ANY option table the hand model of the argument loop is order independent (permutation of option groups with "
    "distinct variables, files keeping their order), --config tokens are appended, unknown flag / missing value / missing config name / "
    "range arity are rejected; vector syntax: a:s:b has k+1 elements ending exactly at b when hit (over Q, unbounded k). Ties: "
    "Model/ParseNumbers.v vs util.parse_numbers on a grid of strings incl. combinations and date ranges; Model/Cli.v composed with "
    "Model/Data.v vs `verif ... --list-times --list-locations` on generated text files, random option subsets/orders/--config. Added: two --config files one after the other (theorem + tie), --list-dates for times that are not on the hour (model date_clock, theorem C13_list_dates_clock for every unix time, tied to the printed lines). -agg: every documented aggregator name and the numbers 0..1 (incl. 0 and 1) give the documented statistic per slice for standard metrics AND the aggregating special output obsfcst, wherever the option stands; unknown names are rejected for special outputs too. -obs / -fcst: any column (case sensitive, negative thresholds) takes the role, independently of the other; -x decides the rows whatever -Tx says (also through --config); malformed vectors made of legal characters (1..2, 1-2, -), fractional date steps (checked under an alarm: the pinned code never returned), empty ranges, -agg nan, -T 1.5, -dpi abc, an empty argument must all end in the error message.",
    "7 C13", "Coq proof over translated option tables + hand model with correspondence check")
CLAIMED["C12"] = ("proof", "Hand model Model/Table.v of Standard._get_x_y and the text/csv writers with axiom-free theorems for any number of inputs and "
    "slices: one row per slice in axis order, one column per input in command-line order, each cell is that input's score on that "
    "slice, -acc cells are prefix sums with missing scores counted as 0. Tie: the model composed with Model/Data.v (mae/bias over Q) "
    "against the parsed csv/text output of the real command line on generated files for all 13 axes, -acc, -leg, -f; descriptors, "
    "threshold rows and the 6/4 significant digits checked numerically (PARTIAL: %g formatting itself is library behaviour). Added: cells for several thresholds on a data axis are the average over the intervals; row labels of aggregated time axes (year/month/week/day); header names against the columns they head for -leg with a climatology and for obsfcst with several quantiles and files (matched by name); leading fields of stations with 7-digit ids and 8-digit coordinates.",
    "7 C12", "Coq proof over hand model + correspondence check")
CLAIMED["C09"] = ("proof", "Hand model Model/TextParse.v of verif.input.Text on lexed lines with axiom-free theorems for files of any size: the "
    "dimensions are exactly the coordinates occurring in the rows (ascending, no duplicates); every cube cell is the value of the row "
    "with those coordinates (the last one for repeated coordinates), absent combinations are missing; row order is irrelevant for unique "
    "coordinates; column order is irrelevant for distinct column names (every lookup the reader makes); first row fixes location "
    "metadata; column classification (p<t> vs pit, e<m> vs elev, q<q>, offset = leadtime) and missing tokens by computation. Tie: the "
    "model on the lexed tokens vs verif.input.Text on generated files (random layouts, comment lines incl. a bare #, among metadata lines and rows), plus the abstract dataset as falsifier.",
    "7 C09", "Coq proof over hand model + correspondence check")
CLAIMED["C10"] = ("proof", "GENERATED from /repo on every run: the cell rule of util.clean, the table of NetCDF variables the reader consults, the required "
    "dims/vars, the content-based detection of get_input, the variables and types text2nc writes. Theorems (XR): masked/fill, NaN, -999 and "
    ">1e30 cells are missing and every other finite value is delivered unchanged (exact characterisation of the cell rule); a value "
    "written as float32 (abstract rounding r) and read back is r(value), missing stays missing; tables as documented; times are f8 and "
    "everything else f4; detection depends on content only. PARTIAL: netCDF4, the file system and float32 rounding are outside the model; "
    "whole-dataset and score agreement between a text file and a NetCDF file of the same abstract dataset (optional variables, every "
    "missing encoding, custom fill values, up to four thresholds incl. negative ones, files without obs or without fcst), the LIST of fields each reader reports, variable name/units (without the display wrapper), text2nc round trips on every field / ensemble / field list / variable metadata and misleading file names are checked on the implementation each run (four text2nc defects and one reader defect fixed).",
    "7 C10", "Coq proof over translated source + format-agreement correspondence check (partial)")
CLAIMED["C20"] = ("proof", "Hand-written executable model (coq/Model/Scripts.v, exact rationals) of the per-series / per-case transformations of "
    "scripts/accumulate.py (trailing window, cumulative sum, -i), ens2prob.py (cdf, zero-order-hold quantiles, PIT) and expandverif.py "
    "(valid-time matching). Theorems, for all series / ensembles / time lists: position i of the windowed output is missing for i < w-1 and "
    "otherwise the sum of exactly the w values i-w+1..i, present iff all of them are (or always with -i); the cdf lies in [0,1], never "
    "decreases with the threshold and is missing iff no member is present; every quantile is a member (hence within the ensemble range), "
    "never decreases with the level, level 0 is the minimum; PIT is the fraction of members below the observation, in [0,1], missing where "
    "the observation is missing; an observation is placed exactly where the valid time matches (first matching source case) and nowhere "
    "else. PARTIAL: NetCDF/scipy I/O and float32 storage are outside the model. The tie runs the real scripts on generated text and NetCDF "
    "files every run, reads every written variable back with netCDF4 and compares with the model (vm_compute) and an independent oracle; "
    "times, lead times, location metadata and untouched fields must be preserved. Generators include lead times that are not whole hours (all three scripts), runs before 1970 and after 2038, thresholds/levels in arbitrary order, and accumulate on series of realistic length (240 lead times x 30 times: scipy switches convolution method there) where exactly the windows containing a missing value must be missing.",
    "7 C20", "Coq proof over a hand-written model + script-level correspondence check (partial)")
CLAIMED["C19"] = ("proof", "PARTIAL. GENERATED from /repo on every run (Gen/Gen_caps.v): the capability attributes of every metric and output class "
    "(resolved along inheritance), the -m name -> Output class chain, the three statements of driver.run that drop an unsupported -x and "
    "the chains choosing default thresholds / quantiles. Theorems: for ANY capability flags the gate only ever drops the axis, an axis that "
    "survives is supported by the output, -x threshold / obs / fcst reach only code whose output AND metric declare support, a supported "
    "axis is never dropped; for the current tables (vm_compute, finite): every declared require_threshold_type is one the driver "
    "recognises, the 'Internal error' exit is unreachable, every metric needing thresholds/quantiles gets them, every diagram name has a "
    "class. Whether numpy/matplotlib raise inside a permitted combination is runtime behaviour no Coq model can exhibit: the check "
    "ENUMERATES verif.driver.run over names x 20 -x values x 8 output types x 7 dataset shapes (+ -r/-q/-b/-agg variants) -- a stratified "
    "sample in quick, the full product in thorough or whenever a proof/tie is broken -- and reports every unhandled exception with its argv; "
    "the model's keep/drop decision is compared with the driver's warnings for every (name, axis) pair. Also GENERATED: which of the six core methods every Output class defines and which one each -type finally calls; theorems: every documented type is routed, class Standard defines all six, every diagram can be plotted; the predicted refusal (explanatory exit) of unsupported types is compared with the driver for every (name, type) pair. Dataset shapes now include inputs with different columns; conditional axes are run with every aggregator variant. Every name is also run with all 8 bin types x (one, three thresholds), with every aggregator name the library knows (incl. the numbers 0, 0.5, 1), with ONE and with THREE input files for every output type, and every (name, axis) on datasets whose missing slice is in the middle / at the start and with a single threshold; further shapes: a variable with a discrete mass and a file without observations, longitudes in the 0..360 convention spanning more than 180 degrees (all map types), a station with constant observations; variants with a single bin edge, descending edges and selections (-d / -tod) that leave no time.",
    "7 C19", "Coq proof over translated gating logic and capability tables + exhaustive enumeration of the real driver (partial)")
CLAIMED["C17"] = ("proof", "PARTIAL. The chain command line -> driver variable -> Output attribute -> attribute read by verif/output.py is "
    "proved over the option tables GENERATED from /repo on every run (Gen/Gen_cli.v: flag chains, the pl.<attr> = <var> block, every "
    "self.<attr> the outputs read) and the model of the argument loop (Model/Cli.v): every documented appearance option reaches an "
    "attribute the outputs read (vm_compute over the tables), in a variable and an attribute of its own; for ANY option table, an option "
    "group that assigns other variables never changes the value another option delivers, wherever it stands (independence), the last "
    "occurrence wins, an absent option leaves the default; line styles cycle (element i mod n). The matplotlib calls made from the "
    "attribute are runtime behaviour: every run executes verif.driver.run on random option subsets (standard plots with 2-3 inputs, a "
    "diagram with one sub-axes per input, maps), intercepts savefig, and compares, for each option present, the value the MODEL says "
    "reaches the figure with what the figure shows (texts, limits, ticks, rotations, scales, legend, line styles, font sizes, grid, "
    "margins incl. 0 and 1, size, dpi, file signature by extension; -gc in every documented spelling incl. [r,g,b]; annotation fields of -af against the location metadata; colour bar label size on maps).",
    "7 C17", "Coq proof over translated option tables + argument-loop model; figure read-back correspondence check (partial)")
CLAIMED["C16"] = ("proof", "PARTIAL. Hand-written executable models (coq/Model/Diagrams.v, any NumOps instance) of the defining statistics of "
    "-hist, -sort, obsfcst (lines and shaded bands), qq, scatter points, change, cond, reliability, discrimination, roc, pithist, "
    "spreadskill (spread = highest minus lowest requested quantile, whatever the order of -q), freq, marginal, error, taylor, performance, economicvalue, droc/droc0, murphy, invreliability, igncontrib, autocorr/autocov, bsdecomp and timeseries (26 kinds), built on the GENERATED interval and contingency code. Theorems (XR, all strictly increasing edges, all "
    "values): the np.histogram rule (last bin closed; pithist, reliability, discrimination) and the change rule (first bin closed) put "
    "every value of the closed edge range in exactly one bin; plain half-open bins partition [first,last) and lose the top edge, "
    "(e_i,e_i+1] bins partition (first,last] and lose the bottom edge (the rules the code had before three fix: commits); the obsfcst "
    "bands pair the i-th lowest with the i-th highest quantile of the same input; the fill polygon covers every valid point; the -hist shares add up to 100; at every cost-loss ratio of the economic value diagram each case is in exactly one of the two groups (a probability equal to the ratio acts). Tie: every "
    "run executes verif.driver.run on generated 2-3 input files with independent missing cells, reads Line2D data, bar heights and "
    "polygons back from the figure handed to savefig and compares them with the model (vm_compute, float instance) on the arrays the real "
    "Data object returns; one series per input in command-line order is checked; standard line plots are compared with the -type csv "
    "table of the same command (C12), with -acc against the running sum. at every probability threshold of the Murphy diagram each case is in exactly one of the three classes (C16_murphy_classes_partition_the_cases). The rank view is checked by its invariant (the stacked shares at every rank position add up to 1 over the slices where every input has a score). NOT modelled: fss, "
    "against, meteo, maps, impact views, scatter quantile lines.",
    "7 C16", "Coq proof over hand-written diagram models + figure read-back correspondence check (partial)")
PENDING = {}

def main():
    props = [json.loads(l) for l in open(os.path.join(HERE, "properties.jsonl"))]
    checks, na = [], []
    for p in props:
        pid = p["id"]
        if pid in CLAIMED:
            cat, text, ref, tech = CLAIMED[pid]
            checks.append({
                "property_id": pid,
                "quick_cmd": "./check %s --tier quick" % pid,
                "thorough_cmd": "./check %s --tier thorough" % pid,
                "evidence_file": "/verif/evidence/%s.json" % pid,
                "replay_cmd_template": "./check %s --replay {path}" % pid,
                "engine": "coq-proof",
                "level_claimed": {"category": cat, "text": text, "design_ref": "DESIGN.md section " + ref},
                "level_note": TB,
                "technique": tech,
            })
        else:
            na.append({"property_id": pid, "reason": PENDING.get(pid, "not claimed yet: the Coq model and correspondence check for this property are not built yet (work in progress; see DESIGN.md section 12)")})
    m = {
        "version": 1,
        "setup_cmd": "./check --setup",
        "hooks": {"guard": "VERIF_VERIF", "enable": "no hooks are needed: checks import /repo's working tree directly (PYTHONPATH=/repo)",
                  "baseline_off_cmd": "cd /repo && /venv/bin/python -m pytest -ra -q -p no:cacheprovider --timeout=900 --continue-on-collection-errors",
                  "source_commits": [], "add_only": True},
        "engines": [{"name": "coq-proof", "path": "/verif/check", "serves_properties": sorted(CLAIMED),
                     "kind_free_text": "Coq 8.16 theorems over a model regenerated from /repo (translator) or hand-written and tied by a correspondence check (vm_compute vs the Python implementation); falsifier searches a concrete failing input when a proof or the tie breaks"}],
        "checks": checks,
        "not_applicable": na,
        "notes": "See DESIGN.md. KNOWN_FINDINGS.txt lists recorded findings and fix: commits made in /repo.",
    }
    json.dump(m, open(os.path.join(HERE, "MANIFEST.json"), "w"), indent=1)
    print("claimed:", sorted(CLAIMED), "not claimed:", [x["property_id"] for x in na])

if __name__ == "__main__":
    main()
