#!/bin/bash
# run every claimed check once (tier $1, default quick) on the current tree; print one line per check
tier=${1:-quick}
cd /verif
for id in $(python3 -c "import json; print(' '.join(c['property_id'] for c in json.load(open('MANIFEST.json'))['checks']))"); do
  t0=$(date +%s)
  out=$(./check $id --tier $tier 2>&1); rc=$?
  t1=$(date +%s)
  echo "$id rc=$rc $((t1-t0))s $(echo "$out" | grep -c '^KNOWN-FINDING') known"
  echo "$out" | grep '^VIOLATION'
done
