#!/bin/bash
# usage: tools/confirm_mutant.sh <PID> <n>   -- confirm seeded change /tmp/mut_<PID>/mut<n>.diff in a scratch worktree:
# applies to /repo HEAD, full test suite passes with it, demo fails with it and passes without it.
# On success copies it to /verif/seeded/<PID>_<n>/ (patch.diff, demo.py, meta.json).
set -u
pid=$1; n=$2
src=/tmp/mut_$pid; wt=/tmp/wtc_${pid}_$n
res() { echo "$pid/$n: $1"; git -C /repo worktree remove --force $wt 2>/dev/null; exit 0; }
[ -f $src/mut$n.diff ] || { echo "$pid/$n: no patch"; exit 0; }
git -C /repo worktree add -q --detach $wt HEAD || { echo "$pid/$n: cannot create worktree"; exit 0; }
cd $wt
export PYTHONPATH=$wt MPLBACKEND=Agg PYTHONHASHSEED=0
timeout 300 /venv/bin/python $src/demo$n.py > /tmp/confirm_${pid}_${n}_clean.txt 2>&1; rc_clean=$?
git apply $src/mut$n.diff || res "PATCH-DOES-NOT-APPLY"
timeout 300 /venv/bin/python $src/demo$n.py > /tmp/confirm_${pid}_${n}_mut.txt 2>&1; rc_mut=$?
timeout 1200 /venv/bin/python -m pytest -q -p no:cacheprovider -x verif/tests > /tmp/confirm_${pid}_${n}_tests.txt 2>&1; rc_tests=$?
tests=$(tail -1 /tmp/confirm_${pid}_${n}_tests.txt)
if [ $rc_clean -eq 0 ] && [ $rc_mut -ne 0 ] && [ $rc_tests -eq 0 ]; then
  d=/verif/seeded/${pid}_$n; mkdir -p $d
  cp $src/mut$n.diff $d/patch.diff; cp $src/demo$n.py $d/demo.py; cp $src/notes.md $d/notes.md 2>/dev/null; [ $n -ge 3 ] && cp $src/notes_r2.md $d/notes.md 2>/dev/null; [ $n -ge 5 ] && cp $src/notes_r4.md $d/notes.md 2>/dev/null; [ $n -ge 5 ] && [ -f $src/notes_r5.md ] && cp $src/notes_r5.md $d/notes.md; [ $n -ge 7 ] && [ -f $src/notes_r6.md ] && cp $src/notes_r6.md $d/notes.md; [ $n -ge 7 ] && [ -f $src/notes_r7.md ] && cp $src/notes_r7.md $d/notes.md; [ $n -ge 9 ] && [ -f $src/notes_r8.md ] && cp $src/notes_r8.md $d/notes.md; [ $n -ge 9 ] && [ -f $src/notes_r9.md ] && cp $src/notes_r9.md $d/notes.md
  python3 - "$pid" "$n" "$d" "$tests" <<'PY'
import json,sys
pid,n,d,tests=sys.argv[1:5]
json.dump({"property":pid,"source":"independent sub-agent given only the property text and a scratch worktree",
  "needs_to_manifest":"see notes.md (section for change %s)"%n,
  "confirmed":{"applies_to":"/repo HEAD at confirmation time","demo_on_clean_tree":"exit 0","demo_with_change":"exit != 0","test_suite_with_change":tests.strip()},
  "commands":["git apply patch.diff","PYTHONPATH=<tree> MPLBACKEND=Agg /venv/bin/python demo.py","/venv/bin/python -m pytest -q -p no:cacheprovider -x verif/tests"],
  "detected_by":"(filled in after running ./check against it; see DESIGN.md mutant table)"},open(d+"/meta.json","w"),indent=1)
PY
  res "CONFIRMED ($tests)"
else
  res "REJECTED clean=$rc_clean mut=$rc_mut tests=$rc_tests ($tests)"
fi
