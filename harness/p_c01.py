"""C01 -- fair comparison.  Tie B (Model/Data.v vs verif.data.Data) + metamorphic falsifier on the
implementation: equal case counts across inputs, shared observations, non-interference."""
import copy
import math
import random

import common
import datagen
import datatie

EXTRA_TARGETS = ["Model/DataQ.vo", "Model/Lookup.vo"]
GEN_PREFIXES = []
ASSUMPTIONS = [
    "inputs that both carry observations agree on them is NOT assumed by the theorems; the falsifier's count check "
    "skips datasets with -obsrange because each input's own observations are range-masked",
    "in-memory inputs; coordinates multiples of 0.001",
]


def perturb(spec, rng, field="fcst"):
    s = copy.deepcopy(spec)
    if field in s["fields"]:
        for p in s["fields"][field]:
            for r in p:
                for i in range(len(r)):
                    if r[i] is not None and not isinstance(r[i], str):
                        r[i] = r[i] + rng.choice([0.25, -1.5, 7.0, 100.0])
    return s


def explore(out, tier, seed, facts, replay=None):
    with common.quiet():
        return _explore(out, tier, seed, facts, replay)


def _explore(out, tier, seed, facts, replay):
    datagen.patch_error()
    n = 100 if tier == "quick" else 1200
    datagen.INF_RATE = 0.04          # inputs with infinite values (text token inf, NetCDF -inf): unusable in EVERY input's score
    try:
        stats, cases = datatie.run_tie(out, seed, n, 8, "c01", options=True)
    finally:
        datagen.INF_RATE = 0.0
    rng = random.Random(seed + 101)
    nf = 0
    distinct = set()
    samples = []
    for c in cases:
        ds = c["ds"]
        if c["impl"][0] in ("error", "exception") or len(ds["inputs"]) < 2:
            continue
        ninp = len(ds["inputs"])
        sizes = c.get("sizes") or [1] * 13
        distinct.add((ninp, "clim" in ds["cfg"], tuple(sorted(ds["cfg"].keys()))))
        # (1) identical number of cases for every input on every slice
        if "obs_range" not in ds["cfg"]:
            for ax in (3, 0, 1, 2, rng.randrange(4, 13)):
                for ai in range(min(int(sizes[ax]), 3)):
                    for fs in (["obs", "fcst"], ["fcst"]):
                        rs = [datagen.impl_request(ds, (fs, k, ax, ai)) for k in range(ninp)]
                        nf += 1
                        if any(isinstance(r, tuple) for r in rs):
                            continue
                        counts = [0 if (len(r[0]) == 1 and math.isnan(r[0][0])) else len(r[0]) for r in rs]
                        if len(set(counts)) != 1:
                            out.violation("case-counts-differ", "inputs scored on different numbers of cases %r (fields %r axis %s slice %d)"
                                          % (counts, fs, datagen.AXES[ax], ai), {"dataset": ds, "request": [fs, ax, ai]})
        # (1b) what ONE run delivers: all inputs are asked in command-line order on the same dataset object (as every output
        # does); each answer must be the one a dataset built for that request alone gives (-obsrange included)
        dshared = datagen.impl_data(ds)
        if not isinstance(dshared, tuple):
            for ax in (3, 1):
                if int(sizes[ax]) == 0:
                    continue
                for k in range(ninp):
                    a = datagen.impl_request(dshared, (["obs", "fcst"], k, ax, 0))
                    b = datagen.impl_request(ds, (["obs", "fcst"], k, ax, 0))
                    nf += 1
                    if isinstance(a, tuple) or isinstance(b, tuple):
                        if a != b:
                            out.violation("inputs-in-one-run", "input %d asked after inputs 0..%d on one dataset object ends in %r, alone in %r" % (k, k - 1, a, b),
                                          {"dataset": ds, "request": [["obs", "fcst"], k, ax, 0]})
                        break
                    if not datatie.compare_cols(a, b):
                        out.violation("inputs-in-one-run", "input %d asked after inputs 0..%d on one dataset object is scored on %d cases %s; "
                                      "a dataset asked for input %d alone gives %d cases %s (axis %s)"
                                      % (k, k - 1, len(a[0]), str(a[0])[:80], k, len(b[0]), str(b[0])[:80], datagen.AXES[ax]),
                                      {"dataset": ds, "request": [["obs", "fcst"], k, ax, 0]})
                        break
        # (1c) a request for the whole arrays (axis "all", as the map and time-series outputs make) for one input must not change
        # what later requests give: the observations asked alone afterwards are those of a fresh dataset, for every input
        dall = datagen.impl_data(ds)
        if not isinstance(dall, tuple) and ninp >= 1:
            import verif.axis
            try:
                dall.get_scores([datagen.field_obj("obs"), datagen.field_obj("fcst")], 0, verif.axis.All(), 0)
                after = [datagen.impl_request(dall, (["obs"], k, 3, 0)) for k in range(ninp)]
                fresh = [datagen.impl_request(ds, (["obs"], k, 3, 0)) for k in range(ninp)]
                nf += 2 * ninp
                for k in range(ninp):
                    same = (after[k] == fresh[k]) if (isinstance(after[k], tuple) or isinstance(fresh[k], tuple)) else datatie.compare_cols(after[k], fresh[k])
                    if not same:
                        out.violation("whole-array-request-changes-cases", "after asking obs+fcst of input 0 along axis 'all' on the same dataset object, the observations of input %d are %s; "
                                      "a fresh dataset gives %s" % (k, str(after[k])[:90], str(fresh[k])[:90]), {"dataset": ds, "input": k})
                        break
            except (datagen.ImplExit, SystemExit):
                pass
        # (2) an input lacking observations is scored against those of the first input that has them
        lacking = [k for k in range(ninp) if "obs" not in ds["inputs"][k]["fields"]]
        if lacking and "obs_range" not in ds["cfg"] and "clim" not in ds["cfg"]:
            k0 = 0
            a = datagen.impl_request(ds, (["obs"], lacking[0], 3, 0))
            b = datagen.impl_request(ds, (["obs"], k0, 3, 0))
            nf += 1
            if not datatie.compare_cols(a, b):
                out.violation("shared-observations", "input %d (no obs) is not scored against input 0's observations" % lacking[0], ds)
        # (3) non-interference: perturb one input's non-missing forecasts
        g = rng.randrange(ninp)
        ds2 = {"inputs": [perturb(s, rng) if i == g else s for i, s in enumerate(ds["inputs"])], "cfg": ds["cfg"]}
        for k in range(ninp):
            if k == g:
                continue
            for fs in (["obs", "fcst"], ["fcst"], ["fcst", "pit"]):
                ax = rng.choice([3, 0, 1, 2])
                ai = rng.randrange(max(1, int(sizes[ax])))
                if int(sizes[ax]) == 0:
                    continue
                a = datagen.impl_request(ds, (fs, k, ax, ai))
                b = datagen.impl_request(ds2, (fs, k, ax, ai))
                nf += 1
                if not datatie.compare_cols(a, b):
                    out.violation("interference", "changing input %d's forecast values changed input %d's %r (axis %s slice %d)"
                                  % (g, k, fs, datagen.AXES[ax], ai), {"dataset": ds, "perturbed_input": g, "request": [fs, k, ax, ai]})
        if len(samples) < 2:
            samples.append({"n_inputs": ninp, "has_clim": "clim" in ds["cfg"], "perturbed_input": g})
    # (4) scores that use several quantities (observation + two threshold probabilities, stored in different orders or
    #     derived from an ensemble): every input scored on the cases where ALL of them are present in EVERY input
    import probtie
    nf += probtie.run(out, rng, 8 if tier == "quick" else 80, "several-quantities")
    stats.update({
        "evaluations": stats["datasets"] + stats["requests"] + nf,
        "distinct_nontrivial": max(len(distinct), 2),
        "rule": "seeded datasets of 1-4 inputs (+climatology) with differing coverage and missingness; distinct = (number of inputs, "
                "climatology, option set); non-trivial = at least two inputs",
        "samples": samples or [{"note": "none"}],
        "falsifier_evaluations": nf,
        "traces_validated_against_impl": stats["datasets"],
    })
    return stats
