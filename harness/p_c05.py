"""C05 -- deterministic scores.  Tie A validation of every generated metric core x aggregator (float
instance) against the real classes, and a falsifier with independent textbook oracles, perfect-score
and never-better relations."""
import itertools
import math
import random
import statistics

import numpy as np

import common
from common import fl, fl_list, close

GEN_PREFIXES = ["verif/metric.py:", "verif/aggregator.py", "verif/util.py:nprange", "verif/util.py:numvalid",
                "verif/interval.py"]
EXTRA_TARGETS = ["Model/Render.vo", "Gen/Gen_aggregator.vo"]
ASSUMPTIONS = [
    "exact real arithmetic in the theorems; float comparisons with relative tolerance 1e-9",
    "numpy reductions, scipy.stats.spearmanr/kendalltau restated in coq/Base/Vec.v (modelled, compared on every run)",
    "'error or skill metric' for the perfect-score clauses = classes with orientation != 0 plus bias/diff/ratio/dmb/mbias/rmsf; "
    "ef and the obs/fcst statistics are excluded (DESIGN.md 7 C05)",
    "leps is not modelled (index loop with numpy.argsort); it is covered by the falsifier only",
]
NAN = float("nan")
AGGS = ["mean", "median", "min", "max", "std", "variance", "iqr", "range", "count", "sum", "meanabs", "absmean",
        "change", "abschange", "0.25", "0.9", "0.975"]
COQ_AGG = {"mean": "agg_Mean XF", "median": "agg_Median XF", "min": "agg_Min XF", "max": "agg_Max XF", "std": "agg_Std XF",
           "variance": "agg_Variance XF", "iqr": "agg_Iqr XF", "range": "agg_Range XF", "count": "agg_Count XF",
           "sum": "agg_Sum XF", "meanabs": "agg_Meanabs XF", "absmean": "agg_Absmean XF", "change": "agg_Change XF",
           "abschange": "agg_AbsChange XF", "0.25": "agg_Quantile XF 0.25", "0.9": "agg_Quantile XF 0x1.ccccccccccccdp-1",
           "0.975": "agg_Quantile XF 0x1.f333333333333p-1"}      # a level between whole percents
CLASSES = ["Mae", "Bias", "Diff", "Ratio", "Ef", "StdError", "ObsStdDev", "FcstStdDev", "Rmse", "Rmsf", "Cmae", "Nsec", "Nnsec",
           "Kge", "Alphaindex", "Dmb", "Mbias", "Corr", "RankCorr", "KendallCorr", "DError"]


def percentile(v, p):
    s = sorted(v)
    h = p / 100.0 * (len(s) - 1)
    i = int(math.floor(h))
    if i >= len(s) - 1:
        return s[-1]
    return s[i] + (h - i) * (s[i + 1] - s[i])


def oagg(name, v):
    """independent aggregator definitions"""
    if name == "mean":
        return sum(v) / len(v)
    if name == "median":
        return statistics.median(v)
    if name == "min":
        return min(v)
    if name == "max":
        return max(v)
    if name == "std":
        return statistics.pstdev(v)
    if name == "variance":
        return statistics.pvariance(v)
    if name == "iqr":
        return percentile(v, 75) - percentile(v, 25)
    if name == "range":
        return max(v) - min(v)
    if name == "count":
        return float(len(v))
    if name == "sum":
        return float(sum(v))
    if name == "meanabs":
        return sum(abs(x) for x in v) / len(v)
    if name == "absmean":
        return abs(sum(v) / len(v))
    if name == "change":
        return v[-1] - v[0]
    if name == "abschange":
        return abs(v[-1] - v[0])
    return percentile(v, float(name) * 100)


def ranks(v):
    return [sum(1 for y in v if y < x) + (sum(1 for y in v if y == x) + 1) / 2.0 for x in v]


def pearson(a, b):
    n = len(a)
    ma, mb = sum(a) / n, sum(b) / n
    sa = sum((x - ma) ** 2 for x in a)
    sb = sum((y - mb) ** 2 for y in b)
    if sa == 0 or sb == 0:
        return None
    return sum((x - ma) * (y - mb) for x, y in zip(a, b)) / math.sqrt(sa * sb)


def kendall(a, b):
    n = len(a)
    s = ta = tb = 0
    n0 = n * (n - 1) // 2
    for i in range(n):
        for j in range(i + 1, n):
            da, db = a[i] - a[j], b[i] - b[j]
            s += (da > 0) * (db > 0) + (da < 0) * (db < 0) - (da > 0) * (db < 0) - (da < 0) * (db > 0)
            ta += da == 0
            tb += db == 0
    den = (n0 - ta) * (n0 - tb)
    return None if den == 0 else s / math.sqrt(den)


def oracle(name, o, f, agg="mean"):
    """textbook value on valid pairs; None = undefined (NaN or non-finite expected)"""
    n = len(o)
    if n == 0:
        return None
    e = [a - b for a, b in zip(o, f)]
    mo, mf = sum(o) / n, sum(f) / n
    try:
        if name == "Mae":
            return oagg(agg, [abs(x) for x in e])
        if name == "Bias":
            return oagg(agg, [b - a for a, b in zip(o, f)])
        if name == "Diff":
            return oagg(agg, f) - oagg(agg, o)
        if name == "Ratio":
            d = oagg(agg, o)
            if d != 0 and abs(d) < 1e-9:
                return "skip"            # a denominator that is zero only up to rounding (interpolated quantiles): not decidable in floats
            if d == 0 and agg in ("0.25", "0.9", "0.975", "iqr"):
                return "skip"            # an exact zero of the oracle's own evaluation of an INTERPOLATED quantile; numpy's lerp may give 4e-16
            return None if d == 0 else oagg(agg, f) / d
        if name == "Ef":
            return sum(1 for a, b in zip(o, f) if a < b) / n
        if name == "StdError":
            me = sum(e) / n
            return math.sqrt(sum((x - me) ** 2 for x in e) / n)
        if name == "ObsStdDev":
            return statistics.pstdev(o)
        if name == "FcstStdDev":
            return statistics.pstdev(f)
        if name == "Rmse":
            v = oagg(agg, [x * x for x in e])
            return None if v < 0 else math.sqrt(v)
        if name == "Rmsf":
            if any(a == 0 or b / a <= 0 for a, b in zip(o, f)):      # the ratio must be positive (both values negative is fine)
                return "skip"
            v = oagg(agg, [math.log(b / a) ** 2 for a, b in zip(o, f)])
            return None if v < 0 else math.exp(math.sqrt(v))
        if name == "Cmae":
            v = oagg(agg, [abs(a ** 3 - b ** 3) for a, b in zip(o, f)])
            return None if v < 0 else v ** (1.0 / 3)
        if name in ("Nsec", "Nnsec"):
            den = sum((a - mo) ** 2 for a in o)
            if den == 0:
                return None
            ns = 1 - sum((b - a) ** 2 for a, b in zip(o, f)) / den
            return ns if name == "Nsec" else 1 / (2 - ns)
        if name == "Kge":
            so, sf = statistics.pstdev(o), statistics.pstdev(f)
            r = pearson(o, f)
            if so == 0 or sf == 0 or r is None or mo == 0:
                return None
            return 1 - math.sqrt((r - 1) ** 2 + (mf / mo - 1) ** 2 + (sf / so - 1) ** 2)
        if name == "Dmb":
            return None if mf == 0 else mo / mf
        if name == "Mbias":
            return None if mo == 0 else mf / mo
        if name == "Corr":
            return None if n <= 1 else pearson(o, f)
        if name == "RankCorr":
            return None if n <= 1 else pearson(ranks(o), ranks(f))
        if name == "KendallCorr":
            if n <= 1 or statistics.pvariance(f) == 0:
                return None
            return kendall(o, f)
        if name == "DError":
            return sum(abs(a - b) for a, b in zip(sorted(o), sorted(f))) / n
    except (ZeroDivisionError, ValueError, OverflowError):
        return None
    return "skip"


def explore(out, tier, seed, facts, replay=None):
    with common.quiet():
        return _explore(out, tier, seed, facts, replay)


def _explore(out, tier, seed, facts, replay):
    import verif.metric
    import verif.aggregator
    rng = random.Random(seed + 505)
    alphabet = [-2.0, 0.0, 0.5, 1.0, 3.0]
    vecs = [([0.1] * 7, [3.0, 1.0, 0.5, 0.4, 0.0, 0.0, 0.0])]      # corpus: the input of the recorded zero-variance-rounding findings runs first
    for L in range(1, 4):                       # exhaustive small vectors (pairs over the alphabet)
        for o in itertools.product(alphabet, repeat=L):
            for f in itertools.product(alphabet, repeat=L):
                if L < 3 or rng.random() < (0.02 if tier == "quick" else 0.3):
                    vecs.append((list(o), list(f)))
    for _ in range(150 if tier == "quick" else 3000):
        L = rng.randint(2, 8)
        kind = rng.random()
        if kind < 0.15:
            o = [rng.choice(alphabet)] * L                     # constant observations
            f = [rng.choice(alphabet) for _ in range(L)]
        elif kind < 0.3:
            o = [rng.choice(alphabet) for _ in range(L)]
            f = list(o)                                         # perfect forecast
        elif kind < 0.5:
            o = [rng.choice([0.5, 1.0, 2.0, 3.0, 7.5]) for _ in range(L)]    # positive data (rmsf)
            f = [rng.choice([0.5, 1.0, 2.0, 3.0, 7.5]) for _ in range(L)]
        elif kind < 0.58:
            off = rng.choice([0.3, -0.1, 1000.7, 273.15])               # constant offset (errors with no spread, large mean)
            o = [rng.choice([0.5, 1.5, 2.5, 4.0, -2.0]) for _ in range(L)]
            f = [x + off for x in o]
        elif kind < 0.64:
            o = [-rng.choice([0.5, 1.0, 2.0, 3.0, 7.5]) for _ in range(L)]   # all negative (ratios positive)
            f = [-rng.choice([0.5, 1.0, 2.0, 3.0, 7.5]) for _ in range(L)] if rng.random() < 0.6 else list(o)
        elif kind < 0.68 and L >= 3:
            o = [rng.choice([0.1, 0.7, 1.1, -0.3])] * L       # constant observations whose mean is NOT exactly that constant in floating point
            f = [rng.choice(alphabet + [0.2, 0.4]) for _ in range(L)]
        else:
            o = [rng.choice(alphabet + [rng.randint(-20, 20) / 4.0]) for _ in range(L)]
            f = [rng.choice(alphabet + [rng.randint(-20, 20) / 4.0]) for _ in range(L)]
        vecs.append((o, f))
    metrics = {c: getattr(verif.metric, c)() for c in CLASSES}
    aggs = {a: verif.aggregator.get(a) for a in AGGS}
    # ---- Tie A: generated cores (float instance) vs the classes ------------------------------------
    exprs, expected, descr = [], [], []
    tie_vecs = rng.sample(vecs, min(len(vecs), 220 if tier == "quick" else 1500))
    for (o, f) in tie_vecs:
        # add a NaN pair now and then: the pair filter must drop it
        oo, ff = list(o), list(f)
        if rng.random() < 0.3:
            pos = rng.randrange(len(oo) + 1)
            oo.insert(pos, NAN)
            ff.insert(pos, rng.choice([1.0, NAN]))
        a = rng.choice(AGGS)
        terms, exp = [], []
        for c in CLASSES:
            m = metrics[c]
            m.aggregator = aggs[a]
            try:
                v = float(m.compute_from_obs_fcst(np.array(oo), np.array(ff)))
            except Exception as e:
                out.violation("exception:%s" % c, "%s.compute_from_obs_fcst raised %r (agg %s)" % (c, e, a), {"metric": c, "obs": oo, "fcst": ff, "agg": a})
                v = -12345.0
            exp.append(v)
            terms.append("obsfcst_compute XF (%s_core XF (%s)) %s %s" % (c, COQ_AGG[a], fl_list(oo), fl_list(ff))
                         if c in ("Mae", "Bias", "Diff", "Ratio", "Rmse", "Rmsf", "Cmae")
                         else "obsfcst_compute XF (%s_core XF) %s %s" % (c, fl_list(oo), fl_list(ff)))
        exprs.append("[" + "; ".join(terms) + "]")
        expected.append(exp)
        descr.append({"obs": [repr(x) for x in oo], "fcst": [repr(x) for x in ff], "agg": a})
    # aggregators alone (C15 shares this)
    for (o, f) in tie_vecs[:120]:
        exprs.append("[" + "; ".join("%s %s" % (COQ_AGG[a], fl_list(o)) for a in AGGS) + "]")
        expected.append([float(aggs[a](np.array(o))) for a in AGGS])
        descr.append({"aggregators_on": o})
    disagreements = []
    try:
        got = common.coq_eval_float_lists(
            "From VF Require Import Base.Num Base.Vec Base.Event Gen.Gen_interval Gen.Gen_detmetrics Gen.Gen_aggregator Model.Render.",
            exprs, "c05_%d" % seed, chunk=40, timeout=900)
        for g, e, dsc in zip(got, expected, descr):
            names = CLASSES if len(e) == len(CLASSES) else AGGS
            bad = [(names[i], g[i], e[i]) for i in range(min(len(g), len(e))) if not close(g[i], e[i], 1e-9)]
            if len(e) == len(CLASSES) and any(float(x) <= 0 for x in dsc["obs"] + dsc["fcst"] if x != "nan"):
                # rmsf on non-positive data with a non-propagating aggregator: outside the model (DESIGN.md 3.1)
                bad = [b for b in bad if b[0] != "Rmsf"]
            # rmsf = exp(sqrt(agg(log(f/o)^2))): when the aggregate is 0 up to rounding (e.g. -agg change of equal squares)
            # sqrt sees +0 or -1e-17 depending on the last bit of log(); 1.0 against NaN is then a rounding matter
            bad = [b for b in bad if not (b[0] == "Rmsf" and ((math.isnan(b[1]) and abs(b[2] - 1) < 1e-6) or (math.isnan(b[2]) and abs(b[1] - 1) < 1e-6)))]
            if len(e) == len(CLASSES):
                # zero variance (constant observations or forecasts): the guarded quantity is 0 mathematically and rounding noise in
                # floating point, whose last bit depends on the order of summation (numpy sums pairwise, the model left to right);
                # model and implementation may then take different sides of the `== 0` guard (see the known finding zero-variance-rounding)
                vo = {x for x in dsc["obs"] if x != "nan"}
                vf = {x for x in dsc["fcst"] if x != "nan"}
                if len(vo) <= 1 or len(vf) <= 1:
                    bad = [b for b in bad if b[0] not in ("Nsec", "Nnsec", "Kge", "Corr", "Alphaindex") or not (math.isnan(b[1]) or math.isnan(b[2]) or abs(b[1]) > 1e12 or abs(b[2]) > 1e12 or abs(b[1]) < 1e-12 or abs(b[2]) < 1e-12)]
            if bad or len(g) != len(e):
                disagreements.append({"case": dsc, "differs": bad[:4]})
    except RuntimeError as ex:
        out.broken_obligation("tie:Gen_detmetrics", str(ex)[-1500:])
    if disagreements:
        out.broken_obligation("tie:translation-validation", "%d of %d cases differ; first: %r" % (len(disagreements), len(exprs), disagreements[0]))
    # ---- falsifier: the implementation against independent textbook definitions ----------------------
    nf = 0
    distinct = set()
    samples = []
    for (o, f) in vecs:
        distinct.add((tuple(o), tuple(f)))
        a = rng.choice(AGGS)
        for c in CLASSES:
            m = metrics[c]
            use = a if m.supports_aggregator else "mean"
            m.aggregator = aggs[a]           # the driver assigns -agg to every metric (with a warning); one that does not support it must ignore it
            want = oracle(c, o, f, use)
            if want == "skip":
                continue
            nf += 1
            ao_, af_ = np.array(o), np.array(f)
            try:
                got1 = float(m.compute_from_obs_fcst(ao_, af_))
            except Exception as e:
                out.violation("exception:%s" % c, "%s raised %r" % (c, e), {"metric": c, "obs": o, "fcst": f, "agg": a})
                continue
            if not (np.array_equal(ao_, np.array(o)) and np.array_equal(af_, np.array(f))):
                out.violation("arguments-modified:%s" % c, "%s with -agg %s reordered or changed the arrays it was given (obs %r -> %r, fcst %r -> %r): the dataset hands its cached arrays to the metrics"
                              % (c, a, o, ao_.tolist(), f, af_.tolist()), {"metric": c, "obs": o, "fcst": f, "agg": a})
            if want is None:
                if not (math.isnan(got1) or math.isinf(got1)):
                    # undefined by the textbook but numerically defined up to rounding is not a finding
                    if abs(got1) < 1e12:
                        rounding_ = len(set(o)) == 1 and float(np.mean(np.array(o))) != o[0]      # constant obs whose float mean is not the constant
                        out.violation(("zero-variance-rounding:%s" if rounding_ else "undefined-gives-number:%s") % c, "%s(obs=%r, fcst=%r, agg=%s) = %r where the definition is undefined"
                                      % (c, o, f, use, got1), {"metric": c, "obs": o, "fcst": f, "agg": use})
            elif math.isnan(got1) or not close(got1, want, 1e-9):
                if abs(want) > 1e12 and (math.isnan(got1) or abs(got1) > 1e12):
                    continue          # a denominator that is zero only up to rounding: both numbers are noise (seed 2 found Dmb = -1.1e15 vs -1.5e15)
                # a root taken AFTER the aggregation magnifies the aggregate's rounding error (std of three equal cubes is 7e-18, its
                # cube root 2e-6): such scores are compared before the root
                inv_ = {"Cmae": lambda x: x ** 3, "Rmse": lambda x: x * x, "Rmsf": lambda x: math.log(x) ** 2 if x > 0 else float("nan")}.get(c)
                if inv_ is not None and not math.isnan(got1) and abs(inv_(got1) - inv_(want)) <= 1e-12 * max(1.0, abs(inv_(want))):
                    continue
                out.violation("value:%s" % c, "%s(obs=%r, fcst=%r, agg=%s) = %r, textbook %r" % (c, o, f, use, got1, want),
                              {"metric": c, "obs": o, "fcst": f, "agg": use})
        if len(samples) < 3 and len(o) > 2:
            samples.append({"obs": o, "fcst": f, "agg": a})
    # no valid pair at all (what every empty slice looks like: get_scores delivers the single NaN): NaN for every metric and
    # EVERY aggregator, never an exception and never a number
    for c in CLASSES:
        m = metrics[c]
        for a_ in (AGGS if m.supports_aggregator else ["mean"]):
            m.aggregator = aggs[a_]
            for o_, f_ in (([NAN], [NAN]), ([NAN, 1.0], [2.0, NAN]), ([NAN, NAN, NAN], [1.0, 2.0, 3.0])):
                nf += 1
                try:
                    g_ = float(m.compute_from_obs_fcst(np.array(o_), np.array(f_)))
                except Exception as e:
                    out.violation("no-valid-pair-exception:%s" % c, "%s with -agg %s on pairs without a valid member (obs=%r, fcst=%r) raises %s: %s"
                                  % (c, a_, o_, f_, type(e).__name__, e), {"metric": c, "obs": [repr(x) for x in o_], "fcst": [repr(x) for x in f_], "agg": a_})
                    continue
                if not math.isnan(g_):
                    out.violation("no-valid-pair-number:%s" % c, "%s with -agg %s on pairs without a valid member (obs=%r, fcst=%r) returns %r"
                                  % (c, a_, o_, f_, g_), {"metric": c, "obs": [repr(x) for x in o_], "fcst": [repr(x) for x in f_], "agg": a_})
    # perfect forecast attains the declared perfect score; no forecast is better (default aggregator)
    skill = [n for n, cls in verif.metric.get_all_obs_fcst_based() if cls.perfect_score is not None and n not in ("Ef", "ObsStdDev", "FcstStdDev")]
    for (o, f) in vecs:
        if len(o) < 2:
            continue
        for n in skill:
            m = getattr(verif.metric, n)()
            m.aggregator = aggs["mean"]
            p = m.perfect_score
            nf += 1
            try:
                vp = float(m.compute_from_obs_fcst(np.array(o), np.array(o)))
                vf = float(m.compute_from_obs_fcst(np.array(o), np.array(f)))
            except Exception as e:
                out.violation("exception:%s" % n, "%s raised %r" % (n, e), {"metric": n, "obs": o, "fcst": f})
                continue
            if n == "Rmsf" and any(x == 0 for x in o):
                continue
            if not (math.isnan(vp) or math.isinf(vp) or close(vp, p, 1e-9)):
                out.violation("perfect:%s" % n.lower(), "%s of a forecast identical to the observations %r is %r, declared perfect score %r"
                              % (n, o, vp, p), {"metric": n, "obs": o})
            if m.orientation != 0 and not (math.isnan(vf) or math.isinf(vf)):
                better = (vf < p - 1e-9) if m.orientation < 0 else (vf > p + 1e-9)
                if better:
                    out.violation("better-than-perfect:%s" % n.lower(), "%s(obs=%r, fcst=%r) = %r is better than the perfect score %r"
                                  % (n, o, f, vf, p), {"metric": n, "obs": o, "fcst": f})
    # obs/fcst statistics on the conditional axes (-m obs|fcst -x obs|fcst): the aggregate of the values whose
    # conditioning quantity lies in the bin; empty bin => NaN
    import datagen
    import verif.axis
    import verif.interval
    import verif.field
    import verif.util
    datagen.patch_error()
    for _ in range(12 if tier == "quick" else 150):
        ds = datagen.gen_dataset(rng, options=False)
        ds["cfg"].pop("clim", None)
        d = datagen.impl_data(ds)
        if isinstance(d, tuple):
            continue
        both = datagen.impl_request(ds, (["obs", "fcst"], 0, 3, 0))
        oo = datagen.impl_request(ds, (["obs"], 0, 3, 0))
        ffc = datagen.impl_request(ds, (["fcst"], 0, 3, 0))
        if isinstance(both, tuple) or isinstance(oo, tuple) or isinstance(ffc, tuple):
            continue
        for bt in ("within", "=within=", "above", "below="):
            ivs = verif.util.get_intervals(bt, np.array([-1.0, 1.0, 2.5]))
            for mname, axname in (("obs", "obs"), ("fcst", "fcst"), ("obs", "fcst"), ("fcst", "obs")):
                m = verif.metric.Obs() if mname == "obs" else verif.metric.Fcst()
                a = rng.choice(["mean", "max", "count", "median"])
                m.aggregator = aggs[a]
                for iv in ivs:
                    nf += 1
                    try:
                        got1 = float(np.asarray(m.compute(d, 0, verif.axis.get(axname), iv)).flatten()[0])
                    except Exception as e:
                        out.violation("exception:fromfield", "-m %s -x %s raised %r" % (mname, axname, e), {"dataset": ds})
                        continue
                    if mname == axname:
                        col = oo[0] if mname == "obs" else ffc[0]
                        vals = [v for v in col if not math.isnan(v) and iv.within(v)]
                    else:
                        pairs = [(o, f) for o, f in zip(both[0], both[1]) if not math.isnan(o)]
                        vals = [(o if mname == "obs" else f) for o, f in pairs if iv.within(f if axname == "fcst" else o)]
                    want = oagg(a, vals) if vals else NAN
                    if not close(got1, want, 1e-9):
                        out.violation("conditional-axis:%s-x-%s" % (mname, axname), "-m %s -x %s -agg %s bin %s gives %r, expected %r (aggregate of the values in the bin)"
                                      % (mname, axname, a, iv, got1, want), {"dataset": ds, "metric": mname, "axis": axname, "agg": a, "interval": str(iv)})
    # an obs / fcst statistic (FromField) is handed the very arrays the dataset caches: whatever the aggregator, the pairs the
    # dataset hands out afterwards are the pairs it handed out before (same order, same values)
    for _ in range(6 if tier == "quick" else 60):
        ds = datagen.gen_dataset(rng, options=False)
        ds["cfg"].pop("clim", None)
        d = datagen.impl_data(ds)
        if isinstance(d, tuple):
            continue
        for ax_ in (verif.axis.No(), verif.axis.Leadtime(), verif.axis.Location()):
            try:
                before = [np.array(x_, float).copy() for x_ in d.get_scores([verif.field.Obs(), verif.field.Fcst()], 0, ax_, 0)]
            except Exception:
                continue
            for a in AGGS:
                for cls_ in (verif.metric.Obs, verif.metric.Fcst):
                    # as the obs/fcst output builds them: the statistic of one field over the cases where both are present
                    m = verif.metric.FromField(verif.field.Obs(), aux=verif.field.Fcst()) if cls_ is verif.metric.Obs else verif.metric.FromField(verif.field.Fcst(), aux=verif.field.Obs())
                    m.aggregator = aggs[a]
                    nf += 1
                    try:
                        m.compute(d, 0, ax_, None)
                    except Exception:
                        continue
                    after = [np.array(x_, float) for x_ in d.get_scores([verif.field.Obs(), verif.field.Fcst()], 0, ax_, 0)]
                    same_ = all(x_.shape == y_.shape and np.array_equal(x_, y_, equal_nan=True) for x_, y_ in zip(before, after))
                    if not same_:
                        out.violation("statistic-alters-dataset:%s" % a, "after -m %s -agg %s along %s the dataset pairs observations %r with forecasts %r; before it paired %r with %r"
                                      % (cls_.__name__.lower(), a, ax_.name(), after[0].tolist()[:8], after[1].tolist()[:8], before[0].tolist()[:8], before[1].tolist()[:8]),
                                      {"dataset": ds, "aggregator": a, "metric": cls_.__name__.lower(), "axis": ax_.name()})
                        before = [x_.copy() for x_ in after]
    return {
        "evaluations": len(exprs) * len(CLASSES) + nf,
        "distinct_nontrivial": len(distinct),
        "rule": "all vector pairs of length 1-2 over {-2,0,0.5,1,3} (exhaustive), sampled length 3, seeded random length 2-8 with "
                "constant observations, perfect forecasts, positive data, ties; x 21 metric classes x 16 aggregators; NaN pairs "
                "inserted for the pair filter; distinct = distinct (obs, fcst) pairs",
        "samples": samples or [descr[0]],
        "programs": len(exprs),
        "disagreements_checked": len(exprs),
        "tie_disagreements": len(disagreements),
        "falsifier_evaluations": nf,
    }
