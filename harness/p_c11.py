"""C11 -- slicing partitions the cases; calendar buckets; conversions.
Tie B: Model/Cal.v against verif.axis.*.compute_from_times / verif.util conversions on every day
1900-2100 (thorough) or a stratified sample of all month/year/leap/week boundaries (quick), plus
Model/Data.v's slice extraction against Data.get_scores on generated datasets for all axes.
Falsifier: partition, counts and pooled-mean identities on the implementation."""
import calendar
import datetime
import math
import random

import numpy as np

import common
import datagen
import datatie

EXTRA_TARGETS = ["Model/DataQ.vo"]
GEN_PREFIXES = []
BUILD_TIMEOUT = 1800
ASSUMPTIONS = ["Python's datetime/calendar.timegm and matplotlib.dates.date2num are library code: replaced by Model/Cal.v and "
               "tied by comparison (exhaustive over 1900-2100 in the thorough tier)",
               "dayofyear uses year 2000's numbering, as the code does (Mar 1 is always day 61)"]
TIME_AXES = [("year", "year_start"), ("month", "month_start"), ("week", "week_start"), ("day", "day_start"),
             ("timeofday", "second_of_day"), ("dayofyear", "dayofyear"), ("dayofmonth", "dayofmonth"),
             ("monthofyear", "monthofyear")]


def sample_times(rng, tier):
    days = []
    lo = datetime.date(1900, 1, 1).toordinal()
    hi = datetime.date(2100, 12, 31).toordinal()
    epoch = datetime.date(1970, 1, 1).toordinal()
    if tier == "thorough":
        days = list(range(lo, hi + 1))
    else:
        for y in list(range(1900, 2101, 7)) + [1900, 1904, 1969, 1970, 1971, 1999, 2000, 2001, 2012, 2024, 2038, 2099, 2100]:
            for (m, d) in [(1, 1), (1, 2), (2, 28), (3, 1), (6, 30), (7, 1), (12, 31)]:
                days.append(datetime.date(y, m, d).toordinal())
            if calendar.isleap(y):
                days.append(datetime.date(y, 2, 29).toordinal())
        days += [rng.randint(lo, hi) for _ in range(400)]
    times = []
    for o in days:
        base = (o - epoch) * 86400
        times.append(base)
        times.append(base + rng.choice([1, 3599, 3600, 21600, 43200, 64800, 86399, 1800, 5400]))
    return times


def explore(out, tier, seed, facts, replay=None):
    with common.quiet():
        return _explore(out, tier, seed, facts, replay)


def _explore(out, tier, seed, facts, replay):
    import os
    import time
    import verif.axis
    import verif.field
    import verif.util
    # the calendar slices are defined in UTC whatever the machine's local zone is: run the whole exploration in a zone far from UTC
    os.environ["TZ"] = ["PST8", "AEST-10", "NPT-5:45"][seed % 3]
    time.tzset()
    datagen.patch_error()
    rng = random.Random(seed + 1111)
    times = sample_times(rng, tier)
    # ---- Tie: calendar model vs implementation --------------------------------------------------
    exprs, expected = [], []
    inputs_of = []          # per expression: the list of unix times (or lead times) it was evaluated on
    CH = 400
    impl_axes = {name: verif.axis.get(name) for name, _ in TIME_AXES}
    for k in range(0, len(times), CH):
        chunk = times[k:k + CH]
        zl = "[" + "; ".join("(%d)" % t for t in chunk) + "]%Z"
        for name, fn in TIME_AXES:
            exprs.append("map (fun t => f_of_Z (%s t)) %s" % (fn, zl))
            inputs_of.append(("-x %s" % name, chunk))
            try:
                v = impl_axes[name].compute_from_times(np.array(chunk))
            except Exception as e:
                # find one time that fails on its own: that is the replay
                culprit = None
                for t_ in chunk:
                    try:
                        impl_axes[name].compute_from_times(np.array([t_]))
                    except Exception:
                        culprit = t_
                        break
                out.violation("axis-exception:%s" % name, "verif.axis.%s.compute_from_times raises %s: %s for the unix time %r"
                              % (name.title(), type(e).__name__, e, culprit), {"axis": name, "time": culprit})
                v = [float("nan")] * len(chunk)
            if name == "timeofday":
                v = [x * 3600 for x in v]
            expected.append([float(x) for x in v])
        exprs.append("map (fun t => f_of_Z (unixtime_to_date t)) %s" % zl)
        inputs_of.extend([("unixtime_to_date", chunk), ("date_to_unixtime(unixtime_to_date)", chunk), ("date_to_datenum(unixtime_to_date)", chunk), ("datenum_to_date(day number)", chunk)])
        expected.append([float(verif.util.unixtime_to_date(t)) for t in chunk])
        exprs.append("map (fun t => f_of_Z (date_to_unixtime (unixtime_to_date t))) %s" % zl)
        expected.append([float(verif.util.date_to_unixtime(verif.util.unixtime_to_date(t))) for t in chunk])
        exprs.append("map (fun t => f_of_Z (date_to_daynum (unixtime_to_date t))) %s" % zl)
        expected.append([float(verif.util.date_to_datenum(verif.util.unixtime_to_date(t))) for t in chunk])
        exprs.append("map (fun t => f_of_Z (daynum_to_date (day_of t))) %s" % zl)
        expected.append([float(verif.util.datenum_to_date(int(math.floor(t / 86400.0)))) for t in chunk])
    leads = [0, 1, 23.999, 24, 24.001, 47.5, 48, 240, 0.5, 71.999]
    exprs.append("map (fun l => f_of_Z (leadtimeday l)) [" + "; ".join("(%d)" % round(l * 1000) for l in leads) + "]%Z")
    inputs_of.append(("-x leadtimeday (lead time in hours)", leads))
    expected.append([float(x) for x in verif.axis.Leadtimeday().compute_from_leadtimes(np.array(leads))])
    disagreements = []
    try:
        got = common.coq_eval_float_lists("From Coq Require Import ZArith.\nFrom VF Require Import Base.Num Model.Cal Model.DataQ.",
                                          exprs, "c11_%d" % seed, chunk=40, timeout=1200, float_scope=False)
        for i, (g, e) in enumerate(zip(got, expected)):
            if not common.close_lists(g, e):
                j = [x for x in range(min(len(g), len(e))) if not common.close(g[x], e[x])]
                disagreements.append({"expr": exprs[i][:80], "index": j[:3], "model": [g[x] for x in j[:3]], "impl": [e[x] for x in j[:3]]})
                if i < len(inputs_of) and j:
                    what_, vals_ = inputs_of[i]
                    out.violation("calendar:%s" % what_.split("(")[0].strip().replace("-x ", ""), "%s of %r is %r; the UTC calendar gives %r (time of day is compared in seconds)"
                                  % (what_, vals_[j[0]], e[j[0]], g[j[0]]), {"what": what_, "input": vals_[j[0]], "implementation": e[j[0]], "calendar": g[j[0]]})
    except RuntimeError as ex:
        out.broken_obligation("tie:Model/Cal.v", str(ex)[-1500:])
    if disagreements:
        out.broken_obligation("tie:Model/Cal.v<->verif.axis/verif.util", "%d disagreements; first %r" % (len(disagreements), disagreements[0]))
    # ---- the implementation against an independent calendar oracle (datetime.date arithmetic) ----
    nf = 0
    epoch = datetime.date(1970, 1, 1)
    for t in times[:: (1 if tier == "thorough" else 1)]:
        d = epoch + datetime.timedelta(days=t // 86400)
        nf += 1
        want = {
            "year": (datetime.date(d.year, 1, 1) - epoch).days * 86400,
            "month": (datetime.date(d.year, d.month, 1) - epoch).days * 86400,
            "week": ((d - datetime.timedelta(days=d.weekday())) - epoch).days * 86400,
            "day": (d - epoch).days * 86400,
            "timeofday": (t % 86400) / 3600.0,
            "dayofmonth": d.day, "monthofyear": d.month,
            "dayofyear": (datetime.date(2000, d.month, d.day) - datetime.date(2000, 1, 1)).days + 1,
        }
        for name, _ in TIME_AXES:
            got1 = float(impl_axes[name].compute_from_times(np.array([t]))[0])
            if not common.close(got1, want[name]):
                out.violation("bucket:%s" % name, "axis %s maps t=%d (%s) to %r, calendar says %r" % (name, t, d.isoformat(), got1, want[name]),
                              {"axis": name, "unixtime": t})
        date = d.year * 10000 + d.month * 100 + d.day
        if verif.util.unixtime_to_date(t) != date or verif.util.date_to_unixtime(date) != (t // 86400) * 86400 or \
                verif.util.datenum_to_date(verif.util.date_to_datenum(date)) != date or \
                not common.close(verif.util.unixtime_to_datenum(t) * 86400, t, 1e-12) or \
                verif.util.date_to_datenum(date) != t // 86400:
            out.violation("conversion", "date/unixtime/datenum conversions are not mutually inverse at t=%d (%d)" % (t, date), {"unixtime": t})
    # ---- slices on generated datasets (model tie + partition identities on the implementation) ----
    n = 80 if tier == "quick" else 800
    stats, cases = datatie.run_tie(out, seed, n, 14, "c11", options=True)       # with -d / -tod / -t selections: the slices are those of the SELECTED times
    distinct = set()
    samples = []
    for c in cases:
        ds = c["ds"]
        if c["impl"][0] in ("error", "exception"):
            continue
        sizes = c["sizes"]
        pooled = datagen.impl_request(ds, (["obs", "fcst"], 0, 3, 0))
        if isinstance(pooled, tuple):
            continue
        pn = 0 if (len(pooled[0]) == 1 and math.isnan(pooled[0][0])) else len(pooled[0])
        psum = sum(abs(o - f) for o, f in zip(pooled[0], pooled[1])) if pn else 0.0
        pvals = sorted(zip(pooled[0], pooled[1])) if pn else []
        for ax in range(13):
            if ax == 3 or int(sizes[ax]) == 0:
                continue
            cnt, ssum, allv = 0, 0.0, []
            for ai in range(int(sizes[ax])):
                r = datagen.impl_request(ds, (["obs", "fcst"], 0, ax, ai))
                nf += 1
                if isinstance(r, tuple):
                    cnt = None
                    break
                if len(r[0]) == 1 and math.isnan(r[0][0]):
                    continue
                cnt += len(r[0])
                ssum += sum(abs(o - f) for o, f in zip(r[0], r[1]))
                allv += list(zip(r[0], r[1]))
            if cnt is None:
                continue
            distinct.add((datagen.AXES[ax], int(sizes[ax]), pn))
            if cnt != pn or sorted(allv) != pvals:
                out.violation("partition:%s" % datagen.AXES[ax], "-x %s: slices hold %d cases, pooled %d (every case must be in exactly one slice)"
                              % (datagen.AXES[ax], cnt, pn), {"dataset": ds, "axis": datagen.AXES[ax]})
            elif pn and not common.close(ssum / pn, psum / pn):
                out.violation("pooled-mean:%s" % datagen.AXES[ax], "count-weighted mean of slice MAEs %r differs from pooled MAE %r" % (ssum / pn, psum / pn),
                              {"dataset": ds, "axis": datagen.AXES[ax]})
        # location-like axes give one slice per location labelled by id / lat / lon / elev
        d = datagen.impl_data(ds)
        if not isinstance(d, tuple):
            ids = [l.id for l in d.locations]
            for nm, attr in (("location", "id"), ("lat", "lat"), ("lon", "lon"), ("elev", "elev")):
                v = list(d.get_axis_values(verif.axis.get(nm)))
                nf += 1
                if v != [getattr(l, attr) for l in d.locations]:
                    out.violation("location-axis:%s" % nm, "axis %s values %r are not the locations' %s" % (nm, v, attr), {"dataset": ds})
            # ... and each location is its own slice even when two stations share a latitude, longitude or elevation exactly
            for nm in ("location", "lat", "lon", "elev"):
                axl = verif.axis.get(nm)
                cnt, allv = 0, []
                try:
                    for ai in range(len(d.locations)):
                        o_, f_ = d.get_scores([verif.field.Obs(), verif.field.Fcst()], 0, axl, ai)
                        nf += 1
                        if len(o_) == 1 and math.isnan(o_[0]):
                            continue
                        cnt += len(o_)
                        allv += list(zip([float(x) for x in o_], [float(x) for x in f_]))
                except SystemExit:
                    continue
                shared = len(set(getattr(l, "id" if nm == "location" else nm) for l in d.locations)) < len(d.locations)
                distinct.add((nm, len(d.locations), pn, shared))
                if cnt != pn or sorted(allv) != pvals:
                    out.violation("partition:%s" % nm, "-x %s: the %d location slices hold %d cases, pooled %d (every case must be in exactly one slice%s)"
                                  % (nm, len(d.locations), cnt, pn, "; two stations share this value" if shared else ""), {"dataset": ds, "axis": nm})
        if len(samples) < 2:
            samples.append({"times": ds["inputs"][0]["times"][:4], "axis_sizes": [int(x) for x in sizes]})
    stats.update({
        "evaluations": len(times) * (len(TIME_AXES) + 4) + stats["datasets"] + stats["requests"] + nf,
        "distinct_nontrivial": len(set(times)) + len(distinct),
        "rule": "unix times: %s, two instants per day (00:00 and an odd second); datasets with times on day/month/year/leap/week "
                "boundaries sliced along all 13 axes; distinct = distinct instants + (axis, #slices, #cases)" %
                ("every day 1900-01-01..2100-12-31" if tier == "thorough" else "all year starts/ends, Feb 28/29, Mar 1, mid-year for every 7th year + special years + 400 random days"),
        "exhaustive": tier == "thorough",
        "samples": samples or [{"t": times[0]}],
        "falsifier_evaluations": nf,
        "calendar_instants": len(times),
        "tie_disagreements": len(disagreements),
        "traces_validated_against_impl": stats["datasets"] + len(times),
    })
    return stats
