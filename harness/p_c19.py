"""C19 -- documented metric / axis / output combinations never crash.
Tie A: Gen/Gen_caps.v (capability tables + gating statements) is regenerated from /repo; the
theorems of Properties/C19.v are re-checked against it.  Translation validation: for every
(-m name, -x axis) pair the model's decision "axis kept / dropped with a warning" (vm_compute) is
compared with the warnings the real driver prints.
Falsifier = the enumeration itself: verif.driver.run is executed on the cross product
  names (every metric and diagram) x -x (19 dimensions + default) x 8 output types x dataset shapes
  (+ -r / -q / -b / -agg variants); an outcome other than "output produced" or "error message +
  non-zero exit" is a violation whose replay is the argv and the input files' generator arguments.
quick: a stratified sample (every (name, type), every (name, axis), every (shape, type, axis) at
least once); thorough: the full product."""
import contextlib
import io
import itertools
import os
import random
import shutil
import sys
import tempfile
import traceback
from multiprocessing import Pool

import common
import datagen

GEN_PREFIXES = ["verif/driver.py:run", "verif/metric.py", "verif/output.py"]
EXTRA_TARGETS = ["Gen/Gen_caps.vo", "Model/Gate.vo"]
ASSUMPTIONS = ["numpy / scipy / matplotlib behaviour inside a permitted combination is observed, not modelled",
               "the dataset shapes are those listed in coverage.rule; larger or differently shaped inputs are not enumerated"]

AXES = [None, "day", "dayofmonth", "dayofyear", "elev", "fcst", "lat", "leadtime", "leadtimeday", "location", "lon", "month",
        "monthofyear", "no", "obs", "threshold", "time", "timeofday", "week", "year"]
TYPES = ["plot", "text", "csv", "map", "rank", "maprank", "impact", "mapimpact"]
SHAPES = {
    "full": dict(nt=3, nl=3, ns=3, prob=True, ens=True),
    "det": dict(nt=3, nl=3, ns=3, prob=False, ens=False),
    "onetime": dict(nt=1, nl=3, ns=3, prob=True, ens=True),
    "oneloc": dict(nt=3, nl=3, ns=1, prob=True, ens=True),
    "onelead": dict(nt=3, nl=1, ns=3, prob=True, ens=True),
    "single": dict(nt=1, nl=1, ns=1, prob=True, ens=True),
    "miss": dict(nt=3, nl=3, ns=3, prob=True, ens=True),
    "missfirst": dict(nt=3, nl=3, ns=3, prob=True, ens=True),  # the FIRST lead time (file a) / first location (file b) / first time (file c) is missing
    "x0noobs": dict(nt=3, nl=3, ns=3, prob=True, ens=True, x0=True),      # variable with a discrete mass at 0; file b has NO observations (borrowed from file a)
    "lon360": dict(nt=3, nl=3, ns=3, prob=True, ens=True, lon360=True),     # longitudes 10, 180, 350: the 0..360 convention, spanning more than 180 degrees
    "dry": dict(nt=3, nl=3, ns=3, prob=True, ens=True, dry=True),           # one station whose observations are constant
    "mixed": dict(nt=3, nl=3, ns=3, prob=True, ens=True),      # file b has only obs and fcst: probabilistic fields exist in one input only
}
BIN_TYPES = ["below", "below=", "above", "above=", "within", "=within", "within=", "=within="]
VARIANTS = [[], ["-r", "0,2,5"], ["-r", "0,2,5", "-b", "within"], ["-agg", "median"], ["-q", "0.1,0.9"], ["-r", "2", "-b", "below="],
            ["-r", "1,3", "-b", "=within="], ["-agg", "0.9", "-r", "0,2,5"], ["-agg", "max", "-r", "0,100,200", "-b", "within"],
            ["-agg", "range", "-r", "100", "-b", "above"], ["-r", "3", "-q", "0.5"], ["-r", "5,1"], ["-r", "2", "-q", "0.9,0.1"], ["-q", "0.5"],
            ["-d", "20130101"], ["-tod", "3"], ["-d", "20130101", "-r", "2"]]        # selections that leave no time at all


def write_file(path, rng, nt, nl, ns, prob, ens, blank=None, x0=False, noobs=False, lon360=False, dry=False):
    hdr = "unixtime leadtime location lat lon altitude obs fcst"
    if prob:
        hdr += " p0 p1 p5 q0.1 q0.5 q0.9 pit"
    if ens:
        hdr += " e0 e1 e2"
    if noobs:
        hdr = hdr.replace(" obs", "")
    with open(path, "w") as f:
        if x0:
            f.write("# variable: Precip\n# units: mm\n# x0: 0\n")
        f.write(hdr + "\n")
        for t in range(nt):
            for l in range(nl):
                for s in range(ns):
                    o = rng.randint(-4, 12) / 2.0
                    fc = o + rng.randint(-4, 4) / 2.0
                    if dry and s == 1:
                        o = 0.0                                    # a dry station: its observations never vary
                    row = [1325376000 + 86400 * t * 17, l * 6, 10 + s, 60 + s, (10 + 170 * s) if lon360 else (10 + s), 100 * s, o, fc]
                    if prob:
                        ps = sorted(rng.random() for _ in range(3))
                        qs = sorted(fc + rng.randint(-6, 6) / 2.0 for _ in range(3))
                        row += ["%.3f" % p for p in ps] + qs + ["%.3f" % rng.random()]
                    if ens:
                        row += [fc + rng.randint(-3, 3) / 2.0 for _ in range(3)]
                    if blank is not None and row[blank[0]] == blank[1]:
                        row[6:] = ["-999"] * (len(row) - 6)
                    if noobs:
                        del row[6]
                    f.write(" ".join(str(x) for x in row) + "\n")


def make_files(tmp, seed):
    rng = random.Random(seed * 104729 + 19)
    for k, v in SHAPES.items():
        # all-missing slices: lead time 6 missing everywhere in file a, location 11 in file b
        write_file(os.path.join(tmp, "%s_a.txt" % k), rng, blank=(1, 6) if k == "miss" else ((1, 0) if k == "missfirst" else None), **v)
        vb = dict(v, prob=False, ens=False) if k == "mixed" else (dict(v, noobs=True) if k == "x0noobs" else v)
        write_file(os.path.join(tmp, "%s_b.txt" % k), rng, blank=(2, 11) if k == "miss" else ((2, 10) if k == "missfirst" else None), **vb)
        write_file(os.path.join(tmp, "%s_c.txt" % k), rng, blank=(0, 1325376000) if k == "missfirst" else None, **v)


_W = {}


def _init(repo, tmp):
    sys.path.insert(0, repo)
    os.environ["MPLBACKEND"] = "Agg"
    import warnings
    warnings.filterwarnings("ignore")
    import matplotlib
    matplotlib.use("Agg")
    import matplotlib.pyplot as mpl
    import verif.driver
    import verif.util
    _W["mpl"] = mpl
    _W["driver"] = verif.driver
    _W["util"] = verif.util
    _W["tmp"] = tmp
    _W["warnings"] = []
    orig = verif.util.warning

    def warning(msg):
        _W["warnings"].append(str(msg))
    verif.util.warning = warning


def argv_of(tmp, job):
    shape, name, ax, ty, extra = job[:5]
    nf = job[5] if len(job) > 5 else 2
    a = ["verif"] + [os.path.join(tmp, "%s_%s.txt" % (shape, c)) for c in "abc"[:nf]] + ["-m", name,
         "-f", os.path.join(tmp, "o_%d.%s" % (os.getpid(), "png" if ty not in ("text", "csv") else "txt"))]
    if ax:
        a += ["-x", ax]
    if ty != "plot":
        a += ["-type", ty]
    return a + list(extra)


def work(job):
    argv = argv_of(_W["tmp"], job)
    _W["warnings"][:] = []
    buf = io.StringIO()
    try:
        with contextlib.redirect_stdout(buf), contextlib.redirect_stderr(io.StringIO()):
            _W["driver"].run(argv)
        st, info = "ok", ""
    except SystemExit as e:
        code = e.code if isinstance(e.code, int) else (0 if e.code is None else 1)
        msg = buf.getvalue().strip()
        if code == 0:
            st, info = "ok", ""
        elif not msg:
            st, info = "silent-exit", "exit status %s without a message" % code
        else:
            st, info = "exit", msg[-120:]
    except Exception as e:
        tb = traceback.extract_tb(sys.exc_info()[2])
        fr = [f for f in tb if "/verif/" in f.filename and "site-packages" not in f.filename]
        site = "%s:%s" % (os.path.basename(fr[-1].filename), fr[-1].name) if fr else "?"
        st, info = "exception", "%s@%s: %s" % (type(e).__name__, site, str(e)[:100])
    finally:
        _W["mpl"].close("all")
    dropped = any("does not support '-x" in w for w in _W["warnings"])
    return (job, st, info, dropped)


def all_names():
    import verif.metric
    import verif.output
    ms = [m[0].lower() for m in verif.metric.get_all()]
    os_ = [o[0].lower() for o in verif.output.get_all()]
    return sorted(set(ms)), sorted(set(os_))


def explore(out, tier, seed, facts, replay=None):
    datagen.patch_error.__doc__   # (the driver's own error exits are left untouched here)
    tmp = tempfile.mkdtemp(prefix="verif_c19_", dir=os.environ.get("VERIF_SCRATCH") or None)
    try:
        return _explore(out, tier, seed, facts, replay, tmp)
    finally:
        shutil.rmtree(tmp, ignore_errors=True)


def _explore(out, tier, seed, facts, replay, tmp):
    sys.path.insert(0, common.REPO)
    make_files(tmp, seed)
    ms, os_ = all_names()
    names = ms + [o for o in os_ if o not in ms]
    import verif.aggregator
    agg_names = sorted(set(a.name() for a in verif.aggregator.get_all())) + ["0", "0.5", "1"]
    # every bin type with one threshold and with three; every aggregator name (class names and numbers)
    bin_variants = [("-r", r, "-b", b) for b in BIN_TYPES for r in ("2", "0,2,5")]
    agg_variants = [("-agg", a) for a in agg_names]
    rng = random.Random(seed * 31 + 19)
    jobs = set()
    broken = bool(out.broken) or not facts.get("build_ok")
    if tier == "thorough" or broken:
        shapes = list(SHAPES) if tier == "thorough" else ["full", "single"]
        for s in shapes:
            for n in names:
                for ax in AXES:
                    for ty in TYPES:
                        jobs.add((s, n, ax, ty, ()))
        for n in names:
            for ax in AXES:
                for ty in ("plot", "text", "csv"):
                    for v in VARIANTS[1:]:
                        jobs.add(("full", n, ax, ty, tuple(v)))
    # stratified sample (also part of the thorough run)
    for n in names:
        for ty in TYPES:
            jobs.add((rng.choice(list(SHAPES)), n, rng.choice(AXES), ty, tuple(rng.choice(VARIANTS))))
        for ax in AXES:
            jobs.add((rng.choice(list(SHAPES)), n, ax, rng.choice(TYPES), ()))
            jobs.add(("full", n, ax, "text", ()))          # the gating tie: one cheap run per (name, axis)
        for s in SHAPES:
            jobs.add((s, n, None, rng.choice(["plot", "text", "csv"]), ()))
        for v in VARIANTS[1:]:
            jobs.add(("full", n, rng.choice(AXES), "plot" if (n in os_ and n not in ms) else rng.choice(["plot", "text", "csv"]), tuple(v)))
    for s in SHAPES:
        for ty in TYPES:
            for ax in AXES:
                jobs.add((s, rng.choice(names), ax, ty, ()))
    # the dispatch tie: every (name, output type) once on the full dataset with the default axis
    for n in names:
        for ty in TYPES:
            jobs.add(("full", n, None, ty, ()))
    # conditional axes (-x obs / -x fcst) with every aggregator variant, for the metrics that take fields
    for n in ("obs", "fcst", "pit", "mae"):
        for ax in ("obs", "fcst", "threshold"):
            for v in VARIANTS:
                for ty in ("text", "plot"):
                    jobs.add(("full", n, ax, ty, tuple(v)))
    # every (name, axis) on the datasets with all-missing slices (in the middle; at the start) and with a single threshold
    for n in names:
        for ax in AXES:
            jobs.add(("miss", n, ax, rng.choice(["plot", "text"]), ()))
            jobs.add(("missfirst", n, ax, rng.choice(["plot", "text"]), (), rng.choice([1, 2, 3])))
            jobs.add(("full", n, ax, rng.choice(["plot", "text", "csv"]), ("-r", "2")))
    for n in names:
        for ax in ("time", "month", "week", "year", "day"):
            jobs.add(("full", n, ax, "plot", rng.choice([("-d", "20130101"), ("-tod", "3")])))
    # every name with every bin type (one and three thresholds), every aggregator name, and one / three input files
    for n in names:
        diagram = n in os_ and n not in ms          # a diagram class: only its plot exists, so that is the type to run
        for v in bin_variants:
            jobs.add(("full", n, None, "plot" if diagram else rng.choice(["plot", "text", "csv"]), v))
        for v in agg_variants:
            jobs.add(("full", n, None, "plot" if diagram else rng.choice(["plot", "text", "csv"]), v + (("-r", "2") if rng.random() < 0.5 else ())))
        for ty in TYPES:
            for nf in (1, 3):
                jobs.add((rng.choice(["full", "miss", "oneloc", "single"]), n, None, ty, (), nf))
    if tier == "thorough" or broken:
        for n in names:
            for ty in TYPES:
                for v in bin_variants + agg_variants:
                    jobs.add(("full", n, None, ty, v))
                for nf in (1, 3):
                    for s in SHAPES:
                        jobs.add((s, n, None, ty, (), nf))
    # inputs with different columns: every name at least once on the mixed dataset (cheap text output)
    for n in names:
        jobs.add(("mixed", n, None, "text", ()))
        jobs.add(("mixed", n, None, "plot", ()))
        jobs.add(("x0noobs", n, None, "plot" if (n in os_ and n not in ms) else "text", ()))
        for ty_ in ("map", "maprank", "mapimpact"):
            jobs.add(("lon360", n, None, ty_, ()))
        for ax_ in ("location", "time", None):
            jobs.add(("dry", n, ax_, "plot", ()))
    jobs = sorted(jobs, key=lambda j: (j[0], j[1], j[2] or "", j[3], j[4], j[5:]))
    rng.shuffle(jobs)
    counts = {"ok": 0, "exit": 0, "exception": 0, "silent-exit": 0}
    by_type = {t: 0 for t in TYPES}
    observed = {}
    dispatched = {}
    exceptions = {}
    with Pool(min(15, os.cpu_count() or 4), initializer=_init, initargs=(common.REPO, tmp)) as pool:
        for job, st, info, dropped in pool.imap_unordered(work, jobs, chunksize=16):
            counts[st] += 1
            by_type[job[3]] += 1
            if len(job) > 5:
                pass
            elif job[2] is not None and st in ("ok", "exit") and job[4] == () and job[0] == "full":
                observed.setdefault((job[1], job[2]), set()).add(dropped)
            if len(job) == 5 and job[2] is None and job[4] == () and job[0] == "full" and st in ("ok", "exit"):
                dispatched[(job[1], job[3])] = (st, info)
            if st in ("exception", "silent-exit"):
                key = info.split(":")[0] + ":" + info.split(":")[1] if st == "exception" else "silent-exit:" + job[1]
                exceptions.setdefault(key, []).append((job, info))
    for key, lst in sorted(exceptions.items()):
        job, info = sorted(lst, key=lambda p: (len(p[0][4]), p[0][0] != "full", p[0][2] is not None, p[0][3] != "plot", len(p[0])))[0]
        argv = argv_of("<dir>", job)
        nf_ = job[5] if len(job) > 5 else 2
        out.violation(key, "verif <%d generated file(s), dataset %s> %s ends in an unhandled exception (%s); %d combination(s) of this run fail at this site" % (
            nf_, job[0], " ".join(argv[1 + nf_:]), info, len(lst)),
            {"argv": argv, "dataset": job[0], "dataset_generator": dict(SHAPES[job[0]], seed=seed),
             "other_failing_combinations": [" ".join(argv_of("<dir>", j)[1:]) for j, _ in lst[1:6]]})
    # ---- translation validation of the gate: model decision vs the driver's warnings -------------------
    pairs = sorted(observed)
    agree = 0
    try:
        exprs = []
        chunk = 200
        for k in range(0, len(pairs), chunk):
            exprs.append("map (fun p => DataQ.f_of_nat (axis_kept (fst p) (snd p))) [%s]" % "; ".join(
                '("%s", "%s")' % (n, a) for n, a in pairs[k:k + chunk]))
        got = common.coq_eval_float_lists("From Coq Require Import String.\nFrom VF Require Import Model.DataQ Gen.Gen_caps Model.Gate.\nOpen Scope string_scope.",
                                          exprs, "c19_%d" % seed, chunk=4, float_scope=False) if exprs else []
        flat = [v for g in got for v in g]
        bad = []
        for (n, a), v in zip(pairs, flat):
            obs = observed[(n, a)]
            if len(obs) != 1:
                bad.append((n, a, "driver inconsistent", sorted(obs)))
                continue
            kept_impl = not next(iter(obs))
            if v == 2.0 or (v == 1.0) != kept_impl:
                bad.append((n, a, "model kept=%s" % v, "driver kept=%s" % kept_impl))
            else:
                agree += 1
        if bad:
            out.broken_obligation("tie:Gen_caps.gate", "%d of %d (name, axis) pairs: the translated gate and the driver's warnings disagree; first %r" % (len(bad), len(pairs), bad[:3]))
    except RuntimeError as ex:
        out.broken_obligation("tie:Gen_caps", str(ex)[-1500:])
    # ---- the dispatch of -type: a type whose core method the class does not define must end in the explanatory exit ----
    dpairs = sorted(dispatched)
    dagree = 0
    UNSUPPORTED_MSG = ("does not provide text output", "This type does not plot", "This type does not support")
    try:
        dexprs = []
        for k in range(0, len(dpairs), 200):
            dexprs.append("map (fun p => DataQ.f_of_nat (type_supported (fst p) (snd p))) [%s]" % "; ".join('("%s", "%s")' % p_ for p_ in dpairs[k:k + 200]))
        dgot = common.coq_eval_float_lists("From Coq Require Import String.\nFrom VF Require Import Model.DataQ Gen.Gen_caps Model.Gate.\nOpen Scope string_scope.",
                                           dexprs, "c19d_%d" % seed, chunk=4, float_scope=False) if dexprs else []
        dflat = [v for g in dgot for v in g]
        dbad = []
        for (n, ty), v in zip(dpairs, dflat):
            st, info = dispatched[(n, ty)]
            refused = st == "exit" and any(m in info for m in UNSUPPORTED_MSG)
            if v == 0.0 and st != "exit":
                dbad.append((n, ty, "the class does not define the method for this type, yet the run produced output"))
            elif v == 1.0 and refused:
                dbad.append((n, ty, "the class defines the method for this type, yet the run was refused: %s" % info[-80:]))
            elif v == 2.0:
                dbad.append((n, ty, "name not resolved by the model"))
            else:
                dagree += 1
        if dbad:
            out.broken_obligation("tie:Gen_caps.dispatch", "%d of %d (name, type) pairs: the translated dispatch tables and the driver disagree; first %r" % (len(dbad), len(dpairs), dbad[:3]))
    except RuntimeError as ex:
        out.broken_obligation("tie:Gen_caps.dispatch", str(ex)[-1500:])
    return {
        "dispatch_pairs_compared": len(dpairs), "dispatch_pairs_agreeing": dagree,
        "evaluations": len(jobs),
        "distinct_nontrivial": counts["ok"] + counts["exit"],
        "rule": "each evaluation is one verif.driver.run(argv) on two generated text files; shapes %s; names = %d metric and output class names; "
                "-x in %d values; 8 output types; variants %s; every name x 8 bin types x (one, three thresholds); every name x every aggregator name (incl. numbers 0, 0.5, 1); every (name, type) with one and with three input files. quick = stratified sample covering every (name,type), (name,axis), (shape,type,axis); "
                "thorough (and any run with a broken proof or tie) = full product. distinct_nontrivial = runs that reached an outcome "
                "(output or error exit)" % (sorted(SHAPES), len(names), len(AXES), [" ".join(v) for v in VARIANTS[1:]]),
        "samples": [" ".join(argv_of("<dir>", j)[1:]) + "  [dataset %s]" % j[0] for j in jobs[:4]],
        "outcomes": counts, "runs_by_output_type": by_type,
        "exhaustive": tier == "thorough",
        "gate_pairs_compared": len(pairs), "gate_pairs_agreeing": agree,
        "programs": len(pairs), "disagreements_checked": len(pairs) - agree,
    }
