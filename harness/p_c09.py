"""C09 -- text input.  Tie B: Model/TextParse.v against verif.input.Text on generated well-formed
files (random column subsets and orders, date+hour / unixtime, leadtime / offset, location / id,
altitude / elev, p / q / e / pit / other columns, comments and metadata lines, separators, sparsity,
missing-value tokens, shuffled rows).  Falsifier: the abstract dataset the file was rendered from."""
import math
import os
import random
import shutil
import tempfile

import numpy as np

import common
import datagen

EXTRA_TARGETS = ["Model/TextQ.vo"]
GEN_PREFIXES = []
ASSUMPTIONS = ["numeric tokens are plain decimals; what else float() accepts (1e3, inf, 1_0) is outside the model",
               "files carry a location or id column (files without one identify stations by lat/lon/elev: structural falsifier check only)",
               "set iteration order of locations / thresholds is canonicalised (sorted) before comparing"]
NAN = float("nan")


def cstr(s):
    return '"%s"' % s.replace('"', '""')


def gen_file(rng):
    """abstract dataset + one rendering of it"""
    nt, nl, ns = rng.randint(1, 3), rng.randint(1, 3), rng.randint(1, 3)
    days = rng.sample([20120101, 20120229, 20121231, 20130101, 19991231, 20000301], nt)
    hours = [rng.choice([0, 0, 6, 12, 18]) for _ in range(nt)]
    use_date = rng.random() < 0.5
    import verif.util
    times = [verif.util.date_to_unixtime(d) + h * 3600 for d, h in zip(days, hours)]
    if len(set(times)) != nt:
        return None
    leads = rng.sample([0, 1, 1.5, 3, 6, 24, 47.999], nl)
    locs = rng.sample([(1, 60.0, 10.0, 100.0), (2, 60.5, 10.5, 0.0), (7, 59.0, -120.0, 250.0), (18, -33.5, 151.25, 12.0)], ns)
    cols = ["obs", "fcst"]
    if rng.random() < 0.2:
        cols.remove(rng.choice(["obs", "fcst"]))
    extra = []
    if rng.random() < 0.4:
        extra.append("pit")
    for t in rng.sample([0, 1, 5, 10, 0.5, -5], rng.randint(0, 3)):
        extra.append("p%g" % t)
    for q in rng.sample([0.1, 0.25, 0.5, 0.9], rng.randint(0, 2)):
        extra.append("q%g" % q)
    nmem_ = rng.choice([0, 0, 2, 3])
    numbering_ = rng.choice([list(range(nmem_)), list(range(1, nmem_ + 1)), sorted(rng.sample(range(0, 12), nmem_))])      # members need not be numbered from 0
    for m in numbering_:
        extra.append("e%d" % m)
    if rng.random() < 0.3:
        extra.append(rng.choice(["crps", "mae", "elevation", "RMSE", "T2m", "dewPoint"]))                                  # names are case sensitive
    if rng.random() < 0.12 and any(c[0] in "pq" and c != "pit" for c in extra):
        cols = []                      # a purely probabilistic file: neither obs nor fcst (the header check accepts p* / q* columns)
    cols += extra
    meta = {"lat": rng.random() < 0.8, "lon": rng.random() < 0.8, "elev": rng.random() < 0.7}
    values = {}
    rows = []
    for a in range(nt):
        for b in range(nl):
            for s in range(ns):
                if rng.random() < 0.15:
                    continue                         # sparse: this combination is absent
                vals = {}
                for c in cols:
                    r = rng.random()
                    vals[c] = None if r < 0.15 else rng.randint(-8, 40) / 4.0
                values[(times[a], leads[b], locs[s][0])] = vals
                rows.append((a, b, s, vals))
    if not rows:
        return None
    rng.shuffle(rows)
    # column layout
    tcols = ["date", "hour"] if use_date else ["unixtime"]
    lcol = rng.choice(["leadtime", "offset"])
    icol = rng.choice(["location", "id"])
    ecol = rng.choice(["altitude", "elev"])
    header = tcols + [lcol, icol] + [k for k in ("lat", "lon") if meta[k]] + ([ecol] if meta["elev"] else []) + cols
    rng.shuffle(header)
    lines = []
    if rng.random() < 0.5:
        lines.append("# variable: Temperature")
        lines.append("# units: degC")
    if rng.random() < 0.2:
        lines.append("# x0: 0")
    if rng.random() < 0.15:
        lines.insert(rng.randrange(len(lines) + 1), rng.choice(["#", "# ", "# written by a script"]))      # comment lines among the metadata lines
    late_meta = []
    if lines and rng.random() < 0.3:          # metadata lines are recognised wherever they stand: here they follow the column header
        late_meta, lines = [l for l in lines if ":" in l], [l for l in lines if ":" not in l]
    lines.append(rng.choice([" ", "\t", "  "]).join(header))
    lines.extend(late_meta)
    lexed = []
    for (a, b, s, vals) in rows:
        toks = []
        for h in header:
            if h == "date":
                toks.append("%d" % days[a])
            elif h == "hour":
                toks.append("%d" % hours[a])
            elif h == "unixtime":
                toks.append("%d" % times[a])
            elif h in ("leadtime", "offset"):
                toks.append("%g" % leads[b])
            elif h in ("location", "id"):
                toks.append("%d" % locs[s][0])
            elif h == "lat":
                toks.append("%g" % locs[s][1])
            elif h == "lon":
                toks.append("%g" % locs[s][2])
            elif h in ("altitude", "elev"):
                toks.append("%g" % locs[s][3])
            else:
                v = vals[h]
                toks.append(rng.choice(["-999", "NA", "nan", "-999.0"]) if v is None else "%g" % v)
        lexed.append(toks)
        lines.append(rng.choice([" ", "\t", "   "]).join(toks))
        if rng.random() < 0.05:
            lines.append(rng.choice(["# a comment line", "#", "# ", "#comment without a space", "#\t"]))
    return {"times": sorted(times), "leads": sorted(leads), "locs": sorted(locs), "meta": meta, "cols": cols, "values": values,
            "header": header, "lexed": lexed, "text": "\n".join(lines) + "\n"}


def read_impl(path, spec):
    import verif.input
    inp = verif.input.Text(path)
    order = sorted(range(len(inp.locations)), key=lambda i: inp.locations[i].id)
    locs = [(inp.locations[i].id, inp.locations[i].lat, inp.locations[i].lon, inp.locations[i].elev) for i in order]
    cubes = {}

    def reord(a):
        return np.asarray(a)[:, :, order]
    for c in spec["cols"]:
        if c == "obs":
            cubes[c] = reord(inp.obs)
        elif c == "fcst":
            cubes[c] = reord(inp.fcst)
        elif c == "pit":
            cubes[c] = reord(inp.pit)
        elif c[0] == "p" and c != "pit":
            k = [i for i, t in enumerate(inp.thresholds) if abs(t - float(c[1:])) < 1e-9]
            cubes[c] = reord(inp.threshold_scores[:, :, :, k[0]]) if len(k) == 1 else None
        elif c[0] == "q" and c[1:].replace(".", "").isdigit():
            k = [i for i, t in enumerate(inp.quantiles) if abs(t - float(c[1:])) < 1e-9]
            cubes[c] = reord(inp.quantile_scores[:, :, :, k[0]]) if len(k) == 1 else None
        elif c[0] == "e" and c[1:].isdigit():
            k = [i for i, t in enumerate(inp.members) if abs(t - float(c[1:])) < 1e-9]
            cubes[c] = reord(inp.ensemble[:, :, :, k[0]]) if len(k) == 1 else None
        else:
            cubes[c] = reord(inp.other_score(c))
    return inp, [float(t) for t in inp.times], [float(t) for t in inp.leadtimes], locs, cubes


def explore(out, tier, seed, facts, replay=None):
    with common.quiet():
        return _explore(out, tier, seed, facts, replay)


def _explore(out, tier, seed, facts, replay):
    import verif.input
    datagen.patch_error()
    rng = random.Random(seed + 909)
    tmp = tempfile.mkdtemp(prefix="vfc09_")
    nf = 0
    distinct = set()
    samples = []
    exprs, expected, descr = [], [], []
    try:
        n = 60 if tier == "quick" else 800
        k = 0
        while k < n:
            spec = gen_file(rng)
            if spec is None:
                continue
            k += 1
            fn = os.path.join(tmp, "f%d.txt" % k)
            open(fn, "w").write(spec["text"])
            nf += 1
            distinct.add((tuple(spec["header"]), len(spec["lexed"])))
            try:
                inp, times, leads, locs, cubes = read_impl(fn, spec)
            except Exception as e:
                out.violation("reader-exception", "verif.input.Text raised %r on a well-formed file" % e, {"file": spec["text"]})
                continue
            # ---- falsifier: against the abstract dataset --------------------------------------------
            present = sorted({kk[0] for kk in spec["values"]}), sorted({kk[1] for kk in spec["values"]}), sorted({kk[2] for kk in spec["values"]})
            if times != [float(t) for t in present[0]] or not common.close_lists(leads, present[1]) or [l[0] for l in locs] != [float(i) for i in present[2]]:
                out.violation("dimensions", "dimensions read %r differ from the coordinates in the file %r" % ((times, leads, [l[0] for l in locs]), present), {"file": spec["text"]})
                continue
            ok = True
            for li, l in enumerate(locs):
                src = [s for s in spec["locs"] if s[0] == l[0]][0]
                want = (float(src[0]), src[1] if spec["meta"]["lat"] else 0.0, src[2] if spec["meta"]["lon"] else 0.0, src[3] if spec["meta"]["elev"] else 0.0)
                if not common.close_lists(list(l), list(want)):
                    out.violation("location-metadata", "location %r read as %r, file says %r" % (l[0], l, want), {"file": spec["text"]})
                    ok = False
            for c in spec["cols"]:
                if cubes[c] is None:
                    out.violation("column-not-recognised:%s" % c[0], "column %r was not recognised with its numeric value" % c, {"file": spec["text"]})
                    ok = False
                    continue
                for a, t in enumerate(present[0]):
                    for b, ld in enumerate(present[1]):
                        for s, i in enumerate(present[2]):
                            want = spec["values"].get((t, ld, i), {}).get(c)
                            got = float(cubes[c][a, b, s])
                            if not common.close(got, NAN if want is None else want):
                                out.violation("value-misplaced:%s" % ("other" if c not in ("obs", "fcst", "pit") and c[0] not in "pqe" else c[0]),
                                              "column %r at (time %r, lead %r, location %r) read as %r, the file has %r" % (c, t, ld, i, got, want), {"file": spec["text"]})
                                ok = False
                                break
                        if not ok:
                            break
                    if not ok:
                        break
            if "# variable: Temperature" in spec["text"] and (inp.variable.name != "Temperature" or inp.variable.units != "degC"):
                out.violation("variable-metadata", "variable/units read as %r/%r" % (inp.variable.name, inp.variable.units), {"file": spec["text"]})
            if "# x0: 0" in spec["text"] and inp.variable.x0 != 0:
                out.violation("variable-metadata", "x0 read as %r" % (inp.variable.x0,), {"file": spec["text"]})
            # ---- model -------------------------------------------------------------------------------
            exprs.append("run_text %s %s %s" % (datagen.coq_list(cstr(h) for h in spec["header"]),
                                                datagen.coq_list(datagen.coq_list(cstr(t) for t in row) for row in spec["lexed"]),
                                                datagen.coq_list(cstr(c) for c in spec["cols"])))
            exp = [float(len(times))] + times + [float(len(leads))] + [round(x * 1000) for x in leads] + [float(len(locs))]
            for l in locs:
                exp += [float(l[0]), round(l[1] * 1000), round(l[2] * 1000), round(l[3] * 1000)]
            for c in spec["cols"]:
                exp += [float(x) for x in (cubes[c].flatten() if cubes[c] is not None else [])]
            expected.append(exp)
            descr.append({"header": spec["header"], "rows": len(spec["lexed"])})
            if len(samples) < 2:
                samples.append({"file": spec["text"][:400]})
        # malformed stream: ragged row, header without data columns
        for bad, what in (("unixtime leadtime location obs fcst\n0 0 1 2\n", "ragged row"), ("unixtime leadtime location\n0 0 1\n", "no data column")):
            fn = os.path.join(tmp, "bad.txt")
            open(fn, "w").write(bad)
            nf += 1
            try:
                verif.input.Text(fn)
                out.violation("malformed-accepted", "a file with a %s was accepted" % what, {"file": bad})
            except datagen.ImplExit:
                pass
            except Exception as e:
                out.violation("malformed-exception", "a file with a %s raised %r instead of an error message" % (what, e), {"file": bad})
    finally:
        shutil.rmtree(tmp, ignore_errors=True)
    disagreements = []
    try:
        got = common.coq_eval_float_lists("From Coq Require Import String ZArith QArith.\nFrom VF Require Import Base.Num Model.Data Model.DataQ Model.TextParse Model.TextQ.\nOpen Scope string_scope.",
                                          exprs, "c09_%d" % seed, chunk=15, float_scope=False, timeout=900)
        for g, e, d in zip(got, expected, descr):
            if not common.close_lists(g, [float(x) for x in e], 1e-9):
                disagreements.append({"case": d, "model": g[:20], "implementation": e[:20]})
    except RuntimeError as ex:
        out.broken_obligation("tie:Model/TextParse.v", str(ex)[-1500:])
    if disagreements:
        out.broken_obligation("tie:Model/TextParse.v<->verif.input.Text", "%d of %d files differ; first %r" % (len(disagreements), len(exprs), disagreements[0]))
    return {
        "evaluations": len(exprs) + nf,
        "distinct_nontrivial": len(distinct),
        "rule": "abstract datasets (1-3 times/leads/locations, 15% absent combinations, 15% missing values) rendered with random column "
                "order and subset (lat/lon/elev optional, obs or fcst optional, pit, 0-3 p columns, 0-2 q columns, 0-3 members, other "
                "score), date+hour or unixtime, leadtime or offset, location or id, altitude or elev, comment/metadata lines, blank/tab "
                "separators, shuffled rows, 4 missing-value tokens; distinct = (header, #rows)",
        "samples": samples or [{"note": "none"}],
        "programs": len(exprs), "disagreements_checked": len(exprs), "tie_disagreements": len(disagreements),
        "falsifier_evaluations": nf, "traces_validated_against_impl": len(exprs),
    }
