"""datagen -- seeded generator of datasets / subsetting options / score requests, with two
back ends: the real implementation (verif.data.Data over in-memory inputs) and the Coq model
(Model/DataQ.v terms evaluated by vm_compute).  Everything random derives from one PRNG."""
import math
import random
from fractions import Fraction

import numpy as np

import common

NAN = float("nan")
AXES = ["time", "leadtime", "location", "no", "leadtimeday", "year", "month", "week", "day", "timeofday",
        "dayofyear", "dayofmonth", "monthofyear"]
ERR = [("within lat/lon range", 1), ("within elevation range", 2), ("No valid times", 3), ("No valid leadtimes", 4),
       ("No valid locations", 5), ("No files have observations", 6), ("does not contain", 7),
       ("input_index must be", 8)]


class ImplExit(Exception):
    pass


def patch_error():
    import verif.util

    def err(msg):
        raise ImplExit(str(msg))
    verif.util.error = err
    verif.util.warning = lambda msg: None


def err_code(msg):
    for s, c in ERR:
        if s in msg:
            return c
    return 99


# ------------------------------------------------------------------------------------------------
# generation

# unix times on day / month / year / leap-day / week boundaries and odd hours
TIME_POOL = [1325376000, 1325376000 + 6 * 3600, 1325462400, 1327968000, 1328054400 + 12 * 3600, 1330473600,
             1330560000, 1356912000, 1356998400, 1357016400, 951782400, 951868800, 1204243200 + 18 * 3600,
             86400 * 365, 1330300800, 1330300800 + 1800,
             -43200, -86400 * 400 + 6 * 3600, -86400 * 400,           # before 1970 (hindcasts), not all at 00 UTC
             943078800, 951891600, 1893824400, 1325443200]              # 06:20 UTC in 1999, 2000 and 2030; 18:40 UTC: the same clock time on dates far apart
LEAD_POOL = [0.0, 1.0, 1.5, 3.0, 6.0, 12.0, 23.0, 24.0, 25.5, 47.999, 48.0, 72.0]
LOC_POOL = [(1, 60.0, 10.0, 100.0), (2, 60.5, 10.5, 0.0), (7, 59.0, -120.0, 250.0), (18, -33.5, 151.25, 12.0),
            (41, 60.0, 10.0, 100.0), (3, 89.0, 179.0, 2500.0), (100, 0.0, 0.0, -5.0),
            (55, 45.0, 200.5, 30.0), (56, -10.0, 359.0, 5.0)]          # longitudes in the 0..360 convention
FIELDS = ["obs", "fcst", "pit", "other0"]


INF_RATE = 0.0      # share of cells holding an infinite value ("inf" / "-inf" in the spec); set by the checks that exercise it.
# An infinite value in an input is a value the scores cannot use: the model reads it as missing (None).


def gen_cube(rng, nt, nl, ns, miss):
    cube = []
    const = rng.random() < 0.05
    cval = rng.randint(-8, 8) / 4.0
    for _ in range(nt):
        plane = []
        for _ in range(nl):
            row = []
            for _ in range(ns):
                if rng.random() < miss:
                    row.append(None)
                elif INF_RATE and rng.random() < INF_RATE:
                    row.append(rng.choice(["inf", "inf", "-inf"]))
                elif const:
                    row.append(cval)
                else:
                    row.append(rng.randint(-12, 24) / 4.0 if rng.random() > 0.2 else rng.choice([0.0, 1.0, 2.5]))
            plane.append(row)
        cube.append(plane)
    return cube


def gen_input(rng, tp, lp, sp, with_obs=True, zero_rate=0.0, extras=("pit", "other0")):
    def pick(pool, kmin=1):
        if rng.random() < 0.7:
            return list(pool)
        k = rng.randint(max(kmin, len(pool) - 2), len(pool))
        return rng.sample(pool, k)
    times = pick(tp)
    leads = pick(lp)
    locs = pick(sp)
    if rng.random() < 0.15 and len(times) > 1:
        times.append(times[0])                # duplicate entry: first occurrence wins
    if rng.random() < 0.1 and len(leads) > 1:
        leads.insert(0, leads[-1])
    if rng.random() < 0.1 and len(locs) > 1:
        locs.append(locs[0])
    if rng.random() < 0.6:
        rng.shuffle(times)
        rng.shuffle(leads)
        rng.shuffle(locs)
    else:
        times.sort()
        leads.sort()
    fields = {}
    nt, nl, ns = len(times), len(leads), len(locs)
    for f in FIELDS:
        if f == "obs" and not with_obs:
            continue
        if f in ("pit", "other0") and rng.random() < 0.4:
            continue
        miss = rng.choice([0, 0, 0.1, 0.1, 0.5, 1.0 if rng.random() < 0.2 else 0.3])
        cube = gen_cube(rng, nt, nl, ns, miss)
        if f == "fcst" and zero_rate:
            for p in cube:
                for r in p:
                    for i in range(len(r)):
                        if r[i] is not None and rng.random() < zero_rate:
                            r[i] = 0.0
        if rng.random() < 0.1 and nt > 1:      # a whole slice missing
            cube[rng.randrange(nt)] = [[None] * ns for _ in range(nl)]
        fields[f] = cube
    return {"times": times, "leads": leads, "locs": [list(x) for x in locs], "fields": fields}


def gen_dataset(rng, options=True):
    tp = rng.sample(TIME_POOL, rng.randint(1, 5))
    lp = rng.sample(LEAD_POOL, rng.randint(1, 4))
    sp = rng.sample(LOC_POOL, rng.randint(1, 4))
    n = rng.choice([1, 2, 2, 3, 4])
    extras = tuple(f for f in ("pit", "other0") if rng.random() < 0.75)
    inputs = []
    for i in range(n):
        # mostly the shared pool (non-trivial intersections), sometimes an extra entry
        tpi = tp + ([rng.choice(TIME_POOL)] if rng.random() < 0.2 else [])
        lpi = lp + ([rng.choice(LEAD_POOL)] if rng.random() < 0.2 else [])
        spi = sp + ([rng.choice(LOC_POOL)] if rng.random() < 0.2 else [])
        tpi, lpi, spi = list(dict.fromkeys(tpi)), list(dict.fromkeys(lpi)), list(dict.fromkeys(spi))
        full = rng.random() < 0.7
        inp = gen_input(rng, tpi, lpi, spi, with_obs=(i == 0 or rng.random() < 0.7), extras=extras)
        if full:       # make most inputs cover the whole pool so that the intersection is not tiny
            inp = gen_input(rng, tp, lp, sp, with_obs=(i == 0 or rng.random() < 0.7), extras=extras)
            if rng.random() < 0.5:
                pass
        inputs.append(inp)
    # make sure full coverage is common: force list lengths up
    cfg = {}
    if rng.random() < 0.5:
        cfg["clim"] = gen_input(rng, tp, lp, sp, with_obs=rng.random() < 0.3, zero_rate=0.15, extras=extras)
        cfg["clim_divide"] = rng.random() < 0.5
    if options:
        def near(vals, scale=1.0):
            v = rng.choice(vals)
            return rng.choice([v, v, v, v, v, v + scale, v - scale])
        alltimes = sorted({t for i in inputs for t in i["times"]})
        allleads = sorted({t for i in inputs for t in i["leads"]})
        allids = sorted({s[0] for i in inputs for s in i["locs"]})
        lats = [s[1] for s in inputs[0]["locs"]]
        lons = [s[2] for s in inputs[0]["locs"]]
        elevs = [s[3] for s in inputs[0]["locs"]]
        if rng.random() < 0.15:
            cfg["times"] = [near(alltimes, 3600) for _ in range(rng.randint(1, 5) if rng.random() < 0.9 else 0)]
        if rng.random() < 0.15:
            ds = sorted({int(t // 86400) * 86400 for t in alltimes})
            cfg["dates"] = [rng.choice(ds) + rng.choice([0, 0, 86400]) for _ in range(rng.randint(1, 3))]
        if rng.random() < 0.15:
            hours = [(t % 86400) / 3600.0 for t in alltimes if (t % 86400) % 36 == 0]      # hours expressible in thousandths (the model's unit); 06:20 is not
            cfg["tods"] = [rng.choice(hours + hours + [5, 0.5]) for _ in range(rng.randint(1, 2))]
        if rng.random() < 0.15:
            cfg["leads"] = [near(allleads, 0.5) for _ in range(rng.randint(1, 5) if rng.random() < 0.9 else 0)]
        if rng.random() < 0.15:
            cfg["locs"] = [near(allids, 1) for _ in range(rng.randint(1, 5) if rng.random() < 0.9 else 0)]
        if rng.random() < 0.2:
            cfg["locs_x"] = [near(allids, 1) for _ in range(rng.randint(0, 2))]
        if rng.random() < 0.2:
            a, b = near(lats, 0.5), near(lats, 0.5)
            cfg["lat"] = [min(a, b), max(a, b)] if rng.random() < 0.9 else [max(a, b) + 1, min(a, b)]
        if rng.random() < (0.6 if "lat" in cfg else 0.2):      # both ranges together are common: a lat/lon box
            a, b = near(lons, 0.5), near(lons, 0.5)
            cfg["lon"] = [min(a, b), max(a, b)]
        if rng.random() < 0.2:
            a, b = near(elevs, 1.0), near(elevs, 1.0)
            cfg["elev"] = [min(a, b), max(a, b)]
        if rng.random() < 0.2:
            a, b = rng.randint(-8, 12) / 4.0, rng.randint(-8, 24) / 4.0
            cfg["obs_range"] = [min(a, b), max(a, b)]
    return {"inputs": inputs, "cfg": cfg}


def gen_requests(rng, ds, sizes, n):
    """sizes: list of axis sizes (13).  Requests mix single / multiple fields, inputs, axes, slices"""
    reqs = []
    ninp = len(ds["inputs"])
    combos = [["obs"], ["fcst"], ["obs", "fcst"], ["fcst", "obs"], ["pit"], ["obs", "pit"], ["other0"],
              ["obs", "fcst", "other0"], ["fcst", "pit"]]
    allinp = ds["inputs"] + ([ds["cfg"]["clim"]] if "clim" in ds["cfg"] else [])
    avail = {f for f in FIELDS if all(f in i["fields"] for i in allinp)} | {"obs"}
    good = [c for c in combos if set(c) <= avail] or combos
    for _ in range(n):
        fs = rng.choice(good if rng.random() < 0.9 else combos)
        k = rng.randrange(ninp) if rng.random() > 0.03 else ninp
        ax = rng.randrange(len(AXES))
        size = int(sizes[ax]) if sizes else 1
        if size == 0:
            continue      # Metric.compute loops over range(size): no slice exists
        ai = rng.randrange(size)
        reqs.append((fs, k, ax, ai))
    return reqs


# ------------------------------------------------------------------------------------------------
# implementation back end

def field_obj(name):
    import verif.field
    if name == "obs":
        return verif.field.Obs()
    if name == "fcst":
        return verif.field.Fcst()
    if name == "pit":
        return verif.field.Pit()
    if name.startswith("other"):
        return verif.field.Other(name)
    if name.startswith("ens"):
        return verif.field.Ensemble(int(name[3:]))
    if name.startswith("qu"):          # quantile level derived from the ensemble (or stored)
        return verif.field.Quantile(float(name[2:]))
    if name.startswith("th"):          # P(X <= threshold) derived from the ensemble (or stored)
        return verif.field.Threshold(float(name[2:]))
    raise KeyError(name)


def axis_obj(i):
    import verif.axis
    return verif.axis.get(AXES[i])


def mem_input(spec, name):
    import verif.input
    import verif.location
    import verif.variable

    class MemInput(verif.input.Input):
        description = "in-memory input (harness)"

        def other_score(self, nm):
            return self._other[nm]
    m = MemInput()
    m.fullname = name
    m.times = np.array(spec["times"], float)
    m.leadtimes = np.array(spec["leads"], float)
    m.locations = [verif.location.Location(s[0], s[1], s[2], s[3]) for s in spec["locs"]]
    m.thresholds = np.array([])
    m.quantiles = np.array([])
    m.variable = verif.variable.Variable("T", "C")
    m.ensemble = None
    m.threshold_scores = None
    m.quantile_scores = None

    def arr(c):
        return np.array([[[NAN if v is None else (float(v) if isinstance(v, str) else v) for v in r] for r in p] for p in c], float).reshape(
            len(spec["times"]), len(spec["leads"]), len(spec["locs"]))
    m.obs = arr(spec["fields"]["obs"]) if "obs" in spec["fields"] else None
    m.fcst = arr(spec["fields"]["fcst"]) if "fcst" in spec["fields"] else None
    m.pit = arr(spec["fields"]["pit"]) if "pit" in spec["fields"] else None
    ens = sorted((int(k[3:]), k) for k in spec["fields"] if k.startswith("ens"))
    if ens:
        m.ensemble = np.stack([arr(spec["fields"][k]) for _, k in ens], axis=3)
    m._other = {k: arr(v) for k, v in spec["fields"].items() if k.startswith("other")}
    m.other_fields = sorted(m._other)
    return m


def impl_data(ds):
    """returns verif.data.Data or ('error', code)"""
    import verif.data
    cfg = ds["cfg"]
    inputs = [mem_input(s, "in%d" % i) for i, s in enumerate(ds["inputs"])]
    kw = {}
    if "clim" in cfg:
        kw["clim"] = mem_input(cfg["clim"], "clim")
        kw["clim_type"] = "divide" if cfg.get("clim_divide") else "subtract"
    if "times" in cfg:
        kw["times"] = np.array(cfg["times"], float)
    if "dates" in cfg:
        import verif.util
        kw["dates"] = [verif.util.unixtime_to_date(t) for t in cfg["dates"]]
    if "tods" in cfg:
        kw["tods"] = cfg["tods"]
    if "leads" in cfg:
        kw["leadtimes"] = np.array(cfg["leads"], float)
    if "locs" in cfg:
        kw["locations"] = list(cfg["locs"])
    if "locs_x" in cfg:
        kw["locations_x"] = list(cfg["locs_x"])
    for a, b in (("lat", "lat_range"), ("lon", "lon_range"), ("elev", "elev_range"), ("obs_range", "obs_range")):
        if a in cfg:
            kw[b] = cfg[a]
    try:
        return verif.data.Data(inputs, **kw)
    except ImplExit as e:
        return ("error", err_code(str(e)))
    except Exception as e:          # an unhandled exception is an outcome of its own
        return ("exception", type(e).__name__)


def impl_dims(d):
    return ([int(t) for t in d.times], [float(x) for x in d.leadtimes], [float(l.id) for l in d.locations])


def impl_request(d, req):
    """d: a Data object, or a dataset dict (then a FRESH Data is built for this one request)"""
    fs, k, ax, ai = req
    if isinstance(d, dict):
        d = impl_data(d)
        if isinstance(d, tuple):
            return d
    try:
        r = d.get_scores([field_obj(f) for f in fs], k, axis_obj(ax), ai)
        return [[float(v) for v in np.asarray(c).flatten()] for c in r]
    except ImplExit as e:
        return ("error", err_code(str(e)))
    except Exception as e:          # an unhandled exception is an outcome of its own
        return ("exception", type(e).__name__)


# ------------------------------------------------------------------------------------------------
# Coq back end

def zmilli(x):
    v = Fraction(str(x)) * 1000
    if v.denominator != 1:
        raise ValueError("coordinate %r is not a multiple of 0.001" % x)
    return "(%d)" % v.numerator


def zint(x):
    return "(%d)" % int(x)


def qlit(v):
    if v is None or isinstance(v, str):      # "inf" / "-inf": unusable, read as missing by the model
        return "None"
    fr = Fraction(str(v))
    return "(Some (%d # %d)%%Q)" % (fr.numerator, fr.denominator)


def qraw(v):
    fr = Fraction(str(v))
    return "(%d # %d)%%Q" % (fr.numerator, fr.denominator)


def coq_list(items):
    return "[" + "; ".join(items) + "]"


def coq_field(name):
    if name.startswith("ens"):
        return "(FOther %d)" % (100 + int(name[3:]))      # ensemble member m is modelled as one more per-input array
    return {"obs": "FObs", "fcst": "FFcst", "pit": "FPit"}.get(name) or "(FOther %d)" % int(name[5:])


def coq_input(spec):
    locs = coq_list("Build_loc %s %s %s %s" % (zint(s[0]), zmilli(s[1]), zmilli(s[2]), zmilli(s[3])) for s in spec["locs"])
    flds = coq_list("(%s, %s)" % (coq_field(k), coq_list(coq_list(coq_list(qlit(v) for v in r) for r in p) for p in c))
                    for k, c in spec["fields"].items())
    return "(Build_input Q %s %s %s %s)" % (coq_list(zint(t) for t in spec["times"]),
                                            coq_list(zmilli(t) for t in spec["leads"]), locs, flds)


def coq_opt(v, f):
    return "None" if v is None else "(Some %s)" % f(v)


def coq_config(cfg):
    def zl(key, conv):
        return coq_opt(cfg.get(key), lambda l: coq_list(conv(x) for x in l))

    def rng2(key):
        return coq_opt(cfg.get(key), lambda r: "(%s, %s)" % (zmilli(r[0]), zmilli(r[1])))
    obsr = coq_opt(cfg.get("obs_range"), lambda r: "(%s, %s)" % (qraw(r[0]), qraw(r[1])))
    clim = coq_opt(cfg.get("clim"), coq_input)
    return ("(Build_config Q %s %s %s %s %s %s %s %s %s %s %s %s)"
            % (zl("times", zint), zl("dates", zint), zl("tods", zmilli), zl("leads", zmilli), zl("locs", zint),
               zl("locs_x", zint), rng2("lat"), rng2("lon"), rng2("elev"), obsr, clim,
               "true" if cfg.get("clim_divide") else "false"))


def coq_requests(reqs):
    return coq_list("(%s, %d, %d, %d)%%nat" % (coq_list(coq_field(f) for f in fs), k, ax, ai) for fs, k, ax, ai in reqs)


PREAMBLE = ("From Coq Require Import ZArith QArith.\n"
            "From VF Require Import Base.Num Model.Data Model.Cal Model.DataQ.\nOpen Scope Z_scope.")


def decode_case(flat):
    """inverse of DataQ.run_case's encoding -> ('error', code) or (dims, [request results])"""
    if len(flat) >= 2 and flat[0] == -7:
        return ("error", int(flat[1]))
    pos = 0
    dims = []
    for _ in range(3):
        n = int(flat[pos])
        dims.append(flat[pos + 1:pos + 1 + n])
        pos += 1 + n
    res = []
    while pos < len(flat):
        assert flat[pos] == -9, "bad marker at %d" % pos
        pos += 1
        if flat[pos] == -7:
            res.append(("error", int(flat[pos + 1])))
            pos += 2
            continue
        ncol = int(flat[pos])
        pos += 1
        cols = []
        for _ in range(ncol):
            n = int(flat[pos])
            cols.append(flat[pos + 1:pos + 1 + n])
            pos += 1 + n
        res.append(cols)
    return (dims, res)
