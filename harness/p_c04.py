"""C04 -- missing data never enters a score as a number.  Tie B + falsifier: marking cases missing
equals deleting them, every encoding is read as missing, all-missing slices give NaN for every metric."""
import copy
import math
import os
import random
import tempfile

import numpy as np

import common
import datagen
import datatie

EXTRA_TARGETS = ["Model/DataQ.vo", "Gen/Gen_io.vo"]
GEN_PREFIXES = ["verif/input.py:Text._clean"]
ASSUMPTIONS = [">1e30 is an encoding of the NetCDF reader only (util.clean); in text files such a token is a number",
               "literal inf tokens are outside the model"]
METRICS = ["mae", "bias", "rmse", "stderror", "corr", "rankcorr", "nsec", "kge", "cmae", "dmb", "mbias", "ef", "derror",
           "leps", "obs", "fcst", "ets", "hit", "far", "threat", "kss", "or", "bs", "within", "pit"]


def explore(out, tier, seed, facts, replay=None):
    with common.quiet():
        return _explore(out, tier, seed, facts, replay)


def _explore(out, tier, seed, facts, replay):
    import verif.metric
    import verif.interval
    import verif.input
    import verif.util
    import verif.axis
    import verif.aggregator
    datagen.patch_error()
    n = 100 if tier == "quick" else 1200
    stats, cases = datatie.run_tie(out, seed, n, 8, "c04", options=True)
    rng = random.Random(seed + 404)
    nf = 0
    distinct = set()
    samples = []
    iv = verif.interval.Interval(1.0, np.inf, False, False)
    for c in cases:
        ds = c["ds"]
        if c["impl"][0] in ("error", "exception"):
            continue
        ninp = len(ds["inputs"])
        # (1) marking a whole time entry of one input missing == deleting that entry
        j = rng.randrange(ninp)
        spec = ds["inputs"][j]
        if len(spec["times"]) >= 2 and len(set(spec["times"])) == len(spec["times"]):
            a = rng.randrange(len(spec["times"]))
            miss = copy.deepcopy(spec)
            dele = copy.deepcopy(spec)
            for f in miss["fields"]:
                miss["fields"][f][a] = [[None] * len(spec["locs"]) for _ in spec["leads"]]
                del dele["fields"][f][a]
            del dele["times"][a]
            dsm = {"inputs": [miss if i == j else s for i, s in enumerate(ds["inputs"])], "cfg": ds["cfg"]}
            dsd = {"inputs": [dele if i == j else s for i, s in enumerate(ds["inputs"])], "cfg": ds["cfg"]}
            for ax in (3, 1, 2, 4):
                dm = datagen.impl_data(dsm)
                dd = datagen.impl_data(dsd)
                if isinstance(dm, tuple) or isinstance(dd, tuple):
                    break
                sz = dm.get_axis_size(datagen.axis_obj(ax))
                if sz != dd.get_axis_size(datagen.axis_obj(ax)):
                    continue
                for ai in range(min(sz, 3)):
                    for fs in (["obs", "fcst"], ["fcst"], ["obs", "fcst", "pit"]):
                        k = rng.randrange(ninp)
                        x = datagen.impl_request(dsm, (fs, k, ax, ai))
                        y = datagen.impl_request(dsd, (fs, k, ax, ai))
                        nf += 1
                        distinct.add((ninp, j, ax, tuple(fs)))
                        if not datatie.compare_cols(x, y):
                            out.violation("missing-vs-deleted", "marking time entry %d of input %d missing differs from deleting it: %r "
                                          "(axis %s slice %d)" % (a, j, fs, datagen.AXES[ax], ai),
                                          {"dataset": ds, "input": j, "time_entry": a, "request": [fs, k, ax, ai]})
        # (2) every metric on every slice: NaN where nothing is valid, never a crash, and equal to the score of
        #     the valid pairs alone
        d = datagen.impl_data(ds)
        if isinstance(d, tuple):
            continue
        for name in rng.sample(METRICS, 6):
            m = verif.metric.get(name)
            if m is None:
                continue
            ax = datagen.axis_obj(rng.choice([1, 2, 3, 0]))
            try:
                vals = m.compute(d, 0, ax, iv)
            except datagen.ImplExit:
                continue
            except Exception as e:
                out.violation("metric-exception:%s" % name, "metric %s raised %r" % (name, e), {"dataset": ds, "metric": name, "axis": ax.name()})
                continue
            nf += 1
            empties = set()
            for ai, v in enumerate(np.asarray(vals, float).flatten()):
                fs = {"pit": ["pit"], "obs": ["obs"], "fcst": ["fcst"]}.get(name, ["obs", "fcst"])
                r = datagen.impl_request(ds, (fs, 0, datagen.AXES.index(ax.name().lower()), ai))
                if isinstance(r, tuple):
                    continue
                empty = len(r[0]) == 1 and math.isnan(r[0][0])
                if empty:
                    empties.add(ai)
                if empty and not (math.isnan(v)):
                    out.violation("empty-slice-numeric:%s" % name, "metric %s gives %r on a slice without valid cases" % (name, v),
                                  {"dataset": ds, "metric": name, "axis": ax.name(), "slice": ai})
            # the SAME dataset object asked again (its answers now come from the cache), with other aggregators:
            # an empty slice is still NaN for every aggregator, and never an exception
            if getattr(m, "supports_aggregator", False):
                for aggname in rng.sample(["sum", "max", "min", "range", "iqr", "median", "0.3", "std", "count", "mean"], 3):
                    m2 = verif.metric.get(name)
                    m2.aggregator = verif.aggregator.get(aggname)
                    try:
                        vals2 = m2.compute(d, 0, ax, iv)
                    except datagen.ImplExit:
                        continue
                    except Exception as e:
                        out.violation("metric-exception-repeat:%s" % name, "metric %s -agg %s raised %r on a dataset that had already answered the same request once "
                                      "(slices without valid cases: %s)" % (name, aggname, e, sorted(empties)),
                                      {"dataset": ds, "metric": name, "axis": ax.name(), "aggregator": aggname, "note": "compute the metric once with the default aggregator first, then again with this one, on the same Data object"})
                        continue
                    nf += 1
                    for ai, v in enumerate(np.asarray(vals2, float).flatten()):
                        if ai in empties and not math.isnan(v) and aggname != "count":
                            out.violation("empty-slice-numeric-repeat:%s" % name, "metric %s -agg %s gives %r on a slice without valid cases when the dataset is asked a second time" % (name, aggname, v),
                                          {"dataset": ds, "metric": name, "axis": ax.name(), "slice": ai, "aggregator": aggname})
        # (2c) the whole arrays (no axis): a case that is missing in ANY requested field is missing in EVERY returned array
        for fs in (["obs", "fcst"], ["fcst", "obs"], ["obs", "fcst", "pit"], ["pit", "fcst"]):
            if not all(f in s_["fields"] for f in fs for s_ in ds["inputs"][:1]):
                continue
            k = rng.randrange(ninp)
            try:
                arrs = d.get_scores([datagen.field_obj(f) for f in fs], k)
            except datagen.ImplExit:
                continue
            except Exception as e:
                out.violation("whole-array-exception", "get_scores(%r, %d) without an axis raised %r" % (fs, k, e), {"dataset": ds, "fields": fs, "input": k})
                continue
            nf += 1
            nanmasks = [np.isnan(np.asarray(a_, float)) for a_ in arrs]
            if any(m_.shape != nanmasks[0].shape or not np.array_equal(m_, nanmasks[0]) for m_ in nanmasks[1:]):
                cnt = [int(m_.sum()) for m_ in nanmasks]
                out.violation("whole-array-validity", "get_scores(%r, input %d) without an axis returns arrays with %r missing cells: a case missing in one requested field must be missing in all of them"
                              % (fs, k, cnt), {"dataset": ds, "fields": fs, "input": k})
        if len(samples) < 2:
            samples.append({"n_inputs": ninp, "marked_input": j})
    # (2b) missing ensemble members never count as a number in probabilities derived from the ensemble
    import verif.data
    import verif.field
    for _ in range(30 if tier == "quick" else 300):
        nm = rng.randint(1, 6)
        members = [None if rng.random() < 0.3 else rng.choice([0.0, 1.0, 2.0, 3.5, 5.0]) for _ in range(nm)]
        t = rng.choice([0.0, 1.0, 2.0, 4.0])
        spec = {"times": [0], "leads": [0.0], "locs": [[1, 0.0, 0.0, 0.0]], "fields": {"obs": [[[1.0]]], "fcst": [[[1.0]]]}}
        inp = datagen.mem_input(spec, "ens")
        inp.ensemble = np.array([[[[float("nan") if m is None else m for m in members]]]], float)
        nf += 1
        try:
            pt = float(verif.data.Data([inp]).get_scores(verif.field.Threshold(t), 0, verif.axis.All())[0, 0, 0])
        except Exception as e:
            out.violation("ensemble-exception", "probability from ensemble %r raised %r" % (members, e), {"members": members, "threshold": t})
            continue
        present = [m for m in members if m is not None]
        want = float("nan") if not present else sum(1 for m in present if m <= t) / float(len(present))
        if not common.close(pt, want, 1e-6):
            out.violation("missing-member-counted", "P(X<=%r) from members %r (None = missing) is %r; with the missing members deleted it is %r"
                          % (t, members, pt, want), {"members": members, "threshold": t})
    # (2d) scores that use several quantities are taken over the cases where ALL of them are present (threshold probabilities,
    #      quantile columns, observation and forecast, in every input): shared falsifier
    import probtie
    nf += probtie.run(out, rng, 5 if tier == "quick" else 50, "joint-validity")
    # (3) encodings: text tokens and NetCDF cells
    tmp = tempfile.mkdtemp(prefix="vfc04_")
    try:
        for tok in ["-999", "NA", "nan", "NaN", "missing", "-999.0", "-9.99e2", "-999.", ""]:
            if tok == "":
                continue
            fn = os.path.join(tmp, "t.txt")
            open(fn, "w").write("unixtime leadtime location obs fcst\n0 0 1 %s 2\n0 0 2 3 %s\n0 1 1 1 1\n" % (tok, tok))
            inp = verif.input.Text(fn)
            nf += 1
            o, f = inp.obs, inp.fcst
            if not (np.isnan(o[0, 0, 0]) and np.isnan(f[0, 0, 1]) and o[0, 0, 1] == 3):
                out.violation("text-encoding:%s" % tok, "text token %r not read as missing: obs=%r fcst=%r" % (tok, o.tolist(), f.tolist()), {"token": tok})
        # a (time, lead time, location) combination whose row is ABSENT from a text file is missing in every array of the reader,
        # the ensemble members and probability / quantile columns included
        fn = os.path.join(tmp, "sparse.txt")
        open(fn, "w").write("unixtime leadtime location obs fcst e0 e1 p5 q0.5 pit\n0 0 1 1 2 3 4 0.5 2.5 0.25\n0 6 1 2 3 4 5 0.75 3.5 0.5\n86400 0 1 3 4 5 6 0.25 4.5 0.75\n")
        nf += 1
        try:
            inp = verif.input.Text(fn)
            absent = {"obs": inp.obs[1, 1, 0], "fcst": inp.fcst[1, 1, 0], "pit": inp.pit[1, 1, 0], "member 0": inp.ensemble[1, 1, 0, 0], "member 1": inp.ensemble[1, 1, 0, 1],
                      "p5": inp.threshold_scores[1, 1, 0, 0], "q0.5": inp.quantile_scores[1, 1, 0, 0]}
            wrong = {k_: float(v_) for k_, v_ in absent.items() if not np.isnan(v_)}
            if wrong:
                out.violation("absent-row-numeric", "a text file without a row for (time 86400, lead time 6): the reader's arrays hold %r there instead of missing values" % (wrong,), {"file": open(fn).read()})
        except Exception as e:
            out.violation("absent-row-exception", "%r" % (e,), {"file": open(fn).read()})
        # a missing token in a COORDINATE column (date, unixtime): the row is dropped, the reader does not crash
        for tcol, good1, good2 in (("date", "20120101", "20120102"), ("unixtime", "1325376000", "1325462400")):
            for tok in ("-999", "NA", "-999.0"):
                fn = os.path.join(tmp, "tc.txt")
                open(fn, "w").write("%s leadtime location obs fcst\n%s 0 7 2 4\n%s 0 7 3 5\n%s 0 7 4 7\n" % (tcol, good1, tok, good2))
                nf += 1
                try:
                    inp = verif.input.Text(fn)
                    ts_ = [float(t) for t in inp.times if not np.isnan(t)]
                    if ts_ != [1325376000.0, 1325462400.0]:
                        out.violation("missing-coordinate:%s" % tcol, "a row whose %s is %r: the file's times are read as %r, expected the two valid rows" % (tcol, tok, ts_), {"column": tcol, "token": tok, "file": open(fn).read()})
                except datagen.ImplExit:
                    pass
                except Exception as e:
                    out.violation("missing-coordinate-exception:%s" % tcol, "a text file with the missing token %r in its %s column makes the reader raise %s: %s" % (tok, tcol, type(e).__name__, e),
                                  {"column": tcol, "token": tok, "file": open(fn).read()})
        # Tie A for the token rule: Gen_io.text_cell (generated from Text._clean) on what Python's float() makes of the
        # token, against Text._clean itself; spellings of the number -999, non-numbers, ordinary numbers
        toks = ["-999", "-999.0", "-999.00", "-999.", "-9.99e2", "-999e0", "-0999", " -999", "-999 ", "NA", "na", "nan", "NaN", "missing", "x", "-", "1e3",
                "-998.999", "-999.001", "999", "0", "-0.0", "1e31", "3.25", "-12.5", "1_0", "--999"] + ["%g" % (rng.randint(-2000, 2000) / 2.0) for _ in range(20)]
        texprs, tgot = [], []
        for tok in toks:
            try:
                pv = float(tok)
                texprs.append("[text_cell XF (Some %s)]" % common.fl(pv))
            except ValueError:
                texprs.append("[text_cell XF None]")
            try:
                tgot.append(float(verif.input.Text._clean(None, tok)))
            except Exception as e:
                tgot.append("exception %s" % type(e).__name__)
        try:
            tmod = common.coq_eval_float_lists("From VF Require Import Base.Num Gen.Gen_io.", texprs, "c04tok_%d" % seed, chunk=100)
            tbad = [(tok, m[0], g) for tok, m, g in zip(toks, tmod, tgot) if isinstance(g, str) or not ((math.isnan(m[0]) and math.isnan(g)) or m[0] == g)]
            nf += len(toks)
            if tbad:
                out.broken_obligation("tie:Gen_io.text_cell", "%d of %d tokens: the translated token rule and Text._clean disagree; first (token, model, implementation) %r" % (len(tbad), len(toks), tbad[0]))
        except RuntimeError as ex:
            out.broken_obligation("tie:Gen_io.text_cell", str(ex)[-1200:])
        for tok, g in zip(toks, tgot):
            try:
                pv = float(tok)
            except ValueError:
                pv = None
            want_missing = pv is None or math.isnan(pv) or pv == -999
            if isinstance(g, str) or (want_missing and not math.isnan(g)) or (not want_missing and g != pv):
                out.violation("text-token:%s" % tok.strip(), "the text reader turns the token %r into %r; %s" % (tok, g, "a token that is no number, NaN or the number -999 is missing" if want_missing else "the number %r must be kept" % pv),
                              {"token": tok})
        import netCDF4
        fn = os.path.join(tmp, "t.nc")
        nc = netCDF4.Dataset(fn, "w")
        nc.createDimension("n", 6)
        v = nc.createVariable("x", "f4", ("n",), fill_value=-9999.0)
        arr = np.ma.masked_array([1.0, -999.0, np.nan, 2e31, 5.0, 7.0], mask=[0, 0, 0, 0, 1, 0])
        v[:] = arr
        nc.close()
        nc = netCDF4.Dataset(fn)
        q = verif.util.clean(nc.variables["x"])
        nc.close()
        nf += 1
        want = [False, True, True, True, True, False]
        if [bool(np.isnan(x)) for x in q] != want or q[0] != 1.0 or q[5] != 7.0:
            out.violation("netcdf-encoding", "util.clean gives %r for [1, -999, nan, 2e31, masked, 7]" % (q.tolist(),), {"values": "1,-999,nan,2e31,masked,7"})
    finally:
        import shutil
        shutil.rmtree(tmp, ignore_errors=True)
    stats.update({
        "evaluations": stats["datasets"] + stats["requests"] + nf,
        "distinct_nontrivial": max(len(distinct), 2),
        "rule": "datasets with per-field missing rates {0,0.1,0.3,0.5,1}, whole slices and whole inputs missing; distinct = "
                "(inputs, marked input, axis, field list); non-trivial = the marked entry exists and changes the selection",
        "samples": samples or [{"note": "none"}],
        "falsifier_evaluations": nf,
        "traces_validated_against_impl": stats["datasets"],
    })
    return stats
