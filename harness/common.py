"""common -- shared machinery of ./check: build of the Coq development, evaluation of model
definitions inside coqc, verdicts, evidence files, known findings."""
import fcntl
import json
import math
import os
import re
import subprocess
import sys
import time
from concurrent.futures import ThreadPoolExecutor

VERIF = os.path.dirname(os.path.dirname(os.path.abspath(__file__)))
REPO = os.environ.get("VERIF_REPO", "/repo")
COQ = os.path.join(VERIF, "coq")
CASES = os.path.join(COQ, "Cases")
EVID = os.path.join(VERIF, "evidence")
REPLAY = os.path.join(EVID, "replay")
PY = "/venv/bin/python"

FORBIDDEN = re.compile(r"\b(Admitted|admit|Axiom|Axioms|Parameter|Parameters|Conjecture|Hypothesis|"
                       r"bypass_check|Unset\s+Guard|Unset\s+Positivity|Unset\s+Universe|Admit\s+Obligations)\b|"
                       r"type-in-type|impredicative-set")


def log(msg):
    sys.stderr.write(msg + "\n")
    sys.stderr.flush()


class quiet:
    """silence the implementation's own stdout/stderr chatter (error messages, warnings)"""

    def __enter__(self):
        sys.stdout.flush()
        sys.stderr.flush()
        self.saved = (os.dup(1), os.dup(2))
        self.null = os.open(os.devnull, os.O_WRONLY)
        os.dup2(self.null, 1)
        os.dup2(self.null, 2)
        return self

    def __exit__(self, *a):
        sys.stdout.flush()
        sys.stderr.flush()
        os.dup2(self.saved[0], 1)
        os.dup2(self.saved[1], 2)
        os.close(self.saved[0])
        os.close(self.saved[1])
        os.close(self.null)


class Lock:
    def __enter__(self):
        os.makedirs(CASES, exist_ok=True)
        self.f = open(os.path.join(COQ, ".lock"), "w")
        fcntl.flock(self.f, fcntl.LOCK_EX)
        return self

    def __exit__(self, *a):
        fcntl.flock(self.f, fcntl.LOCK_UN)
        self.f.close()


def run(cmd, timeout, cwd=None, env=None):
    try:
        p = subprocess.run(cmd, cwd=cwd, env=env, stdout=subprocess.PIPE, stderr=subprocess.STDOUT,
                           timeout=timeout, text=True)
        return p.returncode, p.stdout
    except subprocess.TimeoutExpired as e:
        out = e.stdout if isinstance(e.stdout, str) else (e.stdout or b"").decode("utf8", "replace")
        return 124, (out or "") + "\nTIMEOUT after %ss" % timeout


def strip_comments(text):
    out, depth, i = [], 0, 0
    while i < len(text):
        if text.startswith("(*", i):
            depth += 1
            i += 2
        elif text.startswith("*)", i) and depth > 0:
            depth -= 1
            i += 2
        else:
            if depth == 0:
                out.append(text[i])
            i += 1
    return "".join(out)


def forbidden_scan():
    """fail closed on Admitted/Axiom/... anywhere in the development (comments excluded)"""
    bad = []
    for root, _, files in os.walk(COQ):
        for fn in files:
            if fn.endswith(".v"):
                p = os.path.join(root, fn)
                txt = strip_comments(open(p).read())
                for m in FORBIDDEN.finditer(txt):
                    # `Variable`/`Context` inside sections are fine; Hypothesis is refused outright
                    bad.append("%s: %s" % (os.path.relpath(p, COQ), m.group(0)))
    return bad


def translate():
    """regenerate coq/Gen/*.v from the working tree of REPO; returns (ok, output, report)"""
    rc, out = run([PY, os.path.join(VERIF, "translator", "targets.py"), "--repo", REPO, "--out",
                   os.path.join(COQ, "Gen")], 300)
    rep = {}
    try:
        rep = json.load(open(os.path.join(COQ, "Gen", "translation_report.json")))
    except Exception:
        pass
    return rc == 0, out, rep


def coq_files():
    fl = []
    for sub in ("Base", "Gen", "Model", "Proofs", "Properties"):
        d = os.path.join(COQ, sub)
        if os.path.isdir(d):
            for fn in sorted(os.listdir(d)):
                if fn.endswith(".v"):
                    fl.append("%s/%s" % (sub, fn))
    return fl


def ensure_makefile():
    proj = "-Q . VF\n-arg -w -arg -notation-overridden,-deprecated,-ambiguous-paths,-unused-pattern-matching-variable\n"
    proj += "\n".join(coq_files()) + "\n"
    p = os.path.join(COQ, "_CoqProject")
    old = open(p).read() if os.path.exists(p) else None
    if old != proj or not os.path.exists(os.path.join(COQ, "Makefile.coq")):
        open(p, "w").write(proj)
        rc, out = run(["coq_makefile", "-f", "_CoqProject", "-o", "Makefile.coq"], 120, cwd=COQ)
        if rc != 0:
            raise RuntimeError("coq_makefile failed: " + out)


def make(targets, timeout=1500, jobs=16, keep_going=True):
    """full .vo build of the given targets (never -vos). returns (rc, output)"""
    ensure_makefile()
    cmd = ["make", "-f", "Makefile.coq", "-j%d" % jobs]
    if keep_going:
        cmd.append("-k")
    cmd += targets
    return run(cmd, timeout, cwd=COQ)


def parse_make_errors(out):
    """[(file, line, message)] from coqc error output"""
    errs = []
    for m in re.finditer(r'File "\./([^"]+)", line (\d+), characters [\d-]+:\n(Error:.*?)(?=\n(?:make|File|COQC|coqc|CoqMakefile)|\Z)',
                         out, re.S):
        errs.append((m.group(1), int(m.group(2)), " ".join(m.group(3).split())[:400]))
    return errs


def enclosing_statement(path, line):
    """name of the Lemma/Theorem/Definition containing `line` of a .v file"""
    name = None
    try:
        for i, l in enumerate(open(os.path.join(COQ, path)), 1):
            m = re.match(r"\s*(Lemma|Theorem|Corollary|Example|Definition|Fixpoint|Fact|Remark)\s+([A-Za-z0-9_']+)", l)
            if m:
                name = m.group(2)
            if i >= line:
                break
    except OSError:
        pass
    return name


def theorems_of(prop_file):
    txt = strip_comments(open(os.path.join(COQ, prop_file)).read())
    return re.findall(r"^\s*(?:Theorem|Example)\s+([A-Za-z0-9_']+)", txt, re.M)


def print_assumptions(module, names, timeout=300):
    """run Print Assumptions for each theorem; returns {name: [axioms]} and raw output"""
    os.makedirs(CASES, exist_ok=True)
    fn = os.path.join(CASES, "assume_%s.v" % module.replace(".", "_"))
    with open(fn, "w") as f:
        f.write("From VF Require Import %s.\n" % module)
        for n in names:
            f.write('Goal True. idtac "@@ %s". Abort.\nPrint Assumptions %s.\n' % (n, n))
    rc, out = run(["coqc", "-Q", ".", "VF", fn], timeout, cwd=COQ)
    res = {}
    if rc != 0:
        return None, out
    for chunk in out.split("@@ ")[1:]:
        lines = chunk.strip().split("\n")
        name = lines[0].strip()
        body = "\n".join(lines[1:])
        if "Closed under the global context" in body:
            res[name] = []
        else:
            res[name] = sorted(set(re.findall(r"^([A-Za-z0-9_.']+)\s*:", body, re.M)) - {"Axioms"})
    return res, out


# ------------------------------------------------------------------------------------------------
# evaluating model definitions inside coqc

def fl(x):
    """Python float -> Coq primitive float literal"""
    x = float(x)
    if math.isnan(x):
        return "nan"
    if math.isinf(x):
        return "infinity" if x > 0 else "neg_infinity"
    h = x.hex()
    return "(%s)" % h if x < 0 or h.startswith("-") else h


def fl_list(xs):
    return "[" + "; ".join(fl(x) for x in xs) + "]"


def parse_float_tok(t):
    t = t.strip().replace("%float", "").strip("()")
    if t == "nan":
        return float("nan")
    if t == "infinity":
        return float("inf")
    if t == "neg_infinity":
        return float("-inf")
    return float(t)


def parse_float_lists(out):
    """parse the outputs of a sequence of `Eval vm_compute in (e : list float)` commands"""
    res = []
    for m in re.finditer(r"=\s*(\[.*?\]|nil)\s*:\s*list", out, re.S):
        body = m.group(1)
        if body == "nil" or body.strip() == "[]":
            res.append([])
            continue
        inner = body.strip()[1:-1]
        res.append([parse_float_tok(t) for t in inner.split(";") if t.strip()])
    return res


def coq_eval_float_lists(preamble, exprs, tag, chunk=300, timeout=600, jobs=12, float_scope=True):
    """evaluate Coq terms of type `list float` with vm_compute; returns list of list of float.
    `preamble` = Require/Import lines.  Raises RuntimeError when coqc fails (the model does not
    build: that is a broken tie, handled by the caller)."""
    os.makedirs(CASES, exist_ok=True)
    files = []
    for k in range(0, len(exprs), chunk):
        fn = os.path.join(CASES, "cases_%s_%d.v" % (tag, k // chunk))
        with open(fn, "w") as f:
            f.write("From Coq Require Import PrimFloat List.\nImport ListNotations.\n" + preamble + "\n"
                    + ("Local Open Scope float_scope.\n" if float_scope else ""))
            for e in exprs[k:k + chunk]:
                f.write("Eval vm_compute in (%s : list float).\n" % e)
        files.append(fn)

    def one(fn):
        return run(["coqc", "-Q", ".", "VF", fn], timeout, cwd=COQ)
    results = []
    with ThreadPoolExecutor(max_workers=jobs) as ex:
        outs = list(ex.map(one, files))
    for (rc, out), fn in zip(outs, files):
        if rc != 0:
            raise RuntimeError("coqc failed on %s:\n%s" % (fn, out[-2000:]))
        results.extend(parse_float_lists(out))
    for fn in files:
        for ext in (".v", ".vo", ".vok", ".vos", ".glob"):
            try:
                os.remove(fn[:-2] + ext)
            except OSError:
                pass
        try:
            os.remove(os.path.join(os.path.dirname(fn), "." + os.path.basename(fn)[:-2] + ".aux"))
        except OSError:
            pass
    if len(results) != len(exprs):
        raise RuntimeError("expected %d results from coqc, parsed %d" % (len(exprs), len(results)))
    return results


def close(a, b, tol=1e-9):
    """canonical float comparison: nan == nan, inf == inf, relative tolerance otherwise"""
    if a is None or b is None:
        return a is None and b is None
    a, b = float(a), float(b)
    if math.isnan(a) or math.isnan(b):
        return math.isnan(a) and math.isnan(b)
    if math.isinf(a) or math.isinf(b):
        return a == b
    return abs(a - b) <= tol * max(1.0, abs(a), abs(b))


def close_lists(a, b, tol=1e-9):
    return len(a) == len(b) and all(close(x, y, tol) for x, y in zip(a, b))


# ------------------------------------------------------------------------------------------------
# known findings

def known_findings():
    """[(property, key, text)] for `finding:` lines of KNOWN_FINDINGS.txt (fixed: lines suppress nothing)"""
    res = []
    p = os.path.join(VERIF, "KNOWN_FINDINGS.txt")
    if os.path.exists(p):
        for l in open(p):
            l = l.strip()
            m = re.match(r"finding:\s+property=(\S+)\s+key=(\S+)\s+(.*)", l)
            if m:
                res.append((m.group(1), m.group(2), m.group(3)))
    return res


class Outcome:
    """collects what one check run found"""

    def __init__(self, pid, tier, seed):
        self.pid, self.tier, self.seed = pid, tier, seed
        self.t0 = time.time()
        self.violations = []      # dicts: key, what, replay (dict), concrete (bool)
        self.broken = []          # broken obligations / ties: dicts name, detail
        self.coverage = {}
        self.assumptions = []
        self.notes = []
        os.makedirs(REPLAY, exist_ok=True)
        for fn in os.listdir(REPLAY):
            if fn.startswith(pid + "_"):
                os.remove(os.path.join(REPLAY, fn))

    def violation(self, key, what, replay, concrete=True):
        self.violations.append({"key": key, "what": what, "replay": replay, "concrete": concrete})

    def broken_obligation(self, name, detail):
        self.broken.append({"name": name, "detail": detail})

    def finish(self, level="proof"):
        """print verdict lines, write evidence, return exit code"""
        os.makedirs(REPLAY, exist_ok=True)
        kf = [(k, t) for (p, k, t) in known_findings() if p == self.pid]
        kf_keys = {k: t for k, t in kf}
        unlisted = []
        seen_known = set()
        for v in self.violations:
            if v["key"] in kf_keys:
                seen_known.add(v["key"])
            else:
                unlisted.append(v)
        for k in sorted(seen_known):
            print("KNOWN-FINDING: property=%s %s [%s]" % (self.pid, kf_keys[k], k))
        rc = 0
        lines = []
        concrete = [v for v in unlisted if v["concrete"]]
        if concrete or self.broken:
            rc = 1
            if concrete:
                # one line and one replay file per distinct failing input (by key), at most 12 per run
                done_keys = set()
                for v in concrete:
                    if v["key"] in done_keys or len(done_keys) >= 12:
                        continue
                    done_keys.add(v["key"])
                    path = os.path.join(REPLAY, "%s_%s.json" % (self.pid, re.sub(r"[^A-Za-z0-9_.-]", "_", v["key"])[:80]))
                    json.dump({"property": self.pid, "kind": "failing-input", "key": v["key"], "what": v["what"],
                               "input": v["replay"], "broken_obligations": self.broken,
                               "how_to_replay": "./check %s --replay %s" % (self.pid, path)},
                              open(path, "w"), indent=1, default=str)
                    lines.append("VIOLATION property=%s replay=%s" % (self.pid, path))
            else:
                path = os.path.join(REPLAY, "%s_broken_obligation.json" % self.pid)
                json.dump({"property": self.pid, "kind": "broken-obligation", "broken_obligations": self.broken,
                           "note": "a proof obligation or the model/implementation correspondence no longer "
                                   "checks and the search found no concrete failing input"},
                          open(path, "w"), indent=1, default=str)
                lines.append("VIOLATION property=%s replay=%s no-failing-input-found" % (self.pid, path))
        for l in lines:
            print(l)
        cov = dict(self.coverage)
        ev = {"property_id": self.pid, "tier": self.tier, "seed": self.seed, "level": level,
              "coverage": cov, "assumptions": self.assumptions, "wall_s": round(time.time() - self.t0, 2),
              "violations": len(unlisted) + (1 if self.broken and not concrete else 0),
              "known_findings_seen": sorted(seen_known), "notes": self.notes}
        os.makedirs(EVID, exist_ok=True)
        json.dump(ev, open(os.path.join(EVID, "%s.json" % self.pid), "w"), indent=1, default=str)
        return rc
