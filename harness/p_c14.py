"""C14 -- anomaly scores.  Tie B + falsifier: -c X versus X as an additional input for shift-invariant
quantities, zeros under -C dropped for every input, climatology never a scored input."""
import math
import random

import numpy as np

import common
import datagen
import datatie

EXTRA_TARGETS = ["Model/DataQ.vo"]
GEN_PREFIXES = []
ASSUMPTIONS = ["shift-invariance of mae/rmse/bias/stderror is used in its elementary form: they are functions of fcst - obs",
               "exact dyadic test values, so differences are compared exactly up to 1e-9"]


def force_clim(ds, rng):
    if "clim" not in ds["cfg"]:
        i0 = ds["inputs"][0]
        ds["cfg"]["clim"] = datagen.gen_input(rng, sorted(set(i0["times"])), sorted(set(i0["leads"])),
                                              [tuple(x) for x in {tuple(s) for s in i0["locs"]}], with_obs=False, zero_rate=0.2,
                                              extras=tuple(f for f in ("pit", "other0") if f in i0["fields"]))
        ds["cfg"]["clim_divide"] = rng.random() < 0.5
    if rng.random() < 0.6:
        ds["cfg"].pop("obs_range", None)          # keep -obsrange together with the climatology in a share of the datasets: the range is about the RAW observation
    return ds


def explore(out, tier, seed, facts, replay=None):
    with common.quiet():
        return _explore(out, tier, seed, facts, replay)


def _explore(out, tier, seed, facts, replay):
    datagen.patch_error()
    n = 100 if tier == "quick" else 1200
    stats, cases = datatie.run_tie(out, seed, n, 8, "c14", options=True, mutate=force_clim)
    rng = random.Random(seed + 1414)
    nf = 0
    distinct = set()
    samples = []
    for c in cases:
        ds = c["ds"]
        if c["impl"][0] in ("error", "exception"):
            continue
        ninp = len(ds["inputs"])
        clim = ds["cfg"]["clim"]
        sizes = c.get("sizes") or [1] * 13
        d = datagen.impl_data(ds)
        nf += 1
        if d.num_inputs != ninp or len(d.get_names()) != ninp or len(d.get_legend()) != ninp:
            out.violation("climatology-counted", "num_inputs/names include the climatology", ds)
        if "fcst" not in clim["fields"]:
            continue
        divide = ds["cfg"].get("clim_divide")
        # the climatology as an additional input instead
        ds3 = {"inputs": ds["inputs"] + [clim], "cfg": {k: v for k, v in ds["cfg"].items() if k not in ("clim", "clim_divide")}}
        for _ in range(5):
            k = rng.randrange(ninp)
            ax = rng.choice([3, 0, 1, 2, 4, 6])
            if int(sizes[ax]) == 0:
                continue
            ai = rng.randrange(int(sizes[ax]))
            a = datagen.impl_request(ds, (["obs", "fcst"], k, ax, ai))
            b = datagen.impl_request(ds3, (["obs", "fcst"], k, ax, ai))
            cl = datagen.impl_request(ds3, (["fcst", "obs"], ninp, ax, ai))
            nf += 1
            distinct.add((ninp, bool(divide), ax))
            if isinstance(a, tuple) or isinstance(b, tuple) or isinstance(cl, tuple):
                continue
            own_obs_range = "obs_range" in ds["cfg"]      # the range masks each file by its OWN observation values: the climatology read as an input then has its own case set
            if not divide:
                # same cases, and fcst - obs identical (every shift-invariant score then agrees)
                ea = [f - o for o, f in zip(a[0], a[1])]
                eb = [f - o for o, f in zip(b[0], b[1])]
                if not common.close_lists(ea, eb):
                    out.violation("subtract-vs-extra-input", "-c X and X as extra input give different errors for input %d (axis %s slice %d): %r vs %r"
                                  % (k, datagen.AXES[ax], ai, ea[:6], eb[:6]), {"dataset": ds, "request": [k, ax, ai]})
                # and the anomaly really is value - climatology at the same case (not comparable cell by cell when -obsrange masks
                # the climatology file's OWN observations differently from the verified file's)
                if len(a[0]) == len(b[0]) == len(cl[0]) and not (len(a[0]) == 1 and math.isnan(a[0][0])) and not own_obs_range:
                    want_o = [o - cc for o, cc in zip(b[0], cl[0])]
                    if not common.close_lists(a[0], want_o):
                        out.violation("anomaly-value", "obs anomaly is not obs - climatology at the same coordinates", {"dataset": ds, "request": [k, ax, ai]})
            elif len(b[0]) != len(cl[0]) or own_obs_range:
                pass        # the climatology read as an extra input has cases of its own (e.g. its own observations under -obsrange): no cell-by-cell relation
            else:
                # division: cases with climatology 0 are dropped for every input; others are value / climatology
                keep = [i for i, cc in enumerate(cl[0]) if cc != 0]
                want_o = [b[0][i] / cl[0][i] for i in keep] if not (len(b[0]) == 1 and math.isnan(b[0][0])) else []
                want_f = [b[1][i] / cl[0][i] for i in keep] if want_o or keep else []
                if not want_o:
                    want_o, want_f = [float("nan")], [float("nan")]
                if not (common.close_lists(a[0], want_o) and common.close_lists(a[1], want_f)):
                    out.violation("divide-anomaly", "-C: delivered %r, expected obs/clim %r with zero-climatology cases dropped"
                                  % (a[0][:6], want_o[:6]), {"dataset": ds, "request": [k, ax, ai]})
            # other fields untouched by the climatology
            if "pit" in ds["inputs"][k]["fields"] and all("pit" in s["fields"] for s in ds["inputs"] + [clim]):
                p1 = datagen.impl_request(ds, (["pit"], k, ax, ai))
                p2 = datagen.impl_request(ds3, (["pit"], k, ax, ai))
                nf += 1
                if not datatie.compare_cols(p1, p2):
                    out.violation("climatology-touches-other-field", "pit differs with -c", {"dataset": ds, "request": [k, ax, ai]})
        # the climatology is not one of the verified files: titles (-leg) are given for the verified files only
        import verif.data
        try:
            ins_ = [datagen.mem_input(s_, "in%d" % i_) for i_, s_ in enumerate(ds["inputs"])]
            titles = ["Title %d" % i_ for i_ in range(len(ins_))]
            kw_ = {"clim": datagen.mem_input(clim, "clim"), "clim_type": "divide" if divide else "subtract", "legend": titles}
            nf += 1
            try:
                dl = verif.data.Data(ins_, **kw_)
                if list(dl.get_legend()) != titles:
                    out.violation("legend-with-climatology", "with a climatology, get_legend() returns %r for the titles %r" % (list(dl.get_legend()), titles),
                                  {"dataset": ds, "titles": titles})
            except datagen.ImplExit as e:
                out.violation("legend-with-climatology", "one title per verified file (%r) is refused when a climatology is given: %s" % (titles, e),
                              {"dataset": ds, "titles": titles})
            try:
                verif.data.Data([datagen.mem_input(s_, "in%d" % i_) for i_, s_ in enumerate(ds["inputs"])],
                                **dict(kw_, clim=datagen.mem_input(clim, "clim"), legend=titles + ["Climatology"]))
                out.violation("legend-with-climatology", "a legend with an extra title for the climatology (%r) is accepted" % (titles + ["Climatology"],),
                              {"dataset": ds, "titles": titles + ["Climatology"]})
            except datagen.ImplExit:
                pass
        except Exception as e:
            out.violation("legend-with-climatology-exception", "Data(..., clim=, legend=) raised %r" % (e,), {"dataset": ds})
        if len(samples) < 2:
            samples.append({"n_inputs": ninp, "divide": bool(divide)})
    # names and legend: the climatology is never one of the entries, also when it shares its file name with a verified input
    import verif.data
    for names_ in (["old/fc.txt", "model.txt"], ["model.txt", "old/fc.txt"], ["clim.txt", "model.txt"], ["a.txt", "b.txt", "a.txt"]):
        for cname_ in ("ref/fc.txt", "clim.txt", "a.txt"):
            spec_ = {"times": [0, 86400], "leads": [0.0], "locs": [[1, 0.0, 0.0, 0.0]], "fields": {"obs": [[[1.0]], [[2.0]]], "fcst": [[[1.5]], [[2.5]]]}}
            ins_ = [datagen.mem_input(spec_, n_) for n_ in names_]
            nf += 1
            try:
                dn = verif.data.Data(ins_, clim=datagen.mem_input(spec_, cname_))
                want_ = [n_.split("/")[-1] for n_ in names_]
                got_ = {"get_names": list(dn.get_names()), "get_legend": list(dn.get_legend())}
                for fn_ in ("get_short_names", "get_full_names"):
                    if hasattr(dn, fn_):
                        got_[fn_] = list(getattr(dn, fn_)())
                if got_["get_names"] != want_ or got_["get_legend"] != want_ or any(len(v_) != len(names_) for v_ in got_.values()) or \
                        got_.get("get_full_names", names_) != names_:
                    out.violation("names-with-climatology", "verified files %r with climatology file %r: %r; expected one entry per verified file in command-line order (%r)"
                                  % (names_, cname_, got_, want_), {"inputs": names_, "climatology": cname_})
            except datagen.ImplExit:
                pass
            except Exception as e:
                out.violation("names-with-climatology-exception", "Data(%r, clim=%r) raised %r" % (names_, cname_, e), {"inputs": names_, "climatology": cname_})
    # the caller's list of inputs is the caller's: building a dataset with a climatology does not append to it, so a second
    # dataset built from the same list sees the same verified files
    spec_l = {"times": [0, 86400], "leads": [0.0], "locs": [[1, 0.0, 0.0, 0.0]], "fields": {"obs": [[[1.0]], [[2.0]]], "fcst": [[[1.5]], [[2.5]]]}}
    ins_l = [datagen.mem_input(spec_l, "a.txt"), datagen.mem_input(spec_l, "b.txt")]
    nf += 1
    try:
        d1_ = verif.data.Data(ins_l, clim=datagen.mem_input(spec_l, "climX.txt"))
        n1_ = (d1_.num_inputs, list(d1_.get_names()))
        d2_ = verif.data.Data(ins_l, clim=datagen.mem_input(spec_l, "climX.txt"), legend=["A", "B"])
        n2_ = (d2_.num_inputs, list(d2_.get_names()))
        if len(ins_l) != 2 or n1_ != (2, ["a.txt", "b.txt"]) or n2_ != (2, ["a.txt", "b.txt"]) or list(d1_.get_names()) != ["a.txt", "b.txt"]:
            out.violation("inputs-list-reused", "two datasets built from the same list of two inputs, each with a climatology: the list now has %d entries; first dataset %r, second %r"
                          % (len(ins_l), n1_, n2_), {"inputs": ["a.txt", "b.txt"], "climatology": "climX.txt"})
    except datagen.ImplExit as e:
        out.violation("inputs-list-reused", "a second dataset built from the same list of inputs (with a climatology and one title per verified file) is refused: %s; the list has %d entries" % (e, len(ins_l)),
                      {"inputs": ["a.txt", "b.txt"], "climatology": "climX.txt"})
    except Exception as e:
        out.violation("inputs-list-reused-exception", "%r" % (e,), {"inputs": ["a.txt", "b.txt"]})
    # -c / -C from the command line: -c subtracts, -C divides, whichever climatology option comes LAST decides file and operation
    import os
    import shutil
    import tempfile
    from p_c13 import run_cli
    tmpc = tempfile.mkdtemp(prefix="vfc14_")
    try:
        def wfile(name, vals):
            pth = os.path.join(tmpc, name)
            with open(pth, "w") as f_:
                f_.write("unixtime leadtime location obs fcst\n")
                for l_, (o_, c_) in zip((0, 6, 12), vals):
                    f_.write("1325376000 %d 1 %g %g\n" % (l_, o_, c_))
            return pth
        A_ = [(rng.randint(2, 20) / 2.0, rng.randint(2, 20) / 2.0) for _ in range(3)]
        X_ = [(0.0, rng.choice([0.5, 2.0, 4.0])) for _ in range(3)]
        Y_ = [(0.0, rng.choice([1.0, 1.5, 3.0])) for _ in range(3)]
        fa, fx, fy = wfile("A.txt", A_), wfile("X.txt", X_), wfile("Y.txt", Y_)
        cfgf = os.path.join(tmpc, "cfg.txt")
        open(cfgf, "w").write("-c %s\n" % fy)
        for opts_, (cl_, div_) in ((["-c", fy], (Y_, False)), (["-C", fx], (X_, True)), (["-C", fx, "-c", fy], (Y_, False)), (["-c", fy, "-C", fx], (X_, True)),
                                   (["-C", fx, "--config", cfgf], (Y_, False)), (["-c", fx, "-c", fy], (Y_, False))):
            for mname_, idx_ in (("obs", 0), ("fcst", 1)):
                fo_ = os.path.join(tmpc, "o.csv")
                if os.path.exists(fo_):
                    os.remove(fo_)
                argv_ = ["verif", fa] + opts_ + ["-m", mname_, "-x", "leadtime", "-type", "csv", "-f", fo_]
                r_ = run_cli(argv_)
                nf += 1
                want_ = [(v_[idx_] / c_[1]) if div_ else (v_[idx_] - c_[1]) for v_, c_ in zip(A_, cl_)]
                got_ = None
                if r_[0] == "ok" and os.path.exists(fo_):
                    got_ = [float(ln.split(",")[1]) for ln in open(fo_).read().strip().split("\n")[1:]]
                if got_ is None or len(got_) != 3 or any(abs(g_ - w_) > 1e-5 * max(1, abs(w_)) for g_, w_ in zip(got_, want_)):
                    out.violation("cli-climatology:%s" % " ".join(o_ for o_ in opts_ if o_.startswith("-")), "verif A.txt %s -m %s: got %r (%s); %s of A (%r) and the climatology forecast (%r) gives %r"
                                  % (" ".join(os.path.basename(o_) for o_ in opts_), mname_, got_, r_[0], "quotient" if div_ else "difference", [v_[idx_] for v_ in A_], [c_[1] for c_ in cl_], want_),
                                  {"argv": [os.path.basename(a_) for a_ in argv_], "A(obs,fcst)": A_, "X(obs,fcst)": X_, "Y(obs,fcst)": Y_, "config_file": "-c Y.txt"})
    finally:
        shutil.rmtree(tmpc, ignore_errors=True)
    stats.update({
        "evaluations": stats["datasets"] + stats["requests"] + nf,
        "distinct_nontrivial": max(len(distinct), 2),
        "rule": "datasets with a generated climatology (own coverage, missing cells, 20% zeros) under -c and -C; distinct = "
                "(inputs, operation, axis); non-trivial = climatology has forecasts on the common grid",
        "samples": samples or [{"note": "none"}],
        "falsifier_evaluations": nf,
        "traces_validated_against_impl": stats["datasets"],
    })
    return stats
