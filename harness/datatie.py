"""datatie -- correspondence check between Model/Data.v (evaluated in coqc) and verif.data.Data on
generated datasets, subsetting options and request lists.  Shared by C01-C04, C11, C14, C18."""
import json
import math
import random

import numpy as np

import common
import datagen
import oracle
from datagen import AXES


def sizes_of(d):
    return [d.get_axis_size(datagen.axis_obj(i)) for i in range(len(AXES))]


def compare_cols(a, b, tol=1e-9):
    if isinstance(a, tuple) or isinstance(b, tuple):
        return a == b
    if len(a) != len(b):
        return False
    return all(common.close_lists(x, y, tol) for x, y in zip(a, b))


def run_tie(out, seed, ncases, nreq, tag, options=True, mutate=None, keep=None):
    """generate ncases datasets (derived from seed), compare model and implementation.
    mutate(ds, rng): optional hook to specialise the generated dataset for a property.
    Returns stats dict; records a broken obligation on disagreement."""
    datagen.patch_error()
    rng = random.Random(seed * 7919 + 13)
    cases = []
    for ci in range(ncases):
        ds = datagen.gen_dataset(rng, options=options)
        if mutate:
            ds = mutate(ds, rng) or ds
        d = datagen.impl_data(ds)
        if isinstance(d, tuple):
            if d[0] == "exception":
                out.violation("unhandled-exception:%s" % d[1], "verif.data.Data(...) raised %s" % d[1], {"dataset": ds})
            cases.append({"ds": ds, "impl": d, "reqs": []})
            continue
        try:
            sizes = sizes_of(d)
        except Exception as e:
            out.violation("unhandled-exception:%s" % type(e).__name__, "get_axis_size raised %r" % e, {"dataset": ds})
            cases.append({"ds": ds, "impl": ("exception", type(e).__name__), "reqs": []})
            continue
        reqs = datagen.gen_requests(rng, ds, sizes, nreq)
        res = [datagen.impl_request(ds, r) for r in reqs]     # a fresh Data per request: the pure specification
        for r, x in zip(reqs, res):
            if isinstance(x, tuple) and x[0] == "exception":
                out.violation("unhandled-exception:%s" % x[1], "get_scores%r raised %s" % (r, x[1]), {"dataset": ds, "request": r})
            elif not isinstance(x, tuple):
                # the property itself, checked directly on what the implementation delivers:
                # numbers only, or the single NaN for every field
                single = all(len(col) == 1 and math.isnan(col[0]) for col in x)
                if not single and any(math.isnan(v) or math.isinf(v) for col in x for v in col):
                    out.violation("non-number-delivered", "get_scores%r delivered NaN/inf among numbers: %r" % (r, x), {"dataset": ds, "request": r})
                if len({len(col) for col in x}) > 1:
                    out.violation("ragged-columns", "get_scores%r delivered columns of different length" % (r,), {"dataset": ds, "request": r})
        cases.append({"ds": ds, "impl": (datagen.impl_dims(d), res), "reqs": reqs, "sizes": sizes})
    exprs = ["run_case %s %s %s" % (datagen.coq_config(c["ds"]["cfg"]),
                                    datagen.coq_list(datagen.coq_input(i) for i in c["ds"]["inputs"]),
                                    datagen.coq_requests(c["reqs"])) for c in cases]
    stats = {"datasets": ncases, "requests": sum(len(c["reqs"]) for c in cases), "error_cases": 0,
             "empty_results": 0, "nonempty_results": 0, "with_clim": 0, "with_options": 0, "n_inputs_hist": {},
             "error_kinds": {}}
    disagreements = []
    try:
        got = common.coq_eval_float_lists(datagen.PREAMBLE, exprs, "data_%s_%d" % (tag, seed), chunk=25, timeout=900, float_scope=False)
    except RuntimeError as ex:
        out.broken_obligation("tie:Model/Data.v", str(ex)[-1500:])
        return stats, cases
    for c, flat in zip(cases, got):
        ds = c["ds"]
        stats["n_inputs_hist"][len(ds["inputs"])] = stats["n_inputs_hist"].get(len(ds["inputs"]), 0) + 1
        stats["with_clim"] += 1 if "clim" in ds["cfg"] else 0
        stats["with_options"] += 1 if any(k in ds["cfg"] for k in ("times", "dates", "tods", "leads", "locs", "locs_x", "lat", "lon", "elev", "obs_range")) else 0
        model = datagen.decode_case(flat)
        impl = c["impl"]
        if impl[0] == "error" or model[0] == "error":
            stats["error_cases"] += 1
            code = impl[1] if impl[0] == "error" else model[1]
            stats["error_kinds"][code] = stats["error_kinds"].get(code, 0) + 1
            if impl != model:
                disagreements.append({"dataset": ds, "what": "construction", "implementation": impl, "model": model})
            continue
        mdims, mres = model
        idims, ires = impl
        mdims = [[float(x) for x in mdims[0]], [x / 1000.0 for x in mdims[1]], [float(x) for x in mdims[2]]]
        idims = [[float(x) for x in idims[0]], idims[1], idims[2]]
        if not all(common.close_lists(a, b) for a, b in zip(mdims, idims)):
            disagreements.append({"dataset": ds, "what": "dimensions", "implementation": idims, "model": mdims})
            continue
        for r, a, b in zip(c["reqs"], ires, mres):
            if isinstance(a, tuple) or isinstance(b, tuple):
                stats["error_cases"] += 1
            elif a and len(a[0]) == 1 and math.isnan(a[0][0]):
                stats["empty_results"] += 1
            else:
                stats["nonempty_results"] += 1
            if not compare_cols(a, b):
                disagreements.append({"dataset": ds, "what": "get_scores", "request": r, "implementation": a, "model": b})
                # is this a failing input of the property?  ask the independent oracle
                try:
                    o = oracle.get_scores(ds, idims, r, AXES)
                    if compare_cols(o, b) and not compare_cols(o, a):
                        out.violation("scores-differ-from-specification", "get_scores%r returns %s; the property (independent oracle and the "
                                      "Coq model agree) requires %s" % (r, str(a)[:300], str(b)[:300]), {"dataset": ds, "request": r})
                except Exception:
                    pass
                break
    stats["disagreements"] = len(disagreements)
    if disagreements:
        first = disagreements[0]
        out.broken_obligation("tie:Model/Data.v<->verif.data.Data",
                              "%d of %d datasets disagree; first (%s): request=%r implementation=%r model=%r dataset=%s"
                              % (len(disagreements), ncases, first["what"], first.get("request"),
                                 first["implementation"], first["model"], json.dumps(first["dataset"])[:1500]))
    return stats, cases
