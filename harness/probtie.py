"""Falsifier shared by C01 and C02: scores that use SEVERAL quantities (observation + two threshold probabilities), on 2-3
in-memory inputs whose stored thresholds come in different orders (and with different extra thresholds) or are derived from an
ensemble.  Every input must be scored on exactly the cases where the observation and BOTH probabilities are present in
EVERY input, with the probabilities of the requested thresholds (matched by value, not by position)."""
import math

import numpy as np

import common
import datagen

NAN = float("nan")


def run(out, rng, rounds, key):
    import verif.data
    import verif.metric
    import verif.interval
    import verif.axis
    nf = 0
    lookups = []        # (Coq expression, input object, its threshold list, threshold, replay) for the tie of Model/Lookup.v
    for rd in range(rounds):
        nt, nl, ns = rng.randint(2, 4), rng.randint(1, 2), rng.randint(1, 3)
        ninp = rng.randint(2, 3)
        shape = (nt, nl, ns)

        def cube(vals, miss):
            a = np.array([rng.choice(vals) for _ in range(nt * nl * ns)], float).reshape(shape)
            a[np.array([rng.random() < miss for _ in range(nt * nl * ns)]).reshape(shape)] = NAN
            return a
        obs = cube([0.0, 1.0, 2.0, 2.5, 3.0, 5.0], 0.1)
        base_thr = [1.0, 2.5]
        mode = rng.choice(["stored", "stored", "ensemble", "mixed"])
        inputs, truth = [], []          # truth[k][t] = array of P(X <= t) of input k
        desc = []
        for k in range(ninp):
            spec = {"times": [86400 * i for i in range(nt)], "leads": [6.0 * i for i in range(nl)], "locs": [[i + 1, 0.0, 0.0, 0.0] for i in range(ns)],
                    "fields": {"obs": [[[None] * ns] * nl] * nt, "fcst": [[[None] * ns] * nl] * nt}}
            inp = datagen.mem_input(spec, "p%d" % k)
            inp.obs = obs.copy()
            inp.fcst = cube([0.0, 1.0, 2.0, 4.0], 0.05)
            use_ens = mode == "ensemble" or (mode == "mixed" and k == ninp - 1)
            tr = {}
            if use_ens:
                nm = rng.randint(2, 4)
                ens = np.stack([cube([0.0, 1.0, 2.0, 2.5, 3.0, 6.0], 0.25) for _ in range(nm)], axis=3)
                if rng.random() < 0.7:      # a case where every member is missing
                    ens[rng.randrange(nt), rng.randrange(nl), rng.randrange(ns), :] = NAN
                inp.ensemble = ens
                for t in base_thr:
                    present = ~np.isnan(ens)
                    cnt = present.sum(axis=3)
                    with np.errstate(all="ignore"):
                        tr[t] = np.where(cnt > 0, ((ens <= t) & present).sum(axis=3) / np.maximum(cnt, 1), NAN)
                desc.append({"input": k, "ensemble": ens.tolist()})
            else:
                extra = rng.sample([-3.0, 0.0, 7.0, 10.0], rng.randint(0, 2))
                order = base_thr + extra
                rng.shuffle(order)
                cols = {t: cube([0.0, 0.125, 0.25, 0.5, 0.75, 1.0], 0.15) for t in order}
                for t in order:
                    if t not in base_thr:
                        cols[t] = cube([0.03, 0.97], 0.0)      # values the requested thresholds never take
                inp.thresholds = np.array(order)
                inp.threshold_scores = np.stack([cols[t] for t in order], axis=3)
                for t in base_thr:
                    tr[t] = cols[t]
                desc.append({"input": k, "thresholds_in_file_order": order, "probabilities": {str(t): cols[t].tolist() for t in order}})
            # quantile columns of every input (levels 0.1 and 0.9, independent missing cells) for the spread-skill ratio
            qlo = cube([0.0, 1.0, 2.0], 0.12)
            qhi = qlo + cube([1.0, 2.0, 4.0], 0.12)
            inp.quantiles = np.array([0.9, 0.1]) if rng.random() < 0.5 else np.array([0.1, 0.9])
            inp.quantile_scores = np.stack([qhi, qlo] if inp.quantiles[0] == 0.9 else [qlo, qhi], axis=3)
            tr["q"] = (qlo, qhi, inp.fcst.copy())
            inputs.append(inp)
            truth.append(tr)
        rep = {"obs": obs.tolist(), "inputs": desc, "dims": [nt, nl, ns]}
        try:
            d = verif.data.Data(inputs)
        except datagen.ImplExit:
            continue
        # Tie of Model/Lookup.v: the index the model finds for a threshold in THIS input's own list is the column the implementation reads
        for k, inp in enumerate(inputs):
            if inp.threshold_scores is None:
                continue
            for t in base_thr:
                try:
                    with np.errstate(all="ignore"):
                        got_col = np.asarray(d.get_scores(verif.field.Threshold(t), k), float)
                except (datagen.ImplExit, Exception):
                    got_col = None
                lookups.append(("[DataQ.f_of_nat (match find_index [%s] %s 0 with Some i => i | None => 99%%nat end)]" % ("; ".join(datagen.qraw(x) for x in inp.thresholds), datagen.qraw(t)),
                                np.asarray(inp.threshold_scores, float), got_col, dict(rep, input=k, threshold=t, thresholds_in_file_order=[float(x) for x in inp.thresholds])))
        # spread-skill ratio: spread and skill over the SAME cases, those where obs, fcst and both quantiles are present in every input
        import scipy.stats
        okq = ~np.isnan(obs)
        for k in range(ninp):
            okq = okq & ~np.isnan(truth[k]["q"][0]) & ~np.isnan(truth[k]["q"][1]) & ~np.isnan(truth[k]["q"][2])
        ivq = verif.interval.Interval(0.1, 0.9, True, True)
        for k in range(ninp):
            qlo, qhi, fc_k = truth[k]["q"]
            nf += 1
            try:
                with np.errstate(all="ignore"):
                    got_q = float(np.asarray(verif.metric.SpreadSkillRatio().compute(d, k, verif.axis.No(), ivq), float).flatten()[0])
            except Exception as e:
                out.violation("%s:ssr-exception" % key, "SpreadSkillRatio for input %d raises %s: %s" % (k, type(e).__name__, e), dict(rep, input=k))
                continue
            if okq.any():
                sp_ = float(np.mean(qhi[okq] - qlo[okq])) / (0.5 * (scipy.stats.norm.ppf(0.9) - scipy.stats.norm.ppf(0.1)))
                rm_ = math.sqrt(float(np.mean((obs[okq] - fc_k[okq]) ** 2)))
                want_q = sp_ / rm_ if rm_ != 0 else NAN
            else:
                want_q = NAN
            if not ((math.isnan(got_q) and math.isnan(want_q)) or (math.isinf(got_q) and math.isnan(want_q)) or abs(got_q - want_q) <= 1e-6 * max(1.0, abs(want_q))):
                out.violation("%s:ssr-cases" % key, "SpreadSkillRatio of input %d: got %r; spread and skill over the cases where obs, fcst and both quantiles are present in EVERY input give %r"
                              % (k, got_q, want_q), dict(rep, input=k, quantiles={"lower": qlo.tolist(), "upper": qhi.tolist(), "fcst": fc_k.tolist()}))
        for bt, lo, hi in (("below=", None, 1.0), ("within=", 1.0, 2.5), ("above", 2.5, None)):
            iv = verif.interval.Interval(-np.inf if lo is None else lo, np.inf if hi is None else hi, bt == "=within=", bt in ("below=", "within=", "=within="))
            used = [t for t in (lo, hi) if t is not None]
            ok = ~np.isnan(obs)
            for k in range(ninp):
                for t in used:
                    ok = ok & ~np.isnan(truth[k][t])
            ev = {"below=": obs <= 1.0, "within=": (obs > 1.0) & (obs <= 2.5), "above": obs > 2.5}[bt]
            for axis, masks in ((verif.axis.No(), [np.ones(shape, bool)]), (verif.axis.Time(), [np.arange(nt)[:, None, None] == i for i in range(nt)])):
                for k in range(ninp):
                    p0 = truth[k][lo] if lo is not None else 0.0
                    p1 = truth[k][hi] if hi is not None else 1.0
                    p = p1 - p0
                    want = []
                    for m in masks:
                        sel = ok & np.broadcast_to(m, shape)
                        want.append(float(np.mean((p[sel] - ev[sel]) ** 2)) if sel.any() else NAN)
                    nf += 1
                    try:
                        with np.errstate(all="ignore"):
                            got = [float(x) for x in np.asarray(verif.metric.Bs().compute(d, k, axis, iv), float).flatten()]
                    except datagen.ImplExit as e:
                        out.violation("%s:prob-refused" % key, "Bs -b %s for input %d stops with %s" % (bt, k, e), dict(rep, bin_type=bt, input=k))
                        break
                    except Exception as e:
                        out.violation("%s:prob-exception" % key, "Bs -b %s for input %d along %s raises %s: %s (the probabilities of the two thresholds are missing at different cases)"
                                      % (bt, k, axis.name(), type(e).__name__, e), dict(rep, bin_type=bt, input=k))
                        break
                    bad = [i for i, (g, w) in enumerate(zip(got, want)) if not ((math.isnan(g) and math.isnan(w)) or abs(g - w) <= 1e-6)]
                    if bad or len(got) != len(want):
                        out.violation("%s:prob-cases" % key, "Brier score -b %s (thresholds %r) of input %d along %s: got %r; over the cases where the observation and the probabilities "
                                      "of these thresholds are present in EVERY input it is %r (%s inputs)" % (bt, used, k, axis.name(), got, want, mode),
                                      dict(rep, bin_type=bt, input=k, axis=axis.name()))
                        break
    if lookups:
        try:
            idx = common.coq_eval_float_lists("From Coq Require Import QArith.\nFrom VF Require Import Model.DataQ Model.Lookup.", [l_[0] for l_ in lookups], "lookup_%s" % key.replace("-", "_"), chunk=200, float_scope=False)
            bad = []
            for (expr, stored, got_col, rp), ix in zip(lookups, idx):
                i_ = int(ix[0])
                if i_ == 99:
                    continue            # not stored in this input: derived from an ensemble or refused; the Brier comparison above covers it
                if got_col is None:
                    bad.append((rp, "the input stores the threshold (model: column %d) but the implementation does not deliver it" % i_))
                    continue
                want_col = stored[:, :, :, i_]
                m_ = ~np.isnan(got_col)
                if got_col.shape != want_col.shape or not np.allclose(got_col[m_], want_col[m_], atol=1e-12):
                    bad.append((rp, "model: column %d of the input's own list; the implementation delivers other values" % i_))
            nf += len(lookups)
            if bad:
                out.broken_obligation("tie:Model/Lookup.v", "%d of %d threshold lookups differ; first: %s (thresholds in file order %r, asked %r)" % (len(bad), len(lookups), bad[0][1], bad[0][0]["thresholds_in_file_order"], bad[0][0]["threshold"]))
                out.violation("%s:threshold-column" % key, "Threshold(%r) of input %d, whose file lists the thresholds %r: %s" % (bad[0][0]["threshold"], bad[0][0]["input"], bad[0][0]["thresholds_in_file_order"], bad[0][1]), bad[0][0])
        except RuntimeError as ex:
            out.broken_obligation("tie:Model/Lookup.v", str(ex)[-1200:])
    return nf
