"""C17 -- plot appearance options.  Tie A: the option tables (Gen/Gen_cli.v) are regenerated from
/repo; the theorems of Properties/C17.v (every documented option reaches an attribute the outputs
read, in a variable / attribute of its own; options are independent; last occurrence wins) are
re-checked.  Tie B / falsifier: verif.driver.run is executed on random subsets of the appearance
options (random values, random order, sometimes an option twice); the figure handed to savefig is
read back and, for every option, the value the MODEL says reaches the figure (figure_value_index,
vm_compute) is compared with what the figure shows -- on standard plots and on a diagram with one
sub-axes per input."""
import contextlib
import io
import os
import random
import shutil
import struct
import sys
import tempfile

import numpy as np

import common
import datagen
import p_c19

GEN_PREFIXES = ["verif/driver.py:run"]
EXTRA_TARGETS = ["Gen/Gen_cli.vo", "Model/Appearance.vo"]
ASSUMPTIONS = ["matplotlib's own rendering of an attribute it has accepted (pixels) is not examined, except the image header / pixel size",
               "-clabel and -clim are observed on -type map colour bars only"]

FLAGS = ["-title", "-xlabel", "-ylabel", "-clabel", "-xlim", "-ylim", "-clim", "-xticks", "-yticks", "-xticklabels", "-yticklabels",
         "-xrot", "-yrot", "-xlog", "-ylog", "-leg", "-legfs", "-legloc", "-lc", "-ls", "-lw", "-ma", "-ms",
         "-labfs", "-tickfs", "-titlefs", "-afs", "-gc", "-gs", "-gw", "-nogrid", "-sp", "-aspect", "-fs", "-dpi",
         "-left", "-right", "-top", "-bottom", "-nomargin", "-a", "-af", "-f"]
BOOL = {"-xlog", "-ylog", "-nogrid", "-sp", "-nomargin", "-a"}
LEGLOCS = {"best": 0, "upper right": 1, "upper left": 2, "lower left": 3, "lower right": 4, "right": 5, "center left": 6,
           "center right": 7, "lower center": 8, "upper center": 9, "center": 10}


def value_pool(rng, flag):
    if flag in ("-title", "-xlabel", "-ylabel", "-clabel"):
        return rng.choice(["Alpha", "Beta gamma", "T1", "x (units)", "Delta"]) + str(rng.randint(0, 99))
    if flag in ("-xlim", "-ylim"):
        a = rng.choice([0.5, 1, 2, 3])
        return "%g,%g" % (a, a + rng.choice([2, 5, 10, 20]))
    if flag == "-clim":
        return "%g,%g" % (rng.choice([0, 0.5]), rng.choice([2, 3, 5]))
    if flag in ("-xticks", "-yticks"):
        return rng.choice(["1,2,4", "1,3,6,12", "2,4", "1:2:9", "1,6,12,18,24"])
    if flag in ("-xrot", "-yrot"):
        return str(rng.choice([15, 30, 45, 60, 90]) + rng.randint(0, 4))
    if flag == "-leg":
        return rng.choice(["A,B", "first,second", "Raw,Cal"])
    if flag in ("-legfs", "-labfs", "-tickfs", "-titlefs", "-afs"):
        return str(rng.choice([5, 7, 9, 11, 13, 19, 22]) + rng.random() // 0.5 * 0.5)
    if flag == "-legloc":
        return rng.choice(["upper_left", "lower_right", "center", "upper_center", "lower_left"])
    if flag == "-lc":
        return rng.choice(["g,k", "k", "m,c,y", "0.5,r", "[1,0,0],[0,0,1]"])
    if flag == "-ls":
        return rng.choice(["--,:", ":", "-.,-", "-,--,:"])
    if flag == "-lw":
        return rng.choice(["1,3", "4", "0.5,1.5,2.5"])
    if flag == "-ma":
        return rng.choice(["s,x", "^", "d,*,+"])
    if flag == "-ms":
        return rng.choice(["3,11", "5", "2,4,6", "1.5,7.5", "2.5"])          # sizes are numbers, like line widths
    if flag == "-gc":
        return rng.choice(["r", "b", "k", "0.3", "[0.3,0,0]", "[0,0.5,1]"])      # the help text's own examples: red,[0.3,0,0],0.3
    if flag == "-gs":
        return rng.choice(["--", ":", "-."])
    if flag == "-gw":
        return rng.choice(["2", "3.5", "0.5"])
    if flag == "-aspect":
        return rng.choice(["2", "0.5", "3"])
    if flag == "-fs":
        return rng.choice(["7,3", "4,4", "9,5", "6.7,3.2"])
    if flag == "-dpi":
        return rng.choice(["50", "72", "120", "200"])
    if flag in ("-left", "-bottom"):
        return rng.choice(["0.15", "0.2", "0.3", "0", "0"])          # 0 is a legal margin
    if flag in ("-right", "-top"):
        return rng.choice(["0.75", "0.8", "0.95", "1"])
    if flag == "-af":
        return rng.choice(["score", "key", "score,key"])
    raise KeyError(flag)


def parse_numbers(s):
    import verif.util
    return [float(x) for x in verif.util.parse_numbers(s)]


def png_size(path):
    with open(path, "rb") as f:
        h = f.read(24)
    if h[:8] != b"\x89PNG\r\n\x1a\n":
        return None
    return struct.unpack(">II", h[16:24])


MAGIC = {"png": b"\x89PNG", "pdf": b"%PDF", "svg": b"<?xml", "eps": b"%!PS", "ps": b"%!PS", "jpg": b"\xff\xd8"}


class Runner(object):
    def __init__(self, tmp):
        import matplotlib
        matplotlib.use("Agg")
        import matplotlib.pyplot as mpl
        import verif.driver
        self.mpl = mpl
        self.driver = verif.driver
        self.cap = {}
        self.tmp = tmp
        self.orig = mpl.savefig

        def savefig(fname, *a, **kw):
            self.cap["fig"] = mpl.gcf()
            self.cap["kw"] = dict(kw)
            self.cap["fname"] = fname
            return self.orig(fname, *a, **kw)
        mpl.savefig = savefig

    def close(self):
        self.mpl.savefig = self.orig

    def run(self, argv):
        self.mpl.close("all")
        self.cap.clear()
        try:
            with contextlib.redirect_stdout(io.StringIO()), contextlib.redirect_stderr(io.StringIO()):
                self.driver.run(argv)
            return ("ok", None)
        except SystemExit as e:
            return ("exit", str(e.code))
        except Exception as e:
            return ("exception", "%s: %s" % (type(e).__name__, str(e)[:200]))


def feq(a, b, tol=1e-6):
    return abs(float(a) - float(b)) <= tol * max(1.0, abs(float(b)))


def check_case(runner, argv, expected, kind, nfiles):
    """returns list of (flag, message) for options whose documented effect is not visible"""
    import matplotlib.colors as mc
    import verif.util
    bad = []
    fig = runner.cap.get("fig")
    if fig is None:
        return [("-f", "no figure was saved")]
    axes = list(fig.axes)
    if kind == "map":
        main = [axes[0]]
    else:
        main = axes if kind == "pithist" else [axes[0]]

    def each(pred, flag, what):
        for i, ax in enumerate(main):
            try:
                r = pred(ax)
            except Exception as e:
                r = "check raised %r" % e
            if r is not True:
                bad.append((flag, "%s (axes %d of %d): %s" % (what, i, len(main), r)))
                return
    for flag, val in expected.items():
        if val is None:
            continue
        if flag == "-title":
            each(lambda ax: ax.get_title() == val or "title is %r" % ax.get_title(), flag, "title %r" % val)
        elif flag == "-xlabel":
            each(lambda ax: ax.get_xlabel() == val or "xlabel is %r" % ax.get_xlabel(), flag, "xlabel %r" % val)
        elif flag == "-ylabel":
            each(lambda ax: ax.get_ylabel() == val or "ylabel is %r" % ax.get_ylabel(), flag, "ylabel %r" % val)
        elif flag in ("-xlim", "-ylim"):
            lim = parse_numbers(val)
            get = (lambda ax: ax.get_xlim()) if flag == "-xlim" else (lambda ax: ax.get_ylim())
            each(lambda ax: (feq(get(ax)[0], lim[0]) and feq(get(ax)[1], lim[1])) or "limits are %r" % (tuple(float(v) for v in get(ax)),), flag, "%s %s" % (flag, val))
        elif flag in ("-xticks", "-yticks"):
            t = parse_numbers(val)
            get = (lambda ax: ax.get_xticks()) if flag == "-xticks" else (lambda ax: ax.get_yticks())
            each(lambda ax: (len(get(ax)) == len(t) and all(feq(a, b) for a, b in zip(get(ax), t))) or "ticks are %r" % ([float(v) for v in get(ax)],), flag, "%s %s" % (flag, val))
        elif flag in ("-xticklabels", "-yticklabels"):
            labs = val.split(",")
            get = (lambda ax: ax.get_xticklabels()) if flag == "-xticklabels" else (lambda ax: ax.get_yticklabels())
            each(lambda ax: [x.get_text() for x in get(ax)] == labs or "tick labels are %r" % [x.get_text() for x in get(ax)], flag, "%s %s" % (flag, val))
        elif flag in ("-xrot", "-yrot"):
            get = (lambda ax: ax.get_xticklabels()) if flag == "-xrot" else (lambda ax: ax.get_yticklabels())
            each(lambda ax: all(feq(x.get_rotation() % 360, float(val) % 360) for x in get(ax)) or "rotations are %r" % sorted({x.get_rotation() for x in get(ax)}), flag, "%s %s" % (flag, val))
        elif flag == "-xlog":
            each(lambda ax: ax.get_xscale() == "log" or "x scale is %s" % ax.get_xscale(), flag, "-xlog")
        elif flag == "-ylog":
            each(lambda ax: ax.get_yscale() == "log" or "y scale is %s" % ax.get_yscale(), flag, "-ylog")
        elif flag == "-labfs":
            each(lambda ax: (feq(ax.xaxis.label.get_fontsize(), float(val)) and feq(ax.yaxis.label.get_fontsize(), float(val))) or
                 "label sizes are %r" % ((ax.xaxis.label.get_fontsize(), ax.yaxis.label.get_fontsize()),), flag, "-labfs %s" % val)
        elif flag == "-tickfs":
            each(lambda ax: all(feq(x.get_fontsize(), float(val)) for x in ax.get_xticklabels() + ax.get_yticklabels()) or
                 "tick label sizes are %r" % sorted({x.get_fontsize() for x in ax.get_xticklabels() + ax.get_yticklabels()}), flag, "-tickfs %s" % val)
        elif flag == "-titlefs":
            each(lambda ax: feq(ax.title.get_fontsize(), float(val)) or "title size is %r" % ax.title.get_fontsize(), flag, "-titlefs %s" % val)
        elif flag == "-aspect":
            each(lambda ax: (ax.get_aspect() != "auto" and feq(ax.get_aspect(), float(val))) or "aspect is %r" % (ax.get_aspect(),), flag, "-aspect %s" % val)
        elif flag in ("-gc", "-gs", "-gw", "-nogrid"):
            def g(ax):
                return ax.xaxis.get_gridlines() + ax.yaxis.get_gridlines()
            if flag == "-nogrid":
                each(lambda ax: not any(x.get_visible() for x in g(ax)) or "grid lines are visible", flag, "-nogrid")
            elif expected.get("-nogrid") is None:
                if flag == "-gc":
                    each(lambda ax: all(mc.to_rgba(x.get_color()) == mc.to_rgba(tuple(float(q_) for q_ in val.strip("[]").split(",")) if val.startswith("[") else val) for x in g(ax)) or "grid colours are %r" % sorted({mc.to_hex(x.get_color()) for x in g(ax)}), flag, "-gc %s" % val)
                elif flag == "-gs":
                    each(lambda ax: all(x.get_linestyle() == val for x in g(ax)) or "grid styles are %r" % sorted({x.get_linestyle() for x in g(ax)}), flag, "-gs %s" % val)
                else:
                    each(lambda ax: all(feq(x.get_linewidth(), float(val)) for x in g(ax)) or "grid widths are %r" % sorted({x.get_linewidth() for x in g(ax)}), flag, "-gw %s" % val)
        elif flag == "-fs":
            w, h = [float(x) for x in val.split(",")]
            got = tuple(float(v) for v in fig.get_size_inches())
            if not (feq(got[0], w) and feq(got[1], h)):
                bad.append((flag, "-fs %s: figure size is %r inches" % (val, got)))
        elif flag == "-dpi":
            if runner.cap["kw"].get("dpi") != int(val):
                bad.append((flag, "-dpi %s: the figure is saved with dpi=%r" % (val, runner.cap["kw"].get("dpi"))))
        elif flag in ("-left", "-right", "-top", "-bottom"):
            if expected.get("-nomargin") is None:
                got = getattr(fig.subplotpars, flag[1:])
                if not feq(got, float(val)):
                    bad.append((flag, "%s %s: subplot parameter is %r" % (flag, val, got)))
        elif flag == "-nomargin":
            sp = fig.subplotpars
            if not (feq(sp.left, 0) and feq(sp.right, 1) and feq(sp.top, 1) and feq(sp.bottom, 0)):
                bad.append((flag, "-nomargin: subplot parameters are %r" % ((sp.left, sp.right, sp.top, sp.bottom),)))
        elif flag == "-f":
            ext = val.rsplit(".", 1)[-1]
            if not os.path.exists(val) or os.path.getsize(val) == 0:
                bad.append((flag, "no file written to %s" % os.path.basename(val)))
            else:
                head = open(val, "rb").read(8)
                if not head.startswith(MAGIC[ext]):
                    bad.append((flag, "file .%s does not start with the %s signature: %r" % (ext, ext, head)))
        if kind != "standard":
            if flag in ("-clabel", "-clim") and kind == "map" and len(axes) > 1:
                cb = axes[-1]
                if flag == "-clabel" and cb.get_ylabel() != val and cb.get_xlabel() != val:
                    bad.append((flag, "-clabel %r: colour bar label is %r" % (val, cb.get_ylabel() or cb.get_xlabel())))
            if flag == "-labfs" and kind == "map" and len(axes) > 1:
                # the colour bar label is a label: -labfs sets its size (with or without -clabel, whatever -legfs says)
                for cb in axes[1:]:
                    lab_ = cb.yaxis.label if cb.get_ylabel() else cb.xaxis.label
                    if lab_.get_text() and not feq(lab_.get_fontsize(), float(val)):
                        bad.append((flag, "-labfs %s: the colour bar label %r has size %r" % (val, lab_.get_text(), lab_.get_fontsize())))
                        break
                if flag == "-clim":
                    lim = parse_numbers(val)
                    cols = [c for c in axes[0].collections if hasattr(c, "get_clim") and c.get_array() is not None]
                    if cols and not any(feq(c.get_clim()[0], lim[0]) and feq(c.get_clim()[1], lim[1]) for c in cols):
                        bad.append((flag, "-clim %s: colour limits are %r" % (val, [tuple(float(v) for v in c.get_clim()) for c in cols])))
            continue
        # ---- standard line plot only: legend, line styles, annotations, perfect score ------------------
        ax = axes[0]
        leg = ax.get_legend()
        names = expected.get("-leg")
        names = names.split(",") if names else None
        data_lines = [l for l in ax.get_lines() if l.get_label() not in ("ideal",) and not l.get_label().startswith("_")]
        if flag == "-leg":
            got = [x.get_text() for x in leg.get_texts()] if leg is not None else None
            want = names + (["ideal"] if expected.get("-sp") else [])
            if got is None or sorted(got) != sorted(want):
                bad.append((flag, "-leg %s: legend entries are %r" % (val, got)))
        elif flag == "-legfs":
            got = sorted({x.get_fontsize() for x in leg.get_texts()}) if leg is not None else None
            if got is None or not all(feq(g_, float(val)) for g_ in got):
                bad.append((flag, "-legfs %s: legend font sizes are %r" % (val, got)))
        elif flag == "-legloc":
            want = LEGLOCS[val.replace("_", " ")]
            if leg is None or leg._loc != want:
                bad.append((flag, "-legloc %s: legend location code is %r, expected %d" % (val, None if leg is None else leg._loc, want)))
        elif flag in ("-lc", "-ls", "-lw", "-ma", "-ms"):
            if flag == "-lc":
                lst = verif.util.parse_colors(val)
                got = [mc.to_rgba(l.get_color()) for l in data_lines]
                want = [mc.to_rgba(str(lst[i % len(lst)]) if not isinstance(lst[i % len(lst)], list) else lst[i % len(lst)]) for i in range(len(data_lines))]
            elif flag == "-ls":
                lst = val.split(",")
                got = [l.get_linestyle() for l in data_lines]
                want = [lst[i % len(lst)] for i in range(len(data_lines))]
            elif flag == "-ma":
                lst = val.split(",")
                got = [l.get_marker() for l in data_lines]
                want = [lst[i % len(lst)] for i in range(len(data_lines))]
            else:
                lst = parse_numbers(val)
                got = [l.get_linewidth() if flag == "-lw" else l.get_markersize() for l in data_lines]
                want = [lst[i % len(lst)] for i in range(len(data_lines))]
            if len(data_lines) != nfiles or got != want:
                bad.append((flag, "%s %s: the %d data lines have %r, expected %r (element i mod n)" % (flag, val, len(data_lines), got, want)))
        elif flag == "-sp":
            if not any(l.get_label() == "ideal" for l in ax.get_lines()):
                bad.append((flag, "-sp: no perfect-score line is drawn"))
        elif flag == "-a":
            if not ax.texts:
                bad.append((flag, "-a: no annotation text is drawn"))
        elif flag == "-afs":
            if expected.get("-a") and not all(feq(x.get_fontsize(), float(val)) for x in ax.texts):
                bad.append((flag, "-afs %s: annotation sizes are %r" % (val, sorted({x.get_fontsize() for x in ax.texts}))))
        elif flag == "-af":
            if expected.get("-a"):
                n = len(val.split(","))
                if not ax.texts or not all(len(x.get_text().split()) == n for x in ax.texts):
                    bad.append((flag, "-af %s: annotations are %r" % (val, [x.get_text() for x in ax.texts][:3])))
    return bad


def gen_case(rng, tmp, ci):
    kind = rng.choice(["standard"] * 6 + ["pithist", "pithist", "map"])
    nfiles = rng.choice([2, 2, 3]) if kind == "standard" else 2
    files = [os.path.join(tmp, "full_a.txt"), os.path.join(tmp, "full_b.txt"), os.path.join(tmp, "oneloc_a.txt")][:nfiles]
    if nfiles == 3:
        files[2] = os.path.join(tmp, "full_c.txt")
    ext = rng.choice(["png"] * 6 + ["pdf", "svg", "eps", "jpg"])
    ofile = os.path.join(tmp, "c%d.%s" % (ci, ext))
    if kind == "standard":
        base = ["-m", rng.choice(["mae", "rmse", "bias"]), "-x", "leadtime"]
        pool = [f for f in FLAGS if f not in ("-f", "-clabel", "-clim")]
    elif kind == "pithist":
        base = ["-m", "pithist"]
        pool = ["-title", "-xlabel", "-ylabel", "-xlim", "-ylim", "-xticks", "-yticks", "-xrot", "-yrot", "-labfs", "-tickfs", "-titlefs",
                "-gc", "-gs", "-gw", "-nogrid", "-fs", "-dpi", "-left", "-right", "-top", "-bottom", "-nomargin", "-aspect"]
    else:
        base = ["-m", "mae", "-type", "map"]
        pool = ["-clabel", "-clim", "-title", "-fs", "-dpi", "-labfs", "-titlefs", "-legfs"]
    k = rng.randint(1, min(8, len(pool)))
    chosen = rng.sample(pool, k)
    # combinations the documentation does not define are not generated
    if "-nomargin" in chosen:
        chosen = [f for f in chosen if f not in ("-left", "-right", "-top", "-bottom")]
    if "-xticklabels" in chosen or "-yticklabels" in chosen:
        chosen = [f for f in chosen if f not in ("-xticklabels", "-yticklabels")]
    if "-af" in chosen and "-a" not in chosen:
        chosen.append("-a")
    groups = []
    for f in chosen:
        if f in BOOL:
            groups.append([f])
        else:
            v = value_pool(rng, f)
            groups.append([f, v])
            if f == "-xticks" and rng.random() < 0.5:
                n = len(parse_numbers(v))
                groups.append(["-xticklabels", ",".join("t%d" % i for i in range(n))])
            if f == "-leg" and nfiles == 3:
                groups[-1][1] = v + ",Third"
            if rng.random() < 0.12 and f != "-xticks":   # the same option twice: the last one counts (not -xticks: its labels must match)
                groups.append([f, value_pool(rng, f)])
                if f == "-leg" and nfiles == 3:
                    groups[-1][1] += ",Third"
    groups.append(["-f", ofile])
    rng.shuffle(groups)              # the order is random, also between the two occurrences of a repeated option
    argv = ["verif"] + files + base
    for g in groups:
        argv += g
    return kind, nfiles, argv, ofile


def explore(out, tier, seed, facts, replay=None):
    tmp = tempfile.mkdtemp(prefix="verif_c17_", dir=os.environ.get("VERIF_SCRATCH") or None)
    sys.path.insert(0, common.REPO)
    try:
        return _explore(out, tier, seed, facts, replay, tmp)
    finally:
        shutil.rmtree(tmp, ignore_errors=True)


def _explore(out, tier, seed, facts, replay, tmp):
    rng = random.Random(seed * 6151 + 17)
    p_c19.make_files(tmp, seed)
    frng = random.Random(seed + 5)
    p_c19.write_file(os.path.join(tmp, "full_c.txt"), frng, **p_c19.SHAPES["full"])
    n = 120 if tier == "quick" else 1200
    runner = Runner(tmp)
    stats = {"standard": 0, "pithist": 0, "map": 0}
    flag_count = {f: 0 for f in FLAGS}
    distinct = set()
    samples = []
    agree = 0
    try:
        # -a -af <fields>: every annotation shows the requested fields of ITS location, in the order given
        for fields_ in (["lon"], ["lat", "lon"], ["lon", "lat", "elev"], ["location", "elev"]):
            argv_a = ["verif", os.path.join(tmp, "full_a.txt"), os.path.join(tmp, "full_b.txt"), "-m", "mae", "-x", "location", "-a", "-af", ",".join(fields_),
                      "-f", os.path.join(tmp, "annot.png")]
            st, info = runner.run(argv_a)
            short_a = " ".join(os.path.basename(t) if os.sep in t else t for t in argv_a[1:])
            if st != "ok":
                out.violation("annotation:%s" % st, "verif %s ends with %s %s" % (short_a, st, info), {"argv": argv_a})
                continue
            fig_a = runner.cap.get("fig")
            texts_a = sorted({t_.get_text().strip() for t_ in fig_a.axes[0].texts}) if fig_a is not None and fig_a.axes else []
            meta_a = {"location": lambda s_: 10 + s_, "lat": lambda s_: 60 + s_, "lon": lambda s_: 10 + s_, "elev": lambda s_: 100 * s_}
            want_a = sorted({" ".join("%g" % meta_a[k_](s_) for k_ in fields_) for s_ in range(3)})
            if texts_a != want_a:
                out.violation("annotation-fields", "verif %s annotates the points with %r; the fields %r of the three locations are %r" % (short_a, texts_a, fields_, want_a), {"argv": argv_a})
        # -a with a missing score in the middle: every VALID point is annotated, the points after the gap included
        argv_m = ["verif", os.path.join(tmp, "miss_a.txt"), os.path.join(tmp, "miss_b.txt"), "-m", "mae", "-x", "leadtime", "-a", "-f", os.path.join(tmp, "annot_m.png")]
        st, info = runner.run(argv_m)
        if st == "ok":
            fig_m = runner.cap.get("fig")
            ax_m = fig_m.axes[0]
            valid_pts = sum(int(np.sum(~np.isnan(np.asarray(l_.get_ydata(), float)))) for l_ in ax_m.get_lines() if l_.get_label() in ("miss_a.txt", "miss_b.txt"))
            if len(ax_m.texts) != valid_pts:
                out.violation("annotation-count", "verif miss_a.txt miss_b.txt -m mae -x leadtime -a (lead time 6 of the first file has no valid case): %d annotations for %d plotted points"
                              % (len(ax_m.texts), valid_pts), {"argv": argv_m})
        else:
            out.violation("annotation:%s" % st, "verif miss_a.txt miss_b.txt -m mae -x leadtime -a ends with %s %s" % (st, info), {"argv": argv_m})
        # -xticks / -yticks / -xticklabels on a diagram that manages its own axes (droc, droc0)
        for diag_ in ("droc", "droc0"):
            argv_d = ["verif", os.path.join(tmp, "full_a.txt"), os.path.join(tmp, "full_b.txt"), "-m", diag_, "-r", "2", "-xticks", "0,0.25,0.75,1", "-yticks", "0,0.5,1",
                      "-f", os.path.join(tmp, "ticks_d.png")]
            st, info = runner.run(argv_d)
            if st != "ok":
                out.violation("ticks:%s" % st, "verif ... -m %s -r 2 -xticks 0,0.25,0.75,1 -yticks 0,0.5,1 ends with %s %s" % (diag_, st, info), {"argv": argv_d})
                continue
            ax_d = runner.cap.get("fig").axes[0]
            gx_, gy_ = [round(float(t_), 6) for t_ in ax_d.get_xticks()], [round(float(t_), 6) for t_ in ax_d.get_yticks()]
            if gx_ != [0.0, 0.25, 0.75, 1.0] or gy_ != [0.0, 0.5, 1.0]:
                out.violation("not-honoured:%s:-xticks" % diag_, "verif ... -m %s -r 2 -xticks 0,0.25,0.75,1 -yticks 0,0.5,1: the x ticks are %r, the y ticks %r" % (diag_, gx_, gy_), {"argv": argv_d})
        for b0 in range(0, n, 120):
            cases, exprs = [], []
            for ci in range(b0, min(n, b0 + 120)):
                kind, nfiles, argv, ofile = gen_case(rng, tmp, ci)
                st, info = runner.run(argv)
                stats[kind] += 1
                short = " ".join(os.path.basename(t) if os.sep in t else t for t in argv[1:])
                if st == "exception":
                    out.violation("exception:" + info.split(":")[0], "verif %s ends in an unhandled exception %s" % (short, info), {"argv": argv})
                    continue
                if st == "exit":
                    out.violation("unexpected-exit", "verif %s stops with exit status %s" % (short, info), {"argv": argv})
                    continue
                # the Figure object stays readable after mpl.close(); keep it until the model has answered
                cases.append({"kind": kind, "nfiles": nfiles, "argv": argv, "short": short, "cap": dict(runner.cap)})
                exprs.append("map (fun f => DataQ.f_of_nat (figure_value_index [%s] f)) appearance_flags" % "; ".join('"%s"' % t.replace('"', '""') for t in argv))
            try:
                got = common.coq_eval_float_lists("From Coq Require Import String.\nFrom VF Require Import Model.DataQ Model.Appearance.\nOpen Scope string_scope.",
                                                  exprs, "c17_%d_%d" % (seed, b0), chunk=30, float_scope=False)
            except RuntimeError as ex:
                out.broken_obligation("tie:Appearance", str(ex)[-1500:])
                got = []
            for rec, g in zip(cases, got):
                argv = rec["argv"]
                expected = {}
                model_ok = True
                for f, v in zip(FLAGS, g):
                    v = int(v)
                    if v == 0:
                        expected[f] = None
                    elif v == 1000:
                        expected[f] = True
                    elif v == 2000 or v >= len(argv):
                        model_ok = False
                    else:
                        expected[f] = argv[v]
                # the harness's own reading of the command line (last occurrence), as a cross-check of the model
                own = {}
                for i, t in enumerate(argv):
                    if t in FLAGS and i >= 3:
                        own[t] = True if t in BOOL else argv[i + 1]
                if not model_ok or any(expected.get(f) != own.get(f) for f in FLAGS):
                    out.broken_obligation("tie:Appearance.figure_value", "the model's reading of %r differs from the command line: model %r, expected %r" % (
                        argv, {k: v for k, v in expected.items() if v is not None}, own))
                    continue
                for f in FLAGS:
                    if expected.get(f) is not None:
                        flag_count[f] += 1
                distinct.add(tuple(sorted(f for f in FLAGS if expected.get(f) is not None)) + (rec["kind"],))
                r = _Snap()
                r.cap = rec["cap"]
                bad = check_case(r, argv, expected, rec["kind"], rec["nfiles"])
                if bad:
                    f, msg = bad[0]
                    out.violation("not-honoured:%s:%s" % (rec["kind"], f), "verif %s: %s" % (rec["short"], msg),
                                  {"argv": argv, "all_unhonoured": ["%s: %s" % b for b in bad]})
                else:
                    agree += 1
                if len(samples) < 3:
                    samples.append(rec["short"])
    finally:
        runner.close()
        runner.mpl.close("all")
    return {
        "evaluations": n,
        "distinct_nontrivial": len(distinct),
        "rule": "one verif.driver.run per case: a standard line plot (mae/rmse/bias, 2-3 inputs), pithist (one sub-axes per input) or a map, "
                "with a random subset (1-8) of the documented appearance options, random values and order, 12% of options given twice; "
                "distinct = distinct (kind, option subset). Every option present is checked on the figure handed to savefig",
        "samples": samples,
        "input_distribution": dict(stats, options_checked=flag_count),
        "traces_validated_against_impl": agree,
    }


class _Snap(object):
    pass
