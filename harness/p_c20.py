"""C20 -- helper scripts.  Tie B: scripts/accumulate.py, ens2prob.py and expandverif.py are run
in-process on generated text / NetCDF files; every variable of the NetCDF file each one writes is
read back with netCDF4 and compared with the hand-written model (coq/Model/Scripts.v, evaluated by
coqc with vm_compute on exact rationals) and with an independent Python oracle (three-way vote).
Falsifier: everything a script does not transform (times, lead times, location metadata, obs / fcst)
must come back unchanged, and no run may end in an unhandled exception."""
import importlib.util
import math
import os
import random
import shutil
import sys
import tempfile
from fractions import Fraction

import numpy as np

import common
import datagen
import p_c10

GEN_PREFIXES = []
EXTRA_TARGETS = ["Model/Scripts.vo", "Model/DataQ.vo"]
ASSUMPTIONS = ["the netCDF4 / scipy libraries and the file system are outside the model",
               "values are multiples of 1/4 so that float32 storage and sums are exact",
               "quantiles and PIT are compared for complete ensembles only (the property does not say how missing members count)",
               "quantile levels are taken from {0, .1, .25, .5, .75, .9, 1} with at most 5 members, where the float knots of linspace(0,1,M) are exact"]
NAN = float("nan")
PRE = "From Coq Require Import ZArith QArith.\nFrom VF Require Import Base.Num Model.DataQ Model.Scripts."


def load_script(name):
    spec = importlib.util.spec_from_file_location("%s_mod" % name, os.path.join(common.REPO, "scripts", "%s.py" % name))
    mod = importlib.util.module_from_spec(spec)
    spec.loader.exec_module(mod)
    return mod


def run_script(name, argv):
    """returns ('ok', None) | ('exit', code) | ('exception', repr)"""
    saved = sys.argv
    sys.argv = [name] + argv
    try:
        with common.quiet():
            mod = load_script(name)
            mod.main()
        return ("ok", None)
    except SystemExit as e:
        code = e.code if isinstance(e.code, int) else (0 if e.code is None else 1)
        return ("ok", None) if code == 0 else ("exit", code)
    except datagen.ImplExit as e:
        return ("exit", 1)
    except Exception as e:
        return ("exception", "%s: %s" % (type(e).__name__, e))
    finally:
        sys.argv = saved


def read_nc(path):
    import netCDF4
    nc = netCDF4.Dataset(path)
    res = {}
    for k, v in nc.variables.items():
        a = v[:]
        a = np.ma.filled(np.ma.masked_invalid(np.ma.asarray(a, float)) if a.dtype.kind == "f" else np.ma.asarray(a).astype(float), NAN)
        a = np.array(a, float)
        a[np.abs(a) > 1e30] = NAN
        res[k] = a
    dims = {k: v.dimensions for k, v in nc.variables.items()}
    nc.close()
    # canonical order: locations sorted by id (a text input lists them in file order)
    if "location" in res:
        order = np.argsort(res["location"], kind="stable")
        for k, dm in dims.items():
            if "location" in dm:
                res[k] = np.take(res[k], order, axis=dm.index("location"))
    return res


def gen(rng, kind):
    """abstract dataset (same dictionary shape as p_c10.gen_abstract)"""
    if kind == "expand":
        nt, nl = rng.randint(1, 4), rng.randint(1, 4)
        base = rng.choice([1325376000, 1325376000, -86400 * 400, 2208988800])      # also runs before 1970 and after 2038
        times = sorted(rng.sample([base + 86400 * dd + 3600 * h for dd in range(3) for h in (0, 6, 12, 18)], nt))
        leads = sorted(rng.sample([0.0, 1.5, 6.0, 7.5, 12.0, 18.0, 24.0, 30.0], nl))      # also lead times that are not whole hours
    else:
        nt, nl = rng.randint(1, 4), rng.randint(1, 5)
        base2 = rng.choice([1325376000, 1325376000, 1325376000, -86400 * 400, 2208988800])
        times = sorted(rng.sample([base2 + 21600 * k for k in range(8)], nt))
        leads = sorted(rng.sample([0.0, 0.5, 1.0, 1.5, 2.0, 2.25, 3.0, 6.0, 12.0, 24.0], nl))      # also lead times that are not whole hours
    ns = rng.randint(1, 3)
    locs = sorted(rng.sample([(1, 60.0, 10.0, 100.0), (2, 60.5, 10.5, 0.0), (7, 59.0, -120.0, 250.0), (18, -33.5, 151.25, 12.0)], ns))
    miss = rng.choice([0.0, 0.1, 0.3])

    def cube(extra=None, lo=-8, hi=24, m=miss):
        shape = (nt, nl, ns) + (() if extra is None else (extra,))
        a = np.array([rng.randint(lo, hi) / 4.0 for _ in range(int(np.prod(shape)))]).reshape(shape)
        mm = np.array([rng.random() < m for _ in range(int(np.prod(shape)))]).reshape(shape)
        a[mm] = NAN
        return a
    d = {"times": times, "leads": leads, "locs": locs, "ids_from_zero": False, "thr": [], "qua": [], "nmem": 0,
         "arrays": {"obs": cube(), "fcst": cube()}, "other": []}
    if kind == "ens":
        d["nmem"] = rng.randint(1, 5)
        # a narrow value range gives ties between members and between members and the observation
        d["ens"] = cube(d["nmem"], lo=0, hi=8, m=rng.choice([0.0, 0.0, 0.15]))
        d["arrays"]["obs"] = cube(lo=0, hi=8)
    return d


def write_input(rng, d, tmp, tag):
    fmt = rng.choice(["text", "nc"])
    fn = os.path.join(tmp, "%s_in.%s" % (tag, "txt" if fmt == "text" else "nc"))
    if fmt == "text":
        p_c10.write_text(fn, d)
    else:
        p_c10.write_nc(fn, d, rng, {"location": True, "latlon": True, "altitude": True, "fill": None})
    return fn, fmt


def q(v):
    return "None" if (v is None or (isinstance(v, float) and math.isnan(v))) else "(Some (%d # %d)%%Q)" % (Fraction(str(float(v))).numerator, Fraction(str(float(v))).denominator)


def qr(v):
    fr = Fraction(str(float(v)))
    return "(%d # %d)%%Q" % (fr.numerator, fr.denominator)


def qlist(vs):
    return "[" + "; ".join(q(v) for v in vs) + "]"


def meta_bad(d, o):
    bad = []
    if [float(t) for t in o.get("time", [])] != [float(t) for t in d["times"]]:
        bad.append("time")
    if not np.allclose(o.get("leadtime", []), d["leads"]) if len(o.get("leadtime", [])) == len(d["leads"]) else True:
        bad.append("leadtime")
    for k, i in (("location", 0), ("lat", 1), ("lon", 2), ("altitude", 3)):
        exp = [l[i] for l in d["locs"]]
        got = list(o.get(k, []))
        if len(got) != len(exp) or not np.allclose(got, exp, atol=1e-4):
            bad.append(k)
    return bad


def same(a, b, tol=1e-6):
    a, b = np.asarray(a, float), np.asarray(b, float)
    if a.shape != b.shape:
        return False
    n = np.isnan(a)
    return bool(np.array_equal(n, np.isnan(b)) and np.allclose(a[~n], b[~n], rtol=tol, atol=tol))


# ---- independent oracles (plain Python, written from the property text) --------------------------

def oracle_acc(series, w, ignore):
    out = []
    for i in range(len(series)):
        if w is None:
            win = series[:i + 1]
        elif w <= 1:
            out.append(series[i])
            continue
        elif i < w - 1:
            out.append(NAN)
            continue
        else:
            win = series[i - w + 1:i + 1]
        if ignore:
            win = [0.0 if math.isnan(v) else v for v in win]
        out.append(NAN if any(math.isnan(v) for v in win) else sum(win))
    return out


def oracle_cdf(members, t):
    p = [m for m in members if not math.isnan(m)]
    return NAN if not p else sum(1 for m in p if m < t) / len(p)


def oracle_quantile(members, lev):
    s = sorted(members)
    if lev == 1:
        return s[-1]
    return s[int(math.floor(Fraction(str(lev)) * (len(s) - 1)))]


def oracle_pit(obs, members):
    return NAN if math.isnan(obs) else sum(1 for m in members if m < obs) / len(members)


def explore(out, tier, seed, facts, replay=None):
    datagen.patch_error()
    return _explore(out, tier, seed, facts, replay)


def vote(out, key, what, model, impl, oracle, rep, tie_name):
    """model / implementation / oracle three-way vote on one variable"""
    mi, mo, io = same(model, impl), same(model, oracle), same(impl, oracle)
    if mi and mo:
        return True
    if not mi and mo:
        out.violation(key, what + ": the script writes %s, the model and the oracle say %s" % (np.asarray(impl).flatten().tolist()[:12], np.asarray(model).flatten().tolist()[:12]), rep)
    elif mi and not mo:
        out.broken_obligation("oracle:" + key, "harness oracle disagrees with model and implementation on %r" % (rep,))
    else:
        out.broken_obligation(tie_name, "model, script and oracle differ (%s) on %r: model %s script %s oracle %s" % (
            key, rep, np.asarray(model).flatten().tolist()[:8], np.asarray(impl).flatten().tolist()[:8], np.asarray(oracle).flatten().tolist()[:8]))
    return False


def _explore(out, tier, seed, facts, replay):
    rng = random.Random(seed * 7919 + 20)
    n = 72 if tier == "quick" else 600
    tmp = tempfile.mkdtemp(prefix="verif_c20_", dir=os.environ.get("VERIF_SCRATCH") or None)
    exprs, pending = [], []
    stats = {"accumulate": 0, "ens2prob": 0, "expandverif": 0, "error_exits": 0, "text_inputs": 0, "nc_inputs": 0}
    distinct = set()
    samples = []
    try:
        for ci in range(n):
            kind = ("acc", "ens", "expand")[ci % 3]
            d = gen(rng, kind)
            fin, fmt = write_input(rng, d, tmp, "c%d" % ci)
            stats["%s_inputs" % ("text" if fmt == "text" else "nc")] += 1
            fo = os.path.join(tmp, "c%d_out.nc" % ci)
            nt, nl, ns = len(d["times"]), len(d["leads"]), len(d["locs"])
            if kind == "acc":
                # the option combinations are enumerated, not sampled: 6 windows x -i x axis
                k = ci // 3
                axis = ("leadtime", "time")[k % 2]
                ig = bool((k // 2) % 2)
                dim = nl if axis == "leadtime" else nt
                w = [None, 2, 3, dim, 1, dim + 1][(k // 4) % 6]
                argv = [fin, fo] + ([] if w is None else ["-w", str(w)]) + (["-i"] if ig else []) + (["-x", axis] if axis == "time" or rng.random() < 0.5 else [])
                rep = {"script": "accumulate", "argv": argv[2:], "format": fmt, "times": d["times"], "leads": d["leads"], "locs": d["locs"],
                       "obs": d["arrays"]["obs"].tolist(), "fcst": d["arrays"]["fcst"].tolist()}
                st, info = run_script("accumulate", argv)
                stats["accumulate"] += 1
                distinct.add(("acc", w if w is None or w <= 3 else "dim" if w == dim else "over", ig, axis, fmt))
                if st == "exception":
                    out.violation("accumulate:exception", "accumulate %s ends in an unhandled exception %s" % (" ".join(argv[2:]), info), rep)
                    continue
                if w is not None and w > dim:
                    if st != "exit":
                        out.violation("accumulate:window-too-long", "accumulate -w %d on a dimension of size %d does not stop with an error" % (w, dim), rep)
                    stats["error_exits"] += 1
                    continue
                if st == "exit":
                    out.violation("accumulate:unexpected-exit", "accumulate %s exits with status %s" % (" ".join(argv[2:]), info), rep)
                    continue
                o = read_nc(fo)
                bad = meta_bad(d, o)
                if bad:
                    out.violation("accumulate:preserve:" + bad[0], "accumulate does not preserve %s" % ", ".join(bad), rep)
                for f in ("obs", "fcst"):
                    a = d["arrays"][f]
                    series = []
                    if axis == "leadtime":
                        idx = [(t, s) for t in range(nt) for s in range(ns)]
                        series = [list(a[t, :, s]) for t, s in idx]
                    else:
                        idx = [(l, s) for l in range(nl) for s in range(ns)]
                        series = [list(a[:, l, s]) for l, s in idx]
                    wq = "None" if w is None else "(Some %d%%nat)" % w
                    exprs.append("flat_map (fun s => map f_of_oQ (accumulate %s %s s)) [%s]" % (wq, "true" if ig else "false", "; ".join(qlist(s) for s in series)))
                    orc = [oracle_acc(s, w, ig) for s in series]
                    if f not in o:
                        out.violation("accumulate:missing-variable", "accumulate writes no %s variable" % f, rep)
                        exprs.pop()
                        continue
                    if axis == "leadtime":
                        imp = [list(o[f][t, :, s]) for t, s in idx] if o[f].shape == a.shape else None
                    else:
                        imp = [list(o[f][:, l, s]) for l, s in idx] if o[f].shape == a.shape else None
                    pending.append(("accumulate:%s%s" % (f, ":cumulative" if w is None else ":window"), "accumulate %s, variable %s" % (" ".join(argv[2:]), f), imp, orc, rep, "tie:Scripts.accumulate"))
                if len(samples) < 1:
                    samples.append({k: rep[k] for k in ("script", "argv", "format", "leads", "obs")})
            elif kind == "ens":
                M = d["nmem"]
                # thresholds and levels in the order the user happens to give them (not necessarily increasing)
                thr = rng.sample([0.0, 0.5, 1.0, 1.25, 2.0, 5.0], rng.randint(0, 3))
                qua = rng.sample([0.0, 0.1, 0.25, 0.5, 0.75, 0.9, 1.0], rng.randint(0, 3))
                pit = rng.random() < 0.6
                argv = [fin, fo] + (["-r", ",".join("%g" % t for t in thr)] if thr else []) + (["-q", ",".join("%g" % x for x in qua)] if qua else []) + (["-p"] if pit else [])
                rep = {"script": "ens2prob", "argv": argv[2:], "format": fmt, "times": d["times"], "leads": d["leads"], "locs": d["locs"],
                       "obs": d["arrays"]["obs"].tolist(), "ensemble": d["ens"].tolist()}
                st, info = run_script("ens2prob", argv)
                stats["ens2prob"] += 1
                distinct.add(("ens", M, len(thr), len(qua), pit, fmt, bool(np.isnan(d["ens"]).any())))
                if st != "ok":
                    out.violation("ens2prob:" + st, "ens2prob %s ends with %s %s" % (" ".join(argv[2:]), st, info), rep)
                    continue
                o = read_nc(fo)
                bad = meta_bad(d, o)
                for f in ("obs", "fcst"):
                    if f not in o or not same(o[f], d["arrays"][f]):
                        bad.append(f)
                if thr and ("threshold" not in o or not np.allclose(o["threshold"], thr)):
                    bad.append("threshold")
                if qua and ("quantile" not in o or not np.allclose(o["quantile"], qua)):
                    bad.append("quantile")
                if bad:
                    out.violation("ens2prob:preserve:" + bad[0], "ens2prob does not preserve %s" % ", ".join(bad), rep)
                cells = [(t, l, s) for t in range(nt) for l in range(nl) for s in range(ns)]
                ens = d["ens"]
                if thr:
                    exprs.append("flat_map (fun m => map (fun t => f_of_oQ (ens_cdf t m)) [%s]) [%s]" % (
                        "; ".join(qr(t) for t in thr), "; ".join(qlist(ens[c]) for c in cells)))
                    orc = [[oracle_cdf(list(ens[c]), t) for t in thr] for c in cells]
                    imp = [list(o["cdf"][c]) for c in cells] if "cdf" in o and o["cdf"].shape == (nt, nl, ns, len(thr)) else None
                    pending.append(("ens2prob:cdf", "ens2prob -r %s, variable cdf" % thr, imp, orc, rep, "tie:Scripts.ens_cdf"))
                full = [c for c in cells if not np.isnan(ens[c]).any()]
                if qua and full:
                    exprs.append("flat_map (fun m => map (fun lev => f_of_oQ (ens_quantile lev m)) [%s]) [%s]" % (
                        "; ".join(qr(x) for x in qua), "; ".join("[" + "; ".join(qr(v) for v in ens[c]) + "]" for c in full)))
                    orc = [[oracle_quantile(list(ens[c]), x) for x in qua] for c in full]
                    imp = [list(o["x"][c]) for c in full] if "x" in o and o["x"].shape == (nt, nl, ns, len(qua)) else None
                    pending.append(("ens2prob:quantile", "ens2prob -q %s, variable x" % qua, imp, orc, rep, "tie:Scripts.ens_quantile"))
                if pit and full:
                    obs = d["arrays"]["obs"]
                    exprs.append("map (fun p => f_of_oQ (ens_pit (fst p) (snd p))) [%s]" % "; ".join(
                        "(%s, [%s])" % (q(obs[c]), "; ".join(qr(v) for v in ens[c])) for c in full))
                    orc = [[oracle_pit(float(obs[c]), list(ens[c]))] for c in full]
                    imp = [[o["pit"][c]] for c in full] if "pit" in o and o["pit"].shape == (nt, nl, ns) else None
                    key = "ens2prob:pit"
                    pending.append((key, "ens2prob -p, variable pit", imp, orc, rep, "tie:Scripts.ens_pit"))
                if len(samples) < 2:
                    samples.append({k: rep[k] for k in ("script", "argv", "format", "ensemble")})
            else:
                inits = sorted(rng.sample([0, 6, 12, 18], rng.randint(1, 2)))
                olead = sorted(rng.sample([0, 1.5, 6, 7.5, 12, 18, 24, 30, 36], rng.randint(1, 4)))
                argv = [fin, "-o", fo, "-i", ",".join(str(i) for i in inits), "-lt", ",".join("%g" % l for l in olead)]
                rep = {"script": "expandverif", "argv": argv[1:], "format": fmt, "times": d["times"], "leads": d["leads"], "locs": d["locs"],
                       "obs": d["arrays"]["obs"].tolist()}
                st, info = run_script("expandverif", argv)
                stats["expandverif"] += 1
                distinct.add(("expand", tuple(inits), len(olead), nt, nl, fmt))
                if st != "ok":
                    out.violation("expandverif:" + st, "expandverif %s ends with %s %s" % (" ".join(argv[1:]), st, info), rep)
                    continue
                o = read_nc(fo)
                days = sorted({(t // 86400) * 86400 for t in d["times"]})
                otimes = [dd + i * 3600 for i in inits for dd in days]
                dd2 = dict(d)
                dd2["times"], dd2["leads"] = otimes, [float(l) for l in olead]
                bad = meta_bad(dd2, o)
                if bad:
                    out.violation("expandverif:preserve:" + bad[0], "expandverif writes wrong %s (requested initialisation times %s, lead times %s)" % (", ".join(bad), otimes, olead), rep)
                    continue
                obs = d["arrays"]["obs"]
                rows = [list(obs[t, l, :]) for t in range(nt) for l in range(nl)]
                cells = [(t, l) for t in otimes for l in olead]
                exprs.append("flat_map (fun c => match expand_cell [%s]%%Z [%s]%%Z [%s] (fst c) (snd c) with Some r => map f_of_oQ r | None => [%s] end) [%s]" % (
                    "; ".join(str(t) for t in d["times"]), "; ".join(str(int(l * 3600)) for l in d["leads"]),
                    "; ".join(qlist(r) for r in rows), "; ".join(["nan"] * ns),
                    "; ".join("(%d, %d)%%Z" % (t, int(round(l * 3600))) for t, l in cells)))
                valid = [t + int(l * 3600) for t in d["times"] for l in d["leads"]]
                orc = []
                for t, l in cells:
                    v = t + int(round(l * 3600))
                    orc.append(rows[valid.index(v)] if v in valid else [NAN] * ns)
                imp = [list(o["obs"][i // len(olead), i % len(olead), :]) for i in range(len(cells))] if "obs" in o and o["obs"].shape == (len(otimes), len(olead), ns) else None
                pending.append(("expandverif:obs", "expandverif %s, variable obs" % " ".join(argv[3:]), imp, orc, rep, "tie:Scripts.expand_cell"))
                if len(samples) < 3:
                    samples.append({k: rep[k] for k in ("script", "argv", "format", "times", "leads")})
        # ---- files without observations (or without forecasts) are legal verif inputs: a script transforms what is there or
        #      stops with a message, and expandverif needs -lt; none of them may end in an unhandled exception
        fno = os.path.join(tmp, "noobs.txt")
        with open(fno, "w") as f_:
            f_.write("unixtime leadtime location lat lon altitude fcst e0 e1\n")
            for t_ in range(2):
                for l_ in (0, 6, 12):
                    f_.write("%d %d 1 60 10 100 %g %g %g\n" % (1325376000 + 86400 * t_, l_, 1.0 + l_, 0.5 * l_, 2.0 + t_))
        fnf = os.path.join(tmp, "nofcst.txt")
        with open(fnf, "w") as f_:
            f_.write("unixtime leadtime location lat lon altitude obs\n")
            for t_ in range(2):
                for l_ in (0, 6, 12):
                    f_.write("%d %d 1 60 10 100 %g\n" % (1325376000 + 86400 * t_, l_, 1.0 + l_))
        fo_ = os.path.join(tmp, "partial_out.nc")
        for script_, argv_, must in (("accumulate", [fno, fo_], "ok"), ("accumulate", [fno, fo_, "-w", "2"], "ok"), ("accumulate", [fnf, fo_], "ok"),
                                     ("ens2prob", [fno, fo_, "-r", "2", "-q", "0,1"], "ok"), ("ens2prob", [fno, fo_, "-p"], "ok-or-exit"),
                                     ("expandverif", [fno, "-o", fo_, "-lt", "0,6"], "ok-or-exit"), ("expandverif", [fnf, "-o", fo_, "-i", "0"], "exit")):
            if os.path.exists(fo_):
                os.remove(fo_)
            st, info = run_script(script_, argv_)
            stats[script_] += 1
            okay = st == "ok" if must == "ok" else (st in ("ok", "exit") if must == "ok-or-exit" else st == "exit")
            if not okay:
                out.violation("%s:partial-file:%s" % (script_, st), "%s %s on a file %s ends with %s %s (expected: %s)" % (
                    script_, " ".join(os.path.basename(a_) for a_ in argv_), "without observations" if fno in argv_ else "without forecasts", st, info, must),
                    {"script": script_, "argv": [os.path.basename(a_) for a_ in argv_], "file": open(argv_[0]).read()})
            elif st == "ok" and script_ == "accumulate":
                o_ = read_nc(fo_)
                have = "fcst" if fno in argv_ else "obs"
                lack = "obs" if have == "fcst" else "fcst"
                if have not in o_ or (lack in o_ and not np.all(np.isnan(o_[lack]))):
                    out.violation("accumulate:partial-file:fields", "accumulate %s: the output has %s; the input has only %s" % (" ".join(os.path.basename(a_) for a_ in argv_), sorted(k_ for k_ in o_ if k_ in ("obs", "fcst")), have),
                                  {"script": script_, "argv": [os.path.basename(a_) for a_ in argv_], "file": open(argv_[0]).read()})
        # ---- accumulate on series of realistic length (scipy picks another convolution method for large arrays): a missing
        #      value makes exactly the windows that contain it missing, nothing else
        for big in range(2 if tier == "quick" else 6):
            nt_b, nl_b, ns_b = rng.choice([(30, 240, 10), (50, 120, 20), (200, 67, 12)])
            axis_b = rng.choice(["leadtime", "time"])
            w_b = rng.choice([12, 24])
            arr_o = np.round(np.array([rng.random() * 10 for _ in range(nt_b * nl_b * ns_b)]).reshape(nt_b, nl_b, ns_b), 1)
            arr_f = arr_o + 1.0
            holes = [(rng.randrange(nt_b), rng.randrange(nl_b), rng.randrange(ns_b)) for _ in range(3)]
            for h_ in holes:
                arr_o[h_] = NAN
            d_b = {"times": [1325376000 + 86400 * k for k in range(nt_b)], "leads": [float(k) for k in range(nl_b)],
                   "locs": [(k + 1, 60.0, 10.0 + k, 100.0) for k in range(ns_b)], "ids_from_zero": False, "thr": [], "qua": [], "nmem": 0,
                   "arrays": {"obs": arr_o, "fcst": arr_f}, "other": []}
            fin_b = os.path.join(tmp, "big%d_in.nc" % big)
            fo_b = os.path.join(tmp, "big%d_out.nc" % big)
            p_c10.write_nc(fin_b, d_b, rng, {"location": True, "latlon": True, "altitude": True, "fill": None})
            argv_b = [fin_b, fo_b, "-w", str(w_b)] + (["-x", "time"] if axis_b == "time" else [])
            st, info = run_script("accumulate", argv_b)
            stats["accumulate"] += 1
            rep_b = {"script": "accumulate", "argv": argv_b[2:], "shape": [nt_b, nl_b, ns_b], "missing_observations_at(time,lead,location)": holes,
                     "values": "obs = random multiples of 0.1 in [0, 10], fcst = obs + 1"}
            if st != "ok":
                out.violation("accumulate:large:%s" % st, "accumulate %s on a %dx%dx%d file ends with %s %s" % (" ".join(argv_b[2:]), nt_b, nl_b, ns_b, st, info), rep_b)
                continue
            o_b = read_nc(fo_b)
            ax_i = 1 if axis_b == "leadtime" else 0
            for f_ in ("obs", "fcst"):
                a_ = d_b["arrays"][f_]
                cs = np.cumsum(np.where(np.isnan(a_), 0.0, a_), axis=ax_i)
                nn = np.cumsum(np.isnan(a_).astype(int), axis=ax_i)
                want_b = np.full(a_.shape, NAN)
                sl_hi = [slice(None)] * 3
                sl_lo = [slice(None)] * 3
                sl_hi[ax_i] = slice(w_b - 1, None)
                n_ax = a_.shape[ax_i]
                zero_shape = list(a_.shape)
                zero_shape[ax_i] = 1
                cs0 = np.concatenate([np.zeros(zero_shape), cs], axis=ax_i)
                nn0 = np.concatenate([np.zeros(zero_shape, int), nn], axis=ax_i)
                hi_ = [slice(None)] * 3
                lo_ = [slice(None)] * 3
                hi_[ax_i] = slice(w_b, n_ax + 1)
                lo_[ax_i] = slice(0, n_ax + 1 - w_b)
                sums_ = cs0[tuple(hi_)] - cs0[tuple(lo_)]
                miss_ = (nn0[tuple(hi_)] - nn0[tuple(lo_)]) > 0
                want_b[tuple(sl_hi)] = np.where(miss_, NAN, sums_)
                got_b = o_b.get(f_)
                if got_b is None or got_b.shape != want_b.shape:
                    out.violation("accumulate:large:shape", "accumulate %s: %s missing or of the wrong shape" % (" ".join(argv_b[2:]), f_), rep_b)
                    continue
                nb = np.isnan(got_b) != np.isnan(want_b)
                if nb.any() or not np.allclose(got_b[~np.isnan(want_b)], want_b[~np.isnan(want_b)], rtol=1e-5, atol=1e-3):
                    out.violation("accumulate:large:window", "accumulate %s on a %dx%dx%d file: %s has %d missing values, the windows that are incomplete or contain a missing value number %d "
                                  "(%d cells differ in missingness)" % (" ".join(argv_b[2:]), nt_b, nl_b, ns_b, f_, int(np.isnan(got_b).sum()), int(np.isnan(want_b).sum()), int(nb.sum())), rep_b)
    finally:
        shutil.rmtree(tmp, ignore_errors=True)
    agree = 0
    try:
        got = common.coq_eval_float_lists(PRE, exprs, "c20_%d" % seed, chunk=20, float_scope=True)
        for g, (key, what, imp, orc, rep, tie) in zip(got, pending):
            flat_o = [v for r in orc for v in r]
            if imp is None:
                out.violation(key + ":shape", what + ": variable missing or of the wrong shape", rep)
                continue
            flat_i = [float(v) for r in imp for v in r]
            if vote(out, key, what, g, flat_i, flat_o, rep, tie):
                agree += 1
    except RuntimeError as ex:
        out.broken_obligation("tie:Scripts", str(ex)[-1500:])
    stats.update({"variables_compared": len(pending), "variables_agreeing": agree})
    return {
        "evaluations": n + len(pending),
        "distinct_nontrivial": len(distinct),
        "rule": "one script run per generated file (text or NetCDF, 1-4 times x 1-5 lead times x 1-3 locations, multiples of 1/4, "
                "0/10/30% missing); distinct = distinct (script, option shape, input format) combinations; each written variable is "
                "compared with the Coq model (vm_compute) and an independent oracle",
        "samples": samples,
        "input_distribution": stats,
        "traces_validated_against_impl": agree,
    }
