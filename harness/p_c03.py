"""C03 -- verified dimensions = intersection of inputs and the user's subset.
Tie B: Model/Data.v against verif.data.Data on generated datasets with all nine subsetting options.
Falsifier: independent set arithmetic (written from the property text) against the implementation."""
import math
import random

import numpy as np

import common
import datagen
import datatie

EXTRA_TARGETS = ["Model/DataQ.vo"]
GEN_PREFIXES = []
ASSUMPTIONS = [
    "coordinates are multiples of 0.001 (times integral seconds) so that float comparison is exact",
    "inputs are in-memory Input objects (the readers are covered by C09/C10)",
    "option strings -> constructor arguments is C13's concern; here Data(...) is called directly",
]


def expected_dims(ds):
    """the property text, as set arithmetic"""
    cfg = ds["cfg"]
    allinp = ds["inputs"] + ([cfg["clim"]] if "clim" in cfg else [])
    first = ds["inputs"][0]
    times = set(first["times"])
    leads = set(first["leads"])
    for i in allinp:
        times &= set(i["times"])
        leads &= set(i["leads"])
    if "times" in cfg:
        times &= set(cfg["times"])
    if "dates" in cfg:
        times = {t for t in times if (t // 86400) * 86400 in cfg["dates"]}
    if "tods" in cfg:
        times = {t for t in times if (t % 86400) / 3600.0 in cfg["tods"]}
    if "leads" in cfg:
        leads &= set(cfg["leads"])
    ids = set(s[0] for s in first["locs"])
    for i in allinp:
        ids &= set(s[0] for s in i["locs"])
    meta = {}
    for s in first["locs"]:
        meta.setdefault(s[0], []).append(s)
    if "locs" in cfg:
        ids &= set(cfg["locs"])
    if "lat" in cfg or "lon" in cfg:
        lat = cfg.get("lat")        # a range constrains only when it is given
        lon = cfg.get("lon")
        ids = {x for x in ids if any((lat is None or lat[0] <= s[1] <= lat[1]) and (lon is None or lon[0] <= s[2] <= lon[1]) for s in meta[x])}
    if "elev" in cfg:
        e = cfg["elev"]
        ids = {x for x in ids if any(e[0] <= s[3] <= e[1] for s in meta[x])}
    if "locs_x" in cfg:
        ids -= set(cfg["locs_x"])
    return sorted(times), sorted(leads), sorted(ids)


def explore(out, tier, seed, facts, replay=None):
    with common.quiet():
        return _explore(out, tier, seed, facts, replay)


def _explore(out, tier, seed, facts, replay):
    datagen.patch_error()
    n = 120 if tier == "quick" else 1500
    stats, cases = datatie.run_tie(out, seed, n, 6, "c03", options=True)
    rng = random.Random(seed + 77)
    nf = 0
    distinct = set()
    samples = []
    for c in cases:
        ds = c["ds"]
        et, el, es = expected_dims(ds)
        impl = c["impl"]
        nf += 1
        key = repr(sorted(ds["cfg"].keys())) + repr((et, el, es))
        distinct.add(key)
        if impl[0] in ("error", "exception"):
            if impl[0] == "exception":
                out.violation("construction-exception", "Data(...) raised %s" % impl[1], ds)
            elif et and el and es and not ("dates" in ds["cfg"] or "tods" in ds["cfg"]):
                # an error exit although the documented selection is not empty
                if impl[1] != 2 or "elev" not in ds["cfg"]:
                    out.violation("spurious-error-exit", "error exit %r but the selection is non-empty: %r" % (impl, (et, el, es)), ds)
            continue
        (it, il, isx), _ = impl
        if [float(x) for x in it] != [float(x) for x in et] or not common.close_lists(il, el) or \
                [float(x) for x in isx] != [float(x) for x in es]:
            out.violation("dims", "verified dims %r differ from intersection/subset %r" % ((it, il, isx), (et, el, es)), ds)
        if len(samples) < 3 and ds["cfg"]:
            samples.append({"options": {k: v for k, v in ds["cfg"].items() if k != "clim"}, "times": it, "leads": il, "locs": isx})
        # ascending, no duplicates
        for nm, l in (("times", it), ("leads", il), ("locs", isx)):
            if any(a >= b for a, b in zip(l, l[1:])):
                out.violation("not-ascending:%s" % nm, "%s not strictly ascending: %r" % (nm, l), ds)
        # -obsrange: scores using obs only see cases inside the range; requests without obs unaffected
        if "obs_range" in ds["cfg"]:
            lo, hi = ds["cfg"]["obs_range"]
            r = datagen.impl_request(ds, (["obs", "fcst"], 0, 3, 0))
            if not isinstance(r, tuple):
                for v in r[0]:
                    if not math.isnan(v):
                        cl = ds["cfg"].get("clim")
                        if cl is None and not (lo <= v <= hi):
                            out.violation("obsrange", "observation %r outside [%r,%r] delivered" % (v, lo, hi), ds)
            ds2 = {"inputs": ds["inputs"], "cfg": {k: v for k, v in ds["cfg"].items() if k != "obs_range"}}
            a = datagen.impl_request(ds, (["fcst"], 0, 3, 0))
            b = datagen.impl_request(ds2, (["fcst"], 0, 3, 0))
            if "clim" not in ds["cfg"] and not datatie.compare_cols(a, b):
                out.violation("obsrange-touches-fcst", "-obsrange changed a request without observations", ds)
        # empty selection => error or NaN
        if not et and impl[0] not in ("error", "exception"):
            r = datagen.impl_request(ds, (["obs", "fcst"], 0, 3, 0))
            if not isinstance(r, tuple) and not all(len(col) == 1 and math.isnan(col[0]) for col in r):
                out.violation("empty-selection-numeric", "no time selected but get_scores returned %r" % (r,), ds)
    # stations with unknown elevation (NetCDF files can have them): never inside an elevation range
    import verif.data
    for k in range(20 if tier == "quick" else 200):
        ds = datagen.gen_dataset(rng, options=False)
        first = ds["inputs"][0]
        inputs = [datagen.mem_input(s, "in%d" % i) for i, s in enumerate(ds["inputs"])]
        j = rng.randrange(len(first["locs"]))
        inputs[0].locations[j].elev = float("nan")
        elevs = [s[3] for s in first["locs"]]
        rngv = [min(elevs) - 1, max(elevs) + 1]
        nf += 1
        try:
            d = verif.data.Data(inputs, elev_range=rngv)
            ids = [l.id for l in d.locations]
            bad_ids = {first["locs"][jj][0] for jj in range(len(first["locs"])) if jj == j}
            good = {s[0] for jj, s in enumerate(first["locs"]) if jj != j}
            if any(i in bad_ids and i not in good for i in ids):
                out.violation("elevrange-nan-elevation", "a station with missing elevation passed -elevrange %r" % rngv,
                              {"dataset": ds, "nan_elev_index": j, "elev_range": rngv})
        except datagen.ImplExit:
            pass
        except Exception as e:
            out.violation("construction-exception", "Data(...) raised %r with a NaN elevation" % e, ds)
    # the same options from the command line (non-integer values included): the rows of `-type csv` are exactly the selected entries
    import os
    import shutil
    import tempfile
    from p_c13 import run_cli
    tmpc = tempfile.mkdtemp(prefix="vfc03_")
    try:
        leads_c = [0.0, 1.5, 3.0, 6.0, 7.25]
        locs_c = [(1, 60.0, 10.0, 100.0), (7, 59.5, -120.0, 250.5), (18, -33.5, 151.25, 12.0), (55, 45.0, 200.5, 30.0)]
        fnc = os.path.join(tmpc, "cli.txt")
        with open(fnc, "w") as f_:
            f_.write("unixtime leadtime location lat lon altitude obs fcst\n")
            for t_ in (1325376000, 1325462400):
                for l_ in leads_c:
                    for (i_, la_, lo_, el_) in locs_c:
                        f_.write("%d %g %d %g %g %g %g %g\n" % (t_, l_, i_, la_, lo_, el_, rng.randint(0, 20) / 2.0, rng.randint(0, 20) / 2.0))
        cases_c = [(["-o", "1.5,6"], "leadtime", [1.5, 6.0]), (["-o", "7.25"], "leadtime", [7.25]), (["-o", "0:1.5:3"], "leadtime", [0.0, 1.5, 3.0]),
                   (["-o", "0.5"], "leadtime", None), (["-o", "1"], "leadtime", None),
                   (["-l", "7,18"], "location", [7.0, 18.0]), (["-lx", "7"], "location", [1.0, 18.0, 55.0]),
                   (["-latrange", "59.5,60"], "location", [1.0, 7.0]), (["-latrange", "44.5,45.5"], "location", [55.0]),
                   (["-lonrange", "151.25,200.5"], "location", [18.0, 55.0]), (["-elevrange", "12,100"], "location", [1.0, 18.0, 55.0]),
                   (["-elevrange", "250.25,250.75"], "location", [7.0]), (["-latrange", "59.5,60", "-lonrange", "9.5,10"], "location", [1.0])]
        for opts_c, ax_c, want_c in cases_c:
            foc = os.path.join(tmpc, "o.csv")
            if os.path.exists(foc):
                os.remove(foc)
            argv_c = ["verif", fnc, "-m", "mae", "-x", ax_c, "-type", "csv", "-f", foc] + opts_c
            r_c = run_cli(argv_c)
            nf += 1
            if r_c[0] == "exception":
                out.violation("cli-exception", "verif %s raised %s" % (" ".join(argv_c[2:]), r_c[1]), {"argv": argv_c, "file": open(fnc).read()})
                continue
            got_c = None
            if r_c[0] == "ok" and os.path.exists(foc):
                rows_c = [ln.split(",") for ln in open(foc).read().strip().split("\n")[1:]]
                got_c = [float(r_[0]) for r_ in rows_c if r_[1].strip() != "nan"]
            if got_c != want_c and not (want_c is None and not got_c):
                out.violation("cli-selection:%s" % opts_c[0], "verif -m mae -x %s %s verifies the entries %r, the option selects %r" % (ax_c, " ".join(opts_c), got_c, want_c),
                              {"argv": argv_c, "file": open(fnc).read()})
        # a row whose lead time is missing (-999) adds no lead time and takes none away; times not on a whole hour are selected by
        # their own time of day only (-tod 0 does not take 00:30, -tod 0.5 does)
        import verif.data
        import verif.input
        fnm = os.path.join(tmpc, "cli_miss.txt")
        with open(fnm, "w") as f_:
            f_.write(open(fnc).read())
            f_.write("1325376000 -999 1 60 10 100 3 4\n")
            for l_ in leads_c:
                f_.write("1325377800 %g 1 60 10 100 %g %g\n" % (l_, rng.randint(0, 20) / 2.0, rng.randint(0, 20) / 2.0))
        for kw_, what_, want_ in (({}, "leadtimes", leads_c), ({}, "times", [1325376000, 1325377800, 1325462400]),
                                  ({"tods": [0]}, "times", [1325376000, 1325462400]), ({"tods": [0.5]}, "times", [1325377800]),
                                  ({"tods": [0, 0.5]}, "times", [1325376000, 1325377800, 1325462400]), ({"tods": [1]}, "times", None)):
            nf += 1
            try:
                d_ = verif.data.Data([verif.input.Text(fnm)], **kw_)
                got_ = [float(x) for x in getattr(d_, what_)]
            except (SystemExit, datagen.ImplExit):
                got_ = None
            except Exception as e_:
                out.violation("missing-leadtime-row" if not kw_ else "tod-selection", "Data([file]%s) raised %s: %s" % ("".join(", %s=%r" % kv for kv in kw_.items()), type(e_).__name__, e_),
                              {"file": open(fnm).read(), "options": kw_})
                continue
            if got_ != (None if want_ is None else [float(x) for x in want_]):
                out.violation("missing-leadtime-row" if not kw_ else "tod-selection", "Data([file]%s).%s is %r, expected %r (the file has a row with lead time -999 and a run at 00:30)"
                              % ("".join(", %s=%r" % kv for kv in kw_.items()), what_, got_, want_), {"file": open(fnm).read(), "options": kw_})
    finally:
        shutil.rmtree(tmpc, ignore_errors=True)
    stats.update({
        "evaluations": stats["datasets"] + stats["requests"] + nf,
        "distinct_nontrivial": len(distinct),
        "rule": "seeded datasets (1-4 inputs + optional climatology, shuffled orders, extras, duplicates) x random subsets of the "
                "nine subsetting options with values equal to coordinates, neighbours and values matching nothing; distinct = "
                "(option set, resulting dimensions); every case is non-trivial (non-identical inputs or at least one option)",
        "samples": samples or [{"note": "no option sample"}],
        "falsifier_evaluations": nf,
        "traces_validated_against_impl": stats["datasets"],
    })
    return stats
