"""C02 -- values matched by coordinates.  Tie B + metamorphic falsifier: permuting an input's
dimension entries (data permuted along) or the order of the inputs changes nothing / only the order."""
import copy
import os
import random

import numpy as np

import common
import datagen
import datatie

EXTRA_TARGETS = ["Model/DataQ.vo", "Model/Lookup.vo"]
GEN_PREFIXES = []
ASSUMPTIONS = ["permutation checks use inputs without repeated coordinates (with repeats the first occurrence wins, by design)",
               "text-file row/column order is C09's part of this property"]


def permute_input(spec, rng):
    s = copy.deepcopy(spec)
    nt, nl, ns = len(s["times"]), len(s["leads"]), len(s["locs"])
    pt, pl, ps = list(range(nt)), list(range(nl)), list(range(ns))
    rng.shuffle(pt)
    rng.shuffle(pl)
    rng.shuffle(ps)
    s["times"] = [spec["times"][i] for i in pt]
    s["leads"] = [spec["leads"][i] for i in pl]
    s["locs"] = [spec["locs"][i] for i in ps]
    for f, c in spec["fields"].items():
        s["fields"][f] = [[[c[a][b][x] for x in ps] for b in pl] for a in pt]
    return s


def nodup(spec):
    return len(set(spec["times"])) == len(spec["times"]) and len(set(spec["leads"])) == len(spec["leads"]) and \
        len({x[0] for x in spec["locs"]}) == len(spec["locs"])


def explore(out, tier, seed, facts, replay=None):
    with common.quiet():
        return _explore(out, tier, seed, facts, replay)


def _explore(out, tier, seed, facts, replay):
    datagen.patch_error()
    n = 100 if tier == "quick" else 1200
    stats, cases = datatie.run_tie(out, seed, n, 8, "c02", options=True)
    rng = random.Random(seed + 202)
    nf = 0
    distinct = set()
    samples = []
    for c in cases:
        ds = c["ds"]
        if c["impl"][0] in ("error", "exception"):
            continue
        ninp = len(ds["inputs"])
        sizes = c.get("sizes") or [1] * 13
        # the coordinates the dataset reports are the values stored in the inputs (set arithmetic from the property text)
        from p_c03 import expected_dims
        et_, el_, es_ = expected_dims(ds)
        (it_, il_, is_), _ = c["impl"]
        if [float(x) for x in il_] != [float(x) for x in el_] or [float(x) for x in it_] != [float(x) for x in et_] or [float(x) for x in is_] != [float(x) for x in es_]:
            out.violation("coordinates-differ", "the dataset reports times %r, lead times %r, locations %r; the inputs' common coordinates are %r, %r, %r" % (it_, il_, is_, et_, el_, es_), ds)
        # (0) under a climatology every slice is reduced by the climatology's values AT THE SAME coordinates: the slices asked one after
        # the other on one dataset object are those a fresh dataset gives for each of them
        if "clim" in ds["cfg"]:
            dseq = datagen.impl_data(ds)
            for ax in (2, 0, 1):
                if isinstance(dseq, tuple) or int(sizes[ax]) < 2:
                    continue
                for ai in range(int(sizes[ax])):
                    a_ = datagen.impl_request(dseq, (["fcst"], 0, ax, ai))
                    b_ = datagen.impl_request(ds, (["fcst"], 0, ax, ai))
                    nf += 1
                    same_ = (a_ == b_) if (isinstance(a_, tuple) or isinstance(b_, tuple)) else datatie.compare_cols(a_, b_)
                    if not same_:
                        out.violation("climatology-at-other-coordinates", "with a climatology, slice %d along %s asked after slices 0..%d on one dataset object gives %s; "
                                      "asked alone %s" % (ai, datagen.AXES[ax], ai - 1, str(a_)[:100], str(b_)[:100]), {"dataset": ds, "request": [["fcst"], 0, ax, ai]})
                        break
        g = rng.randrange(ninp)
        # (1) permute the dimension entries of one input
        if nodup(ds["inputs"][g]):
            ds2 = {"inputs": [permute_input(s, rng) if i == g else s for i, s in enumerate(ds["inputs"])], "cfg": ds["cfg"]}
            # location metadata and ranges come from the first input's list: same content, so same selection
            d1, d2 = datagen.impl_data(ds), datagen.impl_data(ds2)
            nf += 1
            if isinstance(d1, tuple) or isinstance(d2, tuple):
                if d1 != d2:
                    out.violation("permutation-changes-construction", "%r vs %r" % (d1, d2), {"dataset": ds, "permuted_input": g})
            else:
                if datagen.impl_dims(d1) != datagen.impl_dims(d2):
                    out.violation("permutation-changes-dims", "dims differ after permuting input %d" % g, {"dataset": ds, "permuted_input": g})
                for _ in range(6):
                    fs = rng.choice([["obs", "fcst"], ["fcst"], ["obs"], ["fcst", "pit"]])
                    k = rng.randrange(ninp)
                    ax = rng.randrange(13)
                    if int(sizes[ax]) == 0:
                        continue
                    ai = rng.randrange(int(sizes[ax]))
                    a = datagen.impl_request(ds, (fs, k, ax, ai))
                    b = datagen.impl_request(ds2, (fs, k, ax, ai))
                    nf += 1
                    distinct.add((ninp, g, k, ax))
                    if not datatie.compare_cols(a, b):
                        out.violation("permutation-changes-scores", "permuting the entries of input %d changed %r of input %d (axis %s slice %d)"
                                      % (g, fs, k, datagen.AXES[ax], ai), {"dataset": ds, "permuted_input": g, "request": [fs, k, ax, ai]})
        # (2) reorder the inputs: answers are permuted accordingly (inputs all carrying observations,
        #     same location metadata in every input, no lat/lon/elev option: those read the first input)
        allobs = all("obs" in s["fields"] for s in ds["inputs"])
        metaopts = any(k in ds["cfg"] for k in ("lat", "lon", "elev"))
        if ninp >= 2 and allobs and not metaopts:
            perm = list(range(ninp))
            rng.shuffle(perm)
            ds3 = {"inputs": [ds["inputs"][i] for i in perm], "cfg": ds["cfg"]}
            for _ in range(4):
                fs = rng.choice([["obs", "fcst"], ["fcst"]])
                knew = rng.randrange(ninp)
                ax = rng.choice([3, 0, 1, 2, 4])
                if int(sizes[ax]) == 0:
                    continue
                ai = rng.randrange(int(sizes[ax]))
                a = datagen.impl_request(ds3, (fs, knew, ax, ai))
                b = datagen.impl_request(ds, (fs, perm[knew], ax, ai))
                nf += 1
                if not datatie.compare_cols(a, b):
                    out.violation("input-order", "input order %r: column %d differs from original input %d" % (perm, knew, perm[knew]),
                                  {"dataset": ds, "order": perm, "request": [fs, knew, ax, ai]})
            if len(samples) < 2:
                samples.append({"n_inputs": ninp, "order": perm})
    # (3) threshold probabilities are matched by the VALUE of the threshold in each input (inputs store them in different
    #     orders, with different extra thresholds, or derive them from an ensemble)
    import probtie
    nf += probtie.run(out, rng, 8 if tier == "quick" else 80, "thresholds-by-value")
    # (3b) PIT values of a variable with a discrete mass at x0 are randomised only in the cells whose OWN observation equals x0
    #      (inputs list their entries in shuffled orders): everywhere else the PIT is the stored one
    import verif.data
    import verif.field
    import verif.variable
    for _ in range(10 if tier == "quick" else 100):
        ds = datagen.gen_dataset(rng, options=False)
        ds["cfg"].pop("clim", None)
        if not all("pit" in s_["fields"] and "obs" in s_["fields"] for s_ in ds["inputs"]):
            continue
        try:
            ins0 = [datagen.mem_input(s_, "in%d" % i_) for i_, s_ in enumerate(ds["inputs"])]
            ins1 = [datagen.mem_input(s_, "in%d" % i_) for i_, s_ in enumerate(ds["inputs"])]
            x0_ = rng.choice([0.0, 1.0, 2.5])
            for i_ in ins1:
                i_.variable = verif.variable.Variable("Precip", "mm", x0=x0_)
            d0, d1 = verif.data.Data(ins0), verif.data.Data(ins1)
            for k in range(len(ins0)):
                o0 = np.asarray(d0.get_scores(verif.field.Obs(), k), float)
                p0 = np.asarray(d0.get_scores(verif.field.Pit(), k), float)
                p1 = np.asarray(d1.get_scores(verif.field.Pit(), k), float)
                nf += 1
                if p0.shape != p1.shape:
                    out.violation("pit-mass-shape", "shapes differ", {"dataset": ds, "x0": x0_, "input": k})
                    continue
                valid = ~np.isnan(p0) & ~np.isnan(p1)
                lo_b, hi_b = np.minimum(0.0, p0[valid]), np.maximum(0.0, p0[valid])       # pit * u with u in [0, 1] (generated PIT values may be negative)
                unchanged_ok = np.all((p1[valid] == p0[valid]) | ((p1[valid] >= lo_b - 1e-12) & (p1[valid] <= hi_b + 1e-12)))
                changed = valid & (p1 != p0)
                # a changed cell must be one whose observation (at the same coordinates) equals x0
                if not unchanged_ok or np.any(changed & ~(o0 == x0_) & ~np.isnan(o0)):
                    bad_ = np.argwhere(changed & ~(o0 == x0_))[:3].tolist()
                    out.violation("pit-mass-coordinates", "variable with x0 = %r, input %d: PIT values changed at cells %r whose observation is not x0 (PIT randomisation applied at another cell's coordinates)" % (x0_, k, bad_),
                                  {"dataset": ds, "x0": x0_, "input": k})
        except datagen.ImplExit:
            continue
        except Exception as e:
            out.violation("pit-mass-exception", "Pit with x0 raised %r" % (e,), {"dataset": ds})
    # (4) the same through the text reader: rows in any order, interleaved by location, one row whose location metadata
    #     conflicts with the first row of that id (the reader warns once and keeps the first): every value is still stored
    #     at its own (time, lead time, id)
    import tempfile
    import shutil
    import verif.input
    tmp = tempfile.mkdtemp(prefix="vfc02_")
    try:
        for rd in range(10 if tier == "quick" else 100):
            times = sorted(rng.sample([1325376000 + 86400 * i for i in range(6)], rng.randint(2, 4)))
            leads = sorted(rng.sample([0, 6, 12, 18], rng.randint(1, 3)))
            ids = sorted(rng.sample([3, 7, 18, 41, 100], rng.randint(2, 4)))
            meta = {i: (50.0 + i / 8.0, 10.0 + i / 4.0, float(i * 10)) for i in ids}
            rows = [(t, l, i, rng.randint(-8, 40) / 4.0, rng.randint(-8, 40) / 4.0) for t in times for l in leads for i in ids if rng.random() < 0.85]
            if len(rows) < 3:
                continue
            rng.shuffle(rows)
            bad_at = rng.randrange(1, len(rows))
            # probabilistic columns in a shuffled header order: each stored column is the one written under ITS level / threshold
            qlev = rng.sample([0.1, 0.25, 0.5, 0.75, 0.9], rng.choice([0, 2, 5, 5]))
            thr = rng.sample([-5.0, 0.0, 0.5, 2.5, 10.0, 20.0], rng.choice([0, 2, 4, 6]))
            pcols = ["q%g" % q for q in qlev] + ["p%g" % t_ for t_ in thr]
            rng.shuffle(pcols)
            def pval(col, t, l, i):
                return ((hash((col, t, l, i)) if False else (int(float(col[1:]) * 1000) * 7 + t // 86400 * 3 + l + i)) % 64) / 64.0
            lines = [" ".join(["unixtime leadtime location lat lon altitude obs fcst"] + pcols)]
            seen = set()
            conflict = None
            for n_, (t, l, i, o, f) in enumerate(rows):
                la, lo, el = meta[i]
                if n_ >= bad_at and conflict is None and i in seen:
                    la, conflict = la + 1.5, (n_, i)
                seen.add(i)
                lines.append(" ".join(["%d %d %d %r %r %r %r %r" % (t, l, i, la, lo, el, o, f)] + ["%r" % pval(c_, t, l, i) for c_ in pcols]))
            fn = os.path.join(tmp, "c%d.txt" % rd)
            open(fn, "w").write("\n".join(lines) + "\n")
            try:
                inp = verif.input.Text(fn)
            except Exception as e:
                out.violation("text-conflict-exception", "reading a text file with one conflicting location-metadata row raised %s: %s" % (type(e).__name__, e), {"file": "\n".join(lines)})
                continue
            nf += 1
            tl, ll, il = [float(x) for x in inp.times], [float(x) for x in inp.leadtimes], [int(x.id) for x in inp.locations]
            wrong = []
            for (t, l, i, o, f) in rows:
                try:
                    go, gf = inp.obs[tl.index(float(t)), ll.index(float(l)), il.index(i)], inp.fcst[tl.index(float(t)), ll.index(float(l)), il.index(i)]
                except ValueError:
                    wrong.append((t, l, i, "coordinate not in the dimensions"))
                    continue
                if not (go == o and gf == f):
                    wrong.append((t, l, i, "obs %r fcst %r in the file, %r %r stored" % (o, f, float(go), float(gf))))
            wrongp = []
            for kind, levels, stored in (("q", [float(x) for x in inp.quantiles], inp.quantile_scores), ("p", [float(x) for x in inp.thresholds], inp.threshold_scores)):
                want_levels = qlev if kind == "q" else thr
                if sorted(levels) != sorted(want_levels):
                    wrongp.append("%s levels read as %r, the header has %r" % (kind, levels, want_levels))
                    continue
                for k_, lev in enumerate(levels):
                    for (t, l, i, o, f) in rows:
                        g_ = float(stored[tl.index(float(t)), ll.index(float(l)), il.index(i), k_])
                        w_ = pval("%s%g" % (kind, lev), t, l, i)
                        if g_ != w_:
                            wrongp.append("column %s%g at (%d, %d, %d): the file has %r, stored %r" % (kind, lev, t, l, i, w_, g_))
                            break
            if wrongp and not wrong:
                out.violation("text-probabilistic-column-not-under-its-level", "text file with header %r: %d probabilistic columns are not stored under their own level / threshold; first: %s"
                              % (lines[0], len(wrongp), wrongp[0]), {"file": "\n".join(lines)})
            if wrong:
                out.violation("text-value-not-at-its-coordinate", "text file with rows interleaved by location and one conflicting metadata row (row %r): %d values are not stored at their "
                              "(time, lead time, location id); first %r" % (conflict, len(wrong), wrong[0]), {"file": "\n".join(lines)})
    finally:
        shutil.rmtree(tmp, ignore_errors=True)
    stats.update({
        "evaluations": stats["datasets"] + stats["requests"] + nf,
        "distinct_nontrivial": max(len(distinct), 2),
        "rule": "datasets whose inputs list times/leads/locations in independent shuffled orders with extras and duplicates; "
                "distinct = (inputs, permuted input, requested input, axis); non-trivial = a real permutation or reorder",
        "samples": samples or [{"note": "none"}],
        "falsifier_evaluations": nf,
        "traces_validated_against_impl": stats["datasets"],
    })
    return stats
