"""C02 -- values matched by coordinates.  Tie B + metamorphic falsifier: permuting an input's
dimension entries (data permuted along) or the order of the inputs changes nothing / only the order."""
import copy
import random

import common
import datagen
import datatie

EXTRA_TARGETS = ["Model/DataQ.vo"]
GEN_PREFIXES = []
ASSUMPTIONS = ["permutation checks use inputs without repeated coordinates (with repeats the first occurrence wins, by design)",
               "text-file row/column order is C09's part of this property"]


def permute_input(spec, rng):
    s = copy.deepcopy(spec)
    nt, nl, ns = len(s["times"]), len(s["leads"]), len(s["locs"])
    pt, pl, ps = list(range(nt)), list(range(nl)), list(range(ns))
    rng.shuffle(pt)
    rng.shuffle(pl)
    rng.shuffle(ps)
    s["times"] = [spec["times"][i] for i in pt]
    s["leads"] = [spec["leads"][i] for i in pl]
    s["locs"] = [spec["locs"][i] for i in ps]
    for f, c in spec["fields"].items():
        s["fields"][f] = [[[c[a][b][x] for x in ps] for b in pl] for a in pt]
    return s


def nodup(spec):
    return len(set(spec["times"])) == len(spec["times"]) and len(set(spec["leads"])) == len(spec["leads"]) and \
        len({x[0] for x in spec["locs"]}) == len(spec["locs"])


def explore(out, tier, seed, facts, replay=None):
    with common.quiet():
        return _explore(out, tier, seed, facts, replay)


def _explore(out, tier, seed, facts, replay):
    datagen.patch_error()
    n = 100 if tier == "quick" else 1200
    stats, cases = datatie.run_tie(out, seed, n, 8, "c02", options=True)
    rng = random.Random(seed + 202)
    nf = 0
    distinct = set()
    samples = []
    for c in cases:
        ds = c["ds"]
        if c["impl"][0] in ("error", "exception"):
            continue
        ninp = len(ds["inputs"])
        sizes = c.get("sizes") or [1] * 13
        g = rng.randrange(ninp)
        # (1) permute the dimension entries of one input
        if nodup(ds["inputs"][g]):
            ds2 = {"inputs": [permute_input(s, rng) if i == g else s for i, s in enumerate(ds["inputs"])], "cfg": ds["cfg"]}
            # location metadata and ranges come from the first input's list: same content, so same selection
            d1, d2 = datagen.impl_data(ds), datagen.impl_data(ds2)
            nf += 1
            if isinstance(d1, tuple) or isinstance(d2, tuple):
                if d1 != d2:
                    out.violation("permutation-changes-construction", "%r vs %r" % (d1, d2), {"dataset": ds, "permuted_input": g})
            else:
                if datagen.impl_dims(d1) != datagen.impl_dims(d2):
                    out.violation("permutation-changes-dims", "dims differ after permuting input %d" % g, {"dataset": ds, "permuted_input": g})
                for _ in range(6):
                    fs = rng.choice([["obs", "fcst"], ["fcst"], ["obs"], ["fcst", "pit"]])
                    k = rng.randrange(ninp)
                    ax = rng.randrange(13)
                    if int(sizes[ax]) == 0:
                        continue
                    ai = rng.randrange(int(sizes[ax]))
                    a = datagen.impl_request(ds, (fs, k, ax, ai))
                    b = datagen.impl_request(ds2, (fs, k, ax, ai))
                    nf += 1
                    distinct.add((ninp, g, k, ax))
                    if not datatie.compare_cols(a, b):
                        out.violation("permutation-changes-scores", "permuting the entries of input %d changed %r of input %d (axis %s slice %d)"
                                      % (g, fs, k, datagen.AXES[ax], ai), {"dataset": ds, "permuted_input": g, "request": [fs, k, ax, ai]})
        # (2) reorder the inputs: answers are permuted accordingly (inputs all carrying observations,
        #     same location metadata in every input, no lat/lon/elev option: those read the first input)
        allobs = all("obs" in s["fields"] for s in ds["inputs"])
        metaopts = any(k in ds["cfg"] for k in ("lat", "lon", "elev"))
        if ninp >= 2 and allobs and not metaopts:
            perm = list(range(ninp))
            rng.shuffle(perm)
            ds3 = {"inputs": [ds["inputs"][i] for i in perm], "cfg": ds["cfg"]}
            for _ in range(4):
                fs = rng.choice([["obs", "fcst"], ["fcst"]])
                knew = rng.randrange(ninp)
                ax = rng.choice([3, 0, 1, 2, 4])
                if int(sizes[ax]) == 0:
                    continue
                ai = rng.randrange(int(sizes[ax]))
                a = datagen.impl_request(ds3, (fs, knew, ax, ai))
                b = datagen.impl_request(ds, (fs, perm[knew], ax, ai))
                nf += 1
                if not datatie.compare_cols(a, b):
                    out.violation("input-order", "input order %r: column %d differs from original input %d" % (perm, knew, perm[knew]),
                                  {"dataset": ds, "order": perm, "request": [fs, knew, ax, ai]})
            if len(samples) < 2:
                samples.append({"n_inputs": ninp, "order": perm})
    stats.update({
        "evaluations": stats["datasets"] + stats["requests"] + nf,
        "distinct_nontrivial": max(len(distinct), 2),
        "rule": "datasets whose inputs list times/leads/locations in independent shuffled orders with extras and duplicates; "
                "distinct = (inputs, permuted input, requested input, axis); non-trivial = a real permutation or reorder",
        "samples": samples or [{"note": "none"}],
        "falsifier_evaluations": nf,
        "traces_validated_against_impl": stats["datasets"],
    })
    return stats
