"""C07 -- event definitions.  Tie A validation (generated Gallina, run on primitive floats, against
the real Python functions on the full order-relation grid) + falsifier (implementation against the
eight documented inequalities written directly)."""
import itertools
import math
import random

import numpy as np

import common
from common import fl, close

EXTRA_TARGETS = ["Model/Render.vo"]
GEN_PREFIXES = ["verif/interval.py", "verif/util.py", "verif/metric.py:get_p"]
ASSUMPTIONS = [
    "floating-point comparison of exactly representable values is exact; signed zeros not modelled",
    "thresholds are finite numbers; values range over finite reals, NaN and +-inf",
    "numpy masked-array semantics as restated in coq/Base/Event.v",
]
BTS = ["below", "below=", "above", "above=", "within", "=within", "within=", "=within="]
CT = {"below": "Below", "below=": "BelowEq", "above": "Above", "above=": "AboveEq", "within": "Within",
      "=within": "EqWithin", "within=": "WithinEq", "=within=": "EqWithinEq"}
NAN, INF = float("nan"), float("inf")


def doc_event(bt, t, u, x):
    """the documented events, straight from the help text"""
    if math.isnan(x):
        return False
    return {"below": x < t, "below=": x <= t, "above": x > t, "above=": x >= t,
            "within": t < x < u, "=within": t <= x < u, "within=": t < x <= u, "=within=": t <= x <= u}[bt]


def order_grid(ts):
    """every order relation a value can have to the thresholds"""
    vals = [-INF, INF, NAN, ts[0] - 1.5, ts[-1] + 2.25]
    for a in ts:
        vals.append(a)
        # just off the threshold on either side: a closed end includes the threshold itself and nothing else
        vals += [a + 1e-6, a - 1e-6, float(np.nextafter(a, INF)), float(np.nextafter(a, -INF))]
    for a, b in zip(ts, ts[1:]):
        if a != b:
            vals.append((a + b) / 2)
    return vals


def impl_within(iv, x):
    r = iv.within(x)
    if isinstance(r, float) and math.isnan(r):
        return None
    return bool(r)


def impl_within_array(iv, xs):
    r = iv.within(np.array(xs, float))
    out = []
    m = np.ma.getmaskarray(r)
    d = np.ma.getdata(r)
    for i in range(len(xs)):
        out.append(None if m[i] else bool(d[i]))
    return out


def ob(v):
    return 2.0 if v is None else (1.0 if v else 0.0)


def explore(out, tier, seed, facts, replay=None):
    import verif.interval
    import verif.util
    with common.quiet():
        return _explore(out, tier, seed, facts, replay)


def _explore(out, tier, seed, facts, replay=None):
    import verif.interval
    import verif.util
    rng = random.Random(seed)
    stats = {"generator": {}}
    # ---- threshold lists ------------------------------------------------------------------
    tlists = [[0.0], [1.0, 1.0], [-2.0, 0.5], [0.0, 1.0, 2.5], [0.0, 1.0, 1.0, 3.0], [3.0, 1.0]]
    n_extra = 6 if tier == "quick" else 60
    for _ in range(n_extra):
        k = rng.randint(1, 4)
        tlists.append(sorted(rng.choice([-3, -1, -0.5, 0, 0.25, 1, 2, 2.5, 7]) for _ in range(k)))
    # ---- Tie A: generated definitions (float instance) vs the implementation ----------------
    exprs, expected, descr = [], [], []
    for ts in tlists:
        grid = order_grid(ts)
        for bt in BTS:
            # get_intervals
            ivs = verif.util.get_intervals(bt, np.array(ts))
            exp = []
            for iv in ivs:
                exp += [iv.lower, iv.upper, 1.0 if iv.lower_eq else 0.0, 1.0 if iv.upper_eq else 0.0]
            exprs.append("flat_map r_interval (get_intervals XF %s %s)" % (CT[bt], common.fl_list(ts)))
            expected.append(exp)
            descr.append({"fn": "get_intervals", "bin_type": bt, "thresholds": ts})
            # membership scalar + array, thresholding, per interval
            t = ts[0]
            u = ts[1] if len(ts) > 1 else None
            for iv in ivs[:2]:
                sc = [ob(impl_within(iv, x)) for x in grid]
                ar = [ob(v) for v in impl_within_array(iv, grid)]
                args = "%s %s %s %s" % (fl(iv.lower), fl(iv.upper), "true" if iv.lower_eq else "false",
                                        "true" if iv.upper_eq else "false")
                exprs.append("map (fun x => r_obool (within_scalar XF %s x)) %s"
                             % (args, common.fl_list(grid)))
                expected.append(sc)
                descr.append({"fn": "Interval.within(scalar)", "interval": str(iv), "values": grid})
                exprs.append("map (fun x => r_obool (within_elem XF %s x)) %s"
                             % (args, common.fl_list(grid)))
                expected.append(ar)
                descr.append({"fn": "Interval.within(array)", "interval": str(iv), "values": grid})
            for upper in ([None] if u is None else [None, u]):
                try:
                    r = list(verif.util.apply_threshold(np.array(grid, float), bt, t, upper))
                except SystemExit:
                    r = None
                us = "None" if upper is None else "(Some %s)" % fl(upper)
                exprs.append("flat_map (fun x => r_ofloat (apply_threshold XF %s %s %s x)) %s"
                             % (CT[bt], fl(t), us, common.fl_list(grid)))
                expected.append([-7.0] * len(grid) if r is None else r)
                descr.append({"fn": "apply_threshold", "bin_type": bt, "threshold": t, "upper": upper, "values": grid})
            for c, cu in [(0.25, 0.75), (0.0, 1.0), (0.5, None)]:
                try:
                    r = verif.util.apply_threshold_prob(c, bt, cu)
                except SystemExit:
                    r = None
                us = "None" if cu is None else "(Some %s)" % fl(cu)
                exprs.append("r_ofloat (apply_threshold_prob XF %s %s %s)"
                             % (fl(c), CT[bt], us))
                expected.append([-7.0] if r is None else [float(r)])
                descr.append({"fn": "apply_threshold_prob", "bin_type": bt, "cdf": c, "cdf_upper": cu})
    disagreements = []
    try:
        got = common.coq_eval_float_lists("From VF Require Import Base.Num Base.Vec Base.Event Gen.Gen_interval Model.Render.",
                                          exprs, "c07_%d" % seed)
        for g, e, d in zip(got, expected, descr):
            if not common.close_lists(g, [float(v) for v in e]):
                disagreements.append({"case": d, "model": g, "implementation": e})
    except RuntimeError as ex:
        out.broken_obligation("tie:Gen_interval", str(ex)[-1500:])
    if disagreements:
        out.broken_obligation("tie:translation-validation",
                              "%d of %d cases differ; first: %r" % (len(disagreements), len(exprs), disagreements[0]))
    # ---- falsifier: the implementation against the documented events ---------------------------
    nfals = 0
    distinct = set()
    samples = []
    for ts in tlists:
        grid = order_grid(ts)
        inc = all(a < b for a, b in zip(ts, ts[1:]))
        for bt in BTS:
            ivs = verif.util.get_intervals(bt, np.array(ts))
            pairs = list(zip(ts, ts[1:])) if "within" in bt else [(t, t) for t in ts]
            if len(ivs) != len(pairs):
                out.violation("get_intervals-count:%s" % bt, "get_intervals(%r,%r) gives %d intervals, expected %d"
                              % (bt, ts, len(ivs), len(pairs)), {"bin_type": bt, "thresholds": ts})
                continue
            for iv, (t, u) in zip(ivs, pairs):
                arr = impl_within_array(iv, grid)
                for x, a in zip(grid, arr):
                    nfals += 1
                    distinct.add((bt, tuple(ts), repr(x)))
                    want = None if math.isnan(x) else doc_event(bt, t, u, x)
                    s = impl_within(iv, x)
                    if len(samples) < 4 and nfals % 97 == 0:
                        samples.append({"bin_type": bt, "thresholds": [t, u], "x": repr(x), "within": s, "documented": want})
                    inf_end = math.isinf(x) and "within" not in bt
                    for kind, v in (("scalar", s), ("array", a)):
                        if v != want:
                            key = "Interval.within:infinite-value-one-sided" if inf_end else \
                                "Interval.within:%s:%s" % (kind, bt)
                            out.violation(key, "Interval.within(%r) for -b %s thresholds (%r,%r) is %r, documented event says %r"
                                          % (x, bt, t, u, v, want),
                                          {"fn": "Interval.within", "kind": kind, "bin_type": bt, "t": t, "u": u, "x": repr(x)})
                # thresholding vs documented event (needs upper for the within family)
                try:
                    garr = np.array(grid, float)
                    r = verif.util.apply_threshold(garr, bt, t, u if "within" in bt else None)
                    if not np.array_equal(garr, np.array(grid, float), equal_nan=True):
                        out.violation("apply_threshold:input-modified", "apply_threshold(array, %r, %r) overwrites the array it is given: %r became %r"
                                      % (bt, t, grid[:8], garr.tolist()[:8]), {"fn": "apply_threshold", "bin_type": bt, "t": t, "values": [repr(x) for x in grid]})
                    for x, v in zip(grid, r):
                        want = NAN if math.isnan(x) else float(doc_event(bt, t, u, x))
                        if not close(v, want):
                            out.violation("apply_threshold:%s" % bt, "apply_threshold(%r,%r,%r,%r) = %r, documented %r"
                                          % (x, bt, t, u, v, want), {"fn": "apply_threshold", "bin_type": bt, "t": t, "u": u, "x": repr(x)})
                except SystemExit:
                    out.violation("apply_threshold-exit:%s" % bt, "apply_threshold exits for %s with upper threshold" % bt,
                                  {"bin_type": bt})
            # partition of (first, last] by the within= events
            if bt == "within=" and inc and len(ts) >= 2:
                for x in grid:
                    if math.isnan(x):
                        continue
                    cnt = sum(1 for iv in ivs if impl_within(iv, x))
                    want = 1 if ts[0] < x <= ts[-1] else 0
                    if cnt != want:
                        out.violation("within=-partition", "x=%r lies in %d within= bins of %r, expected %d" % (x, cnt, ts, want),
                                      {"thresholds": ts, "x": repr(x)})
        # above complements below=
        for t in ts:
            a = verif.util.get_intervals("above", np.array([t]))[0]
            b = verif.util.get_intervals("below=", np.array([t]))[0]
            for x in grid:
                if math.isnan(x) or math.isinf(x):
                    continue
                if impl_within(a, x) == impl_within(b, x):
                    out.violation("above-complement", "x=%r t=%r: above and below= agree" % (x, t), {"t": t, "x": repr(x)})
    # event probabilities
    for bt in BTS:
        for c, cu in [(0.25, 0.75), (0.0, 1.0), (0.3, 0.3)]:
            want = {"below": c, "below=": c, "above": 1 - c, "above=": 1 - c}.get(bt, cu - c)
            try:
                got = verif.util.apply_threshold_prob(c, bt, cu)
            except SystemExit:
                got = None
            nfals += 1
            if got is None or not close(got, want):
                out.violation("apply_threshold_prob:%s" % bt, "apply_threshold_prob(%r,%r,%r) = %r, documented %r" % (c, bt, cu, got, want),
                              {"fn": "apply_threshold_prob", "bin_type": bt, "c": c, "cu": cu})
    # contingency counting and Count/Within metrics use the same membership (agreement across the program)
    import verif.metric
    for ts in tlists[:6]:
        grid = [x for x in order_grid(ts) if not math.isinf(x)]
        for bt in BTS:
            ivs = verif.util.get_intervals(bt, np.array(ts))
            pairs = list(zip(ts, ts[1:])) if "within" in bt else [(t, t) for t in ts]
            for iv, (t, u) in zip(ivs, pairs):
                obs = np.array(grid, float)
                fcst = np.array(list(reversed(grid)), float)
                m = verif.metric.Hit()
                a, b, c, d = m._compute_abcd(obs, fcst, iv)
                valid = [(o, f) for o, f in zip(obs, fcst) if not (math.isnan(o) or math.isnan(f))]
                wa = sum(1 for o, f in valid if doc_event(bt, t, u, f) and doc_event(bt, t, u, o))
                wb = sum(1 for o, f in valid if doc_event(bt, t, u, f) and not doc_event(bt, t, u, o))
                wc = sum(1 for o, f in valid if not doc_event(bt, t, u, f) and doc_event(bt, t, u, o))
                wd = sum(1 for o, f in valid if not doc_event(bt, t, u, f) and not doc_event(bt, t, u, o))
                nfals += 1
                if [int(a), int(b), int(c), int(d)] != [wa, wb, wc, wd]:
                    out.violation("contingency-table-events:%s" % bt, "abcd=%r expected %r for -b %s %r" % ([a, b, c, d], [wa, wb, wc, wd], bt, (t, u)),
                                  {"bin_type": bt, "t": t, "u": u, "obs": [repr(x) for x in grid]})
    # ---- the events as the outputs use them: -hist counts per bin for every bin type, values ON the thresholds included ----
    import os
    import shutil
    import sys
    import tempfile
    import p_c17
    tdir = tempfile.mkdtemp(prefix="verif_c07_", dir=os.environ.get("VERIF_SCRATCH") or None)
    try:
        sys.path.insert(0, common.REPO)
        fn = os.path.join(tdir, "h.txt")
        vals_h = [0.0, 0.0, 1.0, 2.0, 2.0, 2.0, 3.0, 4.0, 4.0, 5.0, -1.0, 2.5]
        with open(fn, "w") as f:
            f.write("unixtime leadtime location obs fcst\n")
            for i_, v_ in enumerate(vals_h):
                f.write("%d 0 1 %r %r\n" % (1325376000 + 86400 * i_, v_, v_ + 1.0))
        runner = p_c17.Runner(tdir)
        try:
            for bt in BTS:
                for thr in ([0.0, 2.0, 4.0], [2.0, 1.0, 4.0] if "within" not in bt else [0.0, 2.0, 5.0], [-1.0, 0.0, 2.0, 4.0]):
                    argv = ["verif", fn, "-m", "obs", "-hist", "-b", bt, "-r", ",".join("%g" % t for t in thr), "-f", os.path.join(tdir, "h.png")]
                    st_, info_ = runner.run(argv)
                    nfals += 1
                    if st_ != "ok" or runner.cap.get("fig") is None:
                        out.violation("hist-run:%s" % bt, "verif -m obs -hist -b %s -r %s ends with %s %s" % (bt, thr, st_, info_), {"bin_type": bt, "thresholds": thr, "values": vals_h})
                        continue
                    lines_ = [l for l in runner.cap["fig"].axes[0].get_lines() if l.get_label() == "h.txt"]
                    pairs_ = list(zip(thr, thr[1:])) if "within" in bt else [(t, t) for t in thr]
                    cnt = [sum(1 for x in vals_h if doc_event(bt, t, u, x)) for t, u in pairs_]
                    want_ = [100.0 * c / sum(cnt) if sum(cnt) else NAN for c in cnt]
                    got_ = [float(y) for y in lines_[0].get_ydata()] if lines_ else None
                    if got_ is None or len(got_) != len(want_) or not all(close(a, b) for a, b in zip(got_, want_)):
                        out.violation("hist-events:%s" % bt, "verif -m obs -hist -b %s -r %s on the values %r draws %r %%, the documented events give the counts %r = %r %%"
                                      % (bt, thr, vals_h, got_, cnt, want_), {"bin_type": bt, "thresholds": thr, "values": vals_h})
        finally:
            runner.close()
            runner.mpl.close("all")
    finally:
        shutil.rmtree(tdir, ignore_errors=True)
    # the interval between two forecast quantiles (QuantileCoverage): each end is closed exactly when the bin type says so;
    # observations equal to the lower / upper quantile decide it
    import verif.metric
    from p_c08 import Stub
    for bt in ("within", "=within", "within=", "=within=", "below", "below=", "above", "above="):
        for rep_ in range(2 if tier == "quick" else 10):
            n_ = 12
            lo_ = [rng.choice([0.0, 1.0, 2.0]) for _ in range(n_)]
            hi_ = [l_ + rng.choice([1.0, 2.0, 3.5]) for l_ in lo_]
            ob_ = [rng.choice([l_, h_, (l_ + h_) / 2.0, l_ - 1.0, h_ + 1.0]) for l_, h_ in zip(lo_, hi_)]
            civ = verif.util.get_intervals(bt, np.array([0.25, 0.75]))[0]
            qd = {}
            if not math.isinf(civ.lower):
                qd[round(float(civ.lower), 6)] = lo_ if "within" in bt else (lo_ if bt.startswith("above") else hi_)
            if not math.isinf(civ.upper):
                qd[round(float(civ.upper), 6)] = hi_ if "within" in bt else (hi_ if bt.startswith("below") else lo_)
            st_ = Stub(ob_, quant=qd)
            nfals += 1
            try:
                got_ = float(verif.metric.QuantileCoverage().compute_single(st_, 0, None, None, civ))
            except Exception as e:
                out.violation("quantile-interval-exception:%s" % bt, "QuantileCoverage with -b %s raised %s: %s" % (bt, type(e).__name__, e), {"bin_type": bt, "obs": ob_, "lower": lo_, "upper": hi_})
                continue
            if "within" in bt:
                inside = [((o_ > l_) or (bt.startswith("=") and o_ == l_)) and ((o_ < h_) or (bt.endswith("=") and o_ == h_)) for o_, l_, h_ in zip(ob_, lo_, hi_)]
            elif bt.startswith("below"):
                q1_ = qd[round(float(civ.upper), 6)]
                inside = [(o_ < q_) or (bt.endswith("=") and o_ == q_) for o_, q_ in zip(ob_, q1_)]
            else:
                q0_ = qd[round(float(civ.lower), 6)]
                inside = [(o_ > q_) or (bt.endswith("=") and o_ == q_) for o_, q_ in zip(ob_, q0_)]
            want_ = sum(inside) / float(n_)
            if abs(got_ - want_) > 1e-12:
                out.violation("quantile-interval-events:%s" % bt, "QuantileCoverage -b %s: obs %r, lower quantile %r, upper quantile %r gives %r; the share of observations inside the documented interval is %r"
                              % (bt, ob_, lo_, hi_, got_, want_), {"bin_type": bt, "obs": ob_, "lower": lo_, "upper": hi_})
    # event probabilities taken from ensemble members: the probability stored for a threshold t is that of the event 'below=' (x <= t),
    # so a member EQUAL to t counts, and 'above' gets the complement; missing members belong to no event
    import tempfile
    import verif.data
    import verif.field
    import verif.input
    tde = tempfile.mkdtemp(prefix="vfc07e_")
    try:
        for rep_ in range(4 if tier == "quick" else 40):
            nm_ = rng.choice([2, 3, 5])
            t_ = rng.choice([0.0, 1.0, 2.5, 4.0])
            rows_ = []
            for k_ in range(8):
                mem_ = [rng.choice([t_, t_, t_ - 1.0, t_ + 0.5, t_ + 2.0, None]) for _ in range(nm_)]
                rows_.append((k_, rng.choice([t_, t_ - 1.0, t_ + 1.0]), mem_))
            fe_ = os.path.join(tde, "e%d.txt" % rep_)
            with open(fe_, "w") as f_:
                f_.write("unixtime leadtime location obs fcst " + " ".join("e%d" % m_ for m_ in range(nm_)) + "\n")
                for k_, o_, mem_ in rows_:
                    f_.write("%d 0 1 %r 0 %s\n" % (86400 * k_, o_, " ".join("-999" if v_ is None else repr(v_) for v_ in mem_)))
            nfals += 1
            try:
                d_ = verif.data.Data([verif.input.Text(fe_)])
                got_ = [float(x) for x in np.asarray(d_.get_scores(verif.field.Threshold(t_), 0)).flatten()]
            except BaseException as e:
                out.violation("ensemble-event-probability", "probability of threshold %r from ensemble members raised %s: %s" % (t_, type(e).__name__, e), {"file": open(fe_).read(), "threshold": t_})
                continue
            want_ = []
            for k_, o_, mem_ in rows_:
                pres_ = [v_ for v_ in mem_ if v_ is not None]
                want_.append(sum(1 for v_ in pres_ if v_ <= t_) / float(len(pres_)) if pres_ else float("nan"))      # no member present: no probability
            got_ = [g_ for g_ in got_ if not math.isnan(g_)]
            want_ = [w_ for w_ in want_ if not math.isnan(w_)]
            if len(got_) != len(want_) or any(abs(g_ - w_) > 1e-6 for g_, w_ in zip(got_, want_)):
                out.violation("ensemble-event-probability", "threshold %r, members per case %r: the probabilities are %r; the share of present members with x <= t is %r (a member equal to t belongs to 'below=')"
                              % (t_, [m_ for _, _, m_ in rows_], got_, want_), {"file": open(fe_).read(), "threshold": t_})
    finally:
        shutil.rmtree(tde, ignore_errors=True)
    stats.update({
        "evaluations": len(exprs) + nfals,
        "distinct_nontrivial": len(distinct),
        "rule": "threshold lists (fixed corner cases + seeded random) x 8 bin types x the complete order-relation grid "
                "(-inf, below, =t, between, =u, above, +inf, NaN); distinct = (bin type, thresholds, value) triples; "
                "every one is non-trivial (a value placed in a specific order relation)",
        "samples": samples or [descr[0]],
        "programs": len(exprs),
        "disagreements_checked": len(exprs),
        "tie_disagreements": len(disagreements),
        "falsifier_evaluations": nfals,
        "generator": {"threshold_lists": len(tlists), "grid_points_per_list": "5 + #thresholds + #gaps"},
    })
    return stats
